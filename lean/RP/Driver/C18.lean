import RP.Driver.Common
import RP.Model.Pgcopy
/-! line-protocol driver for C18:
`cuts <blueprint|metric|lookup|transitions> <aux> <n> <row values…> <m> <k_1 … k_m>` →
for every `k_i` what the model loader makes of the first `k_i` bytes of the saved file:
`fail`, `ok` (= the content of the complete file) or `short:<rows>` (loaded, but different).
`comp <enc|bp> <target> <np> <blueprint rows…> (<n> <lookup rows…>)×4 <m> <k…>` → the composite loaders
(`Encoder::load` = the four street lookups merged; `Blueprint::load` = `Profile::load` + `Encoder::load`) with the
blueprint file (target 0) or street `target-1`'s lookup file cut at `k`: `fail` / `ok` / `short`.
`aux` is `n_children(street)` for transitions (0 = river: `Decomp::load` panics on `n_children`). -/
open RP.Driver RP.Pgcopy

namespace RP.Driver.C18

def parseNats (ws : List String) : Option (List Nat) := ws.mapM String.toNat?

def chunk (k : Nat) : Nat → List Nat → Option (List (List Nat) × List Nat)
  | 0, rest => some ([], rest)
  | n+1, xs =>
    let r := xs.take k
    if r.length < k then none else (chunk k n (xs.drop k)).map (fun (rs, rest) => (r :: rs, rest))

def prow : List Nat → Option PRow
  | [a, b, c, d, e, f] => some ⟨a, b, c, d, e, f⟩
  | _ => none
def mrow : List Nat → Option MRow
  | [a, b] => some ⟨a, b⟩
  | _ => none
def lrow : List Nat → Option LRow
  | [a, b] => some ⟨a, b⟩
  | _ => none
def trow : List Nat → Option TRow
  | [a, b, c] => some ⟨a, b, c⟩
  | _ => none

/-- `(weight * mass) as usize`: f32 product, saturating conversion (NaN ↦ 0) -/
def convF32 (mass : Nat) (bits : Nat) : Nat :=
  ((Float32.ofBits bits.toUInt32) * (Float32.ofNat mass)).toUInt64.toNat

def verdict {α : Type} [BEq α] (size : α → Nat) (complete : Option α) (got : Option α) : String :=
  match got with
  | none => "fail"
  | some t => if some t == complete then "ok" else s!"short:{size t}"

def runCuts {α : Type} [BEq α] (size : α → Nat) (load : Bytes → Option α) (file : Bytes) (ks : List Nat) : String :=
  let complete := load file
  joinSp (ks.map (fun k => verdict size complete (load (file.take k))))

/-- split `<m> <k…>` -/
def cutsOf (rest : List Nat) : Option (List Nat) :=
  match rest with
  | m :: ks => if ks.length = m then some ks else none
  | [] => none

/-- `<n> <2n values>` repeated four times -/
def fourLookups : Nat → List Nat → Option (List (List LRow) × List Nat)
  | 0, rest => some ([], rest)
  | j+1, n :: vals =>
    match chunk 2 n vals with
    | some (rs, rest) =>
      match rs.mapM lrow, fourLookups j rest with
      | some rows, some (more, rest') => some (rows :: more, rest')
      | _, _ => none
    | none => none
  | _, [] => none

def verdict3 {α : Type} [BEq α] (complete : Option α) (got : Option α) : String :=
  match got with
  | none => "fail"
  | some t => if some t == complete then "ok" else "short"

/-- composite loaders: `target` 0 = the blueprint file, 1..4 = the lookup file of street 0..3 -/
def runComp (withProfile : Bool) (target : Nat) (prows : List PRow) (lookups : List (List LRow)) (ks : List Nat) : String :=
  let pfile := saveBlueprint prows
  let lfiles := lookups.map saveLookup
  let cutFiles (k : Nat) : Bytes × List Bytes :=
    if target = 0 then (pfile.take k, lfiles)
    else (pfile, (lfiles.zipIdx).map (fun fi => if fi.2 + 1 = target then fi.1.take k else fi.1))
  if withProfile then
    let complete := loadBlueprintAll pfile lfiles
    joinSp (ks.map (fun k => let c := cutFiles k; verdict3 complete (loadBlueprintAll c.1 c.2)))
  else
    let complete := loadEncoder lfiles
    joinSp (ks.map (fun k => verdict3 complete (loadEncoder (cutFiles k).2)))

def handle (line : String) : String :=
  match words line with
  | "comp" :: kind :: target :: np :: rest =>
    match target.toNat?, np.toNat?, parseNats rest with
    | some target, some np, some vals =>
      match chunk 6 np vals with
      | some (prs, rest) =>
        match prs.mapM prow, fourLookups 4 rest with
        | some prows, some (lookups, rest') =>
          match cutsOf rest' with
          | some ks =>
            if target > 4 then "bad-op"
            else if kind = "enc" then (if target = 0 then "bad-op" else runComp false target prows lookups ks)
            else if kind = "bp" then runComp true target prows lookups ks
            else "bad-op"
          | none => "bad-op"
        | _, _ => "bad-op"
      | none => "bad-op"
    | _, _, _ => "bad-op"
  | "cuts" :: table :: aux :: n :: rest =>
    match aux.toNat?, n.toNat?, parseNats rest with
    | some aux, some n, some vals =>
      match table with
      | "blueprint" =>
        match chunk 6 n vals with
        | some (rs, rest) =>
          match rs.mapM prow, cutsOf rest with
          | some rows, some ks =>
            runCuts (fun (m : PMap) => m.rows.length) loadBlueprint (saveBlueprint rows) ks
          | _, _ => "bad-op"
        | none => "bad-op"
      | "metric" =>
        match chunk 2 n vals with
        | some (rs, rest) =>
          match rs.mapM mrow, cutsOf rest with
          | some rows, some ks => runCuts (fun (m : KV) => m.length) loadMetric (saveMetric rows) ks
          | _, _ => "bad-op"
        | none => "bad-op"
      | "lookup" =>
        match chunk 2 n vals with
        | some (rs, rest) =>
          match rs.mapM lrow, cutsOf rest with
          | some rows, some ks => runCuts (fun (m : KV) => m.length) loadLookup (saveLookup rows) ks
          | _, _ => "bad-op"
        | none => "bad-op"
      | "transitions" =>
        match chunk 3 n vals with
        | some (rs, rest) =>
          match rs.mapM trow, cutsOf rest with
          | some rows, some ks =>
            if aux = 0 then joinSp (ks.map (fun _ => "fail"))
            else
              runCuts (fun (m : TMap) => (m.map (fun e => e.2.2.length)).foldl (· + ·) 0)
                (loadTransitions (convF32 aux)) (saveTransitions rows) ks
          | _, _ => "bad-op"
        | none => "bad-op"
      | _ => "bad-op"
    | _, _, _ => "bad-op"
  | _ => "bad-op"

end RP.Driver.C18

def main : IO Unit := RP.Driver.run RP.Driver.C18.handle
