import RP.Driver.Common
import RP.Model.Parse
/-! line-protocol driver for C16: `parse-<type> <hex utf8>` → `ok <value>` / `err` / `panic`,
`print-<type> <value>` → hex of the printed string, `upper|lower|ws <code point>` → the
driver's Unicode instantiation (`RP.Parse.rustU`) as far as the parsers can see it. -/
open RP.Driver RP.Codec RP.Parse

namespace RP.DriverC16

def hexVal (c : Char) : Option Nat :=
  if '0' ≤ c ∧ c ≤ '9' then some (c.toNat - 48)
  else if 'a' ≤ c ∧ c ≤ 'f' then some (c.toNat - 87)
  else none

def hexBytes : List Char → Option (List UInt8)
  | [] => some []
  | [_] => none
  | a :: b :: rest =>
    match hexVal a, hexVal b, hexBytes rest with
    | some x, some y, some r => some (UInt8.ofNat (16 * x + y) :: r)
    | _, _, _ => none

/-- `-` stands for the empty string -/
def decodeArg (s : String) : Option (List Char) :=
  if s = "-" then some [] else
  match hexBytes s.toList with
  | some bs => (String.fromUTF8? (ByteArray.mk bs.toArray)).map String.toList
  | none => none

def hexDigit (n : Nat) : Char := if n < 10 then Char.ofNat (48 + n) else Char.ofNat (87 + n)
def encode (cs : List Char) : String :=
  if cs.isEmpty then "-" else
  String.ofList ((String.ofList cs).toUTF8.toList.flatMap (fun b => [hexDigit (b.toNat / 16), hexDigit (b.toNat % 16)]))

def nat? (s : String) : Option Nat := s.toNat?
def int? (s : String) : Option Int :=
  if s.startsWith "-" then (s.drop 1).toNat?.map (fun n => - (Int.ofNat n)) else s.toNat?.map Int.ofNat

def showOutcome {α : Type} (f : α → String) : Outcome α → String
  | .ok v => s!"ok {f v}"
  | .err => "err"
  | .panic => "panic"

def showAction : Action → String
  | .fold => "fold" | .check => "check"
  | .call x => s!"call:{x}" | .raise x => s!"raise:{x}" | .shove x => s!"shove:{x}" | .blind x => s!"blind:{x}"
  | .draw h => s!"draw:{h}"
def readAction (s : String) : Option Action :=
  match s.splitOn ":" with
  | ["fold"] => some .fold
  | ["check"] => some .check
  | ["call", x] => (int? x).map .call
  | ["raise", x] => (int? x).map .raise
  | ["shove", x] => (int? x).map .shove
  | ["blind", x] => (int? x).map .blind
  | ["draw", h] => (nat? h).map .draw
  | _ => none
def showTurn : Turn → String
  | .terminal => "terminal" | .chance => "chance" | .choice n => s!"choice:{n}"
def readTurn (s : String) : Option Turn :=
  match s.splitOn ":" with
  | ["terminal"] => some .terminal
  | ["chance"] => some .chance
  | ["choice", n] => (nat? n).map .choice
  | _ => none

/-- code points of a mapped string, every maximal run of non-ASCII characters shown as one 128 -/
def projectAux : List Char → Bool → List String
  | [], _ => []
  | c :: cs, prevNonAscii =>
    if c.toNat < 128 then toString c.toNat :: projectAux cs false
    else if prevNonAscii then projectAux cs true else "128" :: projectAux cs true
def project (cs : List Char) : String := " ".intercalate (projectAux cs false)

def U := rustU

def handle (line : String) : String :=
  match words line with
  | ["parse-card", h] => match decodeArg h with | some s => showOutcome toString (parseCard U s) | none => "bad-op"
  | ["parse-hand", h] => match decodeArg h with | some s => showOutcome toString (parseHand U s) | none => "bad-op"
  | ["parse-hole", h] => match decodeArg h with | some s => showOutcome toString (parseHole U s) | none => "bad-op"
  | ["parse-obs", h] => match decodeArg h with
    | some s => showOutcome (fun o => s!"{o.pocket} {o.board}") (parseObs U s)
    | none => "bad-op"
  | ["parse-street", h] => match decodeArg h with | some s => showOutcome toString (parseStreet U s) | none => "bad-op"
  | ["parse-abs", h] => match decodeArg h with
    | some s => showOutcome (fun a => s!"{a.variant}:{a.bits}") (parseAbs U s)
    | none => "bad-op"
  | ["parse-action", h] => match decodeArg h with | some s => showOutcome showAction (parseAction U s) | none => "bad-op"
  | ["parse-turn", h] => match decodeArg h with | some s => showOutcome showTurn (parseTurn s) | none => "bad-op"
  | ["print-card", c] => match nat? c with | some c => encode (printCard c) | none => "bad-op"
  | ["print-hand", c] => match nat? c with | some c => encode (printHand c) | none => "bad-op"
  | ["print-obs", p, b] => match nat? p, nat? b with
    | some p, some b => encode (printObs ⟨p, b⟩)
    | _, _ => "bad-op"
  | ["print-street", c] => match nat? c with | some c => if c < 4 then encode (printStreet c) else "bad-op" | none => "bad-op"
  | ["print-abs", n] => match nat? n with
    | some n => (match absOfU64 n with
      | some a => (match printAbs U a with | some s => encode s | none => "panic")
      | none => "panic")
    | none => "bad-op"
  | ["print-action", a] => match readAction a with | some a => encode (printAction a) | none => "bad-op"
  | ["print-turn", t] => match readTurn t with | some t => encode (printTurn t) | none => "bad-op"
  | ["upper", c] => match nat? c with
    | some c => if c.isValidChar then project (U.upper [Char.ofNat c]) else "bad-op"
    | none => "bad-op"
  | ["lower", c] => match nat? c with
    | some c => if c.isValidChar then project (U.lower [Char.ofNat c]) else "bad-op"
    | none => "bad-op"
  | ["ws", c] => match nat? c with
    | some c => if c.isValidChar then (if U.isWs (Char.ofNat c) then "1" else "0") else "bad-op"
    | none => "bad-op"
  | _ => "bad-op"

end RP.DriverC16

def main : IO Unit := RP.Driver.run RP.DriverC16.handle
