import RP.Driver.Common
import RP.Model.Eval
/-! line-protocol driver for C01
    `eval <std|short> <bits>`      → `<variant index> <r1> <r2> <kicker mask>`  (or `panic`)
    `cmp <std|short> <a> <b>`      → `Less|Equal|Greater`                        (`Strength::cmp`) -/
open RP.Driver RP.Eval

def cfgOf : String → Option Cfg
  | "std" => some .std
  | "short" => some .short
  | _ => none

def ordStr : Ordering → String
  | .lt => "Less"
  | .eq => "Equal"
  | .gt => "Greater"

def handle (line : String) : String :=
  match words line with
  | ["eval", c, b] =>
    match cfgOf c, b.toNat? with
    | some cfg, some bits =>
      match strength? cfg bits with
      | some s => s!"{s.idx} {s.r1} {s.r2} {s.kicks}"
      | none => "panic"
    | _, _ => "bad-op"
  | ["cmp", c, a, b] =>
    match cfgOf c, a.toNat?, b.toNat? with
    | some cfg, some x, some y =>
      match strength? cfg x, strength? cfg y with
      | some _, some _ => ordStr (compareHands cfg x y)
      | _, _ => "panic"
    | _, _, _ => "bad-op"
  | _ => "bad-op"

def main : IO Unit := RP.Driver.run handle
