import RP.Driver.Common
import RP.Model.Iso
/-! line-protocol driver for C05. The first token of every op names the deck build.
* `<std|short> canon <pocket> <public>` → `<pocket'> <public'> <perm as 4 digits> <isCanonical o> <isCanonical o'>`
  (or `panic` when the model hits one of the Rust assertions)
* `<std|short> permute <π as 4 digits> <pocket> <public>` → `<pocket'> <public'>` (or `panic`) -/
open RP.Driver RP.Iso

def maskOf? (d : String) : Option Nat :=
  if d = "std" then some RP.Gen.handMaskStd
  else if d = "short" then some RP.Gen.handMaskShort
  else none

def permOf? (s : String) : Option (List Nat) :=
  let ds := s.toList.map (fun c => c.toNat - '0'.toNat)
  if s.length = 4 ∧ s.toList.all (fun c => '0' ≤ c ∧ c ≤ '3') then some ds else none

def digits (p : List Nat) : String := String.join (p.map toString)

def b01 (b : Bool) : String := if b then "1" else "0"

def handle (line : String) : String :=
  match words line with
  | [d, "canon", a, b] =>
    match maskOf? d, a.toNat?, b.toNat? with
    | some m, some pocket, some pub =>
      let o : Obs := ⟨pocket, pub⟩
      -- `canon? m o` and `isCanonical m o` unfolded by one step so that `permOf m o` is evaluated once
      let p := permOf m o
      match permute? m p o with
      | some c => s!"{c.pocket} {c.board} {digits p} {b01 (p == suits)} {b01 (isCanonical m c)}"
      | none => "panic"
    | _, _, _ => "bad-op"
  | [d, "permute", p, a, b] =>
    match maskOf? d, permOf? p, a.toNat?, b.toNat? with
    | some m, some π, some pocket, some pub =>
      match permute? m π ⟨pocket, pub⟩ with
      | some c => s!"{c.pocket} {c.board}"
      | none => "panic"
    | _, _, _, _ => "bad-op"
  | _ => "bad-op"

def main : IO Unit := RP.Driver.run handle
