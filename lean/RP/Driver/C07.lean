import RP.Driver.Common
import RP.Model.Equity
import RP.Model.Eval
import RP.Model.Hands
/-! line-protocol driver for C07:
 `equity <std|short> <pocket> <public>` → `<f32 bits of the equity> <river bucket index>`
 `hist <std|short> <pocket> <public>`   → the 46-child (30 in short deck) bucket histogram `i:c,i:c,…` -/
open RP.Driver

def cfgOf (deck : String) : Option (RP.Eval.Cfg × Bool) :=
  if deck == "std" then some (RP.Eval.Cfg.std, false)
  else if deck == "short" then some (RP.Eval.Cfg.short, true) else none

def nBuckets : Nat := RP.Gen.KMEANS_EQTY_CLUSTER_COUNT - 1

/-- (wins, total) of a river observation: villain holdings from the hand-iterator model,
    strengths from the evaluator model -/
def riverCounts (cfg : RP.Eval.Cfg) (short : Bool) (pocket board : Nat) : Nat × Nat :=
  let seen := pocket ||| board
  let hero := RP.Eval.strengthKey cfg seen
  let villains := (RP.Hands.hands short 2 seen).map (fun v => RP.Eval.strengthKey cfg (board ||| v))
  RP.Equity.counts hero villains

def riverBucket (cfg : RP.Eval.Cfg) (short : Bool) (pocket board : Nat) : Nat :=
  RP.Equity.quantize nBuckets (RP.Equity.equityF32 (riverCounts cfg short pocket board))

def handle (line : String) : String :=
  match words line with
  | ["equity", deck, p, b] =>
    match cfgOf deck with
    | some (cfg, short) =>
      let c := riverCounts cfg short (natOf p) (natOf b)
      let e := RP.Equity.equityF32 c
      s!"{e.toBits.toNat} {RP.Equity.quantize nBuckets e}"
    | none => "bad-op"
  | ["hist", deck, p, b] =>
    match cfgOf deck with
    | some (cfg, short) =>
      match RP.Hands.children short (natOf p) (natOf b) with
      | some kids =>
        let bs := kids.map (fun o => riverBucket cfg short o.1 o.2)
        ",".intercalate ((RP.Equity.histogram nBuckets bs).map (fun p => s!"{p.1}:{p.2}"))
      | none => "panic"
    | none => "bad-op"
  | _ => "bad-op"

def main : IO Unit := RP.Driver.run handle
