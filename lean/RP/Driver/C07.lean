import RP.Driver.Common
import RP.Model.EquityInst
/-! line-protocol driver for C07:
 `equity <std|short> <pocket> <public>` → `<f32 bits of the equity> <river bucket index>`
 `hist <std|short> <pocket> <public>`   → the 46-child (30 in short deck) bucket histogram `i:c,i:c,…` -/
open RP.Driver RP.Equity

def cfgOf (deck : String) : Option (RP.Eval.Cfg × Bool) :=
  if deck == "std" then some (RP.Eval.Cfg.std, false)
  else if deck == "short" then some (RP.Eval.Cfg.short, true) else none

def handle (line : String) : String :=
  match words line with
  | ["equity", deck, p, b] =>
    match cfgOf deck with
    | some (cfg, short) =>
      let e := riverEquity cfg short (natOf p) (natOf b)
      -- `quantize nBuckets e` is `riverBucket cfg short p b` by definition (computed once here)
      s!"{e.toBits.toNat} {quantize nBuckets e}"
    | none => "bad-op"
  | ["hist", deck, p, b] =>
    match cfgOf deck with
    | some (cfg, short) =>
      match turnHistogram cfg short (natOf p) (natOf b) with
      | some hist => ",".intercalate (hist.map (fun p => s!"{p.1}:{p.2}"))
      | none => "panic"
    | none => "bad-op"
  | _ => "bad-op"

def main : IO Unit := RP.Driver.run handle
