import RP.Driver.GameOps
/-! line-protocol driver for C02 (ops `game`, `rewards`; see `RP/Driver/GameOps.lean`) -/
def main : IO Unit := RP.Driver.run RP.Driver.GameOps.handle
