/-! Text form of binary32 values for the C09 / C19 drivers: floats cross the line protocol as bit
    patterns (decimal `u32`) on the way in and as exact decimal numbers on the way out. -/
namespace RP.Driver

/-- exact decimal text of a binary32 value -/
def f32ToDec (x : Float32) : String :=
  if x.isNaN then "NaN" else
  let b := x.toBits.toNat
  let neg := decide (b ≥ 2 ^ 31)
  let e : Nat := (b / 2 ^ 23) % 256
  let m : Nat := b % 2 ^ 23
  let sign := if neg then "-" else ""
  if e = 255 then sign ++ "inf" else
  let mant := if e = 0 then m else m + 2 ^ 23
  let ex : Int := if e = 0 then -149 else (e : Int) - 150
  if ex ≥ 0 then sign ++ toString (mant * 2 ^ ex.toNat)
  else sign ++ toString (mant * 5 ^ (-ex).toNat) ++ "e-" ++ toString (-ex).toNat

/-- exact rational value of a finite binary32 bit pattern -/
def f32BitsToRat (b : Nat) : Option Rat :=
  let neg := decide (b ≥ 2 ^ 31)
  let e : Nat := (b / 2 ^ 23) % 256
  let m : Nat := b % 2 ^ 23
  if b ≥ 2 ^ 32 ∨ e = 255 then none else
  let mant : Int := if e = 0 then m else m + 2 ^ 23
  let mant := if neg then -mant else mant
  let ex : Int := if e = 0 then -149 else (e : Int) - 150
  some (if ex ≥ 0 then (mant : Rat) * ((2 ^ ex.toNat : Nat) : Rat) else mkRat mant (2 ^ (-ex).toNat))

def digits (n : Nat) : Nat := (toString n).length

/-- a rational to 17 significant decimal digits (truncated) -/
def ratToDec (q : Rat) : String :=
  if q.num = 0 then "0" else
  let sign := if q.num < 0 then "-" else ""
  let n := q.num.natAbs
  let d := q.den
  let k : Int := 18 + (digits d : Int) - (digits n : Int)
  let m := if k ≥ 0 then n * 10 ^ k.toNat / d else n / (d * 10 ^ (-k).toNat)
  sign ++ toString m ++ "e" ++ toString (-k)

def natsOf (ws : List String) : Option (List Nat) := ws.mapM String.toNat?

def f32OfBits (b : Nat) : Float32 := Float32.ofBits (UInt32.ofNat b)

end RP.Driver
