import RP.Driver.Common
import RP.Model.Cfr
import RP.Spec.Cfr
import RP.Gen.C08
import Std.Data.HashMap
/-! line-protocol driver for C08 (stateful: a `tree` line sets the tree the following `regret`
lines refer to).

    tree <n> <m> <n nodes: parent|-,edge,kind(w|o|c|t),bucket,payoff-f32-bits> <m sigmas: bucket,edge,f32-bits>
        → tree <n> <childless nodes> wf external-shape
    regret <roots csv> <edge:scale-f64-bits csv>
        → scale-ok textbook-eq <edge> ~<regret/scale> …

All arithmetic is exact (`Rat`), values are built from the dumped IEEE bit patterns; the
functions evaluated are the model definitions `RP.Cfr.regretVector` (theorems `RP.C08.*`) and
the specification `RP.Cfr.Spec.regret`. -/
open RP.Driver RP.Cfr

namespace RP.Driver.C08

def pow2 (e : Int) : Rat := if e ≥ 0 then ((2 ^ e.toNat : Nat) : Rat) else mkRat 1 (2 ^ (-e).toNat)

/-- exact value of an IEEE-754 binary32 bit pattern (none for inf/NaN) -/
def f32ToRat (b : Nat) : Option Rat :=
  if b ≥ 2^32 then none else
  let neg : Bool := b >>> 31 == 1
  let e : Nat := (b >>> 23) &&& 0xFF
  let m : Nat := b &&& 0x7FFFFF
  if e == 255 then none else
  let v : Rat := if e == 0 then (m : Rat) * pow2 (-149) else ((m + 2^23 : Nat) : Rat) * pow2 ((e : Int) - 150)
  some (if neg then -v else v)

/-- exact value of an IEEE-754 binary64 bit pattern (none for inf/NaN) -/
def f64ToRat (b : Nat) : Option Rat :=
  if b ≥ 2^64 then none else
  let neg : Bool := b >>> 63 == 1
  let e : Nat := (b >>> 52) &&& 0x7FF
  let m : Nat := b &&& (2^52 - 1)
  if e == 2047 then none else
  let v : Rat := if e == 0 then (m : Rat) * pow2 (-1074) else ((m + 2^52 : Nat) : Rat) * pow2 ((e : Int) - 1075)
  some (if neg then -v else v)

def ratAbs (x : Rat) : Rat := if x < 0 then -x else x

/-- `~<x·10^12 rounded down>e-12` -/
def showRat (x : Rat) : String :=
  let q : Int := (x.num * (10^12 : Int)) / (x.den : Int)
  s!"~{q}e-12"

def parsePlayer : String → Option Player
  | "w" => some .walker | "o" => some .opponent | "c" => some .chance | "t" => some .terminal
  | _ => none

def parseNode (s : String) : Option (Node Rat) :=
  match s.splitOn "," with
  | [p, e, k, b, u] => do
    let parent ← if p == "-" then some none else (p.toNat?).map some
    let incoming ← e.toNat?
    let player ← parsePlayer k
    let bucket ← b.toNat?
    let payoff ← (u.toNat?).bind f32ToRat
    some { parent, incoming, player, bucket, payoff }
  | _ => none

def parseSigma (s : String) : Option ((Nat × Nat) × Rat) :=
  match s.splitOn "," with
  | [b, e, w] => do
    let b ← b.toNat?; let e ← e.toNat?; let w ← (w.toNat?).bind f32ToRat
    some ((b, e), w)
  | _ => none

structure State where
  tree : Tree Rat
  sigma : Std.HashMap (Nat × Nat) Rat

def State.σ (st : State) (b e : Nat) : Rat := (st.sigma.get? (b, e)).getD 0

/-- every (bucket, edge) the estimator can ask `Profile::weight` for is in the dump -/
def sigmaComplete (t : Tree Rat) (sg : Std.HashMap (Nat × Nat) Rat) : Bool :=
  (List.range t.size).all fun i =>
    t.player i == .chance || (t.kids i).all fun c => sg.contains (t.bucket i, t.incoming c)

def handleTree (ws : List String) : Option State × String :=
  match ws with
  | n :: m :: rest =>
    match n.toNat?, m.toNat? with
    | some n, some m =>
      if rest.length != n + m then (none, "bad-op") else
      match (rest.take n).mapM parseNode, (rest.drop n).mapM parseSigma with
      | some nodes, some sigs =>
        let t := Tree.ofNodes nodes.toArray
        let sg : Std.HashMap (Nat × Nat) Rat := Std.HashMap.ofList sigs
        let leaves := ((List.range t.size).filter fun i => t.kids i == []).length
        if !t.wfb then (none, s!"tree {n} {leaves} not-wf")
        else if !sigmaComplete t sg then (none, s!"tree {n} {leaves} missing-sigma")
        else (some { tree := t, sigma := sg },
          s!"tree {n} {leaves} wf {if t.externalShapeB then "external-shape" else "not-external-shape"}")
      | _, _ => (none, "bad-op")
    | _, _ => (none, "bad-op")
  | _ => (none, "bad-op")

def insertSorted (x : Nat) : List Nat → List Nat
  | [] => [x]
  | y :: ys => if x ≤ y then x :: y :: ys else y :: insertSorted x ys
def sortNat (l : List Nat) : List Nat := l.foldr insertSorted []

def lo : Rat := mkRat RP.Gen.C08.REGRET_MIN_num RP.Gen.C08.REGRET_MIN_den
def hi : Rat := mkRat RP.Gen.C08.REGRET_MAX_num RP.Gen.C08.REGRET_MAX_den

structure Row where
  edge : Nat
  model : Rat
  textbook : Rat
  scale : Rat
  scaleOk : Bool

def handleRegret (st : State) (ws : List String) : String :=
  match ws with
  | [rs, es] =>
    let roots? := (rs.splitOn ",").mapM String.toNat?
    let edges? := (es.splitOn ",").mapM fun s =>
      match s.splitOn ":" with
      | [e, k] => do let e ← e.toNat?; let k ← (k.toNat?).bind f64ToRat; some (e, k)
      | _ => none
    match roots?, edges? with
    | some roots, some edges =>
      let t := st.tree
      match roots with
      | [] => "bad-op"
      | h0 :: _ =>
        if roots.any (fun r => t.player r != .walker) then "panic"   -- assert!(player == walker)
        else if !regretVectorDefined t roots then "panic"             -- expect("valid edge to follow")
        else if sortNat (outgoing t h0) != edges.map (·.1) then "bad-op edges"
        else
          let rv := regretVector t st.σ lo hi roots
          let tabs := t.mapPayoff ratAbs
          let floor := pow2 (-40)
          let rows : List Row := edges.map fun (e, k) =>
            let r := ((rv.find? (·.1 == e)).map (·.2)).getD 0
            let tb := min (max (Spec.regret t st.σ roots e) lo) hi
            -- Σ|terms| of the estimator
            let T := (roots.map fun h => Spec.actionValue tabs st.σ h e + Spec.nodeValue tabs st.σ h).sum
            let T := if T < floor then floor else T
            { edge := e, model := r, textbook := tb, scale := k, scaleOk := decide (ratAbs (k - T) * 1000000 ≤ T) }
          let scaleOk := rows.all (·.scaleOk)
          let tbEq := rows.all fun r => r.model == r.textbook
          let head := (if scaleOk then "scale-ok" else "scale-bad") ++ " " ++ (if tbEq then "textbook-eq" else "textbook-ne")
          joinSp (head :: rows.map fun r => s!"{r.edge} {showRat (r.model / r.scale)}")
    | _, _ => "bad-op"
  | _ => "bad-op"

partial def loop (h out : IO.FS.Stream) (st : Option State) : IO Unit := do
  let line ← h.getLine
  if line.isEmpty then
    out.flush
    return ()
  let l := if line.back == '\n' then (line.dropEnd 1).toString else line
  match words l with
  | "tree" :: ws =>
    let (st', ans) := handleTree ws
    out.putStrLn ans
    loop h out st'
  | "regret" :: ws =>
    match st with
    | some s => out.putStrLn (handleRegret s ws)
    | none => out.putStrLn "bad-op no-tree"
    loop h out st
  | _ =>
    out.putStrLn "bad-op"
    loop h out st

end RP.Driver.C08

def main : IO Unit := do
  let stdin ← IO.getStdin
  let stdout ← IO.getStdout
  RP.Driver.C08.loop stdin stdout none
