import RP.Driver.Common
import RP.Model.Hands
import RP.Model.HandsIso
/-! line-protocol driver for C06
* `hands <std|short> <k> <mask> list`   → `n=<count> [<h1> <h2> …]`
* `hands <std|short> <k> <mask> sum`    → `n=<count> ck=<order checksum>`
* `obs <std|short> <street 0..3>`       → `n=<count> ck=<order checksum>`
* `children <std|short> <pocket> <public>` → `n=<count> ck=<order checksum>` or `panic`
* `iso <std|short> <street 0..3> <n>`    → `n=<count> ck=<order checksum>` of the first `n` items of the
  isomorphism iterator (C05's `isCanonical` model plugged in; `n` above the class count = all)
* `isopocket <std|short> <street 1..3> <pocket> <n>` → `n=<count> ck=<checksum>` of the first `n`
  canonical boards of that pocket (one pocket's segment of the class list, `C06_classes_by_pocket`)
* `obsnth <std|short> <street> <j> <k>` → the observation `nth(k)` returns after `j` items were
  consumed, `<pocket> <board>` or `none` (model: item `j + k` of the list, `C06_observation_at`)
* `niso <std|short> <street 0..3>`      → the generated `n_isomorphisms` entry (proved equal to the
  Burnside value in `RP.C06.C06_burnside_arith`)
* `nobs <std|short> <street>` / `nchildren <std|short> <street>` → generated table entries -/
open RP.Driver RP.Hands

def deckOf (s : String) : Option Bool :=
  if s == "std" then some false else if s == "short" then some true else none

def num? (s : String) : Option Nat := if s.isEmpty then none else s.toNat?

def fmtSum (p : Nat × Nat) : String := s!"n={p.1} ck={p.2}"

def table (short : Bool) (std sh : List Nat) (street : Nat) : String :=
  match (if short then sh else std)[street]? with
  | some v => s!"{v}"
  | none => "bad-op"

def handle (line : String) : String :=
  match words line with
  | ["hands", d, k, m, mode] =>
    match deckOf d, num? k, num? m with
    | some short, some k, some m =>
      if k ≥ 64 ∨ m ≥ 2^64 then "bad-op"
      else if mode == "list" then
        let l := hands short k m
        s!"n={l.length} [{joinSp (l.map toString)}]"
      else if mode == "sum" then fmtSum (handsSummary short k m)
      else "bad-op"
    | _, _, _ => "bad-op"
  | ["obs", d, st] =>
    match deckOf d, num? st with
    | some short, some st => if st > 3 then "bad-op" else fmtSum (observationsSummary short st)
    | _, _ => "bad-op"
  | ["children", d, p, b] =>
    match deckOf d, num? p, num? b with
    | some short, some p, some b =>
      if p ≥ 2^64 ∨ b ≥ 2^64 then "bad-op" else
      match children short p b with
      | none => "panic"
      | some l => fmtSum (l.foldl ckObs (0, 0))
    | _, _, _ => "bad-op"
  | ["iso", d, st, n] =>
    match deckOf d, num? st, num? n with
    | some short, some st, some n => if st > 3 then "bad-op" else fmtSum (classesSummary short st n)
    | _, _, _ => "bad-op"
  | ["isopocket", d, st, p, n] =>
    match deckOf d, num? st, num? p, num? n with
    | some short, some st, some p, some n =>
      if st > 3 ∨ p ≥ 2^64 then "bad-op" else fmtSum (pocketClassesSummary short st p n)
    | _, _, _, _ => "bad-op"
  | ["obsnth", d, st, j, k] =>
    match deckOf d, num? st, num? j, num? k with
    | some short, some st, some j, some k =>
      if st > 3 then "bad-op" else
      match observationAt short st (j + k) with
      | some o => s!"{o.1} {o.2}"
      | none => "none"
    | _, _, _, _ => "bad-op"
  | ["niso", d, st] =>
    match deckOf d, num? st with
    | some short, some st => table short RP.Gen.n_isomorphisms_Std RP.Gen.n_isomorphisms_Short st
    | _, _ => "bad-op"
  | ["nobs", d, st] =>
    match deckOf d, num? st with
    | some short, some st => table short RP.Gen.n_observations_Std RP.Gen.n_observations_Short st
    | _, _ => "bad-op"
  | ["nchildren", d, st] =>
    match deckOf d, num? st with
    | some short, some st => if st ≥ 3 then "panic" else table short RP.Gen.n_children_Std RP.Gen.n_children_Short st
    | _, _ => "bad-op"
  | _ => "bad-op"

def main : IO Unit := RP.Driver.run handle
