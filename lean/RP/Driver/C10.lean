import RP.Driver.Common
import RP.Model.TreeShape
/-! line-protocol driver for C10:

    tree <walker> <n> <node>*   →   accept | reject node=<i> <failed clauses> | reject abstraction
    node = parent|- ; edge u8 ; seat0 ; seat1 ; pot ; board ; dealer ; ticker ; hist ; abs ; menu ; pay0 ; pay1
    seat = state(b|s|f),stack,stake,spent,hole

runs `RP.TreeShape.acceptTree` (theorem `RP.C10.C10_accept_sound`) on the dumped real tree. -/
open RP.Driver RP.TreeShape

namespace RP.Driver.C10

def parseSeat (s : String) : Option RP.Game.Seat :=
  match s.splitOn "," with
  | [st, stack, stake, spent, hole] => do
    let state ← match st with
      | "b" => some RP.Showdown.Status.betting | "s" => some .shoving | "f" => some .folding | _ => none
    let hole ← hole.toNat?
    some { state, stack := intOf stack, stake := intOf stake, spent := intOf spent, hole }
  | _ => none

def parseNode (s : String) : Option DNode :=
  match s.splitOn ";" with
  | [p, e, s0, s1, pot, board, dealer, ticker, hist, abs, menu, pay0, pay1] => do
    let parent ← if p == "-" then some none else (p.toNat?).map some
    let ecode ← e.toNat?
    let edge ← if p == "-" then some RP.Codec.Edge.draw else RP.Codec.edgeOfU8 ecode
    let s0 ← parseSeat s0
    let s1 ← parseSeat s1
    let board ← board.toNat?
    let dealer ← dealer.toNat?
    let ticker ← ticker.toNat?
    let hist ← hist.toNat?
    let abs ← abs.toNat?
    let menu ← menu.toNat?
    some { parent, edge, game := { s0, s1, pot := intOf pot, board, dealer, ticker },
           hist, abs, menu, pay0 := intOf pay0, pay1 := intOf pay1 }
  | _ => none

def handle (line : String) : String :=
  match words line with
  | "tree" :: w :: n :: rest =>
    match w.toNat?, n.toNat?, rest.mapM parseNode with
    | some w, some n, some nodes =>
      if nodes.length != n then "bad-op" else
      let t : DTree := { walker := w, nodes := nodes.toArray }
      if acceptTree t then "accept"
      else
        match (List.range t.size).find? (fun i => !acceptNode t i) with
        | some i => s!"reject node={i} {joinSp (failures t i)}"
        | none => if absOk t then "reject header" else "reject abstraction"
    | _, _, _ => "bad-op"
  | _ => "bad-op"

end RP.Driver.C10

def main : IO Unit := RP.Driver.run RP.Driver.C10.handle
