import RP.Driver.Common
import RP.Driver.F32Text
import RP.Model.Discount
/-! line-protocol driver for C19 (binary32 instantiation, `powf` = C `powf`).

`seq <t0> <n> <len> <prior regret bits, prior policy bits>×n <regret bits, policy bits>×n×len`
      `len` epochs (`add_regret`, `add_policy`, `next`) at one information set with `n` actions, the
      counter starting at `t0`; answer: `<counter> <walker>` then per action `~regret ~policy ~weight ~policy` (the last one
      is the stored policy again, as read through `Profile::policy`)
`dpolicy <t>`          `Discount::policy(t)`
`dregret <t> <bits>`   the factor `add_regret` applies at counter `t` to an added regret
`phase <t>`            `Phase::from(t)` as 0/1/2
`walker <t>`, `next <t>` -/
open RP.Driver RP.Arith RP.Discount

def P32 : Params Float32 := params f32Ops
def pow32 : Float32 → Float32 → Float32 := Float32.pow

def seqOp (t0 n len : Nat) (xs : Array Nat) : String :=
  if n = 0 ∨ xs.size ≠ 2 * n + 2 * n * len ∨ xs.any (· ≥ 2 ^ 32) then "bad-op" else
  let at_ (i : Nat) : Float32 := f32OfBits (xs.getD i 0)
  let stored := (List.range n).map fun a =>
    let r := regretAcc f32Ops pow32 P32 t0 (at_ (2 * a)) (fun j => at_ (2 * n + 2 * n * j + 2 * a)) len
    let p := policyAcc f32Ops pow32 P32 t0 (at_ (2 * a + 1)) (fun j => at_ (2 * n + 2 * n * j + 2 * a + 1)) len
    (r, p)
  let pols := stored.map (·.2)
  let t := counterAfter t0 len
  joinSp ([toString t, toString (walker t)] ++
    stored.map fun (r, p) => s!"~{f32ToDec r} ~{f32ToDec p} ~{f32ToDec (weight f32Ops pols p)} ~{f32ToDec p}")

def phaseCode : Phase → Nat
  | .discount => 0
  | .explore => 1
  | .prune => 2

def handle (line : String) : String :=
  match words line with
  | "seq" :: t0 :: n :: len :: rest =>
    match t0.toNat?, n.toNat?, len.toNat?, natsOf rest with
    | some t0, some n, some len, some xs => seqOp t0 n len xs.toArray
    | _, _, _, _ => "bad-op"
  | ["dpolicy", t] =>
    match t.toNat? with
    | some t => "~" ++ f32ToDec (policyDiscount f32Ops pow32 P32 t)
    | none => "bad-op"
  | ["dregret", t, b] =>
    match t.toNat?, b.toNat? with
    | some t, some b => if b ≥ 2 ^ 32 then "bad-op" else "~" ++ f32ToDec (regretFactor f32Ops pow32 P32 t (f32OfBits b))
    | _, _ => "bad-op"
  | ["phase", t] =>
    match t.toNat? with
    | some t => toString (phaseCode (phaseOf t))
    | none => "bad-op"
  | ["walker", t] =>
    match t.toNat? with
    | some t => toString (walker t)
    | none => "bad-op"
  | ["next", t] =>
    match t.toNat? with
    | some t => toString (next t)
    | none => "bad-op"
  | _ => "bad-op"

def main : IO Unit := RP.Driver.run handle
