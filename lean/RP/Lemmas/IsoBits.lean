import RP.Model.Iso
import RP.Lemmas.IsoPerm
/-! # C05, bit level: `Hand::of`, `Permutation::shift`, `Permutation::image` as card-by-card statements

Card `i = 4·rank + suit`. The lemmas here turn the `&` / `<<` / `>>` arithmetic of the model into
`testBit` statements, introduce the *normalised content* of a suit (`norm`: the cards of the suit
moved down to suit 0), and show
* `ofSuit m h s = norm m h s <<< s`, `shift m p s h = norm m h s <<< p[s]` (shift by the suit difference = relabel),
* `norm m (image m p h) p[s] = norm m h s` for a bijective `p`,
* a hand inside the deck mask is determined by its four normalised contents,
* `size`, `minRank`, `maxRank` do not change under `· <<< s` (`s < 4`) on normalised contents,
* a normalised content with at most two cards is determined by `(size, minRank, maxRank)`,
* `size` is additive over the four suits. -/
namespace RP.Iso
open RP.Bits

/-! ## deck masks -/

/-- what the proofs need from `Hand::mask()`: 52 bits, and closed under changing the suit of a card -/
def MaskOK (m : Nat) : Prop := m < 2 ^ 52 ∧ ∀ j, j < 52 → m.testBit j = m.testBit (j / 4 * 4)

instance (m : Nat) : Decidable (MaskOK m) := by unfold MaskOK; infer_instance

theorem maskOK_std : MaskOK RP.Gen.handMaskStd := by decide
theorem maskOK_short : MaskOK RP.Gen.handMaskShort := by decide

theorem MaskOK.lt_of_testBit {m i : Nat} (hm : MaskOK m) (h : m.testBit i = true) : i < 52 := by
  by_cases hi : i < 52
  · exact hi
  · have : m < 2 ^ i := Nat.lt_of_lt_of_le hm.1 (Nat.pow_le_pow_right (by omega) (by omega))
    rw [Nat.testBit_lt_two_pow this] at h
    cases h

theorem MaskOK.sym {m j k : Nat} (hm : MaskOK m) (hjk : j / 4 = k / 4) : m.testBit j = m.testBit k := by
  by_cases hj : j < 52
  · have hk : k < 52 := by omega
    rw [hm.2 j hj, hm.2 k hk, hjk]
  · have hk : ¬ k < 52 := by omega
    have a : m.testBit j = false := by
      cases h : m.testBit j with
      | false => rfl
      | true => exact absurd (hm.lt_of_testBit h) hj
    have b : m.testBit k = false := by
      cases h : m.testBit k with
      | false => rfl
      | true => exact absurd (hm.lt_of_testBit h) hk
    rw [a, b]

/-! ## suit masks -/

theorem suits_eq : suits = [0, 1, 2, 3] := rfl

theorem suitMask_testBit {s : Nat} (hs : s < 4) (i : Nat) :
    (suitMask s).testBit i = (decide (i < 52) && decide (i % 4 = s)) := by
  by_cases hi : i < 52
  · have h : ∀ s, s < 4 → ∀ i, i < 52 → (suitMask s).testBit i = decide (i % 4 = s) := by decide
    simp [h s hs i hi, hi]
  · have h : ∀ s, s < 4 → suitMask s < 2 ^ 52 := by decide
    have : suitMask s < 2 ^ i := Nat.lt_of_lt_of_le (h s hs) (Nat.pow_le_pow_right (by omega) (by omega))
    simp [Nat.testBit_lt_two_pow this, hi]

theorem suitMask_big {s : Nat} (hs : 4 ≤ s) : suitMask s = 0 := by
  unfold suitMask RP.Gen.suitMasks
  rw [List.getD_eq_getElem?_getD, List.getElem?_eq_none (by simpa using hs)]
  rfl

/-! ## card-by-card form of `of`, `shift`, `image` -/

theorem ofSuit_testBit {s : Nat} (hs : s < 4) (m h i : Nat) :
    (ofSuit m h s).testBit i = (h.testBit i && decide (i % 4 = s) && m.testBit i && decide (i < 52)) := by
  simp only [ofSuit, handFrom, Nat.testBit_and, suitMask_testBit hs]
  cases h.testBit i <;> cases m.testBit i <;> simp [Bool.and_comm]

/-- the cards of suit `s` moved down to suit 0 -/
def norm (m h s : Nat) : Nat := ofSuit m h s >>> s

/-- all cards are in suit 0 and below 52 -/
def Normalized (k : Nat) : Prop := ∀ i, k.testBit i = true → i % 4 = 0 ∧ i < 52

theorem norm_testBit {s : Nat} (hs : s < 4) (m h j : Nat) :
    (norm m h s).testBit j = (h.testBit (s + j) && decide (j % 4 = 0) && m.testBit (s + j) && decide (s + j < 52)) := by
  simp only [norm, Nat.testBit_shiftRight, ofSuit_testBit hs]
  have : ((s + j) % 4 = s) ↔ (j % 4 = 0) := by omega
  simp [this]

theorem norm_big {s : Nat} (hs : 4 ≤ s) (m h : Nat) : norm m h s = 0 := by
  simp [norm, ofSuit, handFrom, suitMask_big hs]

theorem norm_normalized (m h s : Nat) : Normalized (norm m h s) := by
  by_cases hs : s < 4
  · intro i hi
    rw [norm_testBit hs] at hi
    simp only [Bool.and_eq_true, decide_eq_true_eq] at hi
    omega
  · intro i hi
    rw [norm_big (by omega)] at hi
    simp at hi

theorem Normalized.lt {k : Nat} (hk : Normalized k) : k < 2 ^ 52 := by
  apply Nat.lt_pow_two_of_testBit
  intro i hi
  cases h : k.testBit i with
  | false => rfl
  | true => have := (hk i h).2; omega

theorem ofSuit_eq_norm {s : Nat} (hs : s < 4) (m h : Nat) : ofSuit m h s = norm m h s <<< s := by
  apply Nat.eq_of_testBit_eq
  intro i
  rw [Nat.testBit_shiftLeft, norm, Nat.testBit_shiftRight]
  by_cases hi : i ≥ s
  · have : s + (i - s) = i := by omega
    simp [hi, this]
  · rw [ofSuit_testBit hs]
    have : ¬ (i % 4 = s) := by omega
    simp [hi, this]

theorem shift_testBit {m : Nat} (hm : MaskOK m) {p : List Nat} {s : Nat} (hs : s < 4)
    (ht : pmap p s < 4) (h i : Nat) :
    (shift m p s h).testBit i =
      (decide (i % 4 = pmap p s) && m.testBit i && h.testBit (i / 4 * 4 + s)) := by
  generalize htt : pmap p s = t at ht
  rw [Bool.eq_iff_iff]
  simp only [shift, htt, handFrom]
  by_cases hst : s ≤ t
  · simp only [hst, if_true, Nat.testBit_and, Nat.testBit_shiftLeft, suitMask_testBit hs,
      Bool.and_eq_true, decide_eq_true_eq]
    constructor
    · rintro ⟨⟨h1, ⟨h2, h3⟩, h4⟩, h5⟩
      have e : i - (t - s) = i / 4 * 4 + s := by omega
      rw [e] at h4
      exact ⟨⟨by omega, h5⟩, h4⟩
    · rintro ⟨⟨h1, h2⟩, h3⟩
      have := hm.lt_of_testBit h2
      have e : i - (t - s) = i / 4 * 4 + s := by omega
      rw [e]
      exact ⟨⟨by omega, ⟨by omega, by omega⟩, h3⟩, h2⟩
  · simp only [hst, if_false, Nat.testBit_and, Nat.testBit_shiftRight, suitMask_testBit hs,
      Bool.and_eq_true, decide_eq_true_eq]
    constructor
    · rintro ⟨⟨⟨h2, h3⟩, h4⟩, h5⟩
      have e : s - t + i = i / 4 * 4 + s := by omega
      rw [e] at h4
      exact ⟨⟨by omega, h5⟩, h4⟩
    · rintro ⟨⟨h1, h2⟩, h3⟩
      have := hm.lt_of_testBit h2
      have e : s - t + i = i / 4 * 4 + s := by omega
      rw [e]
      exact ⟨⟨⟨by omega, by omega⟩, h3⟩, h2⟩

theorem shift_eq_norm {m : Nat} (hm : MaskOK m) {p : List Nat} {s : Nat} (hs : s < 4)
    (ht : pmap p s < 4) (h : Nat) : shift m p s h = norm m h s <<< pmap p s := by
  apply Nat.eq_of_testBit_eq
  intro i
  rw [shift_testBit hm hs ht, Nat.testBit_shiftLeft, norm_testBit hs]
  generalize pmap p s = t at ht
  rw [Bool.eq_iff_iff]
  simp only [Bool.and_eq_true, decide_eq_true_eq, ge_iff_le]
  constructor
  · rintro ⟨⟨h1, h2⟩, h3⟩
    have := hm.lt_of_testBit h2
    have e : s + (i - t) = i / 4 * 4 + s := by omega
    rw [e]
    have hmm : m.testBit (i / 4 * 4 + s) = m.testBit i := hm.sym (by omega)
    rw [hmm]
    exact ⟨by omega, ⟨⟨h3, by omega⟩, h2⟩, by omega⟩
  · rintro ⟨h0, ⟨⟨h1, h2⟩, h3⟩, h4⟩
    have e : s + (i - t) = i / 4 * 4 + s := by omega
    rw [e] at h1 h3
    have hmm : m.testBit (i / 4 * 4 + s) = m.testBit i := hm.sym (by omega)
    rw [hmm] at h3
    exact ⟨⟨by omega, h3⟩, h1⟩

theorem image_eq (m : Nat) (p : List Nat) (h : Nat) :
    image m p h = shift m p 0 h ||| shift m p 1 h ||| shift m p 2 h ||| shift m p 3 h := by
  simp [image, suits_eq, List.foldl]

/-! ## the image under a bijective relabeling -/

theorem image_testBit_at {m : Nat} (hm : MaskOK m) {p : List Nat} (hp : p ∈ S4) {s : Nat} (hs : s < 4)
    (h : Nat) {i : Nat} (hi : i % 4 = pmap p s) :
    (image m p h).testBit i = (m.testBit i && h.testBit (i / 4 * 4 + s)) := by
  have r := pmap_lt p hp
  have inj := pmap_inj p hp
  have d01 : pmap p 0 ≠ pmap p 1 := fun e => by have := inj 0 (by omega) 1 (by omega) e; omega
  have d02 : pmap p 0 ≠ pmap p 2 := fun e => by have := inj 0 (by omega) 2 (by omega) e; omega
  have d03 : pmap p 0 ≠ pmap p 3 := fun e => by have := inj 0 (by omega) 3 (by omega) e; omega
  have d12 : pmap p 1 ≠ pmap p 2 := fun e => by have := inj 1 (by omega) 2 (by omega) e; omega
  have d13 : pmap p 1 ≠ pmap p 3 := fun e => by have := inj 1 (by omega) 3 (by omega) e; omega
  have d23 : pmap p 2 ≠ pmap p 3 := fun e => by have := inj 2 (by omega) 3 (by omega) e; omega
  rw [image_eq]
  simp only [Nat.testBit_or, shift_testBit hm (show 0 < 4 by omega) (r 0 (by omega)),
    shift_testBit hm (show 1 < 4 by omega) (r 1 (by omega)),
    shift_testBit hm (show 2 < 4 by omega) (r 2 (by omega)),
    shift_testBit hm (show 3 < 4 by omega) (r 3 (by omega)), hi]
  have : s = 0 ∨ s = 1 ∨ s = 2 ∨ s = 3 := by omega
  rcases this with rfl | rfl | rfl | rfl <;>
    simp [d01, d02, d03, d12, d13, d23, d01.symm, d02.symm, d03.symm, d12.symm, d13.symm, d23.symm]

theorem image_and_mask {m : Nat} (hm : MaskOK m) {p : List Nat} (hp : p ∈ S4) (h : Nat) :
    image m p h &&& m = image m p h := by
  apply Nat.eq_of_testBit_eq
  intro i
  obtain ⟨s, hs, hsi⟩ := pmap_surj p hp (i % 4) (by omega)
  rw [Nat.testBit_and, image_testBit_at hm hp hs h hsi.symm]
  cases m.testBit i <;> simp

theorem ofSuit_image {m : Nat} (hm : MaskOK m) {p : List Nat} (hp : p ∈ S4) {s : Nat} (hs : s < 4)
    (h : Nat) : ofSuit m (image m p h) (pmap p s) = shift m p s h := by
  have ht := pmap_lt p hp s hs
  apply Nat.eq_of_testBit_eq
  intro i
  rw [ofSuit_testBit ht, shift_testBit hm hs ht]
  by_cases hi : i % 4 = pmap p s
  · rw [image_testBit_at hm hp hs h hi]
    cases hmi : m.testBit i with
    | false => simp
    | true => have := hm.lt_of_testBit hmi; simp [hi, this]
  · simp [hi]

/-- **relabeling moves contents**: the content of suit `p[s]` in the image is the content of suit `s` -/
theorem norm_image {m : Nat} (hm : MaskOK m) {p : List Nat} (hp : p ∈ S4) {s : Nat} (hs : s < 4)
    (h : Nat) : norm m (image m p h) (pmap p s) = norm m h s := by
  have ht := pmap_lt p hp s hs
  rw [norm, ofSuit_image hm hp hs, shift_eq_norm hm hs ht, Nat.shiftLeft_shiftRight]

/-- a hand inside the deck mask is determined by its four contents -/
theorem testBit_eq_norm {m : Nat} (hm : MaskOK m) {h : Nat} (hh : h &&& m = h) (i : Nat) :
    h.testBit i = (norm m h (i % 4)).testBit (i - i % 4) := by
  rw [norm_testBit (by omega)]
  have e : i % 4 + (i - i % 4) = i := by omega
  have e2 : (i - i % 4) % 4 = 0 := by omega
  rw [e, e2]
  have : h.testBit i = (h.testBit i && m.testBit i) := by rw [← Nat.testBit_and, hh]
  cases hmi : m.testBit i with
  | false => rw [this, hmi]; simp
  | true => have := hm.lt_of_testBit hmi; simp [this]

theorem hand_ext {m : Nat} (hm : MaskOK m) {h h' : Nat} (hh : h &&& m = h) (hh' : h' &&& m = h')
    (hn : ∀ s, s < 4 → norm m h s = norm m h' s) : h = h' := by
  apply Nat.eq_of_testBit_eq
  intro i
  rw [testBit_eq_norm hm hh, testBit_eq_norm hm hh', hn _ (by omega)]

/-- the image is the hand whose content at `p[s]` is the content of `h` at `s` -/
theorem eq_image_of_norm {m : Nat} (hm : MaskOK m) {p : List Nat} (hp : p ∈ S4) {h h' : Nat}
    (hh' : h' &&& m = h') (hn : ∀ s, s < 4 → norm m h' (pmap p s) = norm m h s) : h' = image m p h := by
  apply hand_ext hm hh' (image_and_mask hm hp h)
  intro t ht
  obtain ⟨s, hs, rfl⟩ := pmap_surj p hp t ht
  rw [hn s hs, norm_image hm hp hs]

theorem image_image {m : Nat} (hm : MaskOK m) {p q : List Nat} (hp : p ∈ S4) (hq : q ∈ S4) (h : Nat) :
    image m q (image m p h) = image m (comp q p) h := by
  apply eq_image_of_norm hm (comp_mem p hp q hq) (image_and_mask hm hq _)
  intro s hs
  rw [pmap_comp q p hs, norm_image hm hq (pmap_lt p hp s hs), norm_image hm hp hs]

theorem image_id {m : Nat} (hm : MaskOK m) {h : Nat} (hh : h &&& m = h) : image m [0, 1, 2, 3] h = h := by
  symm
  apply eq_image_of_norm hm (by decide) hh
  intro s hs
  have : s = 0 ∨ s = 1 ∨ s = 2 ∨ s = 3 := by omega
  rcases this with rfl | rfl | rfl | rfl <;> rfl

/-! ## popcount: additive over disjoint sets, hence over the four suits -/

theorem popW_or_disjoint (w : Nat) : ∀ a b : Nat, a &&& b = 0 → popW w (a ||| b) = popW w a + popW w b := by
  induction w with
  | zero => intros; rfl
  | succ w ih =>
    intro a b h
    simp only [popW]
    have h2 : a / 2 &&& b / 2 = 0 := by rw [← Nat.and_div_two, h]
    rw [Nat.or_div_two, ih _ _ h2]
    have hand : ¬ ((a &&& b) % 2 = 1) := by rw [h]; decide
    rw [Nat.and_mod_two_eq_one] at hand
    have hor := @Nat.or_mod_two_eq_one a b
    omega

theorem popW_eq_zero {w : Nat} : ∀ {a : Nat}, popW w a = 0 → a < 2 ^ w → a = 0 := by
  induction w with
  | zero => intro a _ ha; simp at ha; omega
  | succ w ih =>
    intro a h ha
    simp only [popW] at h
    rw [Nat.pow_succ] at ha
    have := ih (a := a / 2) (by omega) (by omega)
    omega

theorem popW_of_lt {w k : Nat} (hk : k < 2 ^ w) : popW (w + 1) k = popW w k := by
  rw [popW_succ, Nat.testBit_lt_two_pow hk]; simp

theorem size_zero : size 0 = 0 := popW_zero 64

theorem ne_zero_of_size {k : Nat} (h : size k ≠ 0) : k ≠ 0 := by
  intro e; rw [e, size_zero] at h; exact h rfl

theorem size_double {k : Nat} (hk : k < 2 ^ 63) : size (2 * k) = size k := by
  unfold size
  have e1 : popW (63 + 1) k = popW 63 k := popW_of_lt hk
  have e2 : popW (63 + 1) (2 * k) = (2 * k) % 2 + popW 63 (2 * k / 2) := rfl
  have e3 : 2 * k / 2 = k := by omega
  rw [e3] at e2
  have e4 : (2 * k) % 2 = 0 := by omega
  rw [e4] at e2
  calc popW 64 (2 * k) = 0 + popW 63 k := e2
    _ = popW 63 k := by omega
    _ = popW 64 k := e1.symm

theorem size_shift {k s : Nat} (hk : k < 2 ^ 52) (hs : s < 4) : size (k <<< s) = size k := by
  have : s = 0 ∨ s = 1 ∨ s = 2 ∨ s = 3 := by omega
  have e1 : k <<< 1 = 2 * k := by rw [Nat.shiftLeft_eq]; omega
  have e2 : k <<< 2 = 2 * (2 * k) := by rw [Nat.shiftLeft_eq]; omega
  have e3 : k <<< 3 = 2 * (2 * (2 * k)) := by rw [Nat.shiftLeft_eq]; omega
  rcases this with rfl | rfl | rfl | rfl
  · rfl
  · rw [e1, size_double (by omega)]
  · rw [e2, size_double (by omega), size_double (by omega)]
  · rw [e3, size_double (by omega), size_double (by omega), size_double (by omega)]

theorem ofSuit_or {m : Nat} (hm : MaskOK m) {h : Nat} (hh : h &&& m = h) :
    h = ofSuit m h 0 ||| ofSuit m h 1 ||| ofSuit m h 2 ||| ofSuit m h 3 := by
  apply Nat.eq_of_testBit_eq
  intro i
  simp only [Nat.testBit_or, ofSuit_testBit (show 0 < 4 by omega), ofSuit_testBit (show 1 < 4 by omega),
    ofSuit_testBit (show 2 < 4 by omega), ofSuit_testBit (show 3 < 4 by omega)]
  have hb : h.testBit i = (h.testBit i && m.testBit i) := by rw [← Nat.testBit_and, hh]
  cases hmi : m.testBit i with
  | false => rw [hb, hmi]; simp
  | true =>
    have hlt := hm.lt_of_testBit hmi
    have : i % 4 = 0 ∨ i % 4 = 1 ∨ i % 4 = 2 ∨ i % 4 = 3 := by omega
    rcases this with e | e | e | e <;> simp [e, hlt]

theorem ofSuit_disjoint (m h h' : Nat) {s t : Nat} (hs : s < 4) (ht : t < 4) (hst : s ≠ t) :
    ofSuit m h s &&& ofSuit m h' t = 0 := by
  apply Nat.eq_of_testBit_eq
  intro i
  rw [Nat.testBit_and, ofSuit_testBit hs, ofSuit_testBit ht, Nat.zero_testBit]
  by_cases e : i % 4 = s
  · have : ¬ i % 4 = t := by omega
    simp [this]
  · simp [e]

/-- the cards of a hand inside the mask are the cards of its four suits -/
theorem size_suits {m : Nat} (hm : MaskOK m) {h : Nat} (hh : h &&& m = h) :
    size h = size (ofSuit m h 0) + size (ofSuit m h 1) + size (ofSuit m h 2) + size (ofSuit m h 3) := by
  have d1 : ofSuit m h 0 &&& ofSuit m h 1 = 0 := ofSuit_disjoint m h h (by omega) (by omega) (by omega)
  have d2 : (ofSuit m h 0 ||| ofSuit m h 1) &&& ofSuit m h 2 = 0 := by
    rw [Nat.and_or_distrib_right, ofSuit_disjoint m h h (by omega) (by omega) (by omega),
      ofSuit_disjoint m h h (by omega) (by omega) (by omega)]; rfl
  have d3 : (ofSuit m h 0 ||| ofSuit m h 1 ||| ofSuit m h 2) &&& ofSuit m h 3 = 0 := by
    rw [Nat.and_or_distrib_right, Nat.and_or_distrib_right,
      ofSuit_disjoint m h h (by omega) (by omega) (by omega),
      ofSuit_disjoint m h h (by omega) (by omega) (by omega),
      ofSuit_disjoint m h h (by omega) (by omega) (by omega)]; rfl
  conv => lhs; rw [ofSuit_or hm hh]
  unfold size
  rw [popW_or_disjoint 64 _ _ d3, popW_or_disjoint 64 _ _ d2, popW_or_disjoint 64 _ _ d1]

theorem size_ofSuit {m h s : Nat} (hs : s < 4) : size (ofSuit m h s) = size (norm m h s) := by
  rw [ofSuit_eq_norm hs, size_shift (norm_normalized m h s).lt hs]

/-- ... and of its four contents -/
theorem size_norms {m : Nat} (hm : MaskOK m) {h : Nat} (hh : h &&& m = h) :
    size h = size (norm m h 0) + size (norm m h 1) + size (norm m h 2) + size (norm m h 3) := by
  rw [size_suits hm hh, size_ofSuit (by omega), size_ofSuit (by omega), size_ofSuit (by omega),
    size_ofSuit (by omega)]

end RP.Iso
