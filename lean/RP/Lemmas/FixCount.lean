import RP.Lemmas.BurnsideCount
/-! # The fixed-point count: observations fixed by a suit relabeling, counted rank by rank

A hand is fixed by the relabeling `π` iff each of its 13 rank nibbles is fixed by the action of `π`
on four bits; a legal observation fixed by `π` is therefore a sequence, one entry per rank, of
disjoint `π`-fixed nibble pairs (only `(0,0)` on ranks outside the deck) with 2 pocket bits and `k`
board bits in total. `W m π R` is the table of the numbers of such sequences over the first `R` ranks
by (pocket bits, board bits) — the coefficients of `Π_ranks Σ_pairs x^|u| y^|v|` — computed by the
obvious recurrence; `W_correct` proves that it counts, `fixCount_eq` ties it to the observations. -/
namespace RP.C06
open RP.Bits RP.Hands RP.Spec

/-! ## executable definitions -/

/-- action of a suit permutation on a nibble: bit `s` moves to bit `π s` -/
def nibAct (π : List Nat) (u : Nat) : Nat :=
  (List.range 4).foldl (fun acc s => if u.testBit s then acc ||| 2^(π.getD s 0) else acc) 0

/-- disjoint nibble pairs fixed by `π` -/
def fixPairs (π : List Nat) : List (Nat × Nat) :=
  ((List.range 16).flatMap (fun u => (List.range 16).map (fun v => (u, v)))).filter
    (fun uv => uv.1 &&& uv.2 == 0 && nibAct π uv.1 == uv.1 && nibAct π uv.2 == uv.2)

/-- rank `r` belongs to the deck -/
def inDeck (m r : Nat) : Bool := m.testBit (4 * r)

def pairsAt (m : Nat) (π : List Nat) (r : Nat) : List (Nat × Nat) :=
  if inDeck m r then fixPairs π else [(0, 0)]

/-- one more rank: `w'[a][b] = Σ_{(u,v)} w[a-|u|][b-|v|]` (index `6 a + b`, `a ≤ 2`, `b ≤ 5`) -/
def stepW (pairs : List (Nat × Nat)) (w : List Nat) : List Nat :=
  (List.range 18).map fun idx =>
    (pairs.map fun uv =>
      if popW 4 uv.1 ≤ idx / 6 ∧ popW 4 uv.2 ≤ idx % 6
      then w.getD ((idx / 6 - popW 4 uv.1) * 6 + (idx % 6 - popW 4 uv.2)) 0 else 0).sum

/-- table after the first `R` ranks -/
def W (m : Nat) (π : List Nat) : Nat → List Nat
  | 0 => 1 :: List.replicate 17 0
  | r+1 => stepW (pairsAt m π r) (W m π r)

/-- the fixed partial observations on the first `R` ranks, built rank by rank -/
def E (m : Nat) (π : List Nat) : Nat → List (Nat × Nat)
  | 0 => [(0, 0)]
  | r+1 => (pairsAt m π r).flatMap fun uv =>
      (E m π r).map fun x => (x.1 + uv.1 * 16^r, x.2 + uv.2 * 16^r)

/-- number of those with `a` pocket bits and `b` board bits -/
def cnt (m : Nat) (π : List Nat) (R a b : Nat) : Nat :=
  ((E m π R).filter (fun x => decide (popW 64 x.1 = a ∧ popW 64 x.2 = b))).length

/-! ## the table counts -/

theorem E_lt (m : Nat) (π : List Nat) : ∀ R, (∀ uv ∈ fixPairs π, uv.1 < 16 ∧ uv.2 < 16) →
    ∀ x ∈ E m π R, x.1 < 16^R ∧ x.2 < 16^R := by
  intro R hfp
  induction R with
  | zero => intro x hx; simp [E] at hx; subst hx; simp
  | succ R ih =>
    intro x hx
    simp only [E, List.mem_flatMap, List.mem_map] at hx
    obtain ⟨uv, huv, y, hy, rfl⟩ := hx
    have hy' := ih y hy
    have huv' : uv.1 < 16 ∧ uv.2 < 16 := by
      unfold pairsAt at huv
      split at huv
      · exact hfp uv huv
      · simp at huv; subst huv; simp
    have e : 16^(R+1) = 16 * 16^R := by ring
    have h1 : uv.1 * 16^R ≤ 15 * 16^R := Nat.mul_le_mul_right _ (by omega)
    have h2 : uv.2 * 16^R ≤ 15 * 16^R := Nat.mul_le_mul_right _ (by omega)
    constructor
    · show y.1 + uv.1 * 16^R < 16^(R+1); rw [e]; omega
    · show y.2 + uv.2 * 16^R < 16^(R+1); rw [e]; omega

theorem fixPairs_lt (π : List Nat) : ∀ uv ∈ fixPairs π, uv.1 < 16 ∧ uv.2 < 16 := by
  intro uv h
  unfold fixPairs at h
  rw [List.mem_filter, List.mem_flatMap] at h
  obtain ⟨⟨u, hu, hv⟩, _⟩ := h
  rw [List.mem_map] at hv
  obtain ⟨v, hv, rfl⟩ := hv
  exact ⟨List.mem_range.mp hu, List.mem_range.mp hv⟩

theorem pop_ext (R : Nat) (hR : R ≤ 12) (x u : Nat) (hx : x < 16^R) (hu : u < 16) :
    popW 64 (x + u * 16^R) = popW 64 x + popW 4 u := by
  have e : (16:Nat)^R = 2^(4*R) := by rw [Nat.pow_mul]
  rw [e] at hx ⊢
  obtain ⟨w, hw⟩ : ∃ w, 64 = (w + 4) + 4 * R := ⟨60 - 4 * R, by omega⟩
  have h1 := popW_mul_add (w + 4) (4 * R) u x hx
  rw [← hw] at h1
  rw [Nat.add_comm, h1, popW_eq_of_lt (show u < 2^4 by omega) (by omega : 4 ≤ w + 4),
    popW_eq_of_lt hx (by omega : 4 * R ≤ 64)]
  omega

theorem getD_map_range (n : Nat) (f : Nat → Nat) (i : Nat) (hi : i < n) :
    ((List.range n).map f).getD i 0 = f i := by
  simp [List.getD, hi]

theorem filter_len_congr {α : Type} {l : List α} {p q : α → Bool} (h : ∀ x ∈ l, p x = q x) :
    (l.filter p).length = (l.filter q).length := by rw [List.filter_congr h]

theorem filter_len_zero {α : Type} {l : List α} {p : α → Bool} (h : ∀ x ∈ l, p x = false) :
    (l.filter p).length = 0 := by
  rw [List.length_eq_zero_iff, List.filter_eq_nil_iff]
  intro x hx; rw [h x hx]; simp

theorem W_correct (m : Nat) (π : List Nat) : ∀ R, R ≤ 13 → ∀ a b, a < 3 → b < 6 →
    (W m π R).getD (a * 6 + b) 0 = cnt m π R a b := by
  intro R
  induction R with
  | zero =>
    intro _ a b ha hb
    have : a = 0 ∨ a = 1 ∨ a = 2 := by omega
    have : b = 0 ∨ b = 1 ∨ b = 2 ∨ b = 3 ∨ b = 4 ∨ b = 5 := by omega
    rcases ‹a = 0 ∨ a = 1 ∨ a = 2› with rfl | rfl | rfl <;>
      rcases ‹b = 0 ∨ b = 1 ∨ b = 2 ∨ b = 3 ∨ b = 4 ∨ b = 5› with rfl | rfl | rfl | rfl | rfl | rfl <;> rfl
  | succ R ih =>
    intro hR a b ha hb
    have hidx : a * 6 + b < 18 := by omega
    have hdiv : (a * 6 + b) / 6 = a := by omega
    have hmod : (a * 6 + b) % 6 = b := by omega
    simp only [W, stepW]
    rw [getD_map_range 18 _ _ hidx, hdiv, hmod]
    simp only [cnt, E, List.filter_flatMap, List.length_flatMap]
    congr 1
    apply List.map_congr_left
    intro uv huv
    have huv' : uv.1 < 16 ∧ uv.2 < 16 := by
      unfold pairsAt at huv
      split at huv
      · exact fixPairs_lt π uv huv
      · simp at huv; subst huv; simp
    have hi4 := popW_le 4 uv.1
    have hj4 := popW_le 4 uv.2
    rw [List.filter_map, List.length_map]
    have hE : ∀ x ∈ E m π R, popW 64 (x.1 + uv.1 * 16^R) = popW 64 x.1 + popW 4 uv.1 ∧
        popW 64 (x.2 + uv.2 * 16^R) = popW 64 x.2 + popW 4 uv.2 := by
      intro x hx
      have hxl := E_lt m π R (fixPairs_lt π) x hx
      exact ⟨pop_ext R (by omega) _ _ hxl.1 huv'.1, pop_ext R (by omega) _ _ hxl.2 huv'.2⟩
    by_cases hc : popW 4 uv.1 ≤ a ∧ popW 4 uv.2 ≤ b
    · rw [if_pos hc, ih (by omega) _ _ (by omega) (by omega)]
      unfold cnt
      generalize popW 64 = f at hE ⊢
      apply filter_len_congr
      intro x hx
      obtain ⟨e1, e2⟩ := hE x hx
      simp only [Function.comp, e1, e2]
      apply decide_eq_decide.mpr
      omega
    · rw [if_neg hc]
      symm
      generalize popW 64 = f at hE ⊢
      apply filter_len_zero
      intro x hx
      obtain ⟨e1, e2⟩ := hE x hx
      simp only [Function.comp, e1, e2, decide_eq_false_iff_not]
      omega

/-! ## the enumeration lists exactly the fixed partial observations -/

def SubM (m h : Nat) : Prop := ∀ i, h.testBit i = true → m.testBit i = true
def Disj (p b : Nat) : Prop := ∀ i, ¬ (p.testBit i = true ∧ b.testBit i = true)
def FixedH (π : List Nat) (h : Nat) : Prop :=
  ∀ r s, s < 4 → h.testBit (4 * r + Iso.pmap π s) = h.testBit (4 * r + s)

structure GoodP (m : Nat) (π : List Nat) (R : Nat) (x : Nat × Nat) : Prop where
  lt1 : x.1 < 16^R
  lt2 : x.2 < 16^R
  sub1 : SubM m x.1
  sub2 : SubM m x.2
  disj : Disj x.1 x.2
  fix1 : FixedH π x.1
  fix2 : FixedH π x.2

theorem pow16 (R : Nat) : (16:Nat)^R = 2^(4*R) := by rw [Nat.pow_mul]

theorem ext_testBit (R x u i : Nat) (hx : x < 16^R) :
    (x + u * 16^R).testBit i = if i < 4 * R then x.testBit i else u.testBit (i - 4 * R) := by
  rw [pow16] at hx ⊢
  rw [Nat.add_comm, Nat.mul_comm, Nat.testBit_two_pow_mul_add u hx]

theorem lt16_testBit {u j : Nat} (hu : u < 16) (hj : 4 ≤ j) : u.testBit j = false :=
  Nat.testBit_lt_two_pow (Nat.lt_of_lt_of_le (show u < 2^4 from hu) (Nat.pow_le_pow_right (by omega) hj))

theorem lt_pow_testBit {x R i : Nat} (hx : x < 16^R) (hi : 4 * R ≤ i) : x.testBit i = false := by
  rw [pow16] at hx
  exact Nat.testBit_lt_two_pow (Nat.lt_of_lt_of_le hx (Nat.pow_le_pow_right (by omega) hi))

theorem D_sub (m R x u : Nat) (hx : x < 16^R) :
    SubM m (x + u * 16^R) ↔ SubM m x ∧ (∀ j, u.testBit j = true → m.testBit (4 * R + j) = true) := by
  unfold SubM
  constructor
  · intro h
    refine ⟨fun i hi => ?_, fun j hj => ?_⟩
    · have hlt : i < 4 * R := by
        apply Nat.lt_of_not_le; intro hle; rw [lt_pow_testBit hx hle] at hi; exact absurd hi (by simp)
      apply h i; rw [ext_testBit R x u i hx, if_pos hlt]; exact hi
    · apply h (4 * R + j); rw [ext_testBit R x u _ hx, if_neg (by omega)]
      have : 4 * R + j - 4 * R = j := by omega
      rw [this]; exact hj
  · rintro ⟨h1, h2⟩ i hi
    rw [ext_testBit R x u i hx] at hi
    split at hi
    · exact h1 i hi
    · have := h2 (i - 4 * R) hi
      have e : 4 * R + (i - 4 * R) = i := by omega
      rwa [e] at this

theorem D_disj (R x y u v : Nat) (hx : x < 16^R) (hy : y < 16^R) :
    Disj (x + u * 16^R) (y + v * 16^R) ↔ Disj x y ∧ Disj u v := by
  unfold Disj
  constructor
  · intro h
    refine ⟨fun i hi => ?_, fun j hj => ?_⟩
    · have hlt : i < 4 * R := by
        apply Nat.lt_of_not_le; intro hle; rw [lt_pow_testBit hx hle] at hi; exact absurd hi.1 (by simp)
      apply h i; rw [ext_testBit R x u i hx, ext_testBit R y v i hy, if_pos hlt, if_pos hlt]; exact hi
    · apply h (4 * R + j)
      rw [ext_testBit R x u _ hx, ext_testBit R y v _ hy, if_neg (by omega), if_neg (by omega)]
      have : 4 * R + j - 4 * R = j := by omega
      rw [this]; exact hj
  · rintro ⟨h1, h2⟩ i hi
    rw [ext_testBit R x u i hx, ext_testBit R y v i hy] at hi
    split at hi
    · exact h1 i hi
    · exact h2 _ hi

theorem D_fix (π : List Nat) (hπ : π ∈ RP.Gen.permExhaust) (R x u : Nat) (hx : x < 16^R) (hu : u < 16) :
    FixedH π (x + u * 16^R) ↔
      FixedH π x ∧ (∀ s, s < 4 → u.testBit (Iso.pmap π s) = u.testBit s) := by
  have hp := Iso.pmap_lt π hπ
  unfold FixedH
  constructor
  · intro h
    refine ⟨fun r s hs => ?_, fun s hs => ?_⟩
    · have hps := hp s hs
      by_cases hr : r < R
      · have := h r s hs
        rwa [ext_testBit R x u _ hx, ext_testBit R x u _ hx, if_pos (by omega), if_pos (by omega)] at this
      · rw [lt_pow_testBit hx (by omega), lt_pow_testBit hx (by omega)]
    · have hps := hp s hs
      have := h R s hs
      rw [ext_testBit R x u _ hx, ext_testBit R x u _ hx, if_neg (by omega), if_neg (by omega)] at this
      have e1 : 4 * R + Iso.pmap π s - 4 * R = Iso.pmap π s := by omega
      have e2 : 4 * R + s - 4 * R = s := by omega
      rwa [e1, e2] at this
  · rintro ⟨h1, h2⟩ r s hs
    have hps := hp s hs
    rw [ext_testBit R x u _ hx, ext_testBit R x u _ hx]
    by_cases hr : r < R
    · rw [if_pos (by omega), if_pos (by omega)]; exact h1 r s hs
    · rw [if_neg (by omega), if_neg (by omega)]
      by_cases hr' : r = R
      · subst hr'
        have e1 : 4 * r + Iso.pmap π s - 4 * r = Iso.pmap π s := by omega
        have e2 : 4 * r + s - 4 * r = s := by omega
        rw [e1, e2]; exact h2 s hs
      · rw [lt16_testBit hu (by omega), lt16_testBit hu (by omega)]

theorem nib_fix_iff : ∀ π ∈ RP.Gen.permExhaust, ∀ u, u < 16 →
    (nibAct π u = u ↔ ∀ s, s < 4 → u.testBit (Iso.pmap π s) = u.testBit s) := by decide +kernel

theorem zero_mem_fixPairs : ∀ π ∈ RP.Gen.permExhaust, (0, 0) ∈ fixPairs π := by decide +kernel

theorem fixPairs_nodup : ∀ π ∈ RP.Gen.permExhaust, (fixPairs π).Nodup := by decide +kernel

theorem mem_fixPairs (π : List Nat) (uv : Nat × Nat) :
    uv ∈ fixPairs π ↔ uv.1 < 16 ∧ uv.2 < 16 ∧ uv.1 &&& uv.2 = 0 ∧ nibAct π uv.1 = uv.1 ∧ nibAct π uv.2 = uv.2 := by
  unfold fixPairs
  simp only [List.mem_filter, List.mem_flatMap, List.mem_map, List.mem_range, Bool.and_eq_true, beq_iff_eq]
  constructor
  · rintro ⟨⟨u, hu, v, hv, rfl⟩, ⟨h1, h2⟩, h3⟩
    exact ⟨hu, hv, h1, h2, h3⟩
  · rintro ⟨h1, h2, h3, h4, h5⟩
    exact ⟨⟨uv.1, h1, uv.2, h2, rfl⟩, ⟨h3, h4⟩, h5⟩

theorem disj_iff (p b : Nat) : Disj p b ↔ p &&& b = 0 := by
  rw [and_eq_zero_iff_testBit]
  unfold Disj
  constructor
  · intro h i hi
    cases hb : b.testBit i
    · rfl
    · exact absurd ⟨hi, hb⟩ (h i)
  · intro h i ⟨h1, h2⟩
    rw [h i h1] at h2; exact absurd h2 (by simp)

theorem subM_iff (m h : Nat) : SubM m h ↔ h &&& m = h := by
  unfold SubM
  constructor
  · intro hs
    apply Nat.eq_of_testBit_eq
    intro i
    rw [Nat.testBit_and]
    cases hi : h.testBit i
    · rfl
    · rw [hs i hi]; rfl
  · intro he i hi
    have := congrArg (fun n => n.testBit i) he
    simp only [Nat.testBit_and, hi, Bool.true_and] at this
    exact this

theorem nib_in_deck (m : Nat) (hm : Iso.MaskOK m) (R u : Nat) (hR : R ≤ 12) (hu : u < 16) :
    (∀ j, u.testBit j = true → m.testBit (4 * R + j) = true) ↔ (u = 0 ∨ inDeck m R = true) := by
  have hbit : ∀ j, j < 4 → m.testBit (4 * R + j) = inDeck m R := by
    intro j hj
    unfold inDeck
    rw [hm.2 (4 * R + j) (by omega)]
    congr 1; omega
  constructor
  · intro h
    by_cases h0 : u = 0
    · exact Or.inl h0
    · right
      obtain ⟨j, hj⟩ := Nat.exists_testBit_of_ne_zero h0
      have hj4 : j < 4 := by
        apply Nat.lt_of_not_le; intro hle; rw [lt16_testBit hu hle] at hj; exact absurd hj (by simp)
      rw [← hbit j hj4]; exact h j hj
  · rintro (rfl | h) j hj
    · simp at hj
    · have hj4 : j < 4 := by
        apply Nat.lt_of_not_le; intro hle; rw [lt16_testBit hu hle] at hj; exact absurd hj (by simp)
      rw [hbit j hj4]; exact h

theorem mem_pairsAt (m : Nat) (π : List Nat) (hπ : π ∈ RP.Gen.permExhaust) (R : Nat) (uv : Nat × Nat) :
    uv ∈ pairsAt m π R ↔ uv ∈ fixPairs π ∧ (inDeck m R = true ∨ uv = (0, 0)) := by
  unfold pairsAt
  split
  · next h => simp [h]
  · next h =>
    simp only [List.mem_singleton, h, Bool.false_eq_true, false_or]
    constructor
    · rintro rfl; exact ⟨zero_mem_fixPairs π hπ, rfl⟩
    · exact fun h => h.2

theorem ext_lt (R x u : Nat) (hx : x < 16^R) (hu : u < 16) : x + u * 16^R < 16^(R+1) := by
  have e : 16^(R+1) = 16 * 16^R := by ring
  have h1 : u * 16^R ≤ 15 * 16^R := Nat.mul_le_mul_right _ (by omega)
  rw [e]; omega

theorem ext_inj (R x y u v : Nat) (hx : x < 16^R) (hy : y < 16^R)
    (h : x + u * 16^R = y + v * 16^R) : x = y ∧ u = v := by
  have hpos : 0 < 16^R := Nat.pow_pos (by omega)
  have h1 : (x + u * 16^R) / 16^R = u := by
    rw [Nat.add_mul_div_right _ _ hpos, Nat.div_eq_of_lt hx, Nat.zero_add]
  have h2 : (y + v * 16^R) / 16^R = v := by
    rw [Nat.add_mul_div_right _ _ hpos, Nat.div_eq_of_lt hy, Nat.zero_add]
  have huv : u = v := by rw [← h1, ← h2, h]
  subst huv
  exact ⟨by omega, rfl⟩

/-- the enumeration lists exactly the fixed partial observations on the first `R` ranks -/
theorem mem_E (m : Nat) (hm : Iso.MaskOK m) (π : List Nat) (hπ : π ∈ RP.Gen.permExhaust) :
    ∀ R, R ≤ 13 → ∀ x, x ∈ E m π R ↔ GoodP m π R x := by
  intro R
  induction R with
  | zero =>
    intro _ x
    simp only [E, List.mem_singleton]
    constructor
    · rintro rfl
      exact ⟨by simp, by simp, fun i hi => by simp at hi, fun i hi => by simp at hi,
        fun i hi => by simp at hi, fun r s _ => by simp, fun r s _ => by simp⟩
    · intro h
      have h1 := h.lt1; have h2 := h.lt2
      simp only [Nat.pow_zero, Nat.lt_one_iff] at h1 h2
      exact Prod.ext h1 h2
  | succ R ih =>
    intro hR x'
    have ihR := ih (by omega)
    simp only [E, List.mem_flatMap, List.mem_map]
    constructor
    · rintro ⟨uv, huv, x, hx, rfl⟩
      have hg := (ihR x).mp hx
      obtain ⟨hf, hdk⟩ := (mem_pairsAt m π hπ R uv).mp huv
      obtain ⟨hu, hv, hd, hfu, hfv⟩ := (mem_fixPairs π uv).mp hf
      have hnu : uv.1 = 0 ∨ inDeck m R = true := by
        rcases hdk with h | h
        · exact Or.inr h
        · left; rw [h]
      have hnv : uv.2 = 0 ∨ inDeck m R = true := by
        rcases hdk with h | h
        · exact Or.inr h
        · left; rw [h]
      exact ⟨ext_lt R _ _ hg.lt1 hu, ext_lt R _ _ hg.lt2 hv,
        (D_sub m R _ _ hg.lt1).mpr ⟨hg.sub1, (nib_in_deck m hm R _ (by omega) hu).mpr hnu⟩,
        (D_sub m R _ _ hg.lt2).mpr ⟨hg.sub2, (nib_in_deck m hm R _ (by omega) hv).mpr hnv⟩,
        (D_disj R _ _ _ _ hg.lt1 hg.lt2).mpr ⟨hg.disj, (disj_iff _ _).mpr hd⟩,
        (D_fix π hπ R _ _ hg.lt1 hu).mpr ⟨hg.fix1, (nib_fix_iff π hπ _ hu).mp hfu⟩,
        (D_fix π hπ R _ _ hg.lt2 hv).mpr ⟨hg.fix2, (nib_fix_iff π hπ _ hv).mp hfv⟩⟩
    · intro hg
      have hpos : 0 < 16^R := Nat.pow_pos (by omega)
      have e16 : 16^(R+1) = 16^R * 16 := by ring
      have hp : x'.1 % 16^R + x'.1 / 16^R * 16^R = x'.1 := by rw [Nat.mul_comm]; exact Nat.mod_add_div _ _
      have hb : x'.2 % 16^R + x'.2 / 16^R * 16^R = x'.2 := by rw [Nat.mul_comm]; exact Nat.mod_add_div _ _
      have hu : x'.1 / 16^R < 16 := by
        rw [Nat.div_lt_iff_lt_mul hpos, Nat.mul_comm, ← e16]; exact hg.lt1
      have hv : x'.2 / 16^R < 16 := by
        rw [Nat.div_lt_iff_lt_mul hpos, Nat.mul_comm, ← e16]; exact hg.lt2
      have hpl : x'.1 % 16^R < 16^R := Nat.mod_lt _ hpos
      have hbl : x'.2 % 16^R < 16^R := Nat.mod_lt _ hpos
      have s1 := hg.sub1; have s2 := hg.sub2; have dj := hg.disj; have f1 := hg.fix1; have f2 := hg.fix2
      rw [← hp] at s1 f1
      rw [← hb] at s2 f2
      rw [← hp, ← hb] at dj
      obtain ⟨s1a, s1b⟩ := (D_sub m R _ _ hpl).mp s1
      obtain ⟨s2a, s2b⟩ := (D_sub m R _ _ hbl).mp s2
      obtain ⟨dja, djb⟩ := (D_disj R _ _ _ _ hpl hbl).mp dj
      obtain ⟨f1a, f1b⟩ := (D_fix π hπ R _ _ hpl hu).mp f1
      obtain ⟨f2a, f2b⟩ := (D_fix π hπ R _ _ hbl hv).mp f2
      have n1 := (nib_in_deck m hm R _ (by omega) hu).mp s1b
      have n2 := (nib_in_deck m hm R _ (by omega) hv).mp s2b
      refine ⟨(x'.1 / 16^R, x'.2 / 16^R), ?_, (x'.1 % 16^R, x'.2 % 16^R), ?_, ?_⟩
      · rw [mem_pairsAt m π hπ, mem_fixPairs]
        refine ⟨⟨hu, hv, (disj_iff _ _).mp djb, (nib_fix_iff π hπ _ hu).mpr f1b,
          (nib_fix_iff π hπ _ hv).mpr f2b⟩, ?_⟩
        rcases n1 with h1 | h1
        · rcases n2 with h2 | h2
          · right; exact Prod.ext h1 h2
          · exact Or.inl h2
        · exact Or.inl h1
      · exact (ihR _).mpr ⟨hpl, hbl, s1a, s2a, dja, f1a, f2a⟩
      · exact Prod.ext hp hb

theorem pairsAt_nodup (m : Nat) (π : List Nat) (hπ : π ∈ RP.Gen.permExhaust) (R : Nat) :
    (pairsAt m π R).Nodup := by
  unfold pairsAt; split
  · exact fixPairs_nodup π hπ
  · simp

theorem pairsAt_lt (m : Nat) (π : List Nat) (R : Nat) : ∀ uv ∈ pairsAt m π R, uv.1 < 16 ∧ uv.2 < 16 := by
  intro uv huv
  unfold pairsAt at huv
  split at huv
  · exact fixPairs_lt π uv huv
  · simp at huv; subst huv; simp

theorem E_nodup (m : Nat) (π : List Nat) (hπ : π ∈ RP.Gen.permExhaust) : ∀ R, (E m π R).Nodup := by
  intro R
  induction R with
  | zero => simp [E]
  | succ R ih =>
    simp only [E]
    rw [List.nodup_flatMap]
    constructor
    · intro uv _
      apply List.Nodup.map _ ih
      intro a b h
      simp only [Prod.mk.injEq] at h
      exact Prod.ext (by omega) (by omega)
    · apply (pairsAt_nodup m π hπ R).pairwise_of_forall_ne
      intro uv huv uv' huv' hne
      simp only [Function.onFun, List.disjoint_left, List.mem_map]
      rintro z ⟨x, hx, rfl⟩ ⟨y, hy, h⟩
      simp only [Prod.mk.injEq] at h
      have hxl := E_lt m π R (fixPairs_lt π) x hx
      have hyl := E_lt m π R (fixPairs_lt π) y hy
      have h1 := ext_inj R _ _ _ _ hyl.1 hxl.1 h.1
      have h2 := ext_inj R _ _ _ _ hyl.2 hxl.2 h.2
      exact hne (Prod.ext h1.2.symm h2.2.symm)

/-! ## the observations fixed by `π` are the complete sequences with the street's sizes -/

theorem image_fixed_iff (m : Nat) (hm : Iso.MaskOK m) (π : List Nat) (hπ : π ∈ RP.Gen.permExhaust) (h : Nat)
    (hh : h &&& m = h) : Iso.image m π h = h ↔ FixedH π h := by
  have hrel := Iso.image_relabel hm hπ hh
  constructor
  · intro he r s hs
    have := hrel r s hs
    rwa [he] at this
  · intro hf
    apply Nat.eq_of_testBit_eq
    intro i
    obtain ⟨s, hs, hsi⟩ := Iso.pmap_surj π hπ (i % 4) (by omega)
    have e : i = 4 * (i / 4) + Iso.pmap π s := by omega
    rw [e, hrel (i / 4) s hs, hf (i / 4) s hs]

theorem fixed_obs_iff (short : Bool) (street : Nat) (hs : street ≤ 3) (π : List Nat)
    (hπ : π ∈ RP.Gen.permExhaust) (o : Nat × Nat) :
    (o ∈ Hands.observations short street ∧ act short π o = o) ↔
      (o ∈ E (deckMask short) π 13 ∧ popW 64 o.1 = 2 ∧ popW 64 o.2 = nObserved street) := by
  have hm := deckMask_ok short
  rw [mem_obs_legal short street hs, mem_E _ hm π hπ 13 (by omega)]
  have hlt : ∀ h, h &&& deckMask short = h → h < 16^13 := by
    intro h hh
    rw [← hh, pow16]
    exact Nat.and_lt_two_pow _ hm.1
  have hact : act short π o = o ↔
      (Iso.image (deckMask short) π o.1 = o.1 ∧ Iso.image (deckMask short) π o.2 = o.2) := by
    unfold act ofObs toObs Iso.permute
    constructor
    · intro h; exact ⟨congrArg Prod.fst h, congrArg Prod.snd h⟩
    · rintro ⟨h1, h2⟩; exact Prod.ext h1 h2
  constructor
  · rintro ⟨hl, hfix⟩
    obtain ⟨h1, h2⟩ := hact.mp hfix
    exact ⟨⟨hlt _ hl.pocket_in, hlt _ hl.board_in, (subM_iff _ _).mpr hl.pocket_in,
      (subM_iff _ _).mpr hl.board_in, (disj_iff _ _).mpr hl.disjoint,
      (image_fixed_iff _ hm π hπ _ hl.pocket_in).mp h1, (image_fixed_iff _ hm π hπ _ hl.board_in).mp h2⟩,
      hl.pocket2, hl.boardn⟩
  · rintro ⟨hg, hp2, hbn⟩
    have s1 := (subM_iff _ _).mp hg.sub1
    have s2 := (subM_iff _ _).mp hg.sub2
    exact ⟨⟨s1, s2, hp2, hbn, (disj_iff _ _).mp hg.disj⟩,
      hact.mpr ⟨(image_fixed_iff _ hm π hπ _ s1).mpr hg.fix1, (image_fixed_iff _ hm π hπ _ s2).mpr hg.fix2⟩⟩

/-- **the fixed-point count**: the number of observations of the street fixed by the relabeling `π`
is the entry `(2, k)` of the rank-by-rank table -/
theorem fixCount_eq (short : Bool) (street : Nat) (hs : street ≤ 3) (π : List Nat)
    (hπ : π ∈ RP.Gen.permExhaust) :
    fixCount short street π = (W (deckMask short) π 13).getD (2 * 6 + nObserved street) 0 := by
  have hk : nObserved street < 6 := by have := (nObserved_le street hs).1; omega
  rw [W_correct _ π 13 (by omega) 2 _ (by omega) hk]
  unfold fixCount cnt
  apply List.Perm.length_eq
  rw [List.perm_ext_iff_of_nodup ((observations_nodup short street hs).filter _)
    ((E_nodup _ π hπ 13).filter _)]
  intro o
  simp only [List.mem_filter, decide_eq_true_eq]
  exact fixed_obs_iff short street hs π hπ o

/-- the `x²` row of the table after all 13 ranks: fixed observations by board size 0..5 -/
def xrow (m : Nat) (π : List Nat) : List Nat := (W m π 13).drop 12

theorem xrow_getD (m : Nat) (π : List Nat) (k : Nat) : (xrow m π).getD k 0 = (W m π 13).getD (2 * 6 + k) 0 := by
  unfold xrow
  simp only [List.getD_eq_getElem?_getD, List.getElem?_drop]

end RP.C06
