import RP.Props.C06Classes
/-! helpers for the chunked kernel enumeration of the pre-flop classes (`RP/Props/C06Pref*.lean`) -/
namespace RP.C06
open RP.Bits RP.Hands RP.Spec

theorem filter_split (l : List Nat) (r q : Nat → Bool) :
    (l.filter q).length = (l.filter (fun p => r p && q p)).length + (l.filter (fun p => !r p && q p)).length := by
  induction l with
  | nil => rfl
  | cons a t ih =>
    simp only [List.filter_cons]
    cases hr : r a <;> cases hq : q a <;> simp [ih] <;> omega

/-- the pockets of the deck -/
def pockets (short : Bool) : List Nat := ksubsets 52 2 (blocked short 0)

def below (j : Nat) (p : Nat) : Bool := decide (p < 2^j)

/-- canonical and not below any of the boundaries `js` -/
def restPred (short : Bool) : List Nat → Nat → Bool
  | [] => fun p => isCanon short p 0
  | j :: js => fun p => !below j p && restPred short js p

/-- canonical pockets below `2^j` and not below the earlier boundaries -/
def chunkLen (short : Bool) (j : Nat) (js : List Nat) : Nat :=
  ((pockets short).filter (fun p => below j p && restPred short js p)).length

def restLen (short : Bool) (js : List Nat) : Nat := ((pockets short).filter (restPred short js)).length

theorem restLen_step (short : Bool) (j : Nat) (js : List Nat) :
    restLen short js = chunkLen short j js + restLen short (j :: js) :=
  filter_split (pockets short) (below j) (restPred short js)

end RP.C06
