import RP.Model.TreeShape
import RP.Lemmas.Game
/-! Helper definitions and lemmas for C11 (abstract action menus):

* the *Rust-exact* `actionize` on Lean's IEEE-754 `Float32` (`actionizeF32`), next to the integer
  formula of `RP.TreeShape.actionize`;
* the shape of `Game::choices(n)` at a choice node (`choices_eq`);
* facts about the generated odds tables (`Odds::GRID`, `PREF/FLOP/LATE/LAST_RAISES`), all by
  `decide` on `RP.Gen`;
* floor-division monotonicity over `Int`.

Core Lean only (no Mathlib): the C11 driver imports this file. -/
namespace RP.Menu
open RP.Game
open RP.Showdown (Status)
open RP.Codec (Edge)
open RP.TreeShape

/-! ## the `f32` product of `Game::actionize` on real `Float32` operations -/

/-- `x as Chips` for `x : f32` (`Chips = i16`): Rust's float→int `as` cast truncates toward zero,
saturates at `i16::MIN/MAX` and sends NaN to 0 — the IEEE model's `toInt16`. -/
def asChips (f : Float32) : Int := f.toModel.toInt16.toInt

/-- `x as f32` for `x : Chips`: nearest binary32 (exact for every `i16`). -/
def chipsToF32 (x : Int) : Float32 := Float32.ofInt x

/-- `Utility::from(odds)` = `odds.0 as f32 / odds.1 as f32` (src/mccfr/odds.rs) -/
def oddsToF32 (n d : Int) : Float32 := chipsToF32 n / chipsToF32 d

/-- `(pot as f32 * Utility::from(odds)) as Chips`, in the order game.rs evaluates it -/
def betF32 (pot n d : Int) : Int := asChips (chipsToF32 pot * oddsToF32 n d)

/-- the integer formula the model `RP.TreeShape.actionize` uses instead -/
def betFloor (pot n d : Int) : Int := (pot * n) / d

/-- `fn actionize(&self, edge)` with the float product (everything else as `TreeShape.actionize`) -/
def actionizeF32 (g : Game) (deal : Nat) : Edge → Action
  | .raise n d =>
    let min := toRaise g
    let max := toShove g
    let bet := betF32 g.pot n d
    if bet ≥ max then .shove max else if bet ≤ min then .raise min else .raise bet
  | e => actionize g deal e

/-- chips moved by a concrete action (0 for check / fold / draw); an all-in counts as its amount -/
def chipsOf : Action → Int
  | .call x | .blind x | .raise x | .shove x => x
  | _ => 0

/-! ## odds tables -/

def gridOdds : List (Nat × Nat) := RP.Gen.oddsGrid
def streetTables : List (List (Nat × Nat)) :=
  [RP.Gen.PREF_RAISES, RP.Gen.FLOP_RAISES, RP.Gen.LATE_RAISES, RP.Gen.LAST_RAISES]

/-- strictly increasing as rationals (`a/b < c/d ⇔ a·d < c·b` for positive denominators) -/
def oddsLt (a b : Nat × Nat) : Bool := decide (a.1 * b.2 < b.1 * a.2)
def strictlySorted : List (Nat × Nat) → Bool
  | [] => true
  | [_] => true
  | a :: b :: rest => oddsLt a b && strictlySorted (b :: rest)

/-- the 15 abstract edges (same list as `RP.Codec.allEdges` of C15, restated here so that the
driver does not import the C15 tables) -/
def alphabet : List Edge :=
  [.draw, .fold, .check, .call, .shove] ++ RP.Codec.grid.map (fun o => .raise o.1 o.2)

/-- the candidate values of `raises g n` -/
def raiseMenus : List (List Edge) :=
  [[], oddsList RP.Gen.PREF_RAISES, oddsList RP.Gen.FLOP_RAISES, oddsList RP.Gen.LATE_RAISES,
   oddsList RP.Gen.LAST_RAISES]

theorem raises_mem (g : Game) (n : Nat) : raises g n ∈ raiseMenus := by
  unfold raises raiseMenus
  split
  · simp
  · split
    · simp
    · simp
    · split <;> simp

/-- what every possible raise menu satisfies (kernel-checked on the generated tables) -/
theorem raiseMenus_ok : ∀ l ∈ raiseMenus,
    l.Nodup ∧ l.length ≤ 10 ∧ ∀ e ∈ l, e ∈ alphabet ∧ isRaise e = true := by decide

theorem raises_ok (g : Game) (n : Nat) :
    (raises g n).Nodup ∧ (raises g n).length ≤ 10 ∧
    ∀ e ∈ raises g n, e ∈ alphabet ∧ isRaise e = true := raiseMenus_ok _ (raises_mem g n)

/-- a raise edge on a menu carries odds from `Odds::GRID` -/
theorem raise_in_alphabet {n d : Int} (h : Edge.raise n d ∈ alphabet) :
    ∃ o ∈ gridOdds, n = (o.1 : Int) ∧ d = (o.2 : Int) := by
  unfold alphabet at h
  simp only [List.mem_append, List.mem_cons, reduceCtorEq, List.mem_nil_iff, or_self, false_or,
    List.mem_map] at h
  obtain ⟨o, ho, he⟩ := h
  unfold RP.Codec.grid at ho
  simp only [List.mem_map] at ho
  obtain ⟨p, hp, rfl⟩ := ho
  simp only [Edge.raise.injEq] at he
  exact ⟨p, hp, he.1.symm, he.2.symm⟩

/-! ## the menu at a choice node -/

/-- `expand` of each of the five entries `legal()` can push -/
theorem choices_eq {g : Game} (h : GameInv g) (hna : isEveryoneAlright g = false) (n : Nat) :
    choices g n =
      (if mayRaise g then raises g n else []) ++
      (if mayShove g then [Edge.shove] else []) ++
      (if mayCall g then [Edge.call] else []) ++
      (if mayFold g then [Edge.fold] else []) ++
      (if mayCheck g then [Edge.check] else []) := by
  unfold choices
  rw [legal_choice h hna]
  unfold legalChoice
  cases mayRaise g <;> cases mayShove g <;> cases mayCall g <;> cases mayFold g <;>
    cases mayCheck g <;> simp [expand, edgeOfAction]

/-- fold and check are never offered together -/
theorem fold_check_exclusive (g : Game) : ¬ (mayFold g = true ∧ mayCheck g = true) := by
  unfold mayFold mayCheck toCall
  simp only [decide_eq_true_eq, beq_iff_eq]
  omega

theorem nodup_menu (l : List Edge) (hl : l.Nodup) (hr : ∀ e ∈ l, isRaise e = true)
    (a b c d : Bool) :
    (l ++ (if a then [Edge.shove] else []) ++ (if b then [Edge.call] else []) ++
      (if c then [Edge.fold] else []) ++ (if d then [Edge.check] else [])).Nodup := by
  have h1 : ∀ a, a ∈ l → ¬ a = Edge.shove := fun a hm e => by have := hr _ hm; simp [e, isRaise] at this
  have h2 : ∀ a, a ∈ l → ¬ a = Edge.call := fun a hm e => by have := hr _ hm; simp [e, isRaise] at this
  have h3 : ∀ a, a ∈ l → ¬ a = Edge.fold := fun a hm e => by have := hr _ hm; simp [e, isRaise] at this
  have h4 : ∀ a, a ∈ l → ¬ a = Edge.check := fun a hm e => by have := hr _ hm; simp [e, isRaise] at this
  cases a <;> cases b <;> cases c <;> cases d <;>
    simp [List.nodup_append, hl] <;> grind


/-- membership in the menu, entry by entry -/
theorem mem_choices {g : Game} (h : GameInv g) (hna : isEveryoneAlright g = false) (n : Nat) (e : Edge) :
    e ∈ choices g n ↔
      (mayRaise g = true ∧ e ∈ raises g n) ∨ (mayShove g = true ∧ e = Edge.shove) ∨
      (mayCall g = true ∧ e = Edge.call) ∨ (mayFold g = true ∧ e = Edge.fold) ∨
      (mayCheck g = true ∧ e = Edge.check) := by
  rw [choices_eq h hna]
  cases mayRaise g <;> cases mayShove g <;> cases mayCall g <;> cases mayFold g <;>
    cases mayCheck g <;> simp

/-- at a choice node the actor has chips behind: all-in is always offered -/
theorem mayShove_choice {g : Game} (h : GameInv g) (hna : isEveryoneAlright g = false) :
    mayShove g = true := by
  obtain ⟨_, _, _, _, hk, _, _, hsv⟩ := choice_view h hna
  unfold mayShove; rw [hsv]; simpa using hk

/-! ## floor division is monotone in the odds -/

/-- `n₁/d₁ ≤ n₂/d₂` (cross-multiplied) and `pot ≥ 0` give `⌊pot·n₁/d₁⌋ ≤ ⌊pot·n₂/d₂⌋` -/
theorem betFloor_mono {pot n1 d1 n2 d2 : Int} (hp : 0 ≤ pot) (hd1 : 0 < d1) (hd2 : 0 < d2)
    (h : n1 * d2 ≤ n2 * d1) : betFloor pot n1 d1 ≤ betFloor pot n2 d2 := by
  unfold betFloor
  rw [Int.le_ediv_iff_mul_le hd2]
  -- q * d1 ≤ pot * n1 for q = pot*n1/d1
  have hq : (pot * n1 / d1) * d1 ≤ pot * n1 := Int.ediv_mul_le _ (by omega)
  -- multiply by d2, chain with pot * (n1*d2) ≤ pot * (n2*d1), divide by d1
  have h1 : (pot * n1 / d1) * d1 * d2 ≤ pot * n1 * d2 := Int.mul_le_mul_of_nonneg_right hq (by omega)
  have h2 : pot * (n1 * d2) ≤ pot * (n2 * d1) := Int.mul_le_mul_of_nonneg_left h hp
  have h3 : (pot * n1 / d1) * d2 * d1 ≤ pot * n2 * d1 := by
    have e1 : (pot * n1 / d1) * d2 * d1 = (pot * n1 / d1) * d1 * d2 := by
      rw [Int.mul_assoc, Int.mul_comm d2 d1, ← Int.mul_assoc]
    have e2 : pot * n1 * d2 = pot * (n1 * d2) := Int.mul_assoc _ _ _
    have e3 : pot * n2 * d1 = pot * (n2 * d1) := Int.mul_assoc _ _ _
    rw [e1, e3]; rw [e2] at h1; exact Int.le_trans h1 h2
  exact Int.le_of_mul_le_mul_right h3 hd1

end RP.Menu
