import RP.Model.Codec
/-! Pair-key tables for C15: the keys `a xor b` of all unordered pairs of buckets inside the flop,
turn and river sets, grouped by `d = i xor j` (the low 12 bits of a key), and a radix check of
their pairwise distinctness that the kernel can evaluate (a few thousand steps per `d`). -/
namespace RP.Codec
open RP.Gen

/-- the 44-bit hash field of `Abstraction::from((street, index))` -/
def absMid (s i : Nat) : Nat := ((i % 4096 + s * 4096) * absMul % 2^64) / 2^12 % 2^44
/-- the three bit fields as a sum: index (12 bits), hash (44 bits), street tag (8 bits);
equal to `(absOf s i).bits` for `s < 4` (`RP.C15.absOf_bits`) -/
def absBitsFast (s i : Nat) : Nat := i % 4096 + absMid s i * 2^12 + s * 2^56
def fastKey (s i j : Nat) : Nat := absBitsFast s i ^^^ absBitsFast s j

/-- the streets whose pairwise distances are stored, with their bucket counts -/
def learned : List (Nat × Nat) := [(1, nAbstractions 1), (2, nAbstractions 2), (3, nAbstractions 3)]

/-- evaluate `n` before continuing (makes the kernel keep the numeral, not the expression) -/
def force {α : Type} (n : Nat) (k : Nat → α) : α :=
  match n with
  | 0 => k 0
  | m+1 => k (m+1)
theorem force_eq {α : Type} (n : Nat) (k : Nat → α) : force n k = k n := by
  cases n <;> rfl

/-- `(street, i, key(i, i xor d))` for every pair `i < i xor d < k_street` of the three streets -/
def entries (d : Nat) : List (Nat × Nat × Nat) :=
  learned.flatMap (fun sk => (List.range sk.2).filterMap (fun i =>
    if i < i ^^^ d ∧ i ^^^ d < sk.2 then force (fastKey sk.1 i (i ^^^ d)) (fun k => some (sk.1, i, k)) else none))

/-- radix check: split on hash bits 55, 54, … until every group has at most one element -/
def rdx : Nat → List (Nat × Nat × Nat) → Bool
  | _, [] => true
  | _, [_] => true
  | 0, _ :: _ :: _ => false
  | f+1, a :: b :: l =>
    rdx f ((a :: b :: l).filter (fun x => x.2.2.testBit (f + 12))) &&
    rdx f ((a :: b :: l).filter (fun x => !x.2.2.testBit (f + 12)))

theorem rdx_spec : ∀ (f : Nat) (l : List (Nat × Nat × Nat)), rdx f l = true →
    ∀ x ∈ l, ∀ y ∈ l, x.2.2 = y.2.2 → x = y
  | _, [], _ => by intro x hx; cases hx
  | _, [a], _ => by
    intro x hx y hy _
    simp at hx hy; rw [hx, hy]
  | 0, _ :: _ :: _, h => by simp [rdx] at h
  | f+1, a :: b :: l, h => by
    intro x hx y hy hxy
    simp only [rdx, Bool.and_eq_true] at h
    by_cases hb : x.2.2.testBit (f + 12) = true
    · refine rdx_spec f _ h.1 x ?_ y ?_ hxy
      · exact List.mem_filter.mpr ⟨hx, by simpa using hb⟩
      · exact List.mem_filter.mpr ⟨hy, by rw [← hxy]; simpa using hb⟩
    · refine rdx_spec f _ h.2 x ?_ y ?_ hxy
      · exact List.mem_filter.mpr ⟨hx, by simpa using hb⟩
      · exact List.mem_filter.mpr ⟨hy, by rw [← hxy]; simpa using hb⟩

/-- the keys of `lo ≤ d < lo + n` are pairwise distinct within each `d` -/
def chunkOK (lo n : Nat) : Bool := (List.range n).all (fun t => rdx 44 (entries (lo + t)))

theorem chunkOK_spec (lo n d : Nat) (h : chunkOK lo n = true) (h1 : lo ≤ d) (h2 : d < lo + n) :
    rdx 44 (entries d) = true := by
  unfold chunkOK at h
  rw [List.all_eq_true] at h
  have := h (d - lo) (List.mem_range.mpr (by omega))
  have e : lo + (d - lo) = d := by omega
  rwa [e] at this

/-! ## The preflop layer (169 classes kept as centroids; `Layer::metric` stores their distances too) -/
/-- `entries` over an arbitrary list of `(street, bucket count)` -/
def entriesOf (L : List (Nat × Nat)) (d : Nat) : List (Nat × Nat × Nat) :=
  L.flatMap (fun sk => (List.range sk.2).filterMap (fun i =>
    if i < i ^^^ d ∧ i ^^^ d < sk.2 then force (fastKey sk.1 i (i ^^^ d)) (fun k => some (sk.1, i, k)) else none))
theorem entries_eq (d : Nat) : entries d = entriesOf learned d := rfl
/-- the preflop layer alone -/
def prefLayer : List (Nat × Nat) := [(0, nAbstractions 0)]
/-- all four streets (`Metric::sources`: the four files go into one table keyed by `xor`) -/
def fourLayers : List (Nat × Nat) := (0, nAbstractions 0) :: learned

theorem mem_entriesOf (L : List (Nat × Nat)) (s k i j : Nat) (hL : (s, k) ∈ L) (hij : i < j) (hj : j < k) :
    (s, i, fastKey s i j) ∈ entriesOf L (i ^^^ j) := by
  have hx : i ^^^ (i ^^^ j) = j := by rw [← Nat.xor_assoc, Nat.xor_self, Nat.zero_xor]
  unfold entriesOf
  rw [List.mem_flatMap]
  refine ⟨(s, k), hL, ?_⟩
  rw [List.mem_filterMap]
  refine ⟨i, List.mem_range.mpr (by omega), ?_⟩
  simp only [hx, hij, hj, and_self, if_true, force_eq]

/-- the preflop keys of `lo ≤ d < lo + n` are pairwise distinct within each `d` -/
def chunkOKP (lo n : Nat) : Bool := (List.range n).all (fun t => rdx 44 (entriesOf prefLayer (lo + t)))

theorem chunkOKP_spec (lo n d : Nat) (h : chunkOKP lo n = true) (h1 : lo ≤ d) (h2 : d < lo + n) :
    rdx 44 (entriesOf prefLayer d) = true := by
  unfold chunkOKP at h
  rw [List.all_eq_true] at h
  have := h (d - lo) (List.mem_range.mpr (by omega))
  have e : lo + (d - lo) = d := by omega
  rwa [e] at this

/-- pairs of entries of one `d`-group that share a key (executable; used to list the cross-street
collisions of the four-street table) -/
def collisions (L : List (Nat × Nat)) (d : Nat) : List ((Nat × Nat × Nat) × (Nat × Nat × Nat)) :=
  let es := entriesOf L d
  es.flatMap (fun a => es.filterMap (fun b =>
    if a.2.2 = b.2.2 ∧ a.1 * 4096 + a.2.1 < b.1 * 4096 + b.2.1 then some (a, b) else none))

/-! ## All four streets in one key space, minus the three known preflop pairs -/
/-- the preflop entries `(0; 8, 40)`, `(0; 16, 48)` (`d = 32`) and `(0; 27, 91)` (`d = 64`) -/
def excepted (d : Nat) (e : Nat × Nat × Nat) : Bool :=
  e.1 == 0 && ((d == 32 && (e.2.1 == 8 || e.2.1 == 16)) || (d == 64 && e.2.1 == 27))
def entries4x (d : Nat) : List (Nat × Nat × Nat) := (entriesOf fourLayers d).filter (fun e => !excepted d e)
def chunkOK4 (lo n : Nat) : Bool := (List.range n).all (fun t => rdx 44 (entries4x (lo + t)))
theorem chunkOK4_spec (lo n d : Nat) (h : chunkOK4 lo n = true) (h1 : lo ≤ d) (h2 : d < lo + n) :
    rdx 44 (entries4x d) = true := by
  unfold chunkOK4 at h
  rw [List.all_eq_true] at h
  have := h (d - lo) (List.mem_range.mpr (by omega))
  have e : lo + (d - lo) = d := by omega
  rwa [e] at this

end RP.Codec
