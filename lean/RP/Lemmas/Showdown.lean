import RP.Spec.Pots
/-! Lemmas for C04: generic list/arithmetic facts, the layer structure of the specification,
    and the loop invariant of `Showdown::settle` (DESIGN A.2). -/
namespace RP.C04L
open RP.Showdown RP.Pots

/-! ### sums -/

theorem sumInt_append (a b : List Int) : sumInt (a ++ b) = sumInt a + sumInt b := by
  induction a with
  | nil => simp [sumInt]
  | cons x xs ih => simp [sumInt, ih]; omega

theorem sumInt_map_le {α} (f g : α → Int) (l : List α) (h : ∀ x ∈ l, f x ≤ g x) :
    sumInt (l.map f) ≤ sumInt (l.map g) := by
  induction l with
  | nil => simp [sumInt]
  | cons x xs ih =>
    have h1 := h x (by simp)
    have h2 := ih (fun y hy => h y (by simp [hy]))
    simp only [List.map_cons, sumInt]; omega

theorem sumInt_map_congr {α} (f g : α → Int) (l : List α) (h : ∀ x ∈ l, f x = g x) :
    sumInt (l.map f) = sumInt (l.map g) := by
  induction l with
  | nil => simp [sumInt]
  | cons x xs ih =>
    have h1 := h x (by simp)
    have h2 := ih (fun y hy => h y (by simp [hy]))
    simp only [List.map_cons, sumInt]; omega

theorem sumInt_map_add {α} (f g : α → Int) (l : List α) :
    sumInt (l.map (fun x => f x + g x)) = sumInt (l.map f) + sumInt (l.map g) := by
  induction l with
  | nil => simp [sumInt]
  | cons x xs ih => simp only [List.map_cons, sumInt, ih]; omega

theorem sumInt_map_zero {α} (l : List α) : sumInt (l.map (fun _ => (0 : Int))) = 0 := by
  induction l with
  | nil => simp [sumInt]
  | cons x xs ih => simp only [List.map_cons, sumInt, ih]; omega

/-- equal sums of pointwise ordered terms force pointwise equality -/
theorem sumInt_map_eq_of_le {α} (f g : α → Int) (l : List α) (h : ∀ x ∈ l, f x ≤ g x)
    (e : sumInt (l.map f) = sumInt (l.map g)) : ∀ x ∈ l, f x = g x := by
  induction l with
  | nil => simp
  | cons x xs ih =>
    have h1 := h x (by simp)
    have h2 := sumInt_map_le f g xs (fun y hy => h y (by simp [hy]))
    simp only [List.map_cons, sumInt] at e
    intro y hy
    rcases List.mem_cons.1 hy with rfl | hy
    · omega
    · exact ih (fun y hy => h y (by simp [hy])) (by omega) y hy

/-! ### conditional sums over a list -/

/-- `Σ_{x ∈ l, c x} f x` -/
def csum {α} (c : α → Bool) (f : α → Int) (l : List α) : Int :=
  sumInt (l.map (fun x => if c x then f x else 0))

theorem csum_nil {α} (c : α → Bool) (f : α → Int) : csum c f [] = 0 := by simp [csum, sumInt]

theorem csum_cons {α} (c : α → Bool) (f : α → Int) (x : α) (l : List α) :
    csum c f (x :: l) = (if c x then f x else 0) + csum c f l := by simp [csum, sumInt]

theorem csum_congr {α} (c c' : α → Bool) (f g : α → Int) (l : List α)
    (hc : ∀ x ∈ l, c x = c' x) (h : ∀ x ∈ l, c x = true → f x = g x) : csum c f l = csum c' g l := by
  unfold csum
  apply sumInt_map_congr
  intro x hx
  rw [← hc x hx]
  by_cases hcx : c x = true
  · simp [hcx, h x hx hcx]
  · simp [hcx]

theorem csum_zero {α} (c : α → Bool) (l : List α) : csum c (fun _ => 0) l = 0 := by
  unfold csum
  rw [sumInt_map_congr _ (fun _ => (0 : Int)) l (by intro x _; simp)]
  exact sumInt_map_zero l

/-- split a range condition -/
theorem csum_split {α} (c c1 c2 : α → Bool) (f : α → Int) (l : List α)
    (h : ∀ x ∈ l, (c x = true ↔ (c1 x = true ∨ c2 x = true)) ∧ ¬ (c1 x = true ∧ c2 x = true)) :
    csum c f l = csum c1 f l + csum c2 f l := by
  induction l with
  | nil => simp [csum_nil]
  | cons x xs ih =>
    have hx := h x (by simp)
    have := ih (fun y hy => h y (by simp [hy]))
    simp only [csum_cons, this]
    rcases hx with ⟨h1, h2⟩
    by_cases a : c1 x = true <;> by_cases b : c2 x = true <;> by_cases d : c x = true <;>
      simp_all <;> omega

theorem csum_true {α} (c : α → Bool) (f : α → Int) (l : List α) (h : ∀ x ∈ l, c x = true) :
    csum c f l = sumInt (l.map f) := by
  unfold csum
  apply sumInt_map_congr
  intro x hx; simp [h x hx]

theorem csum_neg {α} (c : α → Bool) (f : α → Int) (l : List α) :
    csum c (fun x => - f x) l = - csum c f l := by
  induction l with
  | nil => simp [csum_nil]
  | cons x xs ih =>
    simp only [csum_cons, ih]
    by_cases d : c x = true <;> simp [d] <;> omega

/-- floor division is super-additive -/
theorem ediv_add_le (a b n : Int) (hn : 0 < n) : a / n + b / n ≤ (a + b) / n := by
  rw [Int.le_ediv_iff_mul_le hn, Int.add_mul]
  have := Int.ediv_mul_le a (Int.ne_of_gt hn)
  have := Int.ediv_mul_le b (Int.ne_of_gt hn)
  omega

theorem csum_ediv_le {α} (c : α → Bool) (f : α → Int) (n : Int) (hn : 0 < n) (l : List α) :
    csum c (fun x => f x / n) l ≤ csum c f l / n := by
  induction l with
  | nil => simp [csum_nil]
  | cons x xs ih =>
    simp only [csum_cons]
    by_cases d : c x = true
    · simp only [d, if_true]
      have := ediv_add_le (f x) (csum c f xs) n hn
      omega
    · simp only [d]
      simp
      exact ih

/-! ### `maxNat?`, `minInt?` -/

theorem maxNat?_eq_none {l : List Nat} : maxNat? l = none ↔ l = [] := by
  cases l with
  | nil => simp [maxNat?]
  | cons x xs => simp [maxNat?]; cases maxNat? xs <;> simp

theorem maxNat?_some {l : List Nat} {m : Nat} (h : maxNat? l = some m) :
    m ∈ l ∧ ∀ x ∈ l, x ≤ m := by
  induction l generalizing m with
  | nil => simp [maxNat?] at h
  | cons x xs ih =>
    simp only [maxNat?] at h
    cases hm : maxNat? xs with
    | none =>
      rw [hm] at h
      have : xs = [] := maxNat?_eq_none.1 hm
      subst this
      simp at h
      subst h
      simp
    | some k =>
      rw [hm] at h
      simp at h
      have ⟨h1, h2⟩ := ih hm
      subst h
      constructor
      · by_cases hxk : x ≤ k
        · rw [Nat.max_eq_right hxk]; simp [h1]
        · rw [Nat.max_eq_left (by omega)]; simp
      · intro y hy
        rcases List.mem_cons.1 hy with rfl | hy
        · omega
        · have := h2 y hy; omega

theorem minInt?_eq_none {l : List Int} : minInt? l = none ↔ l = [] := by
  cases l with
  | nil => simp [minInt?]
  | cons x xs => simp [minInt?]; cases minInt? xs <;> simp

theorem minInt?_some {l : List Int} {m : Int} (h : minInt? l = some m) :
    m ∈ l ∧ ∀ x ∈ l, m ≤ x := by
  induction l generalizing m with
  | nil => simp [minInt?] at h
  | cons x xs ih =>
    simp only [minInt?] at h
    cases hm : minInt? xs with
    | none =>
      rw [hm] at h
      have : xs = [] := minInt?_eq_none.1 hm
      subst this
      simp at h
      subst h
      simp
    | some k =>
      rw [hm] at h
      simp at h
      have ⟨h1, h2⟩ := ih hm
      subst h
      constructor
      · by_cases hxk : x ≤ k
        · rw [Int.min_eq_left hxk]; simp
        · rw [Int.min_eq_right (by omega)]; simp [h1]
      · intro y hy
        rcases List.mem_cons.1 hy with rfl | hy
        · omega
        · have := h2 y hy; omega

/-- a strictly smaller filter: the predicate shrinks and loses a member -/
theorem filter_length_lt {α} (p q : α → Bool) (l : List α) (hsub : ∀ x ∈ l, q x = true → p x = true)
    (w : α) (hw : w ∈ l) (hp : p w = true) (hq : q w = false) :
    (l.filter q).length < (l.filter p).length := by
  induction l with
  | nil => simp at hw
  | cons x xs ih =>
    have hle : (xs.filter q).length ≤ (xs.filter p).length := by
      clear ih hw
      induction xs with
      | nil => simp
      | cons y ys ih2 =>
        have := ih2 (fun z hz => hsub z (by simp at hz ⊢; rcases hz with rfl | hz <;> simp [*]))
        have hy := hsub y (by simp)
        cases a : q y <;> cases b : p y <;> simp [a, b] <;> first | omega | simp [a, b] at hy
    rcases List.mem_cons.1 hw with rfl | hw
    · simp [hp, hq]; omega
    · have := ih (fun z hz => hsub z (by simp [hz])) hw
      have hx := hsub x (by simp)
      cases a : q x <;> cases b : p x <;> simp [a, b] <;> first | omega | simp [a, b] at hx

/-! ### commitment levels and layers -/

/-- strictly increasing, everything above `lo` -/
def Chain : Int → List Int → Prop
  | _, [] => True
  | lo, h :: t => lo < h ∧ Chain h t

theorem chain_lt {lo : Int} {lv : List Int} (h : Chain lo lv) : ∀ x ∈ lv, lo < x := by
  induction lv generalizing lo with
  | nil => simp
  | cons y ys ih =>
    intro x hx
    rcases List.mem_cons.1 hx with rfl | hx
    · exact h.1
    · have := ih h.2 x hx
      have := h.1
      omega

theorem mem_insert {x y : Int} {lv : List Int} : y ∈ Pots.insert x lv ↔ y = x ∨ y ∈ lv := by
  induction lv with
  | nil => simp [Pots.insert]
  | cons z zs ih =>
    simp only [Pots.insert]
    split
    · simp
    · split
      · subst_vars; simp
      · simp [ih]; constructor <;> (intro h; rcases h with h | h | h <;> simp [h])

theorem chain_insert {lo x : Int} {lv : List Int} (h : Chain lo lv) (hx : lo < x) :
    Chain lo (Pots.insert x lv) := by
  induction lv generalizing lo with
  | nil => simp [Pots.insert, Chain, hx]
  | cons z zs ih =>
    simp only [Pots.insert]
    split
    · exact ⟨hx, by assumption, h.2⟩
    · split
      · exact h
      · exact ⟨h.1, ih h.2 (by omega)⟩

theorem mem_sortDedup {y : Int} {xs : List Int} : y ∈ sortDedup xs ↔ y ∈ xs := by
  induction xs with
  | nil => simp [sortDedup]
  | cons x xs ih => simp [sortDedup, mem_insert, ih]

theorem chain_sortDedup {lo : Int} {xs : List Int} (h : ∀ x ∈ xs, lo < x) : Chain lo (sortDedup xs) := by
  induction xs with
  | nil => simp [sortDedup, Chain]
  | cons x xs ih =>
    exact chain_insert (ih (fun y hy => h y (by simp [hy]))) (h x (by simp))

theorem mem_levels {ss : List Seat} {y : Int} : y ∈ levels ss ↔ 0 < y ∧ ∃ s ∈ ss, s.risked = y := by
  unfold levels
  rw [mem_sortDedup]
  simp only [List.mem_filter, List.mem_map, decide_eq_true_eq]
  constructor
  · rintro ⟨⟨s, hs, rfl⟩, h⟩; exact ⟨h, s, hs, rfl⟩
  · rintro ⟨h, s, hs, rfl⟩; exact ⟨⟨s, hs, rfl⟩, h⟩

theorem chain_levels (ss : List Seat) : Chain 0 (levels ss) := by
  unfold levels
  apply chain_sortDedup
  intro x hx
  simp only [List.mem_filter, decide_eq_true_eq] at hx
  exact hx.2

/-- what a layer of a chain looks like -/
theorem layer_facts {lo : Int} {lv : List Int} (h : Chain lo lv) {a b : Int}
    (hab : (a, b) ∈ layersFrom lo lv) :
    a < b ∧ b ∈ lv ∧ lo ≤ a ∧ ∀ x ∈ lv, x ≤ a ∨ b ≤ x := by
  induction lv generalizing lo with
  | nil => simp [layersFrom] at hab
  | cons y ys ih =>
    simp only [layersFrom, List.mem_cons, Prod.mk.injEq] at hab
    rcases hab with ⟨rfl, rfl⟩ | hab
    · refine ⟨h.1, by simp, Int.le_refl _, ?_⟩
      intro x hx
      rcases List.mem_cons.1 hx with rfl | hx
      · omega
      · have := chain_lt h.2 x hx; omega
    · have ⟨h1, h2, h3, h4⟩ := ih h.2 hab
      have := h.1
      refine ⟨h1, by simp [h2], by omega, ?_⟩
      intro x hx
      rcases List.mem_cons.1 hx with rfl | hx
      · omega
      · exact h4 x hx

/-- telescoping prefix sums along a chain -/
theorem csum_prefix (F : Int → Int → Int) (hadd : ∀ a b c, F a b + F b c = F a c)
    (hself : ∀ a, F a a = 0) {lo : Int} {lv : List Int} (h : Chain lo lv) (X : Int)
    (hX : X = lo ∨ X ∈ lv) :
    csum (fun ab => decide (ab.2 ≤ X)) (fun ab => F ab.1 ab.2) (layersFrom lo lv) = F lo X := by
  induction lv generalizing lo with
  | nil =>
    simp at hX; subst hX
    simp [layersFrom, csum_nil, hself]
  | cons y ys ih =>
    simp only [layersFrom, csum_cons]
    by_cases hXlo : X = lo
    · subst hXlo
      have h1 := h.1
      have : csum (fun ab => decide (ab.2 ≤ X)) (fun ab => F ab.1 ab.2) (layersFrom y ys)
          = csum (fun _ => false) (fun ab => F ab.1 ab.2) (layersFrom y ys) := by
        apply csum_congr
        · rintro ⟨a, b⟩ hab
          have ⟨h1', _, h3, _⟩ := layer_facts h.2 hab
          simp; omega
        · intros; rfl
      rw [this]
      have : csum (fun _ => false) (fun ab : Int × Int => F ab.1 ab.2) (layersFrom y ys) = 0 := by
        unfold csum; simp; exact sumInt_map_zero _
      rw [this, hself]
      have : ¬ y ≤ X := by omega
      simp [this]
    · have hX' : X = y ∨ X ∈ ys := by
        rcases hX with hX | hX
        · exact absurd hX hXlo
        · simpa using hX
      have hy : y ≤ X := by
        rcases hX' with rfl | hX'
        · exact Int.le_refl _
        · have := chain_lt h.2 X hX'; omega
      rw [ih h.2 hX']
      simp [hy, hadd]

/-! ### chips between two heights -/

/-- chips committed between heights `a` and `b` by all seats -/
def potSum (ss : List Seat) (a b : Int) : Int :=
  sumInt (ss.map (fun s => min s.risked b - min s.risked a))

theorem potSum_add (ss : List Seat) (a b c : Int) : potSum ss a b + potSum ss b c = potSum ss a c := by
  unfold potSum
  rw [← sumInt_map_add]
  apply sumInt_map_congr
  intro s _; omega

theorem potSum_self (ss : List Seat) (a : Int) : potSum ss a a = 0 := by
  unfold potSum
  rw [sumInt_map_congr _ (fun _ => (0 : Int)) ss (by intro s _; omega)]
  exact sumInt_map_zero ss

theorem potSum_nonneg (ss : List Seat) {a b : Int} (h : a ≤ b) : 0 ≤ potSum ss a b := by
  unfold potSum
  have := sumInt_map_le (fun _ => (0 : Int)) (fun s : Seat => min s.risked b - min s.risked a) ss
    (by intro s _; show (0:Int) ≤ min s.risked b - min s.risked a; omega)
  rw [sumInt_map_zero] at this
  exact this

theorem potSum_mono (ss : List Seat) {a b c : Int} (h : b ≤ c) : potSum ss a b ≤ potSum ss a c := by
  unfold potSum
  apply sumInt_map_le
  intro s _; omega

theorem pot_aux (l : List Seat) (a b : Int) (h : ∀ s ∈ l, s.risked ≤ a ∨ b ≤ s.risked) (hab : a ≤ b) :
    (b - a) * (((l.filter (fun s => decide (b ≤ s.risked))).length : Nat) : Int)
      = sumInt (l.map (fun s => min s.risked b - min s.risked a)) := by
  induction l with
  | nil => simp [sumInt]
  | cons s t ih =>
    have ih' := ih (fun x hx => h x (by simp [hx]))
    have hs := h s (by simp)
    simp only [List.filter_cons, List.map_cons, sumInt]
    by_cases c : b ≤ s.risked
    · simp only [c, decide_true, if_true, List.length_cons, Int.natCast_add, Int.mul_add]
      rw [ih']
      simp; omega
    · simp only [c, decide_false, Bool.false_eq_true, if_false]
      rw [ih']
      omega

/-- on a layer between consecutive levels the two pot formulas agree -/
theorem pot_eq_potSum (ss : List Seat) {a b : Int} (hab : (a, b) ∈ layers ss) :
    pot ss a b = potSum ss a b := by
  have ⟨h1, _, h3, h4⟩ := layer_facts (chain_levels ss) hab
  unfold pot payers potSum
  apply pot_aux _ _ _ _ (by omega)
  intro s hs
  by_cases hp : 0 < s.risked
  · exact h4 _ (mem_levels.2 ⟨hp, s, hs, rfl⟩)
  · left; omega

/-! ### the engine's `pay` -/

/-- the engine's winner filter on a seat, for `best = some b` -/
def isWinnerS (b : Nat) (D : Int) (s : Seat) : Bool :=
  (s.strength == b) && decide (s.risked > D) && live s

theorem isWinner_seat (b : Nat) (D : Int) (p : Entry) :
    isWinner (some b) D p = isWinnerS b D (seat p) := by
  simp [isWinner, isWinnerS, seat, live]

theorem seats_pay (best : Option Nat) (D share : Int) (bonus : Nat) (ps : List Entry) :
    seats (pay best D share bonus ps) = seats ps := by
  induction ps generalizing bonus with
  | nil => simp [pay]
  | cons p ps ih =>
    simp only [pay]
    split
    · cases bonus <;> simp [seats, seat] <;> exact ih _
    · simp [seats]; exact ih _

theorem pay_mem {b : Nat} {D share : Int} {bonus : Nat} {ps : List Entry} {q : Entry}
    (hq : q ∈ pay (some b) D share bonus ps) :
    ∃ p ∈ ps, seat q = seat p ∧ (isWinnerS b D (seat p) = false → q.reward = p.reward) ∧
      (isWinnerS b D (seat p) = true →
        (q.reward = p.reward + share ∨ (0 < bonus ∧ q.reward = p.reward + share + 1))) := by
  induction ps generalizing bonus with
  | nil => simp [pay] at hq
  | cons p ps ih =>
    simp only [pay] at hq
    split at hq
    · rename_i hw
      rw [isWinner_seat] at hw
      cases bonus with
      | zero =>
        simp only [List.mem_cons] at hq
        rcases hq with rfl | hq
        · exact ⟨p, by simp, rfl, fun h => absurd (show isWinnerS b D (seat p) = false from h) (by simp [hw]), by simp [seat]⟩
        · have ⟨p', h1, h2⟩ := ih hq
          exact ⟨p', by simp [h1], h2⟩
      | succ k =>
        simp only [List.mem_cons] at hq
        rcases hq with rfl | hq
        · exact ⟨p, by simp, rfl, fun h => absurd (show isWinnerS b D (seat p) = false from h) (by simp [hw]), by simp [seat]⟩
        · have ⟨p', h1, h2, h3, h4⟩ := ih hq
          refine ⟨p', by simp [h1], h2, h3, ?_⟩
          intro hh
          rcases h4 hh with h | ⟨h, h'⟩
          · exact Or.inl h
          · exact Or.inr ⟨by omega, h'⟩
    · rename_i hw
      rw [isWinner_seat] at hw
      simp only [List.mem_cons] at hq
      rcases hq with rfl | hq
      · exact ⟨q, by simp, rfl, fun _ => rfl, fun h => absurd h hw⟩
      · have ⟨p', h1, h2⟩ := ih hq
        exact ⟨p', by simp [h1], h2⟩

theorem pay_sum (b : Nat) (D share : Int) (bonus : Nat) (ps : List Entry) :
    sumInt ((pay (some b) D share bonus ps).map (·.reward))
      = sumInt (ps.map (·.reward))
        + share * (((ps.filter (isWinner (some b) D)).length : Nat) : Int)
        + ((min bonus (ps.filter (isWinner (some b) D)).length : Nat) : Int) := by
  induction ps generalizing bonus with
  | nil => simp [pay, sumInt]
  | cons p ps ih =>
    simp only [pay, List.filter_cons]
    cases hw : isWinner (some b) D p
    case false =>
      simp only [Bool.false_eq_true, if_false]
      simp only [List.map_cons, sumInt, ih]
      omega
    case true =>
      simp only [if_true]
      cases bonus with
      | zero =>
        simp only [List.map_cons, sumInt, ih, List.length_cons, Int.natCast_add, Int.mul_add]
        simp; omega
      | succ k =>
        simp only [List.map_cons, sumInt, ih, List.length_cons, Int.natCast_add, Int.mul_add]
        have : min (k + 1) ((ps.filter (isWinner (some b) D)).length + 1)
            = min k (ps.filter (isWinner (some b) D)).length + 1 := by omega
        rw [this]
        simp; omega

/-! ### arithmetic of one split -/

theorem split_arith (chips n pay_ : Int) (hc : 0 ≤ chips) (hn : 0 < n)
    (hp : pay_ = chips / n ∨ (0 < (chips % n).toNat ∧ pay_ = chips / n + 1)) :
    chips / n ≤ pay_ ∧ pay_ ≤ -((-chips) / n) ∧ pay_ ≤ chips ∧ 0 ≤ pay_ := by
  have hne : n ≠ 0 := by omega
  have h1 := Int.ediv_mul_add_emod chips n
  have h2 := Int.emod_nonneg chips hne
  have h3 := Int.ediv_mul_le (-chips) hne
  have h4 : 0 ≤ chips / n := Int.ediv_nonneg hc (by omega)
  have h5 : chips / n ≤ chips := Int.ediv_le_self n hc
  have hceil : chips / n ≤ -((-chips) / n) := by
    apply Int.le_of_mul_le_mul_right (a := n) _ hn
    rw [Int.neg_mul]; omega
  rcases hp with rfl | ⟨hb, rfl⟩
  · exact ⟨Int.le_refl _, hceil, h5, h4⟩
  · have hb' : 0 < chips % n := by omega
    refine ⟨by omega, ?_, ?_, by omega⟩
    · have : chips / n < -((-chips) / n) := by
        apply Int.lt_of_mul_lt_mul_right (a := n) _ (by omega)
        rw [Int.neg_mul]; omega
      omega
    · have : chips / n * 1 ≤ chips / n * n := by
        rw [Int.mul_comm _ 1, Int.mul_comm _ n]
        exact Int.mul_le_mul_of_nonneg_right (by omega) h4
      omega

/-! ### partial share bounds -/

def floorTerm (ss : List Seat) (s : Seat) (ab : Int × Int) : Int :=
  if wins ss ab.2 s then floorDiv (pot ss ab.1 ab.2) (nWinners ss ab.2) else 0

def ceilTerm (ss : List Seat) (s : Seat) (ab : Int × Int) : Int :=
  if wins ss ab.2 s then ceilDiv (pot ss ab.1 ab.2) (nWinners ss ab.2) else 0

/-- the floor bound restricted to the layers at or below height `D` -/
def lowerTo (ss : List Seat) (D : Int) (s : Seat) : Int :=
  csum (fun ab => decide (ab.2 ≤ D)) (floorTerm ss s) (layers ss)

def upperTo (ss : List Seat) (D : Int) (s : Seat) : Int :=
  csum (fun ab => decide (ab.2 ≤ D)) (ceilTerm ss s) (layers ss)

theorem lower_eq (ss : List Seat) (s : Seat) : lower ss s = sumInt ((layers ss).map (floorTerm ss s)) := rfl
theorem upper_eq (ss : List Seat) (s : Seat) : upper ss s = sumInt ((layers ss).map (ceilTerm ss s)) := rfl

theorem layer_top_le (ss : List Seat) {D : Int} (hall : ∀ s ∈ ss, s.risked ≤ D) {ab : Int × Int}
    (hab : ab ∈ layers ss) : ab.2 ≤ D := by
  have ⟨_, h2, _, _⟩ := layer_facts (chain_levels ss) (a := ab.1) (b := ab.2) hab
  have ⟨_, s, hs, e⟩ := mem_levels.1 h2
  have := hall s hs
  omega

theorem lowerTo_final (ss : List Seat) {D : Int} (hall : ∀ s ∈ ss, s.risked ≤ D) (s : Seat) :
    lowerTo ss D s = lower ss s := by
  rw [lower_eq]
  apply csum_true
  intro ab hab
  simp [layer_top_le ss hall hab]

theorem upperTo_final (ss : List Seat) {D : Int} (hall : ∀ s ∈ ss, s.risked ≤ D) (s : Seat) :
    upperTo ss D s = upper ss s := by
  rw [upper_eq]
  apply csum_true
  intro ab hab
  simp [layer_top_le ss hall hab]

theorem lowerTo_zero (ss : List Seat) (s : Seat) : lowerTo ss 0 s = 0 := by
  unfold lowerTo
  rw [csum_congr _ (fun _ => false) _ (floorTerm ss s) (layers ss) _ (fun _ _ _ => rfl)]
  · unfold csum; simp; exact sumInt_map_zero _
  · rintro ⟨a, b⟩ hab
    have ⟨h1, _, h3, _⟩ := layer_facts (chain_levels ss) hab
    simp; omega

theorem upperTo_zero (ss : List Seat) (s : Seat) : upperTo ss 0 s = 0 := by
  unfold upperTo
  rw [csum_congr _ (fun _ => false) _ (ceilTerm ss s) (layers ss) _ (fun _ _ _ => rfl)]
  · unfold csum; simp; exact sumInt_map_zero _
  · rintro ⟨a, b⟩ hab
    have ⟨h1, _, h3, _⟩ := layer_facts (chain_levels ss) hab
    simp; omega

/-- the layers strictly above `D` and at most `D'` -/
def inChunk (D D' : Int) (ab : Int × Int) : Bool := decide (D < ab.2) && decide (ab.2 ≤ D')

theorem prefix_split {D D' : Int} (h : D ≤ D') (f : Int × Int → Int) (l : List (Int × Int)) :
    csum (fun ab => decide (ab.2 ≤ D')) f l
      = csum (fun ab => decide (ab.2 ≤ D)) f l + csum (inChunk D D') f l := by
  apply csum_split
  intro ab _
  simp only [inChunk, Bool.and_eq_true, decide_eq_true_eq]
  constructor
  · constructor
    · intro h1; by_cases h2 : ab.2 ≤ D
      · exact Or.inl h2
      · exact Or.inr ⟨by omega, h1⟩
    · rintro (h1 | ⟨_, h1⟩) <;> omega
  · rintro ⟨h1, h2, _⟩; omega

theorem chunk_total (ss : List Seat) {D D' : Int} (hD : D = 0 ∨ D ∈ levels ss)
    (hD' : D' = 0 ∨ D' ∈ levels ss) (h : D ≤ D') :
    csum (inChunk D D') (fun ab => potSum ss ab.1 ab.2) (layers ss) = potSum ss D D' := by
  have h1 := csum_prefix (potSum ss) (potSum_add ss) (potSum_self ss) (chain_levels ss) D hD
  have h2 := csum_prefix (potSum ss) (potSum_add ss) (potSum_self ss) (chain_levels ss) D' hD'
  have h3 := prefix_split h (fun ab => potSum ss ab.1 ab.2) (layers ss)
  have h4 := potSum_add ss 0 D D'
  unfold layers at *
  omega

/-- the situation of one engine layer `(D, D']` paid to the seats of strength `b` -/
structure Chunk (ss : List Seat) (b : Nat) (D D' : Int) : Prop where
  lt : D < D'
  stronger : ∀ s ∈ ss, live s = true → b < s.strength → s.risked ≤ D
  wit : ∃ w ∈ ss, isWinnerS b D w = true ∧ w.risked = D'
  least : ∀ s ∈ ss, isWinnerS b D s = true → D' ≤ s.risked

theorem isWinnerS_iff {b : Nat} {D : Int} {s : Seat} :
    isWinnerS b D s = true ↔ s.strength = b ∧ D < s.risked ∧ live s = true := by
  simp [isWinnerS, and_assoc]

theorem wins_iff {ss : List Seat} {h : Int} {s : Seat} :
    wins ss h s = true ↔ (live s = true ∧ h ≤ s.risked) ∧
      ∀ q ∈ ss, live q = true → h ≤ q.risked → q.strength ≤ s.strength := by
  simp only [wins, eligible, Bool.and_eq_true, decide_eq_true_eq, List.all_eq_true, Bool.or_eq_true,
    Bool.not_eq_true', Bool.and_eq_false_iff, decide_eq_false_iff_not]
  constructor
  · rintro ⟨h1, h2⟩
    refine ⟨h1, ?_⟩
    intro q hq hl hr
    rcases h2 q hq with (h3 | h3) | h3
    · simp [hl] at h3
    · exact absurd hr h3
    · exact h3
  · rintro ⟨h1, h2⟩
    refine ⟨h1, ?_⟩
    intro q hq
    by_cases hl : live q = true
    · by_cases hr : h ≤ q.risked
      · exact Or.inr (h2 q hq hl hr)
      · exact Or.inl (Or.inr hr)
    · exact Or.inl (Or.inl (by simpa using hl))

/-- inside an engine layer every specification layer has the engine's winner set -/
theorem chunk_wins {ss : List Seat} {b : Nat} {D D' : Int} (hc : Chunk ss b D D') {s : Seat}
    (hs : s ∈ ss) {h : Int} (h1 : D < h) (h2 : h ≤ D') : wins ss h s = isWinnerS b D s := by
  rw [Bool.eq_iff_iff, wins_iff, isWinnerS_iff]
  have ⟨w, hw, hww, hwr⟩ := hc.wit
  have ⟨hw1, hw2, hw3⟩ := isWinnerS_iff.1 hww
  constructor
  · rintro ⟨⟨hl, hr⟩, hall⟩
    have := hall w hw hw3 (by omega)
    refine ⟨?_, by omega, hl⟩
    by_cases hlt : b < s.strength
    · have := hc.stronger s hs hl hlt; omega
    · omega
  · rintro ⟨hst, hr, hl⟩
    have := hc.least s hs (isWinnerS_iff.2 ⟨hst, hr, hl⟩)
    refine ⟨⟨hl, by omega⟩, ?_⟩
    intro q hq hql hqr
    by_cases hlt : b < q.strength
    · have := hc.stronger q hq hql hlt; omega
    · omega

theorem chunk_nWinners {ss : List Seat} {b : Nat} {D D' : Int} (hc : Chunk ss b D D')
    {h : Int} (h1 : D < h) (h2 : h ≤ D') : nWinners ss h = (ss.filter (isWinnerS b D)).length := by
  unfold nWinners
  rw [List.filter_congr (fun s hs => chunk_wins hc hs h1 h2)]

theorem chunk_floor {ss : List Seat} {b : Nat} {D D' : Int} (hc : Chunk ss b D D') {s : Seat}
    (hs : s ∈ ss) :
    csum (inChunk D D') (floorTerm ss s) (layers ss)
      = csum (inChunk D D') (fun ab => if isWinnerS b D s then
          potSum ss ab.1 ab.2 / (((ss.filter (isWinnerS b D)).length : Nat) : Int) else 0) (layers ss) := by
  apply csum_congr _ _ _ _ _ (fun _ _ => rfl)
  rintro ⟨a, h⟩ hab hin
  simp only [inChunk, Bool.and_eq_true, decide_eq_true_eq] at hin
  simp only [floorTerm, floorDiv]
  rw [chunk_wins hc hs hin.1 hin.2, chunk_nWinners hc hin.1 hin.2, pot_eq_potSum ss hab]

theorem chunk_ceil {ss : List Seat} {b : Nat} {D D' : Int} (hc : Chunk ss b D D') {s : Seat}
    (hs : s ∈ ss) :
    csum (inChunk D D') (ceilTerm ss s) (layers ss)
      = csum (inChunk D D') (fun ab => if isWinnerS b D s then
          -((-potSum ss ab.1 ab.2) / (((ss.filter (isWinnerS b D)).length : Nat) : Int)) else 0) (layers ss) := by
  apply csum_congr _ _ _ _ _ (fun _ _ => rfl)
  rintro ⟨a, h⟩ hab hin
  simp only [inChunk, Bool.and_eq_true, decide_eq_true_eq] at hin
  simp only [ceilTerm, ceilDiv]
  rw [chunk_wins hc hs hin.1 hin.2, chunk_nWinners hc hin.1 hin.2, pot_eq_potSum ss hab]

/-- one engine layer moves both partial bounds by amounts that bracket the engine's payment -/
theorem bounds_step {ss : List Seat} {b : Nat} {D D' : Int} (hc : Chunk ss b D D')
    (hD : D = 0 ∨ D ∈ levels ss) (hD' : D' = 0 ∨ D' ∈ levels ss) {s : Seat} (hs : s ∈ ss) :
    (isWinnerS b D s = false → lowerTo ss D' s = lowerTo ss D s ∧ upperTo ss D' s = upperTo ss D s) ∧
    (isWinnerS b D s = true → lowerTo ss D' s ≤ lowerTo ss D s + potSum ss D D' / (((ss.filter (isWinnerS b D)).length : Nat) : Int) ∧
      upperTo ss D s + -((-potSum ss D D') / (((ss.filter (isWinnerS b D)).length : Nat) : Int)) ≤ upperTo ss D' s) := by
  generalize hn' : (((ss.filter (isWinnerS b D)).length : Nat) : Int) = n
  have hle : D ≤ D' := by have := hc.lt; omega
  have hn : 0 < n := by
    have ⟨w, hw, hww, _⟩ := hc.wit
    have : 0 < (ss.filter (isWinnerS b D)).length :=
      List.length_pos_iff_exists_mem.2 ⟨w, List.mem_filter.2 ⟨hw, hww⟩⟩
    omega
  have e1 : lowerTo ss D' s = lowerTo ss D s + _ := prefix_split hle (floorTerm ss s) (layers ss)
  have e2 : upperTo ss D' s = upperTo ss D s + _ := prefix_split hle (ceilTerm ss s) (layers ss)
  rw [chunk_floor hc hs, hn'] at e1
  rw [chunk_ceil hc hs, hn'] at e2
  constructor
  · intro hf
    simp only [hf, Bool.false_eq_true, if_false] at e1 e2
    rw [csum_zero] at e1 e2
    omega
  · intro ht
    simp only [ht, if_true] at e1 e2
    have t := chunk_total ss hD hD' hle
    have f1 := csum_ediv_le (inChunk D D') (fun ab => potSum ss ab.1 ab.2) n hn (layers ss)
    have f2 := csum_ediv_le (inChunk D D') (fun ab => - potSum ss ab.1 ab.2) n hn (layers ss)
    rw [csum_neg] at f2
    have f3 := csum_neg (inChunk D D') (fun ab => (- potSum ss ab.1 ab.2) / n) (layers ss)
    rw [t] at f1 f2
    constructor
    · omega
    · omega

/-! ### exact payout: merged layers -/

/-- payout of a list of layers (merged) -/
def payoutOf (ss : List Seat) (ls : List (Int × Int)) : List Int :=
  (merge ss ls).foldr (fun fc acc => addVec (payMerged fc) acc) (ss.map (fun _ => 0))

theorem payout_eq (ss : List Seat) : payout ss = payoutOf ss (layers ss) := rfl

/-- the layers whose ceiling is above `X` -/
def after (X : Int) (ls : List (Int × Int)) : List (Int × Int) := ls.filter (fun ab => decide (X < ab.2))

theorem addVec_assoc : ∀ (a b c : List Int), addVec (addVec a b) c = addVec a (addVec b c)
  | [], _, _ => by simp [addVec]
  | _ :: _, [], _ => by simp [addVec]
  | _ :: _, _ :: _, [] => by simp [addVec]
  | x :: xs, y :: ys, z :: zs => by simp [addVec, addVec_assoc xs ys zs]; omega

theorem addVec_length : ∀ (a b : List Int), a.length = b.length → (addVec a b).length = b.length
  | [], [], _ => by simp [addVec]
  | [], _ :: _, h => by simp at h
  | _ :: _, [], h => by simp at h
  | x :: xs, y :: ys, h => by
    simp only [addVec, List.length_cons]
    rw [addVec_length xs ys (by simpa using h)]

theorem addVec_zeros_left {α} : ∀ (l : List α) (y : List Int), y.length = l.length →
    addVec (l.map (fun _ => (0 : Int))) y = y
  | [], [], _ => by simp [addVec]
  | [], _ :: _, h => by simp at h
  | _ :: _, [], h => by simp at h
  | _ :: l, y :: ys, h => by
    simp only [List.map_cons, addVec]
    rw [addVec_zeros_left l ys (by simpa using h)]
    simp

theorem addVec_zeros_right {α} : ∀ (l : List α) (y : List Int), y.length = l.length →
    addVec y (l.map (fun _ => (0 : Int))) = y
  | [], [], _ => by simp [addVec]
  | [], _ :: _, h => by simp at h
  | _ :: _, [], h => by simp at h
  | _ :: l, y :: ys, h => by
    simp only [List.map_cons, addVec]
    rw [addVec_zeros_right l ys (by simpa using h)]
    simp

theorem payFlags_length (share : Int) : ∀ (bonus : Nat) (fs : List Bool),
    (payFlags share bonus fs).length = fs.length
  | _, [] => by simp [payFlags]
  | 0, true :: fs => by simp [payFlags, payFlags_length share 0 fs]
  | b + 1, true :: fs => by simp [payFlags, payFlags_length share b fs]
  | b, false :: fs => by simp [payFlags, payFlags_length share b fs]

/-- every merged layer carries one flag per seat -/
theorem merge_flags_length (ss : List Seat) : ∀ (ls : List (Int × Int)),
    ∀ fc ∈ merge ss ls, fc.1.length = ss.length
  | [] => by simp [merge]
  | ab :: rest => by
    intro fc hfc
    have ih := merge_flags_length ss rest
    simp only [merge] at hfc
    cases hm : merge ss rest with
    | nil =>
      rw [hm] at hfc
      simp at hfc
      subst hfc
      simp [winnerFlags]
    | cons fc' more =>
      obtain ⟨f, c⟩ := fc'
      rw [hm] at hfc ih
      simp only at hfc
      split at hfc
      · rename_i heq
        simp only [List.mem_cons] at hfc
        rcases hfc with rfl | hfc
        · have := ih (f, c) (by simp)
          simpa using this
        · exact ih fc (by simp [hfc])
      · simp only [List.mem_cons] at hfc
        rcases hfc with rfl | rfl | hfc
        · simp [winnerFlags]
        · exact ih _ (by simp)
        · exact ih fc (by simp [hfc])

theorem foldr_payout_length (ss : List Seat) : ∀ (ms : List (List Bool × Int)),
    (∀ fc ∈ ms, fc.1.length = ss.length) →
    (ms.foldr (fun fc acc => addVec (payMerged fc) acc) (ss.map (fun _ => (0 : Int)))).length = ss.length
  | [], _ => by simp
  | fc :: ms, h => by
    simp only [List.foldr_cons]
    have ih := foldr_payout_length ss ms (fun x hx => h x (by simp [hx]))
    rw [addVec_length]
    · exact ih
    · rw [ih]; unfold payMerged; rw [payFlags_length]; exact h fc (by simp)

theorem payoutOf_length (ss : List Seat) (ls : List (Int × Int)) : (payoutOf ss ls).length = ss.length :=
  foldr_payout_length ss _ (merge_flags_length ss ls)

theorem merge_head_flags (ss : List Seat) (ab : Int × Int) (rest : List (Int × Int)) :
    ∃ c more, merge ss (ab :: rest) = (winnerFlags ss ab.2, c) :: more := by
  simp only [merge]
  cases hm : merge ss rest with
  | nil => exact ⟨_, _, rfl⟩
  | cons fc more =>
    obtain ⟨f, c⟩ := fc
    simp only
    split
    · rename_i heq; rw [← heq]; exact ⟨_, _, rfl⟩
    · exact ⟨_, _, rfl⟩

/-- a run of layers with the same winner flags in front of a run that starts differently is
    merged into one layer -/
theorem merge_chunk (ss : List Seat) (W : List Bool) : ∀ (chunk rest : List (Int × Int)),
    chunk ≠ [] → (∀ ab ∈ chunk, winnerFlags ss ab.2 = W) →
    (∀ ab r, rest = ab :: r → winnerFlags ss ab.2 ≠ W) →
    merge ss (chunk ++ rest)
      = (W, sumInt (chunk.map (fun ab => pot ss ab.1 ab.2))) :: merge ss rest
  | [], _, h, _, _ => absurd rfl h
  | [ab], rest, _, hW, hrest => by
    have hab := hW ab (by simp)
    simp only [List.singleton_append, merge, List.map_cons, List.map_nil, sumInt]
    cases rest with
    | nil => simp [merge, hab]
    | cons x r =>
      obtain ⟨c, more, hm⟩ := merge_head_flags ss x r
      have hne := hrest x r rfl
      rw [hm]
      simp only
      rw [if_neg (by rw [hab]; exact fun h => hne h.symm)]
      simp [hab]
  | ab :: ab' :: t, rest, _, hW, hrest => by
    have hab := hW ab (by simp)
    have ih := merge_chunk ss W (ab' :: t) rest (by simp) (fun x hx => hW x (by simp [hx])) hrest
    simp only [List.cons_append] at ih ⊢
    rw [merge, ih]
    simp only
    rw [if_pos hab]
    simp [sumInt]

theorem csum_eq_filter {α} (c : α → Bool) (f : α → Int) (l : List α) :
    csum c f l = sumInt ((l.filter c).map f) := by
  induction l with
  | nil => simp [csum_nil, sumInt]
  | cons x xs ih =>
    rw [csum_cons, ih, List.filter_cons]
    cases c x <;> simp [sumInt]

/-- layers of a chain are sorted by their ceilings -/
theorem layers_sorted {lo : Int} {lv : List Int} (h : Chain lo lv) :
    List.Pairwise (fun x y : Int × Int => x.2 < y.2) (layersFrom lo lv) := by
  induction lv generalizing lo with
  | nil => simp [layersFrom]
  | cons y ys ih =>
    simp only [layersFrom, List.pairwise_cons]
    refine ⟨?_, ih h.2⟩
    rintro ⟨a, b⟩ hab
    have ⟨h1, _, h3, _⟩ := layer_facts h.2 hab
    show y < b
    omega

theorem after_split {D D' : Int} (hle : D ≤ D') : ∀ (ls : List (Int × Int)),
    List.Pairwise (fun x y : Int × Int => x.2 < y.2) ls →
    after D ls = ls.filter (inChunk D D') ++ after D' ls
  | [], _ => by simp [after]
  | x :: ls, hp => by
    have ⟨hx, hp'⟩ := List.pairwise_cons.1 hp
    have ih := after_split hle ls hp'
    unfold after at ih ⊢
    simp only [List.filter_cons, inChunk]
    by_cases h1 : D < x.2
    · by_cases h2 : x.2 ≤ D'
      · have h3 : ¬ D' < x.2 := by omega
        simp [h1, h2, h3, ih]
      · have h3 : D' < x.2 := by omega
        have e1 : ls.filter (fun ab => decide (D < ab.2)) = ls :=
          List.filter_eq_self.2 (fun y hy => by have := hx y hy; simp; omega)
        have e2 : ls.filter (fun ab => decide (D' < ab.2)) = ls :=
          List.filter_eq_self.2 (fun y hy => by have := hx y hy; simp; omega)
        have e3 : ls.filter (inChunk D D') = [] :=
          List.filter_eq_nil_iff.2 (fun y hy => by have := hx y hy; simp [inChunk]; omega)
        simp [h1, h2, h3, e1, e2, e3]
    · have h2 : ¬ D' < x.2 := by omega
      simp [h1, h2, ih]

/-- every level is the ceiling of a layer -/
theorem layer_of_level {lo : Int} {lv : List Int} {b : Int} (hb : b ∈ lv) :
    ∃ a, (a, b) ∈ layersFrom lo lv := by
  induction lv generalizing lo with
  | nil => simp at hb
  | cons y ys ih =>
    rcases List.mem_cons.1 hb with rfl | hb
    · exact ⟨lo, by simp [layersFrom]⟩
    · obtain ⟨a, ha⟩ := ih (lo := y) hb
      exact ⟨a, by simp [layersFrom, ha]⟩

theorem countTrue_map (ss : List Seat) (c : Seat → Bool) :
    countTrue (ss.map c) = (ss.filter c).length := by
  simp [countTrue, List.filter_map, Function.comp_def]

/-- one engine layer is one merged layer of the specification -/
theorem exact_step {ss : List Seat} {b : Nat} {D D' : Int} (hc : Chunk ss b D D')
    (hD : D = 0 ∨ D ∈ levels ss) (hD' : D' ∈ levels ss) :
    payoutOf ss (after D (layers ss))
      = addVec (payFlags (potSum ss D D' / (((ss.filter (isWinnerS b D)).length : Nat) : Int))
          (potSum ss D D' % (((ss.filter (isWinnerS b D)).length : Nat) : Int)).toNat
          (ss.map (isWinnerS b D)))
        (payoutOf ss (after D' (layers ss))) := by
  have hle : D ≤ D' := by have := hc.lt; omega
  have hsorted := layers_sorted (chain_levels ss)
  have hsplit := after_split hle (layers ss) hsorted
  -- the chunk
  have hflags : ∀ ab ∈ (layers ss).filter (inChunk D D'), winnerFlags ss ab.2 = ss.map (isWinnerS b D) := by
    intro ab hab
    have ⟨_, hin⟩ := List.mem_filter.1 hab
    simp only [inChunk, Bool.and_eq_true, decide_eq_true_eq] at hin
    unfold winnerFlags
    apply List.map_congr_left
    intro s hs
    exact chunk_wins hc hs hin.1 hin.2
  have hne : (layers ss).filter (inChunk D D') ≠ [] := by
    obtain ⟨a, ha⟩ := layer_of_level (lo := 0) hD'
    intro he
    have : (a, D') ∈ (layers ss).filter (inChunk D D') :=
      List.mem_filter.2 ⟨ha, by simp [inChunk]; exact hc.lt⟩
    rw [he] at this
    simp at this
  have hrest : ∀ ab r, after D' (layers ss) = ab :: r → winnerFlags ss ab.2 ≠ ss.map (isWinnerS b D) := by
    intro ab r he hflag
    have hmem : ab ∈ after D' (layers ss) := by rw [he]; simp
    have hgt : D' < ab.2 := by
      have := (List.mem_filter.1 hmem).2
      simpa using this
    obtain ⟨w, hw, hww, hwr⟩ := hc.wit
    unfold winnerFlags at hflag
    have := (List.map_inj_left.1 hflag) w hw
    rw [hww] at this
    have hwin := (wins_iff.1 this).1.2
    omega
  have hm := merge_chunk ss (ss.map (isWinnerS b D)) _ _ hne hflags hrest
  have hsum : sumInt (((layers ss).filter (inChunk D D')).map (fun ab => pot ss ab.1 ab.2))
      = potSum ss D D' := by
    rw [← csum_eq_filter, ← chunk_total ss hD (Or.inr hD') hle]
    apply csum_congr _ _ _ _ _ (fun _ _ => rfl)
    rintro ⟨a, h⟩ hab _
    exact pot_eq_potSum ss hab
  unfold payoutOf
  rw [hsplit, hm, hsum]
  simp only [List.foldr_cons, payMerged, countTrue_map]

/-! ### the loop invariant (DESIGN A.2) -/

structure Good (ss : List Seat) (D : Int) (q : Entry) : Prop where
  folded : live (seat q) = false → q.reward = 0
  lo : lowerTo ss D (seat q) ≤ q.reward
  hi : q.reward ≤ upperTo ss D (seat q)
  cap : q.reward ≤ potSum ss 0 (min q.risked D)

structure LoopInv (ss : List Seat) (st : State) : Prop where
  seats_eq : seats st.payouts = ss
  nonneg : 0 ≤ st.distributing
  level : st.distributing = 0 ∨ st.distributing ∈ levels ss
  total : sumInt (st.payouts.map (·.reward)) = potSum ss 0 st.distributing
  each : ∀ q ∈ st.payouts, Good ss st.distributing q
  exact : addVec (st.payouts.map (·.reward)) (payoutOf ss (after st.distributing (layers ss))) = payout ss

theorem pay_rewards (b : Nat) (D share : Int) : ∀ (bonus : Nat) (ps : List Entry),
    (pay (some b) D share bonus ps).map (·.reward)
      = addVec (ps.map (·.reward)) (payFlags share bonus (ps.map (isWinner (some b) D)))
  | _, [] => by simp [pay, payFlags, addVec]
  | bonus, p :: ps => by
    simp only [pay, List.map_cons]
    cases hw : isWinner (some b) D p with
    | false =>
      simp only [Bool.false_eq_true, if_false, List.map_cons, payFlags, addVec]
      rw [pay_rewards b D share bonus ps]; simp
    | true =>
      simp only [if_true]
      cases bonus with
      | zero =>
        simp only [List.map_cons, payFlags, addVec]
        rw [pay_rewards b D share 0 ps]
      | succ k =>
        simp only [List.map_cons, payFlags, addVec]
        rw [pay_rewards b D share k ps]; simp; omega

theorem flags_seats (ps : List Entry) (b : Nat) (D : Int) :
    ps.map (isWinner (some b) D) = (seats ps).map (isWinnerS b D) := by
  simp [seats, List.map_map, Function.comp_def, isWinner_seat]

theorem mem_seats {ps : List Entry} {p : Entry} (h : p ∈ ps) : seat p ∈ seats ps :=
  List.mem_map_of_mem h

theorem of_mem_seats {ps : List Entry} {s : Seat} (h : s ∈ seats ps) : ∃ p ∈ ps, seat p = s := by
  simpa [seats] using h

theorem sum_over_seats (ps : List Entry) (g : Seat → Int) :
    sumInt (ps.map (fun p => g (seat p))) = sumInt ((seats ps).map g) := by
  simp [seats, List.map_map, Function.comp_def]

theorem filter_len_seats (ps : List Entry) (c : Seat → Bool) :
    (ps.filter (fun p => c (seat p))).length = ((seats ps).filter c).length := by
  simp [seats, List.filter_map, Function.comp_def]

theorem winners_len (ps : List Entry) (b : Nat) (D : Int) :
    (ps.filter (isWinner (some b) D)).length = ((seats ps).filter (isWinnerS b D)).length := by
  rw [← filter_len_seats]
  rw [List.filter_congr (fun p _ => isWinner_seat b D p)]

theorem winnings_eq (ps : List Entry) (b : Option Nat) {D D' : Int} (h : D ≤ D') :
    winnings ⟨ps, D', D, b⟩ = potSum (seats ps) D D' := by
  unfold winnings potSum
  rw [← sum_over_seats]
  apply sumInt_map_congr
  intro p _
  simp only [seat]; omega

theorem step {ss : List Seat} {st st1 : State} {b : Nat} {D' : Int} (hb : st.best = some b)
    (hI : LoopInv ss st)
    (hJ : ∀ s ∈ ss, live s = true → b < s.strength → s.risked ≤ st.distributing)
    (hr : remaining st = (st1, some D')) :
    LoopInv ss (distribute { st1 with distributing := D' }) ∧
    (distribute { st1 with distributing := D' }).best = some b ∧
    (distribute { st1 with distributing := D' }).distributing = D' ∧
    st.distributing < D' ∧ ∃ s ∈ ss, s.risked = D' := by
  obtain ⟨ps, D, d0, best⟩ := st
  simp only at hb hJ
  subst hb
  simp only [remaining, Prod.mk.injEq] at hr
  obtain ⟨rfl, hmin⟩ := hr
  have hseats : seats ps = ss := hI.seats_eq
  have ⟨hm1, hm2⟩ := minInt?_some hmin
  obtain ⟨w, hwf, hwr⟩ := List.mem_map.1 hm1
  have ⟨hwps, hww⟩ := List.mem_filter.1 hwf
  rw [isWinner_seat] at hww
  have hwss : seat w ∈ ss := hseats ▸ mem_seats hwps
  have hlt : D < D' := by
    have := (isWinnerS_iff.1 hww).2.1
    simp only [seat] at this; omega
  have hc : Chunk ss b D D' := by
    refine ⟨hlt, hJ, ⟨seat w, hwss, hww, hwr⟩, ?_⟩
    intro s hs hsw
    rw [← hseats] at hs
    obtain ⟨p, hp, rfl⟩ := of_mem_seats hs
    apply hm2
    apply List.mem_map.2
    exact ⟨p, List.mem_filter.2 ⟨hp, by rw [isWinner_seat]; exact hsw⟩, rfl⟩
  have hcnt := winners_len ps b D
  rw [hseats] at hcnt
  have hnpos : 0 < (ps.filter (isWinner (some b) D)).length :=
    List.length_pos_iff_exists_mem.2 ⟨w, hwf⟩
  have hchips : winnings ⟨ps, D', D, some b⟩ = potSum ss D D' := by
    rw [winnings_eq ps (some b) (by omega), hseats]
  have hcn : 0 ≤ potSum ss D D' := potSum_nonneg ss (by omega)
  have hDlev : D = 0 ∨ D ∈ levels ss := hI.level
  have hD'lev : D' ∈ levels ss := mem_levels.2 ⟨by have := hI.nonneg; simp only at this; omega, seat w, hwss, hwr⟩
  -- unfold `distribute`
  have hdist : distribute ⟨ps, D', D, some b⟩ =
      ⟨pay (some b) D (Int.tdiv (potSum ss D D') (((ps.filter (isWinner (some b) D)).length : Nat) : Int))
        (Int.tmod (potSum ss D D') (((ps.filter (isWinner (some b) D)).length : Nat) : Int)).toNat ps,
        D', D, some b⟩ := by
    simp only [distribute, hchips]
    rw [if_neg (by omega)]
  show LoopInv ss (distribute ⟨ps, D', D, some b⟩) ∧ (distribute ⟨ps, D', D, some b⟩).best = some b ∧
    (distribute ⟨ps, D', D, some b⟩).distributing = D' ∧ D < D' ∧ ∃ s ∈ ss, s.risked = D'
  rw [hdist, Int.tdiv_eq_ediv_of_nonneg hcn, Int.tmod_eq_emod_of_nonneg hcn, hcnt]
  generalize hn' : (((ss.filter (isWinnerS b D)).length : Nat) : Int) = n
  have hn : 0 < n := by omega
  refine ⟨?_, rfl, rfl, hlt, seat w, hwss, hwr⟩
  have hmod0 := Int.emod_nonneg (potSum ss D D') (b := n) (by omega)
  have hmodlt := Int.emod_lt_of_pos (potSum ss D D') hn
  have hex := exact_step hc hDlev hD'lev
  rw [hn'] at hex
  refine ⟨?_, ?_, Or.inr hD'lev, ?_, ?_, ?_⟩
  rotate_left 4
  · show addVec ((pay _ _ _ _ ps).map (·.reward)) (payoutOf ss (after D' (layers ss))) = payout ss
    have hx := hI.exact
    simp only at hx
    rw [pay_rewards, flags_seats, hseats, addVec_assoc, ← hex]
    exact hx
  · show seats (pay _ _ _ _ ps) = ss
    rw [seats_pay, hseats]
  · show 0 ≤ D'
    have := hI.nonneg; simp only at this; omega
  · show sumInt ((pay _ _ _ _ ps).map (·.reward)) = potSum ss 0 D'
    rw [pay_sum, hcnt, hn']
    have h1 := hI.total
    simp only at h1
    have h2 := Int.ediv_mul_add_emod (potSum ss D D') n
    have h3 := potSum_add ss 0 D D'
    have h4 : ((min (potSum ss D D' % n).toNat (ss.filter (isWinnerS b D)).length : Nat) : Int)
        = potSum ss D D' % n := by omega
    rw [h4, h1]
    omega
  · intro q hq
    show Good ss D' q
    obtain ⟨p, hp, hsq, hnw, hw'⟩ := pay_mem hq
    have hg := hI.each p hp
    simp only at hg
    have hps : seat p ∈ ss := hseats ▸ mem_seats hp
    have hbs := bounds_step hc hDlev (Or.inr hD'lev) hps
    rw [hn'] at hbs
    have hrq : q.risked = p.risked := by
      have := congrArg Seat.risked hsq; simpa [seat] using this
    cases hwin : isWinnerS b D (seat p)
    · -- not a winner of this engine layer
      have e := hnw hwin
      have ⟨b1, b2⟩ := hbs.1 hwin
      refine ⟨?_, ?_, ?_, ?_⟩
      · rw [hsq, e]; exact hg.folded
      · rw [hsq, e, b1]; exact hg.lo
      · rw [hsq, e, b2]; exact hg.hi
      · rw [e, hrq]
        have := potSum_mono ss (a := 0) (b := min p.risked D) (c := min p.risked D') (by omega)
        have := hg.cap
        omega
    · have ⟨b1, b2⟩ := hbs.2 hwin
      have hpay := hw' hwin
      have har := split_arith (potSum ss D D') n (q.reward - p.reward) hcn hn (by
        rcases hpay with h | ⟨h1, h2⟩
        · left; omega
        · right; exact ⟨h1, by omega⟩)
      have hwi := isWinnerS_iff.1 hwin
      have hge : D' ≤ p.risked := by
        have := hc.least (seat p) hps hwin; simpa [seat] using this
      refine ⟨?_, ?_, ?_, ?_⟩
      · intro hl; rw [hsq] at hl; rw [hwi.2.2] at hl; exact absurd hl (by simp)
      · rw [hsq]; have := hg.lo; omega
      · rw [hsq]; have := hg.hi; omega
      · rw [hrq]
        have h1 := hg.cap
        have e1 : min p.risked D = D := by omega
        have e2 : min p.risked D' = D' := by omega
        rw [e1] at h1; rw [e2]
        have := potSum_add ss 0 D D'
        omega

/-! ### the two loops -/

theorem loopInv_congr {ss : List Seat} {st st' : State} (h : LoopInv ss st)
    (hp : st'.payouts = st.payouts) (hd : st'.distributing = st.distributing) : LoopInv ss st' := by
  obtain ⟨h1, h2, h3, h4, h5, h6⟩ := h
  exact ⟨by rw [hp]; exact h1, by rw [hd]; exact h2, by rw [hd]; exact h3, by rw [hp, hd]; exact h4,
    by rw [hp, hd]; exact h5, by rw [hp, hd]; exact h6⟩

theorem inner_spec {ss : List Seat} {b : Nat} : ∀ (fuel : Nat) (st : State), st.best = some b →
    LoopInv ss st →
    (∀ s ∈ ss, live s = true → b < s.strength → s.risked ≤ st.distributing) →
    (ss.filter (fun s => decide (st.distributing < s.risked))).length < fuel →
    LoopInv ss (inner fuel st).1 ∧ (inner fuel st).1.best = some b ∧
    ((inner fuel st).2 = true → isComplete (inner fuel st).1 = true) ∧
    ((inner fuel st).2 = false →
      ∀ s ∈ ss, live s = true → b ≤ s.strength → s.risked ≤ (inner fuel st).1.distributing) := by
  intro fuel
  induction fuel with
  | zero => intro st _ _ _ h; omega
  | succ fuel ih =>
    intro st hb hI hJ hfuel
    cases hr : remaining st with
    | mk st1 r =>
      cases r with
      | none =>
        have hinn : inner (fuel + 1) st = (st1, false) := by simp only [inner, hr]
        rw [hinn]
        obtain ⟨ps, D, d0, best⟩ := st
        simp only at hb hJ hfuel
        subst hb
        simp only [remaining, Prod.mk.injEq] at hr
        obtain ⟨rfl, hnone⟩ := hr
        refine ⟨loopInv_congr hI rfl rfl, rfl, by simp, ?_⟩
        intro _ s hs hl hle
        show s.risked ≤ D
        by_cases hlt : b < s.strength
        · exact hJ s hs hl hlt
        · apply Classical.byContradiction
          intro hgt
          have hseats : seats ps = ss := hI.seats_eq
          rw [← hseats] at hs
          obtain ⟨p, hp, rfl⟩ := of_mem_seats hs
          have hw : isWinner (some b) D p = true := by
            rw [isWinner_seat]
            exact isWinnerS_iff.2 ⟨by omega, by omega, hl⟩
          have hemp := minInt?_eq_none.1 hnone
          have : p.risked ∈ (ps.filter (isWinner (some b) D)).map (·.risked) :=
            List.mem_map.2 ⟨p, List.mem_filter.2 ⟨hp, hw⟩, rfl⟩
          rw [hemp] at this
          simp at this
      | some D' =>
        have ⟨s1, s2, s3, s4, w, hw, hwr⟩ := step hb hI hJ hr
        have hJ' : ∀ s ∈ ss, live s = true → b < s.strength →
            s.risked ≤ (distribute { st1 with distributing := D' }).distributing := by
          intro s hs hl hlt
          have := hJ s hs hl hlt
          omega
        cases hcomp : isComplete (distribute { st1 with distributing := D' }) with
        | true =>
          have hinn : inner (fuel + 1) st = (distribute { st1 with distributing := D' }, true) := by
            simp only [inner, hr, hcomp, if_true]
          rw [hinn]
          exact ⟨s1, s2, fun _ => hcomp, by simp⟩
        | false =>
          have hinn : inner (fuel + 1) st = inner fuel (distribute { st1 with distributing := D' }) := by
            simp only [inner, hr, hcomp, Bool.false_eq_true, if_false]
          rw [hinn]
          apply ih _ s2 s1 hJ'
          rw [s3]
          have := filter_length_lt (fun s : Seat => decide (st.distributing < s.risked))
            (fun s : Seat => decide (D' < s.risked)) ss
            (by intro x _ hx; simp only [decide_eq_true_eq] at hx ⊢; omega)
            w hw (by simp only [decide_eq_true_eq]; omega) (by simp only [decide_eq_false_iff_not]; omega)
          omega

theorem below_false {best : Option Nat} {x b : Nat} (hb : below best b = true)
    (h : below best x = false) : b < x := by
  cases best with
  | none => simp [below] at h
  | some k => simp [below] at h hb; omega

/-- what the proofs need of the property's hypotheses: commitments are non-negative and some
    contesting seat holds the largest commitment of the table -/
def Covered (ss : List Seat) : Prop :=
  (∀ s ∈ ss, 0 ≤ s.risked) ∧ ∃ m ∈ ss, live m = true ∧ ∀ s ∈ ss, s.risked ≤ m.risked

theorem Covered.of_valid {ss : List Seat} (h : Valid ss) : Covered ss := by
  obtain ⟨h1, m, hm, hml, hmax, _⟩ := h
  exact ⟨h1, m, hm, hml, hmax⟩

theorem outer_spec {ss : List Seat} (hv : Covered ss) : ∀ (fuel : Nat) (st : State), LoopInv ss st →
    (∀ s ∈ ss, live s = true → below st.best s.strength = false → s.risked ≤ st.distributing) →
    (ss.filter (fun s => live s && below st.best s.strength)).length < fuel →
    LoopInv ss (outer fuel st) ∧ ∀ s ∈ ss, s.risked ≤ (outer fuel st).distributing := by
  intro fuel
  induction fuel with
  | zero => intro st _ _ h; omega
  | succ fuel ih =>
    intro st hI hJ hfuel
    have hseats : seats st.payouts = ss := hI.seats_eq
    cases hs : strongest st with
    | none =>
      have hout : outer (fuel + 1) st = st := by simp only [outer, hs]
      rw [hout]
      refine ⟨hI, ?_⟩
      obtain ⟨_, m, hm, hml, hmax⟩ := hv
      have hmD : m.risked ≤ st.distributing := by
        apply hJ m hm hml
        cases hbm : below st.best m.strength with
        | false => rfl
        | true =>
          exfalso
          rw [← hseats] at hm
          obtain ⟨p, hp, rfl⟩ := of_mem_seats hm
          have hemp := maxNat?_eq_none.1 hs
          have : p.strength ∈ ((st.payouts.filter (fun p => below st.best p.strength)).filter
              (fun p => p.status ≠ Status.folding)).map (·.strength) := by
            apply List.mem_map.2
            refine ⟨p, List.mem_filter.2 ⟨List.mem_filter.2 ⟨hp, hbm⟩, ?_⟩, rfl⟩
            simpa [live, seat] using hml
          rw [hemp] at this
          simp at this
      intro s hs'
      have := hmax s hs'
      omega
    | some s' =>
      have ⟨hmem, hmax⟩ := maxNat?_some hs
      obtain ⟨p, hpf, hps'⟩ := List.mem_map.1 hmem
      have ⟨hpf2, hplive⟩ := List.mem_filter.1 hpf
      have ⟨hp, hpbelow⟩ := List.mem_filter.1 hpf2
      have hpss : seat p ∈ ss := hseats ▸ mem_seats hp
      have hplive' : live (seat p) = true := by simpa [live, seat] using hplive
      -- strength of any live seat below `best` is at most s'
      have hle : ∀ s ∈ ss, live s = true → below st.best s.strength = true → s.strength ≤ s' := by
        intro s hs1 hl hb
        rw [← hseats] at hs1
        obtain ⟨q, hq, rfl⟩ := of_mem_seats hs1
        apply hmax
        apply List.mem_map.2
        refine ⟨q, List.mem_filter.2 ⟨List.mem_filter.2 ⟨hq, hb⟩, ?_⟩, rfl⟩
        simpa [live, seat] using hl
      have hI' : LoopInv ss { st with best := some s' } := loopInv_congr hI rfl rfl
      have hJi : ∀ s ∈ ss, live s = true → s' < s.strength →
          s.risked ≤ ({ st with best := some s' } : State).distributing := by
        intro s hs1 hl hlt
        apply hJ s hs1 hl
        cases hb : below st.best s.strength with
        | false => rfl
        | true => have := hle s hs1 hl hb; omega
      have hlen : ss.length = st.payouts.length := by rw [← hseats]; simp [seats]
      have hfuel' : (ss.filter (fun s => decide (({ st with best := some s' } : State).distributing
          < s.risked))).length < st.payouts.length + 1 := by
        have := List.length_filter_le (fun s : Seat => decide (st.distributing < s.risked)) ss
        show (ss.filter (fun s => decide (st.distributing < s.risked))).length < _
        omega
      have ⟨i1, i2, i3, i4⟩ := inner_spec (b := s') (st.payouts.length + 1) { st with best := some s' }
        rfl hI' hJi hfuel'
      cases hin : inner (st.payouts.length + 1) { st with best := some s' } with
      | mk st1 flag =>
        rw [hin] at i1 i2 i3 i4
        simp only at i1 i2 i3 i4
        cases flag with
        | true =>
          have hout : outer (fuel + 1) st = st1 := by simp only [outer, hs, hin]
          rw [hout]
          refine ⟨i1, ?_⟩
          -- complete: every commitment is covered
          have hc := i3 rfl
          simp only [isComplete, beq_iff_eq] at hc
          have hs1 : seats st1.payouts = ss := i1.seats_eq
          have ht := i1.total
          have e1 : sumInt (st1.payouts.map (·.risked)) = sumInt (ss.map (·.risked)) := by
            rw [← hs1]; exact sum_over_seats st1.payouts (·.risked)
          have hnn := hv.1
          have hD := i1.nonneg
          have := sumInt_map_eq_of_le (fun s : Seat => min s.risked st1.distributing - min s.risked 0)
            (·.risked) ss (by intro s hs2; have := hnn s hs2; show min s.risked st1.distributing - min s.risked 0 ≤ s.risked; omega)
            (by unfold potSum at ht; omega)
          intro s hs2
          have h1 : min s.risked st1.distributing - min s.risked 0 = s.risked := this s hs2
          have h2 := hnn s hs2
          omega
        | false =>
          have hout : outer (fuel + 1) st = outer fuel st1 := by simp only [outer, hs, hin]
          rw [hout]
          apply ih st1 i1
          · intro s hs1 hl hb
            apply i4 rfl s hs1 hl
            rw [i2] at hb
            simp [below] at hb
            exact hb
          · rw [i2]
            have := filter_length_lt (fun s : Seat => live s && below st.best s.strength)
              (fun s : Seat => live s && below (some s') s.strength) ss
              (by
                intro x _ hx
                simp only [Bool.and_eq_true] at hx ⊢
                refine ⟨hx.1, ?_⟩
                have h2 := hx.2
                cases hbx : below st.best x.strength with
                | true => rfl
                | false =>
                  have := below_false hpbelow hbx
                  simp [below] at h2
                  have e : (seat p).strength = s' := hps'
                  simp only [seat] at e
                  omega)
              (seat p) hpss (by simp [hplive']; exact hpbelow)
              (by
                have e : (seat p).strength = s' := hps'
                simp [below, e])
            omega

/-- the initial state satisfies the invariant -/
theorem loopInv_init {l : List Entry} (hz : ∀ p ∈ l, p.reward = 0)
    (hnn : ∀ s ∈ seats l, 0 ≤ s.risked) : LoopInv (seats l) (init l) := by
  refine ⟨rfl, Int.le_refl _, Or.inl rfl, ?_, ?_, ?_⟩
  rotate_left 2
  · show addVec (l.map (·.reward)) (payoutOf (seats l) (after 0 (layers (seats l)))) = payout (seats l)
    have e1 : after 0 (layers (seats l)) = layers (seats l) := by
      apply List.filter_eq_self.2
      rintro ⟨a, b⟩ hab
      have ⟨h1, _, h3, _⟩ := layer_facts (chain_levels (seats l)) hab
      simp; omega
    have e2 : l.map (·.reward) = l.map (fun _ => (0 : Int)) := List.map_congr_left hz
    rw [e1, e2, addVec_zeros_left l _ (by rw [payoutOf_length]; simp [seats])]
    rfl
  · show sumInt (l.map (·.reward)) = potSum (seats l) 0 0
    rw [potSum_self, sumInt_map_congr _ (fun _ => (0 : Int)) l hz]
    exact sumInt_map_zero l
  · intro q hq
    show Good (seats l) 0 q
    have h0 := hz q hq
    have hr := hnn (seat q) (mem_seats hq)
    simp only [seat] at hr
    refine ⟨fun _ => h0, ?_, ?_, ?_⟩
    · rw [lowerTo_zero, h0]; exact Int.le_refl _
    · rw [upperTo_zero, h0]; exact Int.le_refl _
    · have : min q.risked 0 = 0 := by omega
      rw [this, potSum_self, h0]; exact Int.le_refl _

/-- what holds after `settle` on a valid ledger -/
theorem run_spec_covered {l : List Entry} (hz : ∀ p ∈ l, p.reward = 0) (hv : Covered (seats l)) :
    LoopInv (seats l) (run l) ∧ ∀ s ∈ seats l, s.risked ≤ (run l).distributing := by
  apply outer_spec hv (l.length + 1) (init l) (loopInv_init hz hv.1)
  · intro s _ _ hb; simp [init, below] at hb
  · have := List.length_filter_le (fun s : Seat => live s && below (init l).best s.strength) (seats l)
    have e : (seats l).length = l.length := by simp [seats]
    omega

theorem run_spec {l : List Entry} (hl : ValidLedger l) :
    LoopInv (seats l) (run l) ∧ ∀ s ∈ seats l, s.risked ≤ (run l).distributing :=
  run_spec_covered hl.1 (Covered.of_valid hl.2)

/-! ### the `while let` loops without fuel

`InnerRun`/`OuterRun` are the big-step semantics of the two `while let` loops of
`Showdown::settle` (a derivation exists iff the loop terminates with that result). The fuel of
the model is shown to be enough for *every* ledger, inside or outside the property's hypotheses:
`distributing` strictly increases over the commitments present, `best` strictly decreases over
the strengths present. -/

inductive InnerRun : State → State → Bool → Prop
  | done {st st1 : State} : remaining st = (st1, none) → InnerRun st st1 false
  | complete {st st1 : State} {a : Int} : remaining st = (st1, some a) →
      isComplete (distribute { st1 with distributing := a }) = true →
      InnerRun st (distribute { st1 with distributing := a }) true
  | next {st st1 st' : State} {a : Int} {f : Bool} : remaining st = (st1, some a) →
      isComplete (distribute { st1 with distributing := a }) = false →
      InnerRun (distribute { st1 with distributing := a }) st' f → InnerRun st st' f

inductive OuterRun : State → State → Prop
  | done {st : State} : strongest st = none → OuterRun st st
  | brk {st st1 : State} {s : Nat} : strongest st = some s →
      InnerRun { st with best := some s } st1 true → OuterRun st st1
  | next {st st1 st2 : State} {s : Nat} : strongest st = some s →
      InnerRun { st with best := some s } st1 false → OuterRun st1 st2 → OuterRun st st2

theorem distribute_frame (st : State) :
    seats (distribute st).payouts = seats st.payouts ∧ (distribute st).best = st.best ∧
    (distribute st).distributing = st.distributing := by
  simp only [distribute]
  split
  · exact ⟨rfl, rfl, rfl⟩
  · exact ⟨seats_pay _ _ _ _ _, rfl, rfl⟩

theorem remaining_some {st st1 : State} {a : Int} (h : remaining st = (st1, some a)) :
    st1.payouts = st.payouts ∧ st1.best = st.best ∧ st.distributing < a ∧
    ∃ p ∈ st.payouts, p.risked = a := by
  simp only [remaining, Prod.mk.injEq] at h
  obtain ⟨rfl, hmin⟩ := h
  have ⟨hm1, _⟩ := minInt?_some hmin
  obtain ⟨w, hwf, hwr⟩ := List.mem_map.1 hm1
  have ⟨hwps, hww⟩ := List.mem_filter.1 hwf
  refine ⟨rfl, rfl, ?_, w, hwps, hwr⟩
  simp only [isWinner, Bool.and_eq_true, decide_eq_true_eq] at hww
  omega

theorem inner_run : ∀ (fuel : Nat) (st : State),
    ((seats st.payouts).filter (fun s => decide (st.distributing < s.risked))).length < fuel →
    InnerRun st (inner fuel st).1 (inner fuel st).2 ∧
    seats (inner fuel st).1.payouts = seats st.payouts ∧ (inner fuel st).1.best = st.best := by
  intro fuel
  induction fuel with
  | zero => intro st h; omega
  | succ fuel ih =>
    intro st hfuel
    cases hr : remaining st with
    | mk st1 r =>
      cases r with
      | none =>
        have hinn : inner (fuel + 1) st = (st1, false) := by simp only [inner, hr]
        rw [hinn]
        refine ⟨InnerRun.done hr, ?_, ?_⟩
        · simp only [remaining, Prod.mk.injEq] at hr; rw [← hr.1]
        · simp only [remaining, Prod.mk.injEq] at hr; rw [← hr.1]
      | some a =>
        have ⟨r1, r2, r3, w, hw, hwr⟩ := remaining_some hr
        have ⟨f1', f2', f3⟩ := distribute_frame { st1 with distributing := a }
        have f1 : seats (distribute { st1 with distributing := a }).payouts = seats st.payouts :=
          f1'.trans (congrArg seats r1)
        have f2 : (distribute { st1 with distributing := a }).best = st.best := f2'.trans r2
        have f3 : (distribute { st1 with distributing := a }).distributing = a := f3
        cases hcomp : isComplete (distribute { st1 with distributing := a }) with
        | true =>
          have hinn : inner (fuel + 1) st = (distribute { st1 with distributing := a }, true) := by
            simp only [inner, hr, hcomp, if_true]
          rw [hinn]
          exact ⟨InnerRun.complete hr hcomp, f1, f2⟩
        | false =>
          have hinn : inner (fuel + 1) st = inner fuel (distribute { st1 with distributing := a }) := by
            simp only [inner, hr, hcomp, Bool.false_eq_true, if_false]
          rw [hinn]
          have hm : ((seats (distribute { st1 with distributing := a }).payouts).filter
              (fun s => decide ((distribute { st1 with distributing := a }).distributing < s.risked))).length
              < fuel := by
            rw [f1, f3]
            have := filter_length_lt (fun s : Seat => decide (st.distributing < s.risked))
              (fun s : Seat => decide (a < s.risked)) (seats st.payouts)
              (by intro x _ hx; simp only [decide_eq_true_eq] at hx ⊢; omega)
              (seat w) (mem_seats hw)
              (by show decide (st.distributing < w.risked) = true; simp only [decide_eq_true_eq]; omega)
              (by show decide (a < w.risked) = false; simp only [decide_eq_false_iff_not]; omega)
            omega
          have ⟨i1, i2, i3⟩ := ih _ hm
          exact ⟨InnerRun.next hr hcomp i1, by rw [i2, f1], by rw [i3, f2]⟩

theorem outer_run : ∀ (fuel : Nat) (st : State),
    ((seats st.payouts).filter (fun s => live s && below st.best s.strength)).length < fuel →
    OuterRun st (outer fuel st) := by
  intro fuel
  induction fuel with
  | zero => intro st h; omega
  | succ fuel ih =>
    intro st hfuel
    cases hs : strongest st with
    | none =>
      have hout : outer (fuel + 1) st = st := by simp only [outer, hs]
      rw [hout]
      exact OuterRun.done hs
    | some s' =>
      have ⟨hmem, _⟩ := maxNat?_some hs
      obtain ⟨p, hpf, hps'⟩ := List.mem_map.1 hmem
      have ⟨hpf2, hplive⟩ := List.mem_filter.1 hpf
      have ⟨hp, hpbelow⟩ := List.mem_filter.1 hpf2
      have hplive' : live (seat p) = true := by simpa [live, seat] using hplive
      have hfuel' : ((seats ({ st with best := some s' } : State).payouts).filter
          (fun s => decide (({ st with best := some s' } : State).distributing < s.risked))).length
          < st.payouts.length + 1 := by
        have := List.length_filter_le (fun s : Seat => decide (st.distributing < s.risked)) (seats st.payouts)
        have e : (seats st.payouts).length = st.payouts.length := by simp [seats]
        show ((seats st.payouts).filter (fun s => decide (st.distributing < s.risked))).length < _
        omega
      have ⟨i1, i2, i3⟩ := inner_run (st.payouts.length + 1) { st with best := some s' } hfuel'
      cases hin : inner (st.payouts.length + 1) { st with best := some s' } with
      | mk st1 flag =>
        rw [hin] at i1 i2 i3
        simp only at i1 i2 i3
        cases flag with
        | true =>
          have hout : outer (fuel + 1) st = st1 := by simp only [outer, hs, hin]
          rw [hout]
          exact OuterRun.brk hs i1
        | false =>
          have hout : outer (fuel + 1) st = outer fuel st1 := by simp only [outer, hs, hin]
          rw [hout]
          apply OuterRun.next hs i1
          apply ih
          rw [i2, i3]
          have := filter_length_lt (fun s : Seat => live s && below st.best s.strength)
            (fun s : Seat => live s && below (some s') s.strength) (seats st.payouts)
            (by
              intro x _ hx
              simp only [Bool.and_eq_true] at hx ⊢
              refine ⟨hx.1, ?_⟩
              have h2 := hx.2
              cases hbx : below st.best x.strength with
              | true => rfl
              | false =>
                have := below_false hpbelow hbx
                simp [below] at h2
                have e : (seat p).strength = s' := hps'
                simp only [seat] at e
                omega)
            (seat p) (mem_seats hp) (by simp [hplive']; exact hpbelow)
            (by
              have e : (seat p).strength = s' := hps'
              simp [below, e])
          omega

end RP.C04L
