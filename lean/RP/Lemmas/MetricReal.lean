import RP.Lemmas.ArithReal
/-! `Metric` over ℝ: symmetry by construction (XOR pair key) and the `Metric::from` normalisation. -/
namespace RP.Transport

/-- `Metric::lookup` cannot tell `(x, y)` from `(y, x)`: the key is the XOR of the two codes -/
theorem Metric.lookup_symm {α : Type} [Arith α] (m : Metric α) (x y : Nat) : m.lookup x y = m.lookup y x := by
  unfold Metric.lookup; rw [pairKey_comm]

/-- `Metric::distance` is symmetric (over ℝ) -/
theorem Metric.distance_symm (m : Metric ℝ) (x y : Nat) : m.distance x y = m.distance y x := by
  unfold Metric.distance
  by_cases h : x = y
  · subst h; rfl
  · have h' : ¬ y = x := fun e => h e.symm
    simp only [h, h', if_false]
    by_cases h1 : variantOf x = 1 ∧ variantOf y = 1
    · have h1' : variantOf y = 1 ∧ variantOf x = 1 := ⟨h1.2, h1.1⟩
      simp only [h1, h1', and_self, if_true]; exact m.lookup_symm x y
    · have h1' : ¬ (variantOf y = 1 ∧ variantOf x = 1) := fun e => h1 ⟨e.2, e.1⟩
      simp only [h1, h1', if_false]
      by_cases h0 : variantOf x = 0 ∧ variantOf y = 0
      · have h0' : variantOf y = 0 ∧ variantOf x = 0 := ⟨h0.2, h0.1⟩
        simp only [h0, h0', and_self, if_true, equityDistance, R_abs, R_sub]
        rw [abs_sub_comm]
      · have h0' : ¬ (variantOf y = 0 ∧ variantOf x = 0) := fun e => h0 ⟨e.2, e.1⟩
        simp only [h0, h0', if_false]

theorem Metric.distD_symm (m : Metric ℝ) (x y : Nat) : m.distD x y = m.distD y x := by
  unfold Metric.distD; rw [Metric.distance_symm]

/-! ### `Metric::from`: divide by `fold(MIN_POSITIVE, max)` -/

theorem foldl_max_ge (es : List (Nat × ℝ)) (a : ℝ) :
    a ≤ es.foldl (fun acc e => max acc e.2) a ∧ ∀ e ∈ es, e.2 ≤ es.foldl (fun acc e => max acc e.2) a := by
  induction es generalizing a with
  | nil => simp
  | cons x xs ih =>
    obtain ⟨h1, h2⟩ := ih (max a x.2)
    refine ⟨le_trans (le_max_left _ _) h1, ?_⟩
    intro e he
    rcases List.mem_cons.mp he with rfl | he
    · exact le_trans (le_max_right _ _) h1
    · exact h2 e he

theorem foldl_max_mem (es : List (Nat × ℝ)) (a : ℝ) :
    es.foldl (fun acc e => max acc e.2) a = a ∨ ∃ e ∈ es, es.foldl (fun acc e => max acc e.2) a = e.2 := by
  induction es generalizing a with
  | nil => left; rfl
  | cons x xs ih =>
    rcases ih (max a x.2) with h | ⟨e, he, h⟩
    · rcases max_choice a x.2 with hm | hm
      · left; simp only [List.foldl_cons]; rw [h, hm]
      · right; exact ⟨x, by simp, by simp only [List.foldl_cons]; rw [h, hm]⟩
    · right; exact ⟨e, by simp [he], by simpa using h⟩

theorem Metric.maxValue_R (es : List (Nat × ℝ)) :
    Metric.maxValue es = es.foldl (fun acc e => max acc e.2) minPosR := rfl

/-- **`Metric::from` over ℝ**: entries with non-negative values are scaled into `[0, 1]`;
    if some raw value reaches `MIN_POSITIVE` the maximum of the scaled values is exactly `1`;
    if all raw values are `0` all scaled values are `0`; keys are untouched. -/
theorem Metric.normalize_spec (es : List (Nat × ℝ)) (hpos : ∀ e ∈ es, 0 ≤ e.2) :
    ((Metric.normalize es).entries.map Prod.fst = es.map Prod.fst) ∧
    (∀ e ∈ (Metric.normalize es).entries, 0 ≤ e.2 ∧ e.2 ≤ 1) ∧
    ((∃ e ∈ es, minPosR ≤ e.2) → ∃ e ∈ (Metric.normalize es).entries, e.2 = 1) ∧
    ((∀ e ∈ es, e.2 = 0) → ∀ e ∈ (Metric.normalize es).entries, e.2 = 0) := by
  have hM := foldl_max_ge es minPosR
  have hMpos : 0 < Metric.maxValue es := lt_of_lt_of_le minPosR_pos (by rw [Metric.maxValue_R]; exact hM.1)
  refine ⟨?_, ?_, ?_, ?_⟩
  · simp [Metric.normalize, Metric.scale, List.map_map, Function.comp_def]
  · intro e he
    simp only [Metric.normalize, Metric.scale, List.mem_map] at he
    obtain ⟨e0, he0, rfl⟩ := he
    simp only [R_div]
    refine ⟨div_nonneg (hpos e0 he0) (le_of_lt hMpos), ?_⟩
    rw [div_le_one hMpos, Metric.maxValue_R]
    exact hM.2 e0 he0
  · rintro ⟨e, he, hge⟩
    rcases foldl_max_mem es minPosR with h | ⟨e1, he1, h⟩
    · -- the maximum is MIN_POSITIVE itself, and `e` attains it
      have : e.2 = Metric.maxValue es := by
        rw [Metric.maxValue_R]
        exact le_antisymm (hM.2 e he) (by rw [h]; exact hge)
      refine ⟨(e.1, e.2 / Metric.maxValue es), ?_, ?_⟩
      · simp only [Metric.normalize, Metric.scale, List.mem_map]; exact ⟨e, he, rfl⟩
      · simp only; rw [this]; exact div_self (ne_of_gt (this ▸ hMpos))
    · refine ⟨(e1.1, e1.2 / Metric.maxValue es), ?_, ?_⟩
      · simp only [Metric.normalize, Metric.scale, List.mem_map]; exact ⟨e1, he1, rfl⟩
      · simp only; rw [Metric.maxValue_R, h]
        have : 0 < e1.2 := by rw [← h, ← Metric.maxValue_R]; exact hMpos
        exact div_self (ne_of_gt this)
  · intro hz e he
    simp only [Metric.normalize, Metric.scale, List.mem_map] at he
    obtain ⟨e0, he0, rfl⟩ := he
    simp [hz e0 he0]

end RP.Transport
