import Mathlib.Analysis.SpecialFunctions.Log.Basic
import Mathlib.Algebra.BigOperators.Ring.Finset
import Mathlib.Algebra.BigOperators.Field
import Mathlib.Algebra.Order.BigOperators.Group.Finset
import Mathlib.Tactic.Ring
import Mathlib.Tactic.Linarith
import Mathlib.Tactic.Positivity
/-! Entropic optimal transport: a plan of Gibbs form `P = exp(f ⊕ g − C/T)` minimises
    `⟨·, C⟩ − T·H(·)` among the plans with its own marginals (`T·KL(Q‖P) ≥ 0`), hence its cost is
    within `T · min(H(rows), H(cols))` of the optimal cost for those marginals. -/
namespace RP.Entropic
open Finset

variable {ι κ : Type} [Fintype ι] [Fintype κ]

/-- Shannon entropy (nats) of a non-negative vector, `0 log 0 = 0` -/
noncomputable def ent {α : Type} [Fintype α] (v : α → ℝ) : ℝ := ∑ i, -(v i * Real.log (v i))

/-- entropy of a plan -/
noncomputable def entJ (R : ι → κ → ℝ) : ℝ := ∑ i, ∑ j, -(R i j * Real.log (R i j))

/-- Gibbs' inequality, one term: `q − p ≤ q log q − q log p` for `q ≥ 0`, `p > 0` -/
theorem gibbs_term (q p : ℝ) (hq : 0 ≤ q) (hp : 0 < p) : q - p ≤ q * Real.log q - q * Real.log p := by
  rcases eq_or_lt_of_le hq with h | h
  · rw [← h]; simp; exact le_of_lt hp
  · have hl := Real.log_le_sub_one_of_pos (div_pos hp h)
    rw [Real.log_div (ne_of_gt hp) (ne_of_gt h)] at hl
    have := mul_le_mul_of_nonneg_left hl (le_of_lt h)
    have e : q * (p / q - 1) = p - q := by field_simp
    rw [e] at this
    linarith

/-- the Gibbs plan of potentials `f, g`, cost `C`, temperature `T` -/
noncomputable def gibbs (T : ℝ) (f : ι → ℝ) (g : κ → ℝ) (C : ι → κ → ℝ) (i : ι) (j : κ) : ℝ :=
  Real.exp (f i + g j - C i j / T)

theorem gibbs_pos (T : ℝ) (f : ι → ℝ) (g : κ → ℝ) (C : ι → κ → ℝ) (i : ι) (j : κ) : 0 < gibbs T f g C i j :=
  Real.exp_pos _

/-- **variational principle**: the Gibbs plan minimises `⟨R, C⟩ − T·H(R)` among the non-negative
    plans with its own row and column sums -/
theorem gibbs_minimises (T : ℝ) (hT : 0 < T) (f : ι → ℝ) (g : κ → ℝ) (C Q : ι → κ → ℝ)
    (hQ : ∀ i j, 0 ≤ Q i j)
    (hrow : ∀ i, ∑ j, Q i j = ∑ j, gibbs T f g C i j)
    (hcol : ∀ j, ∑ i, Q i j = ∑ i, gibbs T f g C i j) :
    (∑ i, ∑ j, gibbs T f g C i j * C i j) - T * entJ (gibbs T f g C)
      ≤ (∑ i, ∑ j, Q i j * C i j) - T * entJ Q := by
  set P := gibbs T f g C with hP
  have hT' : T ≠ 0 := ne_of_gt hT
  -- Φ(P) = T (Σ f a + Σ g b)
  have hlogP : ∀ i j, Real.log (P i j) = f i + g j - C i j / T := fun i j => by
    rw [hP]; unfold gibbs; rw [Real.log_exp]
  have hPhiP : (∑ i, ∑ j, P i j * C i j) - T * entJ P
      = ∑ i, ∑ j, T * (P i j * (f i + g j)) := by
    unfold entJ
    rw [mul_sum, ← sum_sub_distrib]
    apply sum_congr rfl; intro i _
    rw [mul_sum, ← sum_sub_distrib]
    apply sum_congr rfl; intro j _
    rw [hlogP]; field_simp; ring
  -- Φ(Q) ≥ T (Σ f a + Σ g b)
  have hterm : ∀ i j, T * (Q i j * (f i + g j)) + T * (Q i j - P i j)
      ≤ Q i j * C i j - T * -(Q i j * Real.log (Q i j)) := by
    intro i j
    have hg := gibbs_term (Q i j) (P i j) (hQ i j) (gibbs_pos T f g C i j)
    rw [hlogP] at hg
    have := mul_le_mul_of_nonneg_left hg (le_of_lt hT)
    have e : T * (Q i j * Real.log (Q i j) - Q i j * (f i + g j - C i j / T))
        = T * (Q i j * Real.log (Q i j)) - T * (Q i j * (f i + g j)) + Q i j * C i j := by
      field_simp; ring
    rw [e] at this
    linarith
  have hPhiQ : (∑ i, ∑ j, T * (Q i j * (f i + g j))) + ∑ i, ∑ j, T * (Q i j - P i j)
      ≤ (∑ i, ∑ j, Q i j * C i j) - T * entJ Q := by
    unfold entJ
    rw [mul_sum, ← sum_sub_distrib, ← sum_add_distrib]
    apply sum_le_sum; intro i _
    rw [mul_sum, ← sum_sub_distrib, ← sum_add_distrib]
    apply sum_le_sum; intro j _
    exact hterm i j
  -- same marginals: the f- and g-weighted sums agree and the total masses agree
  have hzero : ∑ i, ∑ j, T * (Q i j - P i j) = 0 := by
    apply sum_eq_zero; intro i _
    rw [← mul_sum, sum_sub_distrib, hrow i, sub_self, mul_zero]
  have hfg : ∑ i, ∑ j, T * (Q i j * (f i + g j)) = ∑ i, ∑ j, T * (P i j * (f i + g j)) := by
    have split : ∀ R : ι → κ → ℝ, ∑ i, ∑ j, T * (R i j * (f i + g j))
        = T * (∑ i, f i * ∑ j, R i j) + T * (∑ j, g j * ∑ i, R i j) := by
      intro R
      have h1 : ∑ i, ∑ j, T * (R i j * (f i + g j))
          = (∑ i, ∑ j, T * (f i * R i j)) + ∑ i, ∑ j, T * (g j * R i j) := by
        rw [← sum_add_distrib]; apply sum_congr rfl; intro i _
        rw [← sum_add_distrib]; apply sum_congr rfl; intro j _; ring
      rw [h1]
      congr 1
      · rw [mul_sum]; apply sum_congr rfl; intro i _
        rw [mul_sum, mul_sum]
      · rw [sum_comm, mul_sum]; apply sum_congr rfl; intro j _
        rw [mul_sum, mul_sum]
    rw [split Q, split P]
    simp only [hrow, hcol]
  rw [hPhiP, ← hfg]
  linarith

/-- the entropy of a positive plan of total mass `≤ 1` is at most the sum of its marginal entropies -/
theorem entJ_le_marginals (P : ι → κ → ℝ) (hP : ∀ i j, 0 < P i j) (hs : ∑ i, ∑ j, P i j ≤ 1) :
    entJ P ≤ ent (fun i => ∑ j, P i j) + ent (fun j => ∑ i, P i j) := by
  set a : ι → ℝ := fun i => ∑ j, P i j with ha
  set b : κ → ℝ := fun j => ∑ i, P i j with hb
  have hapos : ∀ i j, 0 < a i := fun i j =>
    lt_of_lt_of_le (hP i j) (single_le_sum (f := fun j => P i j) (fun j _ => le_of_lt (hP i j)) (mem_univ j))
  have hbpos : ∀ i j, 0 < b j := fun i j =>
    lt_of_lt_of_le (hP i j) (single_le_sum (f := fun i => P i j) (fun i _ => le_of_lt (hP i j)) (mem_univ i))
  -- Gibbs against the product of the marginals
  have hterm : ∀ i j, P i j - a i * b j
      ≤ P i j * Real.log (P i j) - P i j * (Real.log (a i) + Real.log (b j)) := by
    intro i j
    have := gibbs_term (P i j) (a i * b j) (le_of_lt (hP i j)) (mul_pos (hapos i j) (hbpos i j))
    rwa [Real.log_mul (ne_of_gt (hapos i j)) (ne_of_gt (hbpos i j))] at this
  have hsum := sum_le_sum (s := univ) fun i (_ : i ∈ univ) => sum_le_sum (s := univ) fun j (_ : j ∈ univ) => hterm i j
  have hl : ∑ i, ∑ j, (P i j - a i * b j) = (∑ i, ∑ j, P i j) - (∑ i, ∑ j, P i j) * (∑ i, ∑ j, P i j) := by
    simp only [sum_sub_distrib]
    congr 1
    have h1 : ∑ i, ∑ j, a i * b j = (∑ i, a i) * ∑ j, b j := by
      rw [sum_mul]; apply sum_congr rfl; intro i _; rw [mul_sum]
    rw [h1]
    have h2 : ∑ j, b j = ∑ i, ∑ j, P i j := by rw [hb]; exact sum_comm
    rw [h2]
  have hr : ∑ i, ∑ j, (P i j * Real.log (P i j) - P i j * (Real.log (a i) + Real.log (b j)))
      = -entJ P + ent a + ent b := by
    unfold entJ ent
    have h1 : ∑ i, ∑ j, P i j * (Real.log (a i) + Real.log (b j))
        = (∑ i, a i * Real.log (a i)) + ∑ j, b j * Real.log (b j) := by
      have : ∑ i, ∑ j, P i j * (Real.log (a i) + Real.log (b j))
          = (∑ i, ∑ j, P i j * Real.log (a i)) + ∑ i, ∑ j, P i j * Real.log (b j) := by
        rw [← sum_add_distrib]; apply sum_congr rfl; intro i _
        rw [← sum_add_distrib]; apply sum_congr rfl; intro j _; ring
      rw [this]
      congr 1
      · apply sum_congr rfl; intro i _; rw [← sum_mul]
      · rw [sum_comm]; apply sum_congr rfl; intro j _; rw [← sum_mul]
    simp only [sum_sub_distrib, sum_neg_distrib, h1]
    ring
  rw [hl, hr] at hsum
  set s := ∑ i, ∑ j, P i j with hs'
  have hs0 : 0 ≤ s := sum_nonneg fun i _ => sum_nonneg fun j _ => le_of_lt (hP i j)
  nlinarith

/-- the entropy of a non-negative plan is at least the entropy of its column marginal -/
theorem entJ_ge_cols (Q : ι → κ → ℝ) (hQ : ∀ i j, 0 ≤ Q i j) :
    ent (fun j => ∑ i, Q i j) ≤ entJ Q := by
  unfold ent entJ
  rw [sum_comm (f := fun i j => -(Q i j * Real.log (Q i j)))]
  apply sum_le_sum; intro j _
  rw [sum_mul, ← sum_neg_distrib]
  apply sum_le_sum; intro i _
  rcases eq_or_lt_of_le (hQ i j) with h | h
  · rw [← h]; simp
  · have hle : Q i j ≤ ∑ i, Q i j :=
      single_le_sum (f := fun i => Q i j) (fun i _ => hQ i j) (mem_univ i)
    have := Real.log_le_log h hle
    have := mul_le_mul_of_nonneg_left this (le_of_lt h)
    linarith

/-- … and at least the entropy of its row marginal -/
theorem entJ_ge_rows (Q : ι → κ → ℝ) (hQ : ∀ i j, 0 ≤ Q i j) :
    ent (fun i => ∑ j, Q i j) ≤ entJ Q := by
  unfold ent entJ
  apply sum_le_sum; intro i _
  rw [sum_mul, ← sum_neg_distrib]
  apply sum_le_sum; intro j _
  rcases eq_or_lt_of_le (hQ i j) with h | h
  · rw [← h]; simp
  · have hle : Q i j ≤ ∑ j, Q i j :=
      single_le_sum (f := fun j => Q i j) (fun j _ => hQ i j) (mem_univ j)
    have := Real.log_le_log h hle
    have := mul_le_mul_of_nonneg_left this (le_of_lt h)
    linarith

/-- **entropic allowance**: the cost of a Gibbs plan of total mass `≤ 1` exceeds the cost of any plan
    `Q ≥ 0` with the same marginals (in particular the optimal one) by at most
    `T · min(H(row marginal), H(column marginal))`. -/
theorem gibbs_cost_le (T : ℝ) (hT : 0 < T) (f : ι → ℝ) (g : κ → ℝ) (C Q : ι → κ → ℝ)
    (hQ : ∀ i j, 0 ≤ Q i j)
    (hrow : ∀ i, ∑ j, Q i j = ∑ j, gibbs T f g C i j)
    (hcol : ∀ j, ∑ i, Q i j = ∑ i, gibbs T f g C i j)
    (hs : ∑ i, ∑ j, gibbs T f g C i j ≤ 1) :
    ∑ i, ∑ j, gibbs T f g C i j * C i j
      ≤ (∑ i, ∑ j, Q i j * C i j)
        + T * min (ent fun i => ∑ j, gibbs T f g C i j) (ent fun j => ∑ i, gibbs T f g C i j) := by
  have h1 := gibbs_minimises T hT f g C Q hQ hrow hcol
  have h2 := entJ_le_marginals (gibbs T f g C) (gibbs_pos T f g C) hs
  have h3 := entJ_ge_cols Q hQ
  have h4 := entJ_ge_rows Q hQ
  simp only [hrow, hcol] at h3 h4
  set Ha := ent fun i => ∑ j, gibbs T f g C i j
  set Hb := ent fun j => ∑ i, gibbs T f g C i j
  have hmin : entJ (gibbs T f g C) - entJ Q ≤ min Ha Hb := by
    rw [le_min_iff]; constructor <;> linarith
  have := mul_le_mul_of_nonneg_left hmin (le_of_lt hT)
  linarith

/-! ### stability of the optimal cost in the source marginal -/

/-- **transfer**: a plan between `(μ', ν)` can be turned into a plan between `(μ, ν)` at an extra cost of
    at most the total variation `½‖μ − μ'‖₁`, for a ground cost in `[0, 1]` and equal total masses.
    (shrink the over-full rows proportionally, hand the freed column capacity to the deficient rows) -/
theorem ot_transfer (C : ι → κ → ℝ) (hC0 : ∀ i j, 0 ≤ C i j) (hC1 : ∀ i j, C i j ≤ 1)
    (μ μ' : ι → ℝ) (ν : κ → ℝ) (hμ : ∀ i, 0 ≤ μ i) (hμ' : ∀ i, 0 ≤ μ' i)
    (hsum : ∑ i, μ i = ∑ i, μ' i)
    (Q' : ι → κ → ℝ) (hQ' : ∀ i j, 0 ≤ Q' i j) (hrow : ∀ i, ∑ j, Q' i j = μ' i) (hcol : ∀ j, ∑ i, Q' i j = ν j) :
    ∃ Q : ι → κ → ℝ, (∀ i j, 0 ≤ Q i j) ∧ (∀ i, ∑ j, Q i j = μ i) ∧ (∀ j, ∑ i, Q i j = ν j) ∧
      ∑ i, ∑ j, Q i j * C i j ≤ (∑ i, ∑ j, Q' i j * C i j) + (1 / 2) * ∑ i, |μ i - μ' i| := by
  classical
  set lam : ι → ℝ := fun i => if μ' i = 0 then 1 else min (μ i) (μ' i) / μ' i with hlam
  set del : ι → ℝ := fun i => μ i - min (μ i) (μ' i) with hdel
  set r : ι → ℝ := fun i => μ' i - min (μ i) (μ' i) with hr
  have hlam0 : ∀ i, 0 ≤ lam i := by
    intro i; simp only [hlam]; split
    · norm_num
    · exact div_nonneg (le_min (hμ i) (hμ' i)) (hμ' i)
  have hlam1 : ∀ i, lam i ≤ 1 := by
    intro i; simp only [hlam]; split
    · exact le_refl _
    · rename_i h
      have hp : 0 < μ' i := lt_of_le_of_ne (hμ' i) (Ne.symm h)
      rw [div_le_one hp]; exact min_le_right _ _
  have hlamμ : ∀ i, μ' i * lam i = min (μ i) (μ' i) := by
    intro i; simp only [hlam]; split
    · rename_i h; rw [h, min_eq_right (hμ i)]; ring
    · rename_i h; field_simp
  have hdel0 : ∀ i, 0 ≤ del i := fun i => by simp only [hdel]; linarith [min_le_left (μ i) (μ' i)]
  have hr0 : ∀ i, 0 ≤ r i := fun i => by simp only [hr]; linarith [min_le_right (μ i) (μ' i)]
  have habs : ∀ i, |μ i - μ' i| = del i + r i := by
    intro i; simp only [hdel, hr]
    rcases le_total (μ i) (μ' i) with h | h
    · rw [min_eq_left h, abs_of_nonpos (by linarith)]; ring
    · rw [min_eq_right h, abs_of_nonneg (by linarith)]; ring
  set t : ℝ := ∑ i, del i with ht
  have htr : ∑ i, r i = t := by
    simp only [ht, hdel, hr, sum_sub_distrib]; linarith
  have ht0 : 0 ≤ t := sum_nonneg fun i _ => hdel0 i
  have hTV : (1 / 2) * ∑ i, |μ i - μ' i| = t := by
    simp only [habs, sum_add_distrib, htr]; ring
  rw [hTV]
  set E : κ → ℝ := fun j => ∑ i, Q' i j * (1 - lam i) with hE
  have hE0 : ∀ j, 0 ≤ E j := fun j => sum_nonneg fun i _ => mul_nonneg (hQ' i j) (by linarith [hlam1 i])
  have hEsum : ∑ j, E j = t := by
    simp only [hE]
    rw [sum_comm, ← htr]
    apply sum_congr rfl; intro i _
    rw [← sum_mul, hrow i]
    simp only [hr]; rw [← hlamμ i]; ring
  rcases eq_or_lt_of_le ht0 with h0 | hpos
  · -- no discrepancy: μ = μ'
    have hdz : ∀ i, del i = 0 := fun i =>
      (sum_eq_zero_iff_of_nonneg fun i _ => hdel0 i).mp h0.symm i (mem_univ i)
    have hrz : ∀ i, r i = 0 := fun i =>
      (sum_eq_zero_iff_of_nonneg fun i _ => hr0 i).mp (htr.trans h0.symm) i (mem_univ i)
    have hμeq : ∀ i, μ i = μ' i := fun i => by
      have h1 := hdz i; have h2 := hrz i; simp only [hdel, hr] at h1 h2; linarith
    refine ⟨Q', hQ', fun i => by rw [hrow i, hμeq i], hcol, ?_⟩
    rw [← h0]; linarith
  · have htne : t ≠ 0 := ne_of_gt hpos
    refine ⟨fun i j => Q' i j * lam i + del i * E j / t, ?_, ?_, ?_, ?_⟩
    · intro i j
      exact add_nonneg (mul_nonneg (hQ' i j) (hlam0 i)) (div_nonneg (mul_nonneg (hdel0 i) (hE0 j)) ht0)
    · intro i
      rw [sum_add_distrib, ← sum_mul, hrow i, hlamμ i]
      have : ∑ j, del i * E j / t = del i := by
        simp only [mul_div_assoc]
        rw [← mul_sum, ← sum_div, hEsum, div_self htne, mul_one]
      rw [this]; simp only [hdel]; ring
    · intro j
      rw [sum_add_distrib]
      have h1 : ∑ i, del i * E j / t = E j := by
        have : ∀ i, del i * E j / t = del i * (E j / t) := fun i => by ring
        simp only [this]
        rw [← sum_mul]
        show t * (E j / t) = E j
        field_simp
      rw [h1, ← hcol j]
      simp only [hE]
      rw [← sum_add_distrib]
      apply sum_congr rfl; intro i _; ring
    · have hsplit : ∑ i, ∑ j, (Q' i j * lam i + del i * E j / t) * C i j
          = (∑ i, ∑ j, Q' i j * lam i * C i j) + ∑ i, ∑ j, del i * E j / t * C i j := by
        rw [← sum_add_distrib]; apply sum_congr rfl; intro i _
        rw [← sum_add_distrib]; apply sum_congr rfl; intro j _; ring
      rw [hsplit]
      have h1 : ∑ i, ∑ j, Q' i j * lam i * C i j ≤ ∑ i, ∑ j, Q' i j * C i j := by
        apply sum_le_sum; intro i _; apply sum_le_sum; intro j _
        have : Q' i j * lam i * C i j = (Q' i j * C i j) * lam i := by ring
        rw [this]
        exact mul_le_of_le_one_right (mul_nonneg (hQ' i j) (hC0 i j)) (hlam1 i)
      have h2 : ∑ i, ∑ j, del i * E j / t * C i j ≤ t := by
        have hb : ∑ i, ∑ j, del i * E j / t * C i j ≤ ∑ i, ∑ j, del i * E j / t := by
          apply sum_le_sum; intro i _; apply sum_le_sum; intro j _
          exact mul_le_of_le_one_right (div_nonneg (mul_nonneg (hdel0 i) (hE0 j)) ht0) (hC1 i j)
        have he : ∑ i, ∑ j, del i * E j / t = t := by
          have : ∀ i, ∑ j, del i * E j / t = del i := by
            intro i
            simp only [mul_div_assoc]
            rw [← mul_sum, ← sum_div, hEsum, div_self htne, mul_one]
          simp only [this]
          exact ht.symm
        linarith
      linarith

end RP.Entropic
