import RP.Lemmas.C01.Abs
/-! C01 table, no-flush rows, deck `short`, count vectors whose deuce digit is 0
    (checked with `native_decide`: the Lean compiler/interpreter is trusted for this row set). -/
namespace RP.C01
open RP.Eval

theorem tabN_short_0 : forallCV 12 (7 - 0) (fun rest => rowN .short (0 + 8 * rest)) = true := by
  native_decide

end RP.C01
