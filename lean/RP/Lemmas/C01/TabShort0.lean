import RP.Lemmas.C01.TabShort00
import RP.Lemmas.C01.TabShort01
import RP.Lemmas.C01.TabShort02
import RP.Lemmas.C01.TabShort03
import RP.Lemmas.C01.TabShort04
/-! C01 table, no-flush rows, deck `short`, count vectors whose deuce digit is 0: assembled from
    the five sub-chunks by the trey digit -/
namespace RP.C01
open RP.Eval

theorem tabN_short_0 : forallCV 12 (7 - 0) (fun rest => rowN .short (0 + 8 * rest)) = true := by
  rw [forallCV]
  simp only [List.all_eq_true, List.mem_range]
  intro d hd
  have : d = 0 ∨ d = 1 ∨ d = 2 ∨ d = 3 ∨ d = 4 := by omega
  rcases this with e | e | e | e | e <;> subst e <;> simp only [Nat.reduceLeDiff, Nat.reduceSub, if_true]
  · exact tabN_short_00
  · exact tabN_short_01
  · exact tabN_short_02
  · exact tabN_short_03
  · exact tabN_short_04

end RP.C01
