import RP.Lemmas.C01.Hands
/-! suit relabelings: the class `α h` (hence the strength) does not change when the four suits
    are permuted (any of the 24 permutations of `RP.Gen.permExhaust`) -/
namespace RP.C01
open RP.Bits RP.Eval

/-- image of one rank's nibble: suit `s` goes to suit `π[s]` -/
def permNib (π : List Nat) (n : Nat) : Nat :=
  (if n.testBit 0 then 2^(π.getD 0 0) else 0) + (if n.testBit 1 then 2^(π.getD 1 0) else 0) +
  (if n.testBit 2 then 2^(π.getD 2 0) else 0) + (if n.testBit 3 then 2^(π.getD 3 0) else 0)

/-- the hand with every card `(rank, s)` replaced by `(rank, π[s])` -/
def relabelW : Nat → List Nat → Nat → Nat
  | 0, _, _ => 0
  | w+1, π, h => permNib π (h % 16) + 16 * relabelW w π (h / 16)

def relabel (π : List Nat) (h : Nat) : Nat := relabelW 13 π h

/-- per-nibble facts, for all 24 relabelings and all 16 nibbles -/
theorem permNib_facts : ∀ π ∈ RP.Gen.permExhaust, ∀ n, n < 16 →
    permNib π n < 16 ∧ popW 4 (permNib π n) = popW 4 n ∧ (permNib π n = 0 ↔ n = 0) ∧
    (∀ i, i < 4 → π.getD i 0 < 4 ∧ (permNib π n &&& 2^(π.getD i 0) = 0 ↔ n &&& 2^i = 0)) := by
  decide

theorem relabelW_mod (w : Nat) (π : List Nat) (hπ : π ∈ RP.Gen.permExhaust) (h : Nat) :
    relabelW (w+1) π h % 16 = permNib π (h % 16) := by
  have := (permNib_facts π hπ (h % 16) (Nat.mod_lt _ (by decide))).1
  simp only [relabelW]; omega

theorem relabelW_div (w : Nat) (π : List Nat) (hπ : π ∈ RP.Gen.permExhaust) (h : Nat) :
    relabelW (w+1) π h / 16 = relabelW w π (h / 16) := by
  have := (permNib_facts π hπ (h % 16) (Nat.mod_lt _ (by decide))).1
  simp only [relabelW]; omega

theorem relabelW_lt (π : List Nat) (hπ : π ∈ RP.Gen.permExhaust) : ∀ w h, relabelW w π h < 16^w := by
  intro w
  induction w with
  | zero => intro h; simp [relabelW]
  | succ w ih =>
    intro h
    have := (permNib_facts π hπ (h % 16) (Nat.mod_lt _ (by decide))).1
    have := ih (h / 16)
    simp only [relabelW, Nat.pow_succ]; omega

theorem cvW_relabel (π : List Nat) (hπ : π ∈ RP.Gen.permExhaust) : ∀ w h, cvW w (relabelW w π h) = cvW w h := by
  intro w
  induction w with
  | zero => intro h; rfl
  | succ w ih =>
    intro h
    have := (permNib_facts π hπ (h % 16) (Nat.mod_lt _ (by decide))).2.1
    simp only [cvW, relabelW_mod w π hπ, relabelW_div w π hπ, ih, this]

theorem nzW_relabel (π : List Nat) (hπ : π ∈ RP.Gen.permExhaust) : ∀ w h, nzW w (relabelW w π h) = nzW w h := by
  intro w
  induction w with
  | zero => intro h; rfl
  | succ w ih =>
    intro h
    have := (permNib_facts π hπ (h % 16) (Nat.mod_lt _ (by decide))).2.2.1
    simp only [nzW, relabelW_mod w π hπ, relabelW_div w π hπ, ih, this]

theorem popW_relabel (π : List Nat) (hπ : π ∈ RP.Gen.permExhaust) : ∀ w h, popW (4 * w) (relabelW w π h) = popW (4 * w) h := by
  intro w
  induction w with
  | zero => intro h; rfl
  | succ w ih =>
    intro h
    have := (permNib_facts π hπ (h % 16) (Nat.mod_lt _ (by decide))).2.1
    rw [popW_nibble, popW_nibble, relabelW_mod w π hπ, relabelW_div w π hπ, ih, this]

/-- the cards of suit `π[i]` in the relabeled hand sit on the ranks of the cards of suit `i` -/
theorem nz_suit_relabel (π : List Nat) (hπ : π ∈ RP.Gen.permExhaust) (i : Nat) (hi : i < 4) : ∀ w h,
    nzW w (relabelW w π h &&& suitW w (π.getD i 0)) = nzW w (h &&& suitW w i) := by
  intro w
  induction w with
  | zero => intro h; rfl
  | succ w ih =>
    intro h
    have f := (permNib_facts π hπ (h % 16) (Nat.mod_lt _ (by decide))).2.2.2 i hi
    simp only [nzW]
    rw [and_suit_mod _ w _ f.1, and_suit_div _ w _ f.1, and_suit_mod _ w _ hi, and_suit_div _ w _ hi,
      relabelW_mod w π hπ, relabelW_div w π hπ, ih]
    by_cases h0 : h % 16 &&& 2^i = 0
    · have := f.2.mpr h0
      simp only [h0, this]
    · have : ¬ permNib π (h % 16) &&& 2^(π.getD i 0) = 0 := fun e => h0 (f.2.mp e)
      simp only [h0, this]

theorem suit_count_relabel (π : List Nat) (hπ : π ∈ RP.Gen.permExhaust) (i : Nat) (hi : i < 4) (w h : Nat) :
    popW (4 * w) (relabelW w π h &&& suitW w (π.getD i 0)) = popW (4 * w) (h &&& suitW w i) := by
  have f := (permNib_facts π hπ 0 (by decide)).2.2.2 i hi
  rw [← pop_nz_suit _ f.1, ← pop_nz_suit _ hi, nz_suit_relabel π hπ i hi]

end RP.C01

namespace RP.C01
open RP.Bits RP.Eval

theorem nib_suit_sum : ∀ n, n < 16 →
    popW 4 (n &&& 2^0) + popW 4 (n &&& 2^1) + popW 4 (n &&& 2^2) + popW 4 (n &&& 2^3) = popW 4 n := by decide

theorem suit_sum : ∀ w h, popW (4 * w) (h &&& suitW w 0) + popW (4 * w) (h &&& suitW w 1) +
    popW (4 * w) (h &&& suitW w 2) + popW (4 * w) (h &&& suitW w 3) = popW (4 * w) h := by
  intro w
  induction w with
  | zero => intro h; rfl
  | succ w ih =>
    intro h
    have := ih (h / 16)
    have := nib_suit_sum (h % 16) (Nat.mod_lt _ (by decide))
    simp only [popW_nibble]
    rw [and_suit_mod _ w 0 (by decide), and_suit_mod _ w 1 (by decide), and_suit_mod _ w 2 (by decide), and_suit_mod _ w 3 (by decide),
      and_suit_div _ w 0 (by decide), and_suit_div _ w 1 (by decide), and_suit_div _ w 2 (by decide), and_suit_div _ w 3 (by decide)]
    omega

/-- number of cards of suit `i`, as `find_suit_of_flush` counts them -/
def suitCnt (h i : Nat) : Nat := popW 64 (h &&& suitW 13 i)

theorem suitCnt_eq (h i : Nat) (hh : h < 2^52) : suitCnt h i = popW 52 (h &&& suitW 13 i) :=
  popW_of_le 52 64 _ (by decide) (Nat.lt_of_le_of_lt Nat.and_le_left hh)

theorem suitCnt_sum (h : Nat) (hh : h < 2^52) :
    suitCnt h 0 + suitCnt h 1 + suitCnt h 2 + suitCnt h 3 = popW 52 h := by
  rw [suitCnt_eq h 0 hh, suitCnt_eq h 1 hh, suitCnt_eq h 2 hh, suitCnt_eq h 3 hh]
  exact suit_sum 13 h

/-- with at most 9 cards, `find_suit_of_flush` finds a suit iff some suit has ≥ 5 cards, and it is
    that suit whatever the scan order -/
theorem flushOf_char (h : Nat) (hs : suitCnt h 0 + suitCnt h 1 + suitCnt h 2 + suitCnt h 3 ≤ 9) (F : Nat) :
    flushOf h = some F ↔ ∃ i, i < 4 ∧ 5 ≤ suitCnt h i ∧ F = shred (h &&& suitW 13 i) := by
  have e5 : RP.Gen.flushThreshold = 5 := rfl
  constructor
  · intro hF
    simp only [flushOf] at hF
    obtain ⟨m, hm, h5, hFe⟩ := flushIn_some h _ F hF
    rw [suitMasks_eq] at hm
    simp only [List.mem_cons, List.not_mem_nil, or_false] at hm
    rw [e5] at h5
    rcases hm with e | e | e | e <;> rw [e] at h5 hFe
    · exact ⟨0, by decide, h5, hFe⟩
    · exact ⟨1, by decide, h5, hFe⟩
    · exact ⟨2, by decide, h5, hFe⟩
    · exact ⟨3, by decide, h5, hFe⟩
  · rintro ⟨i, hi, h5, hFe⟩
    simp only [flushOf, suitMasks_eq, flushIn, e5]
    simp only [suitCnt] at hs h5
    have : i = 0 ∨ i = 1 ∨ i = 2 ∨ i = 3 := by omega
    rcases this with e | e | e | e <;> subst e
    · simp only [h5, if_true, hFe]
    · have : ¬ 5 ≤ popW 64 (h &&& suitW 13 0) := by omega
      simp only [this, h5, if_true, if_false, hFe]
    · have : ¬ 5 ≤ popW 64 (h &&& suitW 13 0) := by omega
      have : ¬ 5 ≤ popW 64 (h &&& suitW 13 1) := by omega
      simp only [*, if_true, if_false]
    · have : ¬ 5 ≤ popW 64 (h &&& suitW 13 0) := by omega
      have : ¬ 5 ≤ popW 64 (h &&& suitW 13 1) := by omega
      have : ¬ 5 ≤ popW 64 (h &&& suitW 13 2) := by omega
      simp only [*, if_true, if_false]

theorem perm_surj : ∀ π ∈ RP.Gen.permExhaust, ∀ j, j < 4 → ∃ i, i < 4 ∧ π.getD i 0 = j := by decide

theorem relabel_lt (π : List Nat) (hπ : π ∈ RP.Gen.permExhaust) (h : Nat) : relabel π h < 2^52 := by
  have := relabelW_lt π hπ 13 h
  have e : (16 : Nat)^13 = 2^52 := by decide
  rw [e] at this
  exact this

theorem suitCnt_relabel (π : List Nat) (hπ : π ∈ RP.Gen.permExhaust) (i : Nat) (hi : i < 4) (h : Nat) (hh : h < 2^52) :
    suitCnt (relabel π h) (π.getD i 0) = suitCnt h i := by
  rw [suitCnt_eq _ _ (relabel_lt π hπ h), suitCnt_eq _ _ hh]
  exact suit_count_relabel π hπ i hi 13 h

theorem popW_relabel52 (π : List Nat) (hπ : π ∈ RP.Gen.permExhaust) (h : Nat) : popW 52 (relabel π h) = popW 52 h :=
  popW_relabel π hπ 13 h

theorem flushOf_relabel (π : List Nat) (hπ : π ∈ RP.Gen.permExhaust) (h : Nat) (hh : h < 2^52) (h9 : popW 52 h ≤ 9) :
    flushOf (relabel π h) = flushOf h := by
  have hh' := relabel_lt π hπ h
  have s1 := suitCnt_sum h hh
  have s2 := suitCnt_sum _ hh'
  rw [popW_relabel52 π hπ h] at s2
  apply Option.ext
  intro F
  rw [flushOf_char _ (by omega) F, flushOf_char _ (by omega) F]
  constructor
  · rintro ⟨j, hj, h5, hF⟩
    obtain ⟨i, hi, rfl⟩ := perm_surj π hπ j hj
    rw [suitCnt_relabel π hπ i hi h hh] at h5
    refine ⟨i, hi, h5, ?_⟩
    rw [hF, shred_eq_nzW _ (Nat.lt_of_le_of_lt Nat.and_le_left hh'), shred_eq_nzW _ (Nat.lt_of_le_of_lt Nat.and_le_left hh)]
    exact nz_suit_relabel π hπ i hi 13 h
  · rintro ⟨i, hi, h5, hF⟩
    have f := (permNib_facts π hπ 0 (by decide)).2.2.2 i hi
    refine ⟨π.getD i 0, f.1, ?_, ?_⟩
    · rw [suitCnt_relabel π hπ i hi h hh]; exact h5
    · rw [hF, shred_eq_nzW _ (Nat.lt_of_le_of_lt Nat.and_le_left hh'), shred_eq_nzW _ (Nat.lt_of_le_of_lt Nat.and_le_left hh)]
      exact (nz_suit_relabel π hπ i hi 13 h).symm

/-- **the class of a hand is invariant under every relabeling of the suits** (≤ 9 cards) -/
theorem alpha_relabel (π : List Nat) (hπ : π ∈ RP.Gen.permExhaust) (h : Nat) (hh : h < 2^52) (h9 : popW 52 h ≤ 9) :
    α (relabel π h) = α h := by
  have e1 : cvW 13 (relabel π h) = cvW 13 h := cvW_relabel π hπ 13 h
  have e2 : shred (relabel π h) = shred h := by
    rw [shred_eq_nzW _ (relabel_lt π hπ h), shred_eq_nzW _ hh]; exact nzW_relabel π hπ 13 h
  have e3 := flushOf_relabel π hπ h hh h9
  show Cls.mk (cvW 13 (relabel π h)) (shred (relabel π h)) (flushOf (relabel π h)) = Cls.mk (cvW 13 h) (shred h) (flushOf h)
  rw [e1, e2, e3]

end RP.C01

namespace RP.C01
open RP.Bits RP.Eval

/-- a deck mask made of whole ranks: every nibble is `0` or `0xF` -/
def nibUniform : Nat → Nat → Bool
  | 0, M => M == 0
  | w+1, M => (M % 16 == 0 || M % 16 == 15) && nibUniform w (M / 16)

theorem handMask_uniform (cfg : Cfg) : nibUniform 13 (handMask cfg) = true := by cases cfg <;> decide

theorem permNib_mask : ∀ π ∈ RP.Gen.permExhaust, ∀ n, n < 16 →
    (n &&& 0 = n → permNib π n &&& 0 = permNib π n) ∧ (n &&& 15 = n → permNib π n &&& 15 = permNib π n) := by decide

theorem and_eq_split (x M : Nat) : x &&& M = x ↔ (x % 16 &&& M % 16 = x % 16 ∧ x / 16 &&& M / 16 = x / 16) := by
  have h16 : (16 : Nat) = 2^4 := by decide
  have e1 : (x &&& M) % 16 = x % 16 &&& M % 16 := by rw [h16, Nat.and_mod_two_pow]
  have e2 : (x &&& M) / 16 = x / 16 &&& M / 16 := by rw [h16, Nat.and_div_two_pow]
  constructor
  · intro h; rw [← e1, ← e2, h]; exact ⟨rfl, rfl⟩
  · rintro ⟨a, b⟩
    rw [← e1] at a; rw [← e2] at b
    omega

theorem relabel_in_mask (π : List Nat) (hπ : π ∈ RP.Gen.permExhaust) : ∀ w M h, nibUniform w M = true →
    h &&& M = h → relabelW w π h &&& M = relabelW w π h := by
  intro w
  induction w with
  | zero => intro M h _ _; simp [relabelW]
  | succ w ih =>
    intro M h hM hh
    simp only [nibUniform, Bool.and_eq_true, Bool.or_eq_true, beq_iff_eq] at hM
    rw [and_eq_split] at hh ⊢
    rw [relabelW_mod w π hπ, relabelW_div w π hπ]
    refine ⟨?_, ih _ _ hM.2 hh.2⟩
    have f := permNib_mask π hπ (h % 16) (Nat.mod_lt _ (by decide))
    rcases hM.1 with e | e <;> rw [e] at hh ⊢
    · exact f.1 hh.1
    · exact f.2 hh.1

theorem validHand_relabel (cfg : Cfg) (π : List Nat) (hπ : π ∈ RP.Gen.permExhaust) (h : Nat) (hv : ValidHand cfg h) :
    ValidHand cfg (relabel π h) := by
  refine ⟨relabel_in_mask π hπ 13 _ h (handMask_uniform cfg) hv.1, ?_, ?_⟩
  · rw [popW_relabel52 π hπ h]; exact hv.2.1
  · rw [popW_relabel52 π hπ h]; exact hv.2.2

theorem strength_relabel (cfg : Cfg) (π : List Nat) (hπ : π ∈ RP.Gen.permExhaust) (h : Nat) (hv : ValidHand cfg h) :
    strength cfg (relabel π h) = strength cfg h := by
  have hv' := validHand_relabel cfg π hπ h hv
  have hα := alpha_relabel π hπ h hv.lt (by have := hv.2.2; omega)
  simp only [strength, handOf, hv.1, hv'.1, hα]

end RP.C01
