import RP.Lemmas.C01.Classes
import RP.Lemmas.C01.Kernel.NStd
import RP.Lemmas.C01.Kernel.NShort
import RP.Lemmas.C01.Kernel.FStd0
import RP.Lemmas.C01.Kernel.FStd1
import RP.Lemmas.C01.Kernel.FStd2
import RP.Lemmas.C01.Kernel.FStd3
import RP.Lemmas.C01.Kernel.FStd4
import RP.Lemmas.C01.Kernel.FStd5
import RP.Lemmas.C01.Kernel.FStd6
import RP.Lemmas.C01.Kernel.FStd7
import RP.Lemmas.C01.Kernel.FShort0
import RP.Lemmas.C01.Kernel.FShort1
import RP.Lemmas.C01.Kernel.FShort2
import RP.Lemmas.C01.Kernel.FShort3
import RP.Lemmas.C01.Kernel.FShort4
import RP.Lemmas.C01.Kernel.FShort5
import RP.Lemmas.C01.Kernel.FShort6
import RP.Lemmas.C01.Kernel.FShort7
/-! the C01 class table with every row evaluated by the Lean kernel: no `Lean.ofReduceBool` -/
namespace RP.C01
open RP.Bits RP.Eval

theorem kF_all (cfg : Cfg) : forallF (rowF cfg) = true := by
  apply forallF_of_chunks
  intro j hj
  have : j = 0 ∨ j = 1 ∨ j = 2 ∨ j = 3 ∨ j = 4 ∨ j = 5 ∨ j = 6 ∨ j = 7 := by omega
  cases cfg
  · rcases this with e | e | e | e | e | e | e | e <;> subst e
    · exact kF_std_0
    · exact kF_std_1
    · exact kF_std_2
    · exact kF_std_3
    · exact kF_std_4
    · exact kF_std_5
    · exact kF_std_6
    · exact kF_std_7
  · rcases this with e | e | e | e | e | e | e | e <;> subst e
    · exact kF_short_0
    · exact kF_short_1
    · exact kF_short_2
    · exact kF_short_3
    · exact kF_short_4
    · exact kF_short_5
    · exact kF_short_6
    · exact kF_short_7

/-- **the table, kernel-evaluated** -/
theorem tableKernel (cfg : Cfg) : TableOK cfg := by
  cases cfg
  · exact ⟨kN_std_root, kF_all .std⟩
  · exact ⟨kN_short_root, kF_all .short⟩

end RP.C01
