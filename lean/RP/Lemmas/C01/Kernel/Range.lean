import RP.Lemmas.C01.Sound
/-! a range walker for the flush rows (kernel-friendly: no 8192-element list) and its soundness -/
namespace RP.C01
open RP.Bits RP.Eval

def forallRange : Nat → Nat → (Nat → Bool) → Bool
  | _, 0, _ => true
  | lo, n+1, k => k lo && forallRange (lo+1) n k

theorem forallRange_sound : ∀ (n lo : Nat) (k : Nat → Bool), forallRange lo n k = true →
    ∀ x, lo ≤ x → x < lo + n → k x = true := by
  intro n
  induction n with
  | zero => intro lo k _ x h1 h2; omega
  | succ n ih =>
    intro lo k h x h1 h2
    simp only [forallRange, Bool.and_eq_true] at h
    by_cases e : x = lo
    · rw [e]; exact h.1
    · exact ih (lo+1) k h.2 x (by omega) (by omega)

/-- a flush row, guarded by "5..7 ranks" -/
def rowF' (cfg : Cfg) (F : Nat) : Bool :=
  if 5 ≤ popW 13 F ∧ popW 13 F ≤ 7 then rowF cfg F else true

theorem forallF_of_chunks (cfg : Cfg)
    (h : ∀ j, j < 8 → forallRange (j * 1024) 1024 (rowF' cfg) = true) : forallF (rowF cfg) = true := by
  simp only [forallF, List.all_eq_true, List.mem_range]
  intro F hF
  have hj : F / 1024 < 8 := by omega
  have := forallRange_sound 1024 (F / 1024 * 1024) (rowF' cfg) (h (F / 1024) hj) F (by omega) (by omega)
  simpa [rowF'] using this

end RP.C01
