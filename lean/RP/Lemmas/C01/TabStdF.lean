import RP.Lemmas.C01.Abs
/-! C01 table, flush rows (all rank sets of 5-7 ranks), deck `std`; native evaluation
    (`Lean.ofReduceBool`, as `native_decide`) -/
namespace RP.C01
open RP.Eval
set_option linter.deprecated false

def tabF_std_native_decide : Bool := forallF (rowF .std)

theorem tabF_std : forallF (rowF .std) = true :=
  Lean.ofReduceBool tabF_std_native_decide true rfl

end RP.C01
