import RP.Lemmas.C01.Abs
/-! C01 table, flush rows (all rank sets of 5-7 ranks), deck `std` -/
namespace RP.C01
open RP.Eval

theorem tabF_std : forallF (rowF .std) = true := by
  native_decide

end RP.C01
