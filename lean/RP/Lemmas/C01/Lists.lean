import RP.Spec.Poker
/-! list facts for the specification: `sublistsLen`, `maxList` -/
namespace RP.C01
open RP.Spec.Poker

theorem sublistsLen_map {α β : Type} (f : α → β) : ∀ (k : Nat) (l : List α),
    sublistsLen k (l.map f) = (sublistsLen k l).map (List.map f) := by
  intro k l
  induction l generalizing k with
  | nil => cases k <;> simp [sublistsLen]
  | cons x xs ih =>
    cases k with
    | zero => simp [sublistsLen]
    | succ k =>
      simp only [List.map_cons, sublistsLen, ih, List.map_append, List.map_map]
      congr 1

theorem mem_sublistsLen {α : Type} : ∀ (l : List α) (k : Nat) (s : List α),
    s ∈ sublistsLen k l ↔ s.Sublist l ∧ s.length = k := by
  intro l
  induction l with
  | nil =>
    intro k s
    cases k with
    | zero => simp [sublistsLen]
    | succ k => simp [sublistsLen]; intro h; simp [h]
  | cons x xs ih =>
    intro k s
    cases k with
    | zero =>
      simp only [sublistsLen, List.mem_singleton]
      constructor
      · intro h; subst h; exact ⟨List.nil_sublist _, rfl⟩
      · intro h; exact List.length_eq_zero_iff.mp h.2
    | succ k =>
      simp only [sublistsLen, List.mem_append, List.mem_map, ih]
      constructor
      · rintro (⟨t, ⟨h1, h2⟩, rfl⟩ | ⟨h1, h2⟩)
        · exact ⟨List.Sublist.cons_cons x h1, by simp [h2]⟩
        · exact ⟨List.Sublist.cons x h1, h2⟩
      · rintro ⟨h1, h2⟩
        cases h1 with
        | cons _ h => exact Or.inr ⟨h, h2⟩
        | cons_cons _ h =>
          rename_i t
          exact Or.inl ⟨t, ⟨h, by simpa using h2⟩, rfl⟩

theorem foldl_max_ge : ∀ (l : List Nat) (a : Nat), a ≤ l.foldl max a ∧ ∀ x ∈ l, x ≤ l.foldl max a := by
  intro l
  induction l with
  | nil => intro a; simp
  | cons y ys ih =>
    intro a
    have := ih (max a y)
    simp only [List.foldl, List.mem_cons]
    refine ⟨by omega, ?_⟩
    rintro x (rfl | hx)
    · omega
    · exact this.2 x hx

theorem foldl_max_le : ∀ (l : List Nat) (a b : Nat), a ≤ b → (∀ x ∈ l, x ≤ b) → l.foldl max a ≤ b := by
  intro l
  induction l with
  | nil => intro a b h _; simpa using h
  | cons y ys ih =>
    intro a b h hb
    simp only [List.foldl]
    apply ih
    · have := hb y (by simp); omega
    · intro x hx; exact hb x (by simp [hx])

theorem le_maxList {l : List Nat} {x : Nat} (h : x ∈ l) : x ≤ maxList l := (foldl_max_ge l 0).2 x h

theorem maxList_le {l : List Nat} {b : Nat} (h : ∀ x ∈ l, x ≤ b) : maxList l ≤ b :=
  foldl_max_le l 0 b (Nat.zero_le _) h

/-- two lists with mutually dominated elements have the same maximum -/
theorem maxList_eq_of {l1 l2 : List Nat} (h12 : ∀ x ∈ l1, ∃ y ∈ l2, x ≤ y) (h21 : ∀ y ∈ l2, ∃ x ∈ l1, y ≤ x) :
    maxList l1 = maxList l2 := by
  apply Nat.le_antisymm
  · apply maxList_le; intro x hx; obtain ⟨y, hy, hxy⟩ := h12 x hx; exact Nat.le_trans hxy (le_maxList hy)
  · apply maxList_le; intro y hy; obtain ⟨x, hx, hyx⟩ := h21 y hy; exact Nat.le_trans hyx (le_maxList hx)

end RP.C01
