import RP.Lemmas.C01.Cards
/-! the lift: the best five-card hand of a concrete card set is the rules' value of its class -/
namespace RP.C01
open RP.Bits RP.Eval RP.Spec.Poker

theorem foldl_enc_mono (l : List Nat) : ∀ p p', p ≤ p' →
    l.foldl (fun v d => v * 16 + d) p ≤ l.foldl (fun v d => v * 16 + d) p' := by
  induction l with
  | nil => intro p p' h; exact h
  | cons d l ih => intro p p' h; simp only [List.foldl]; exact ih _ _ (by omega)

theorem encode_mono (p p' : Nat) (tb : List Nat) (h : p ≤ p') : encode p tb ≤ encode p' tb := by
  simp only [encode]; exact foldl_enc_mono _ _ _ h

/-- five cards of one suit are worth at least what their ranks are worth otherwise -/
theorem valueR_flag_le (short : Bool) (l : List Nat) : valueR short l false ≤ valueR short l true := by
  simp only [valueR, classify]
  generalize tiebreak l = tb
  generalize List.map (fun x => List.count x l) tb = pat
  by_cases h1 : pat = [4, 4, 4, 4, 1]
  · simp [h1]
  by_cases h2 : pat = [3, 3, 3, 2, 2]
  · simp [h2]
  by_cases h3 : pat = [3, 3, 3, 1, 1]
  · simp [h3]
  by_cases h4 : pat = [2, 2, 2, 2, 1]
  · simp [h4]
  by_cases h5 : pat = [2, 2, 1, 1, 1]
  · simp [h5]
  simp only [h1, h2, h3, h4, h5, if_false]
  cases straightTop short tb with
  | none => simp only []; exact encode_mono _ _ _ (by cases short <;> decide)
  | some t => simp only []; exact encode_mono _ _ _ (by cases short <;> decide)

theorem sameSuit_of_all (s : List Nat) (i : Nat) (h : ∀ c ∈ s, suit c = i) : sameSuit s = true := by
  cases s with
  | nil => rfl
  | cons c cs =>
    simp only [sameSuit, List.all_eq_true, beq_iff_eq]
    intro d hd
    rw [h d (by simp [hd]), h c (by simp)]

theorem all_of_sameSuit (s : List Nat) (h : sameSuit s = true) : ∃ j, j < 4 ∧ ∀ c ∈ s, suit c = j := by
  cases s with
  | nil => exact ⟨0, by decide, by simp⟩
  | cons c cs =>
    simp only [sameSuit, List.all_eq_true, beq_iff_eq] at h
    refine ⟨suit c, Nat.mod_lt _ (by decide), ?_⟩
    intro d hd
    simp only [List.mem_cons] at hd
    rcases hd with e | e
    · rw [e]
    · exact h d e

/-- the cards of suit `i`, highest first -/
def suitCards (h i : Nat) : List Nat := (cards h).filter (suit · == i)

theorem suitCards_ranks (h i : Nat) (hi : i < 4) :
    (suitCards h i).map rank = bitsDesc 13 (nzW 13 (h &&& suitW 13 i)) :=
  suit_cards_ranks h i hi 13 (Nat.le_refl _)

theorem suitCards_length (h i : Nat) (hi : i < 4) (hh : h < 2^52) : (suitCards h i).length = suitCnt h i := by
  have := congrArg List.length (suitCards_ranks h i hi)
  rw [List.length_map, bitsDesc_length, pop_nz_suit i hi 13 h] at this
  rw [this, suitCnt_eq h i hh]

theorem sub_of_same (h : Nat) (s : List Nat) (hs : s ∈ sublistsLen 5 (cards h)) (hss : sameSuit s = true) :
    ∃ j, j < 4 ∧ s ∈ sublistsLen 5 (suitCards h j) := by
  obtain ⟨j, hj, hall⟩ := all_of_sameSuit s hss
  rw [mem_sublistsLen] at hs
  refine ⟨j, hj, ?_⟩
  rw [mem_sublistsLen]
  refine ⟨?_, hs.2⟩
  have e : s.filter (suit · == j) = s := by
    apply List.filter_eq_self.mpr
    intro c hc; simp [hall c hc]
  rw [← e]
  exact hs.1.filter _

theorem sub_to_all (h i : Nat) (s : List Nat) (hs : s ∈ sublistsLen 5 (suitCards h i)) :
    s ∈ sublistsLen 5 (cards h) ∧ sameSuit s = true := by
  rw [mem_sublistsLen] at hs
  constructor
  · rw [mem_sublistsLen]
    exact ⟨hs.1.trans List.filter_sublist, hs.2⟩
  · apply sameSuit_of_all s i
    intro c hc
    have := hs.1.subset hc
    simp only [suitCards, List.mem_filter, beq_iff_eq] at this
    exact this.2

theorem suit_unique (h : Nat) (hs : suitCnt h 0 + suitCnt h 1 + suitCnt h 2 + suitCnt h 3 ≤ 9)
    (i j : Nat) (hi : i < 4) (hj : j < 4) (h5 : 5 ≤ suitCnt h i) (h5' : 5 ≤ suitCnt h j) : i = j := by
  have a : i = 0 ∨ i = 1 ∨ i = 2 ∨ i = 3 := by omega
  have b : j = 0 ∨ j = 1 ∨ j = 2 ∨ j = 3 := by omega
  rcases a with e | e | e | e <;> rcases b with f | f | f | f <;> subst e <;> subst f <;> first | rfl | omega

/-- **C01_lift**: the best five-card hand contained in a concrete 5..7-card set is the rules'
    value of the set's class (count vector + flush rank set) -/
theorem lift (cfg : Cfg) (h : Nat) (hv : ValidHand cfg h) : best5 (Cfg.isShort cfg) h = specA cfg (α h) := by
  have hlt := hv.lt
  have hsum := suitCnt_sum h hlt
  have h9 : suitCnt h 0 + suitCnt h 1 + suitCnt h 2 + suitCnt h 3 ≤ 9 := by have := hv.2.2; omega
  generalize hshort : Cfg.isShort cfg = short
  have hR : (cards h).map rank = ranksListW 13 (cvW 13 h) := cards_ranks h 13 (Nat.le_refl _)
  have hN : specN cfg (cvW 13 h) =
      maxList ((sublistsLen 5 (cards h)).map (fun s => valueR short (s.map rank) false)) := by
    simp only [specN, bestOfRanks, hshort]
    rw [← hR, sublistsLen_map, List.map_map]
    rfl
  have hB : best5 short h = maxList ((sublistsLen 5 (cards h)).map (fun s => valueR short (s.map rank) (sameSuit s))) := rfl
  rw [hB]
  have efl : (α h).fl = flushOf h := by simp only [α]
  have ecv : (α h).cv = cvW 13 h := by simp only [α]; rfl
  cases hfl : flushOf h with
  | none =>
    rw [hfl] at efl
    simp only [specA, efl, ecv]
    rw [hN]
    apply congrArg maxList
    apply List.map_congr_left
    intro s hs
    have : sameSuit s = false := by
      cases hss : sameSuit s with
      | false => rfl
      | true =>
        exfalso
        obtain ⟨j, hj, hsj⟩ := sub_of_same h s hs hss
        rw [mem_sublistsLen] at hsj
        have hl := hsj.1.length_le
        rw [hsj.2, suitCards_length h j hj hlt] at hl
        have := (flushOf_char h h9 (shred (h &&& suitW 13 j))).mpr ⟨j, hj, hl, rfl⟩
        rw [hfl] at this
        cases this
    rw [this]
  | some F =>
    rw [hfl] at efl
    simp only [specA, efl, ecv]
    obtain ⟨i, hi, h5, hFe⟩ := (flushOf_char h h9 F).mp hfl
    have hF : F = nzW 13 (h &&& suitW 13 i) := by
      rw [hFe, shred_eq_nzW _ (Nat.lt_of_le_of_lt Nat.and_le_left hlt)]
    have hFs : specF cfg F =
        maxList ((sublistsLen 5 (suitCards h i)).map (fun s => valueR short (s.map rank) true)) := by
      simp only [specF, bestOfRanks, hshort]
      rw [hF, ← suitCards_ranks h i hi, sublistsLen_map, List.map_map]
      rfl
    rw [hN, hFs]
    apply Nat.le_antisymm
    · apply maxList_le
      intro x hx
      simp only [List.mem_map] at hx
      obtain ⟨s, hs, rfl⟩ := hx
      cases hss : sameSuit s with
      | false =>
        have : valueR short (s.map rank) false ≤ maxList ((sublistsLen 5 (cards h)).map (fun s => valueR short (s.map rank) false)) :=
          le_maxList (List.mem_map.mpr ⟨s, hs, rfl⟩)
        omega
      | true =>
        obtain ⟨j, hj, hsj⟩ := sub_of_same h s hs hss
        have hl := ((mem_sublistsLen _ _ _).mp hsj).1.length_le
        rw [((mem_sublistsLen _ _ _).mp hsj).2, suitCards_length h j hj hlt] at hl
        have hji := suit_unique h h9 j i hj hi hl h5
        subst hji
        have : valueR short (s.map rank) true ≤ maxList ((sublistsLen 5 (suitCards h j)).map (fun s => valueR short (s.map rank) true)) :=
          le_maxList (List.mem_map.mpr ⟨s, hsj, rfl⟩)
        omega
    · apply Nat.max_le.mpr
      constructor
      · apply maxList_le
        intro x hx
        simp only [List.mem_map] at hx
        obtain ⟨s, hs, rfl⟩ := hx
        have h1 : valueR short (s.map rank) false ≤ valueR short (s.map rank) (sameSuit s) := by
          cases sameSuit s with
          | false => exact Nat.le_refl _
          | true => exact valueR_flag_le short _
        exact Nat.le_trans h1 (le_maxList (List.mem_map.mpr ⟨s, hs, rfl⟩))
      · apply maxList_le
        intro x hx
        simp only [List.mem_map] at hx
        obtain ⟨s, hs, rfl⟩ := hx
        obtain ⟨hsL, hss⟩ := sub_to_all h i s hs
        have : valueR short (s.map rank) true = valueR short (s.map rank) (sameSuit s) := by rw [hss]
        rw [this]
        exact le_maxList (List.mem_map.mpr ⟨s, hsL, rfl⟩)

end RP.C01
