import RP.Lemmas.C01.TabStd00
import RP.Lemmas.C01.TabStd01
import RP.Lemmas.C01.TabStd02
import RP.Lemmas.C01.TabStd03
import RP.Lemmas.C01.TabStd04
/-! C01 table, no-flush rows, deck `std`, count vectors whose deuce digit is 0: assembled from
    the five sub-chunks by the trey digit -/
namespace RP.C01
open RP.Eval

theorem tabN_std_0 : forallCV 12 (7 - 0) (fun rest => rowN .std (0 + 8 * rest)) = true := by
  rw [forallCV]
  simp only [List.all_eq_true, List.mem_range]
  intro d hd
  have : d = 0 ∨ d = 1 ∨ d = 2 ∨ d = 3 ∨ d = 4 := by omega
  rcases this with e | e | e | e | e <;> subst e <;> simp only [Nat.reduceLeDiff, Nat.reduceSub, if_true]
  · exact tabN_std_00
  · exact tabN_std_01
  · exact tabN_std_02
  · exact tabN_std_03
  · exact tabN_std_04

end RP.C01
