import RP.Lemmas.C01.Abs
/-! C01 table, no-flush rows, deck `short`, count vectors with deuce digit 0 and trey digit 1.
    Checked by native evaluation (what `native_decide` does: axiom `Lean.ofReduceBool`). -/
namespace RP.C01
open RP.Eval
set_option linter.deprecated false

def tabN_short_01_native_decide : Bool :=
  forallCV 11 (7 - 0 - 1) (fun rest => rowN .short (0 + 8 * (1 + 8 * rest)))

theorem tabN_short_01 : forallCV 11 (7 - 0 - 1) (fun rest => rowN .short (0 + 8 * (1 + 8 * rest))) = true :=
  Lean.ofReduceBool tabN_short_01_native_decide true rfl

end RP.C01
