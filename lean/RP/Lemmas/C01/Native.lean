import RP.Lemmas.C01.Table
import RP.Lemmas.C01.Hands
/-! the table facts by native evaluation (quick tier) and the table-dependent lemmas instantiated
    with them.  The kernel-evaluated instance is `RP.C01.tableKernel` in `Kernel/All.lean`. -/
namespace RP.C01
open RP.Bits RP.Eval

theorem tableNative (cfg : Cfg) : TableOK cfg := ⟨tabN_all cfg, tabF_all cfg⟩

theorem rowN_of_valid (cfg : Cfg) (cv : Nat) (h1 : validCV 13 cv) (h2 : 5 ≤ digitSum 13 cv) (h3 : digitSum 13 cv ≤ 7) :
    rowN cfg cv = true := rowN_of_valid_of (tableNative cfg) cv h1 h2 h3

theorem rowF_of_valid (cfg : Cfg) (F : Nat) (h1 : F < 2^13) (h2 : 5 ≤ popW 13 F) (h3 : popW 13 F ≤ 7) :
    rowF cfg F = true := rowF_of_valid_of (tableNative cfg) F h1 h2 h3

theorem table_cls (cfg : Cfg) (c : Cls) (hv : ValidCls c) :
    (evalA? cfg c).isSome = true ∧ wfRes (evalA cfg c) = true ∧ specOf cfg (evalA cfg c) = specA cfg c :=
  table_cls_of (tableNative cfg) c hv

theorem order_cls (cfg : Cfg) (c1 c2 : Cls) (h1 : ValidCls c1) (h2 : ValidCls c2) :
    compare (keyA cfg (evalA cfg c1)) (keyA cfg (evalA cfg c2)) = compare (specA cfg c1) (specA cfg c2) :=
  order_cls_of (tableNative cfg) c1 c2 h1 h2

theorem order_hands_abs (cfg : Cfg) (h1 h2 : Nat) (v1 : ValidHand cfg h1) (v2 : ValidHand cfg h2) :
    compareHands cfg h1 h2 = compare (specA cfg (α h1)) (specA cfg (α h2)) :=
  order_hands_abs_of (tableNative cfg) h1 h2 v1 v2

theorem strength_total (cfg : Cfg) (h : Nat) (hv : ValidHand cfg h) : (strength? cfg h).isSome = true :=
  strength_total_of (tableNative cfg) h hv

theorem flush_excludes (cfg : Cfg) (h F : Nat) (hv : ValidHand cfg h) (hF : (α h).fl = some F) :
    (evalA cfg (clsN (α h).cv)).1.cat ≠ cFourOAK ∧ (evalA cfg (clsN (α h).cv)).1.cat ≠ cFullHouse :=
  flush_excludes_of (tableNative cfg) h F hv hF

end RP.C01
