import RP.Lemmas.C01.Abs
/-! soundness of the table walkers: `forallCV` visits every valid count vector, `forallF` every
    rank set of 5..7 ranks -/
namespace RP.C01
open RP.Bits RP.Eval

/-- `cv` has `w` octal digits, each at most 4 -/
def validCV : Nat → Nat → Prop
  | 0, cv => cv = 0
  | w+1, cv => cv % 8 ≤ 4 ∧ validCV w (cv / 8)

def validCV.dec : ∀ w cv, Decidable (validCV w cv)
  | 0, cv => inferInstanceAs (Decidable (cv = 0))
  | w+1, cv => @instDecidableAnd _ _ _ (validCV.dec w (cv / 8))

instance (w cv : Nat) : Decidable (validCV w cv) := validCV.dec w cv

def digitSum : Nat → Nat → Nat
  | 0, _ => 0
  | w+1, cv => cv % 8 + digitSum w (cv / 8)

theorem forallCV_sound : ∀ (w rem : Nat) (k : Nat → Bool), forallCV w rem k = true →
    ∀ cv, validCV w cv → digitSum w cv ≤ rem → rem - digitSum w cv ≤ 2 → k cv = true := by
  intro w
  induction w with
  | zero =>
    intro rem k h cv hv _ h2
    simp only [validCV] at hv
    subst hv
    simp only [digitSum] at h2
    simp only [forallCV] at h
    have : rem ≤ 2 := by omega
    simpa [this] using h
  | succ w ih =>
    intro rem k h cv hv h1 h2
    simp only [validCV] at hv
    simp only [digitSum] at h1 h2
    simp only [forallCV, List.all_eq_true] at h
    have hd : cv % 8 ∈ List.range 5 := by simp; omega
    have h' := h (cv % 8) hd
    have hle : cv % 8 ≤ rem := by omega
    simp only [hle, if_true] at h'
    have := ih (rem - cv % 8) _ h' (cv / 8) hv.2 (by omega) (by omega)
    simpa [Nat.mod_add_div] using this

theorem forallF_sound (k : Nat → Bool) (h : forallF k = true) :
    ∀ F, F < 2^13 → 5 ≤ popW 13 F → popW 13 F ≤ 7 → k F = true := by
  intro F hF h5 h7
  simp only [forallF, List.all_eq_true] at h
  have := h F (by simp; exact hF)
  simpa [h5, h7] using this

end RP.C01
