import RP.Model.Eval
import RP.Spec.Poker
/-! Abstract level of C01: the evaluator model and the rules on *classes*
    (per-rank count vector, flush rank set), the translation of a model result into the
    value space of the rules, and the checker that walks every count vector. -/
namespace RP.C01
open RP.Bits RP.Eval RP.Spec.Poker

def Cfg.isShort : Cfg → Bool
  | .std => false
  | .short => true

/-- rank mask of a count vector: bit `r` set iff digit `r` is non-zero -/
def ranksOfW : Nat → Nat → Nat
  | 0, _ => 0
  | w+1, cv => (if cv % 8 = 0 then 0 else 1) + 2 * ranksOfW w (cv / 8)

/-- the rank multiset of a count vector as a list, highest rank first -/
def ranksListW : Nat → Nat → List Nat
  | 0, _ => []
  | w+1, cv => List.replicate (digit cv w) w ++ ranksListW w cv

/-- the ranks of a rank mask, highest first -/
def bitsDesc : Nat → Nat → List Nat
  | 0, _ => []
  | w+1, m => if m.testBit w then w :: bitsDesc w m else bitsDesc w m

/-- the class of a count vector without a flush -/
def clsN (cv : Nat) : Cls := ⟨cv, ranksOfW 13 cv, none⟩

/-- rules value of a class without flush / of a flush rank set -/
def specN (cfg : Cfg) (cv : Nat) : Nat := bestOfRanks (Cfg.isShort cfg) (ranksListW 13 cv) false
def specF (cfg : Cfg) (F : Nat) : Nat := bestOfRanks (Cfg.isShort cfg) (bitsDesc 13 F) true

/-- position, in the rules of the deck, of the model's canonical category -/
def posOfCat (cfg : Cfg) (cat : Nat) : Nat :=
  if cat = cFullHouse then (Cat.fullHouse.pos (Cfg.isShort cfg))
  else if cat = cFlush then (Cat.flush.pos (Cfg.isShort cfg))
  else cat

/-- digits (`rank+2`) of the set bits of `m` below `w`, highest first, left-aligned in `s` base-16 slots -/
def kd : Nat → Nat → Nat → Nat
  | 0, _, _ => 0
  | w+1, m, s => if m.testBit w then (match s with | 0 => 0 | s'+1 => (w+2) * 16^s' + kd w m s') else kd w m s

/-- a model result `(Ranking, kicker mask)` written as a value of the rules -/
def specOf (cfg : Cfg) (vk : Rk × Nat) : Nat :=
  let v := vk.1
  let k := vk.2
  let a := v.r1 + 2
  let b := v.r2 + 2
  posOfCat cfg v.cat * 16^5 +
    (if v.cat = cHighCard ∨ v.cat = cFlush then a * 16^4 + kd 13 k 4
     else if v.cat = cOnePair then a * 16^4 + a * 16^3 + kd 13 k 3
     else if v.cat = cTwoPair then a * 16^4 + a * 16^3 + b * 16^2 + b * 16 + kd 13 k 1
     else if v.cat = cThreeOAK then a * 16^4 + a * 16^3 + a * 16^2 + kd 13 k 2
     else if v.cat = cFullHouse then a * 16^4 + a * 16^3 + a * 16^2 + b * 16 + b
     else if v.cat = cFourOAK then a * 16^4 + a * 16^3 + a * 16^2 + a * 16 + kd 13 k 1
     else a * 16^4)

/-- the evaluator on a class with a flush depends on the flush rank set only -/
def evalF (cfg : Cfg) (F : Nat) : Rk × Nat := evalA cfg ⟨0, 0, some F⟩

/-- number of kicker ranks a `Strength` of the category carries -/
def nKick (cat : Nat) : Nat :=
  if RP.Gen.C01.flushKickerCats.contains cat then RP.Gen.C01.flushKickers else RP.Gen.nKickers.getD cat 0

/-- well-formed result: fields are ranks, the kicker mask has exactly `nKick` ranks -/
def wfRes (vk : Rk × Nat) : Bool :=
  vk.1.cat < 9 && vk.1.r1 < 13 && vk.1.r2 < 13 && vk.2 < 2^13 && popW 13 vk.2 == nKick vk.1.cat
    && (vk.1.cat == cTwoPair || vk.1.cat == cFullHouse || vk.1.r2 == 0)

/-- one row of the no-flush table -/
def rowN (cfg : Cfg) (cv : Nat) : Bool :=
  let r := evalA cfg (clsN cv)
  (evalA? cfg (clsN cv)).isSome && specOf cfg r == specN cfg cv && wfRes r
    && (popW 13 (ranksOfW 13 cv) < 5 || specN cfg cv < 5 * 16^5)

/-- one row of the flush table -/
def rowF (cfg : Cfg) (F : Nat) : Bool :=
  let r := evalF cfg F
  (evalA? cfg ⟨0, 0, some F⟩).isSome && specOf cfg r == specF cfg F && wfRes r && 5 * 16^5 ≤ specF cfg F

/-- `k` holds for every count vector of `w` ranks (digits ≤ 4) whose digit sum `s` satisfies
    `s ≤ rem` and `rem - s ≤ 2` (with `rem = 7`: 5 ≤ s ≤ 7) -/
def forallCV : Nat → Nat → (Nat → Bool) → Bool
  | 0, rem, k => if rem ≤ 2 then k 0 else true
  | w+1, rem, k => (List.range 5).all fun d => if d ≤ rem then forallCV w (rem - d) (fun rest => k (d + 8 * rest)) else true

def countCV : Nat → Nat → Nat
  | 0, rem => if rem ≤ 2 then 1 else 0
  | w+1, rem => ((List.range 5).map fun d => if d ≤ rem then countCV w (rem - d) else 0).foldl (· + ·) 0

def forallF (k : Nat → Bool) : Bool :=
  (List.range (2^13)).all fun F => if 5 ≤ popW 13 F ∧ popW 13 F ≤ 7 then k F else true

end RP.C01
