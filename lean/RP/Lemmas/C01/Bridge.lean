import RP.Lemmas.C01.Classes
/-! bit-level bridge: the class `α h` of a 5..7-card hand word is a valid class
    (`u16::from(Hand)` = non-empty nibbles, nibble counts, flush suit) -/
namespace RP.C01
open RP.Bits RP.Eval

/-! ### OR-linear functions are determined by their values on single bits -/

def OrLin (f : Nat → Nat) : Prop := f 0 = 0 ∧ ∀ a b, f (a ||| b) = f a ||| f b

theorem split_top (x n : Nat) : x % 2^(n+1) = (if x.testBit n then 2^n else 0) ||| x % 2^n := by
  rw [mod_succ_bit]
  have hlt : x % 2^n < 2^n := Nat.mod_lt _ (Nat.pow_pos (by decide))
  split
  · have := Nat.shiftLeft_add_eq_or_of_lt hlt 1
    simp only [Nat.shiftLeft_eq, Nat.one_mul] at this
    omega
  · simp

theorem orlin_ext (f g : Nat → Nat) (hf : OrLin f) (hg : OrLin g) (n : Nat)
    (hb : ∀ j, j < n → f (2^j) = g (2^j)) : ∀ x, x < 2^n → f x = g x := by
  induction n with
  | zero => intro x hx; have : x = 0 := by simpa using hx
            subst this; rw [hf.1, hg.1]
  | succ n ih =>
    intro x hx
    have e : x = (if x.testBit n then 2^n else 0) ||| x % 2^n := by
      have := split_top x n
      rwa [Nat.mod_eq_of_lt hx] at this
    have ih' := ih (fun j hj => hb j (by omega)) (x % 2^n) (Nat.mod_lt _ (Nat.pow_pos (by decide)))
    rw [e, hf.2, hg.2, ih']
    split
    · rw [hb n (by omega)]
    · rw [hf.1, hg.1]

/-! ### `u16::from(Hand)` -/

theorem foldPre_or (l : List Nat) (a b : Nat) :
    l.foldl (fun x s => x ||| (x >>> s)) (a ||| b) =
      l.foldl (fun x s => x ||| (x >>> s)) a ||| l.foldl (fun x s => x ||| (x >>> s)) b := by
  induction l generalizing a b with
  | nil => rfl
  | cons s l ih =>
    simp only [List.foldl]
    rw [← ih]
    congr 1
    rw [Nat.shiftRight_or_distrib]
    ac_rfl

theorem foldSteps_or (l : List (Nat × Nat)) (x x' y y' : Nat) :
    l.foldl (fun y sm => y ||| (((x ||| x') >>> sm.1) &&& sm.2)) (y ||| y') =
      l.foldl (fun y sm => y ||| ((x >>> sm.1) &&& sm.2)) y ||| l.foldl (fun y sm => y ||| ((x' >>> sm.1) &&& sm.2)) y' := by
  induction l generalizing y y' with
  | nil => rfl
  | cons s l ih =>
    simp only [List.foldl]
    rw [← ih]
    congr 1
    rw [Nat.shiftRight_or_distrib, Nat.and_or_distrib_right]
    ac_rfl

theorem shred_orlin : OrLin shred := by
  refine ⟨by decide, ?_⟩
  intro a b
  simp only [shred]
  rw [foldPre_or, Nat.and_or_distrib_right]
  have := foldSteps_or RP.Gen.shredSteps
    (List.foldl (fun x s => x ||| x >>> s) a RP.Gen.shredPre &&& RP.Gen.shredMask)
    (List.foldl (fun x s => x ||| x >>> s) b RP.Gen.shredPre &&& RP.Gen.shredMask) 0 0
  rw [Nat.or_self] at this
  rw [this, Nat.or_mod_two_pow]

/-- rank mask of a hand word by nibbles: bit `r` set iff nibble `r` is non-empty -/
def nzW : Nat → Nat → Nat
  | 0, _ => 0
  | w+1, h => (if h % 16 = 0 then 0 else 1) ||| (nzW w (h / 16) <<< 1)

theorem nzW_orlin (w : Nat) : OrLin (nzW w) := by
  induction w with
  | zero => exact ⟨rfl, fun _ _ => by simp [nzW]⟩
  | succ w ih =>
    refine ⟨by simp [nzW, ih.1], ?_⟩
    intro a b
    simp only [nzW]
    have h16 : (16 : Nat) = 2^4 := by decide
    rw [h16, Nat.or_mod_two_pow, Nat.or_div_two_pow, ih.2, Nat.shiftLeft_or_distrib]
    by_cases ha : a % 2^4 = 0 <;> by_cases hb : b % 2^4 = 0 <;> simp [ha, hb, Nat.or_eq_zero_iff] <;> ac_rfl

theorem shred_bits : ∀ j, j < 52 → shred (2^j) = nzW 13 (2^j) := by decide

/-- **`u16::from(Hand)` is the mask of non-empty nibbles** (for every 52-bit hand word) -/
theorem shred_eq_nzW (h : Nat) (hh : h < 2^52) : shred h = nzW 13 h :=
  orlin_ext shred (nzW 13) shred_orlin (nzW_orlin 13) 52 shred_bits h hh

end RP.C01

namespace RP.C01
open RP.Bits RP.Eval

/-! ### count vector -/

theorem or_shl1 (e p : Nat) (he : e < 2) : e ||| (p <<< 1) = e + 2 * p := by
  have := Nat.shiftLeft_add_eq_or_of_lt (i := 1) (b := e) (by simpa using he) p
  rw [Nat.or_comm, ← this, Nat.shiftLeft_eq]
  omega

theorem pop4_zero : ∀ n, n < 16 → (popW 4 n = 0 ↔ n = 0) := by decide

theorem cvW_mod (w h : Nat) : cvW (w+1) h % 8 = popW 4 (h % 16) := by
  simp only [cvW]; have := popW_le 4 (h % 16); omega

theorem cvW_div (w h : Nat) : cvW (w+1) h / 8 = cvW w (h / 16) := by
  simp only [cvW]; have := popW_le 4 (h % 16); omega

theorem ranksOf_cvW (w : Nat) : ∀ h, ranksOfW w (cvW w h) = nzW w h := by
  induction w with
  | zero => intro h; rfl
  | succ w ih =>
    intro h
    simp only [ranksOfW, nzW, cvW_mod, cvW_div, ih]
    have hz := pop4_zero (h % 16) (Nat.mod_lt _ (by decide))
    by_cases h0 : h % 16 = 0
    · have : popW 4 (h % 16) = 0 := hz.mpr h0
      rw [this]
      simp only [h0, if_true]
      rw [or_shl1 0 _ (by decide)]
    · have : ¬ popW 4 (h % 16) = 0 := fun e => h0 (hz.mp e)
      simp only [h0, this, if_false]
      rw [or_shl1 1 _ (by decide)]

theorem validCV_cvW (w : Nat) : ∀ h, validCV w (cvW w h) := by
  induction w with
  | zero => intro h; rfl
  | succ w ih =>
    intro h
    simp only [validCV, cvW_mod, cvW_div]
    exact ⟨popW_le 4 _, ih _⟩

theorem popW_nibble (w h : Nat) : popW (4 * (w+1)) h = popW 4 (h % 16) + popW (4 * w) (h / 16) := by
  have e : 4 * (w+1) = 4 * w + 1 + 1 + 1 + 1 := by omega
  rw [e]
  simp only [popW]
  have : h / 2 / 2 / 2 / 2 = h / 16 := by omega
  rw [this]
  omega

theorem digitSum_cvW (w : Nat) : ∀ h, digitSum w (cvW w h) = popW (4 * w) h := by
  induction w with
  | zero => intro h; rfl
  | succ w ih =>
    intro h
    simp only [digitSum, cvW_mod, cvW_div, ih, popW_nibble]

end RP.C01

namespace RP.C01
open RP.Bits RP.Eval

/-! ### flush suit -/

/-- the mask of suit `i` over `w` ranks -/
def suitW : Nat → Nat → Nat
  | 0, _ => 0
  | w+1, i => 2^i + 16 * suitW w i

theorem suitMasks_eq : RP.Gen.suitMasks = [suitW 13 0, suitW 13 1, suitW 13 2, suitW 13 3] := by decide

theorem pow_lt16 {i : Nat} (hi : i < 4) : 2^i < 16 := by
  have : i = 0 ∨ i = 1 ∨ i = 2 ∨ i = 3 := by omega
  rcases this with e | e | e | e <;> subst e <;> decide

theorem and_suit_mod (a w i : Nat) (hi : i < 4) : (a &&& suitW (w+1) i) % 16 = (a % 16) &&& 2^i := by
  have h16 : (16 : Nat) = 2^4 := by decide
  have := pow_lt16 hi
  rw [h16, Nat.and_mod_two_pow, ← h16]
  congr 1
  simp only [suitW]
  generalize 2^i = c at *
  omega

theorem and_suit_div (a w i : Nat) (hi : i < 4) : (a &&& suitW (w+1) i) / 16 = (a / 16) &&& suitW w i := by
  have h16 : (16 : Nat) = 2^4 := by decide
  have := pow_lt16 hi
  rw [h16, Nat.and_div_two_pow, ← h16]
  congr 1
  simp only [suitW]
  generalize 2^i = c at *
  omega

theorem popW_bit (w e p : Nat) (he : e < 2) : popW (w+1) (e + 2 * p) = e + popW w p := by
  simp only [popW]
  have : (e + 2 * p) / 2 = p := by omega
  rw [this]; omega

theorem nib_suit : ∀ n, n < 16 → ∀ i, i < 4 → (if n &&& 2^i = 0 then 0 else 1) = popW 4 (n &&& 2^i) := by decide

theorem pop_nz_suit (i : Nat) (hi : i < 4) : ∀ w a,
    popW w (nzW w (a &&& suitW w i)) = popW (4 * w) (a &&& suitW w i) := by
  intro w
  induction w with
  | zero => intro a; rfl
  | succ w ih =>
    intro a
    rw [popW_nibble]
    simp only [nzW]
    rw [and_suit_mod a w i hi, and_suit_div a w i hi]
    have hn := nib_suit (a % 16) (Nat.mod_lt _ (by decide)) i hi
    rw [← hn, ← ih]
    by_cases h0 : a % 16 &&& 2^i = 0
    · simp only [h0, if_true]; rw [or_shl1 0 _ (by decide), popW_bit _ 0 _ (by decide)]
    · simp only [h0, if_false]; rw [or_shl1 1 _ (by decide), popW_bit _ 1 _ (by decide)]

theorem popW_and_le (w : Nat) : ∀ a b, popW w (a &&& b) ≤ popW w a := by
  induction w with
  | zero => intro a b; exact Nat.le_refl _
  | succ w ih =>
    intro a b
    simp only [popW]
    rw [Nat.and_div_two]
    have h1 := ih (a / 2) (b / 2)
    have h2 : (a &&& b) % 2 ≤ a % 2 := by
      have := @Nat.and_mod_two_pow a b 1
      simp only [Nat.pow_one] at this
      rw [this]
      exact Nat.and_le_left
    omega

theorem pop_nz_and_le (w : Nat) : ∀ a b, popW w (nzW w (a &&& b)) ≤ popW w (nzW w a) := by
  induction w with
  | zero => intro a b; exact Nat.le_refl _
  | succ w ih =>
    intro a b
    simp only [nzW]
    have h16 : (16 : Nat) = 2^4 := by decide
    have e1 : (a &&& b) % 16 = a % 16 &&& b % 16 := by rw [h16, Nat.and_mod_two_pow]
    have e2 : (a &&& b) / 16 = a / 16 &&& b / 16 := by rw [h16, Nat.and_div_two_pow]
    rw [e1, e2]
    have := ih (a / 16) (b / 16)
    by_cases ha : a % 16 = 0
    · simp only [ha, Nat.zero_and, if_true]
      rw [or_shl1 0 _ (by decide), or_shl1 0 _ (by decide), popW_bit _ 0 _ (by decide), popW_bit _ 0 _ (by decide)]
      omega
    · simp only [ha, if_false]
      by_cases hab : a % 16 &&& b % 16 = 0
      · simp only [hab, if_true]
        rw [or_shl1 0 _ (by decide), or_shl1 1 _ (by decide), popW_bit _ 0 _ (by decide), popW_bit _ 1 _ (by decide)]
        omega
      · simp only [hab, if_false]
        rw [or_shl1 1 _ (by decide), or_shl1 1 _ (by decide), popW_bit _ 1 _ (by decide), popW_bit _ 1 _ (by decide)]
        omega

theorem nzW_lt (w : Nat) : ∀ a, nzW w a < 2^w := by
  induction w with
  | zero => intro a; simp [nzW]
  | succ w ih =>
    intro a
    simp only [nzW]
    have := ih (a / 16)
    have e : 2^(w+1) = 2 * 2^w := by rw [Nat.pow_succ, Nat.mul_comm]
    by_cases ha : a % 16 = 0
    · simp only [ha, if_true]; rw [or_shl1 0 _ (by decide)]; omega
    · simp only [ha, if_false]; rw [or_shl1 1 _ (by decide)]; omega

theorem popW_of_lt (k : Nat) : ∀ w n, n < 2^w → popW (w + k) n = popW w n := by
  intro w
  induction w with
  | zero => intro n hn; have : n = 0 := by simpa using hn
            subst this; simp [popW_zero]
  | succ w ih =>
    intro n hn
    have e : w + 1 + k = (w + k) + 1 := by omega
    rw [e]
    simp only [popW]
    rw [ih (n / 2) (by rw [Nat.pow_succ] at hn; omega)]

theorem popW_of_le (w v n : Nat) (hwv : w ≤ v) (hn : n < 2^w) : popW v n = popW w n := by
  obtain ⟨k, rfl⟩ := Nat.le.dest hwv
  exact popW_of_lt k w n hn

theorem flushIn_some (h : Nat) : ∀ (l : List Nat) (F : Nat), flushIn h l = some F →
    ∃ m, m ∈ l ∧ RP.Gen.flushThreshold ≤ popW 64 (h &&& m) ∧ F = shred (h &&& m) := by
  intro l
  induction l with
  | nil => intro F hF; simp [flushIn] at hF
  | cons m l ih =>
    intro F hF
    simp only [flushIn] at hF
    by_cases hc : RP.Gen.flushThreshold ≤ popW 64 (h &&& m)
    · simp only [hc, if_true, Option.some.injEq] at hF
      exact ⟨m, by simp, hc, hF.symm⟩
    · simp only [hc, if_false] at hF
      obtain ⟨m', hm, h1, h2⟩ := ih F hF
      exact ⟨m', by simp [hm], h1, h2⟩

/-- a 5..7-card subset of the deck of the configuration, as a hand word -/
def ValidHand (cfg : Cfg) (h : Nat) : Prop :=
  h &&& handMask cfg = h ∧ 5 ≤ popW 52 h ∧ popW 52 h ≤ 7

theorem handMask_lt (cfg : Cfg) : handMask cfg < 2^52 := by cases cfg <;> decide

theorem ValidHand.lt {cfg : Cfg} {h : Nat} (hv : ValidHand cfg h) : h < 2^52 := by
  have : h ≤ handMask cfg := by rw [← hv.1]; exact Nat.and_le_right
  have := handMask_lt cfg
  omega

/-- **the class of every 5..7-card hand is a valid class** (a row of the table) -/
theorem valid_alpha (cfg : Cfg) (h : Nat) (hv : ValidHand cfg h) : ValidCls (α h) := by
  have hlt := hv.lt
  have hsum : digitSum 13 (cvW 13 h) = popW 52 h := digitSum_cvW 13 h
  refine ⟨validCV_cvW 13 h, ?_, ?_, ?_, ?_⟩
  · show 5 ≤ digitSum 13 (cvW 13 h); rw [hsum]; exact hv.2.1
  · show digitSum 13 (cvW 13 h) ≤ 7; rw [hsum]; exact hv.2.2
  · show shred h = ranksOfW 13 (cvW 13 h)
    rw [ranksOf_cvW, shred_eq_nzW h hlt]
  · intro F hF
    simp only [α, flushOf] at hF
    obtain ⟨m, hm, h5, hFe⟩ := flushIn_some h _ F hF
    rw [suitMasks_eq] at hm
    have hi : ∃ i, i < 4 ∧ m = suitW 13 i := by
      simp only [List.mem_cons, List.not_mem_nil, or_false] at hm
      rcases hm with e | e | e | e
      · exact ⟨0, by decide, e⟩
      · exact ⟨1, by decide, e⟩
      · exact ⟨2, by decide, e⟩
      · exact ⟨3, by decide, e⟩
    obtain ⟨i, hi, hm'⟩ := hi
    rw [hm'] at h5 hFe
    clear hm hm'
    have hx : h &&& suitW 13 i < 2^52 := Nat.lt_of_le_of_lt Nat.and_le_left hlt
    have e1 : F = nzW 13 (h &&& suitW 13 i) := by rw [hFe, shred_eq_nzW _ hx]
    have e2 := pop_nz_suit i hi 13 h
    have e3 : popW 64 (h &&& suitW 13 i) = popW 52 (h &&& suitW 13 i) := popW_of_le 52 64 _ (by decide) hx
    have e4 := popW_and_le 52 h (suitW 13 i)
    have e5 := pop_nz_and_le 13 h (suitW 13 i)
    have e6 : RP.Gen.flushThreshold = 5 := rfl
    have e7 : ranksOfW 13 (cvW 13 h) = nzW 13 h := ranksOf_cvW 13 h
    have hv2 := hv.2.2
    refine ⟨?_, ?_, ?_, ?_⟩
    · rw [e1]; exact nzW_lt 13 _
    · rw [e1, e2]; simp only [Nat.reduceMul]; omega
    · rw [e1, e2]; simp only [Nat.reduceMul]; omega
    · show 5 ≤ popW 13 (ranksOfW 13 (cvW 13 h))
      rw [e7]
      rw [e2] at e5
      simp only [Nat.reduceMul] at e5
      omega

end RP.C01
