import RP.Lemmas.C01.Abs
/-! C01 table, no-flush rows, deck `short`, count vectors with deuce digit 0 and trey digit 0.
    Checked by native evaluation (what `native_decide` does: axiom `Lean.ofReduceBool`). -/
namespace RP.C01
open RP.Eval
set_option linter.deprecated false

def tabN_short_00_native_decide : Bool :=
  forallCV 11 (7 - 0 - 0) (fun rest => rowN .short (0 + 8 * (0 + 8 * rest)))

theorem tabN_short_00 : forallCV 11 (7 - 0 - 0) (fun rest => rowN .short (0 + 8 * (0 + 8 * rest))) = true :=
  Lean.ofReduceBool tabN_short_00_native_decide true rfl

end RP.C01
