import RP.Lemmas.C01.Sound
import RP.Lemmas.C01.Order
import RP.Lemmas.C01.TabStd0
import RP.Lemmas.C01.TabStd1
import RP.Lemmas.C01.TabStd2
import RP.Lemmas.C01.TabStd3
import RP.Lemmas.C01.TabStd4
import RP.Lemmas.C01.TabStdF
import RP.Lemmas.C01.TabShort0
import RP.Lemmas.C01.TabShort1
import RP.Lemmas.C01.TabShort2
import RP.Lemmas.C01.TabShort3
import RP.Lemmas.C01.TabShort4
import RP.Lemmas.C01.TabShortF
/-! assembly of the table chunks -/
namespace RP.C01
open RP.Bits RP.Eval

theorem tabN_all (cfg : Cfg) : forallCV 13 7 (rowN cfg) = true := by
  rw [forallCV]
  simp only [List.all_eq_true, List.mem_range]
  intro d hd
  have : d = 0 ∨ d = 1 ∨ d = 2 ∨ d = 3 ∨ d = 4 := by omega
  cases cfg
  · rcases this with e | e | e | e | e <;> subst e <;> simp only [Nat.reduceLeDiff, if_true]
    · exact tabN_std_0
    · exact tabN_std_1
    · exact tabN_std_2
    · exact tabN_std_3
    · exact tabN_std_4
  · rcases this with e | e | e | e | e <;> subst e <;> simp only [Nat.reduceLeDiff, if_true]
    · exact tabN_short_0
    · exact tabN_short_1
    · exact tabN_short_2
    · exact tabN_short_3
    · exact tabN_short_4

theorem tabF_all (cfg : Cfg) : forallF (rowF cfg) = true := by
  cases cfg
  · exact tabF_std
  · exact tabF_short

end RP.C01
