import RP.Lemmas.C01.Abs
/-! the derived order of `Strength` (variant index, fields, kicker mask as a number) is the order of
    the translated values `specOf` — for well-formed results -/
namespace RP.C01
open RP.Bits RP.Eval RP.Spec.Poker

theorem kd_zero_slots (w m : Nat) : kd w m 0 = 0 := by
  induction w with
  | zero => rfl
  | succ w ih => simp only [kd]; split <;> simp [ih]

theorem pow16_pos (s : Nat) : 0 < 16^s := Nat.pow_pos (by decide)

theorem kd_bounds (m : Nat) : ∀ w, w ≤ 14 → ∀ s, kd w m s < 16^s ∧ kd w m (s+1) < (w+2) * 16^s := by
  intro w
  induction w with
  | zero => intro _ s; simp only [kd]; have := pow16_pos s; omega
  | succ w ih =>
    intro hw s
    have ih := ih (by omega)
    have h2 : kd (w+1) m (s+1) < (w+1+2) * 16^s := by
      simp only [kd]
      have := (ih s).1
      have := (ih s).2
      have e : (w+1+2) * 16^s = (w+2) * 16^s + 16^s := by rw [Nat.succ_mul]
      split <;> omega
    refine ⟨?_, h2⟩
    cases s with
    | zero => rw [kd_zero_slots]; exact pow16_pos 0
    | succ s =>
      have h3 : kd (w+1) m (s+1) < (w+1+2) * 16^s := by
        simp only [kd]
        have := (ih s).1
        have := (ih s).2
        have e : (w+1+2) * 16^s = (w+2) * 16^s + 16^s := by rw [Nat.succ_mul]
        split <;> omega
      have : (w+1+2) * 16^s ≤ 16 * 16^s := Nat.mul_le_mul_right _ (by omega)
      have e : 16^(s+1) = 16 * 16^s := by rw [Nat.pow_succ, Nat.mul_comm]
      omega

theorem mod_succ_bit (a w : Nat) : a % 2^(w+1) = a % 2^w + (if a.testBit w then 2^w else 0) := by
  rw [Nat.mod_pow_succ, Nat.testBit_eq_decide_div_mod_eq]
  have : a / 2^w % 2 = 0 ∨ a / 2^w % 2 = 1 := by omega
  rcases this with h | h <;> simp [h]

theorem kd_mono : ∀ w, w ≤ 14 → ∀ a b s, popW w a = s → popW w b = s →
    a % 2^w < b % 2^w → kd w a s < kd w b s := by
  intro w
  induction w with
  | zero => intro _ a b s _ _ h; simp [Nat.mod_one] at h
  | succ w ih =>
    intro hw a b s ha hb hlt
    have ih := ih (by omega)
    rw [popW_succ] at ha hb
    rw [mod_succ_bit a w, mod_succ_bit b w] at hlt
    have hA : a % 2^w < 2^w := Nat.mod_lt _ (Nat.pow_pos (by decide))
    have hB : b % 2^w < 2^w := Nat.mod_lt _ (Nat.pow_pos (by decide))
    simp only [kd]
    by_cases hα : a.testBit w = true <;> by_cases hβ : b.testBit w = true
    · simp only [hα, hβ, if_true] at ha hb hlt ⊢
      cases s with
      | zero => omega
      | succ s =>
        have := ih a b s (by omega) (by omega) (by omega)
        simp only []
        omega
    · simp only [hα, hβ, if_true] at ha hb hlt ⊢
      simp at hlt
      omega
    · simp only [hα, hβ, if_true] at ha hb hlt ⊢
      cases s with
      | zero => simp at hb
      | succ s =>
        have := (kd_bounds a w (by omega) s).2
        simp only []
        simp at this ⊢
        omega
    · simp only [hα, hβ] at ha hb hlt ⊢
      simp at ha hb hlt ⊢
      exact ih a b s ha hb hlt

end RP.C01

namespace RP.C01
open RP.Bits RP.Eval RP.Spec.Poker

/-- the comparison key of a model result -/
def keyA (cfg : Cfg) (vk : Rk × Nat) : Nat := keyOf (toStrength cfg vk)

theorem keyA_eq (cfg : Cfg) (c r1 r2 k : Nat) :
    keyA cfg (⟨c, r1, r2⟩, k) = variantIdx cfg c * 16777216 + r1 * 1048576 + r2 * 65536 + k := by
  simp [keyA, keyOf, toStrength]

/-- the generated variant order of each deck configuration is the category order of its rules -/
theorem idx_facts (cfg : Cfg) : ∀ c1, c1 < 9 → ∀ c2, c2 < 9 →
    (variantIdx cfg c1 < variantIdx cfg c2 → posOfCat cfg c1 < posOfCat cfg c2) ∧
    (variantIdx cfg c1 = variantIdx cfg c2 → c1 = c2) := by
  cases cfg <;> decide

theorem wfRes_iff (vk : Rk × Nat) : wfRes vk = true ↔
    vk.1.cat < 9 ∧ vk.1.r1 < 13 ∧ vk.1.r2 < 13 ∧ vk.2 < 8192 ∧ popW 13 vk.2 = nKick vk.1.cat ∧
    (vk.1.cat = cTwoPair ∨ vk.1.cat = cFullHouse ∨ vk.1.r2 = 0) := by
  simp [wfRes, and_assoc, or_assoc]

theorem nine_cases {c : Nat} (h : c < 9) : c = 0 ∨ c = 1 ∨ c = 2 ∨ c = 3 ∨ c = 4 ∨ c = 5 ∨ c = 6 ∨ c = 7 ∨ c = 8 := by omega

theorem specOf_bounds (cfg : Cfg) (c r1 r2 k : Nat) (h : wfRes (⟨c, r1, r2⟩, k) = true) :
    posOfCat cfg c * 1048576 ≤ specOf cfg (⟨c, r1, r2⟩, k) ∧
    specOf cfg (⟨c, r1, r2⟩, k) < posOfCat cfg c * 1048576 + 1048576 := by
  rw [wfRes_iff] at h
  obtain ⟨hc, h1, h2, _, _, _⟩ := h
  simp only at hc h1 h2
  have b1 := (kd_bounds k 13 (by decide) 1).1
  have b2 := (kd_bounds k 13 (by decide) 2).1
  have b3 := (kd_bounds k 13 (by decide) 3).1
  have b4 := (kd_bounds k 13 (by decide) 4).1
  simp only [Nat.reducePow] at b1 b2 b3 b4
  rcases nine_cases hc with e | e | e | e | e | e | e | e | e <;> subst e <;>
    simp [specOf, cHighCard, cOnePair, cTwoPair, cThreeOAK, cFullHouse, cFlush, cFourOAK] <;> omega

end RP.C01

namespace RP.C01
open RP.Bits RP.Eval RP.Spec.Poker

theorem nk_table : ∀ c, c < 9 → nKick c =
    (if c = 0 then 4 else if c = 1 then 3 else if c = 2 then 1 else if c = 3 then 2 else if c = 6 then 4 else if c = 7 then 1 else 0) := by
  decide

theorem variantIdx_lt (cfg : Cfg) : ∀ c, c < 9 → variantIdx cfg c < 16 := by
  cases cfg <;> decide

attribute [local irreducible] kd variantIdx posOfCat in
/-- strictly smaller key ⇒ strictly smaller translated value -/
theorem key_lt_imp (cfg : Cfg) (a b : Rk × Nat) (ha : wfRes a = true) (hb : wfRes b = true)
    (h : keyA cfg a < keyA cfg b) : specOf cfg a < specOf cfg b := by
  obtain ⟨⟨c, r1, r2⟩, k⟩ := a
  obtain ⟨⟨c', r1', r2'⟩, k'⟩ := b
  have ba := specOf_bounds cfg c r1 r2 k ha
  have bb := specOf_bounds cfg c' r1' r2' k' hb
  rw [keyA_eq, keyA_eq] at h
  rw [wfRes_iff] at ha hb
  obtain ⟨hc, h1, h2, hk, hp, hr⟩ := ha
  obtain ⟨hc', h1', h2', hk', hp', hr'⟩ := hb
  simp only at hc h1 h2 hk hp hr hc' h1' h2' hk' hp' hr'
  have hidx := idx_facts cfg c hc c' hc'
  by_cases hcc : c = c'
  · subst hcc
    -- same category: fields, then kicker masks
    have hpp : popW 13 k' = popW 13 k := by rw [hp, hp']
    have mono : k < k' → kd 13 k (popW 13 k) < kd 13 k' (popW 13 k) := fun hlt =>
      kd_mono 13 (by decide) k k' (popW 13 k) rfl hpp (by rw [Nat.mod_eq_of_lt hk, Nat.mod_eq_of_lt hk']; exact hlt)
    have bA := (kd_bounds k 13 (by decide) (popW 13 k)).1
    have bB := (kd_bounds k' 13 (by decide) (popW 13 k)).1
    have L : r1 < r1' ∨ (r1 = r1' ∧ (r2 < r2' ∨ (r2 = r2' ∧ k < k'))) := by omega
    clear ba bb hidx hpp hp' h
    rw [nk_table c hc] at hp
    rw [hp] at mono bA bB
    clear hp
    rcases nine_cases hc with e | e | e | e | e | e | e | e | e <;> subst e <;>
      simp only [cTwoPair, cFullHouse, Nat.reduceEqDiff, false_or, if_true, if_false, Nat.reducePow] at hr hr' mono bA bB <;>
      simp only [specOf, cHighCard, cOnePair, cTwoPair, cThreeOAK, cFullHouse, cFlush, cFourOAK, Nat.reduceEqDiff, if_true, if_false, Nat.reducePow, or_self, or_false, or_true] <;>
      (rcases L with L | ⟨L1, L | ⟨L2, L3⟩⟩
       · omega
       · omega
       · have := mono L3
         omega)
  · have hlt : variantIdx cfg c < variantIdx cfg c' := by
      have hne : variantIdx cfg c ≠ variantIdx cfg c' := fun e => hcc (hidx.2 e)
      omega
    have := hidx.1 hlt
    omega

/-- the key is injective on well-formed results -/
theorem key_inj (cfg : Cfg) (a b : Rk × Nat) (ha : wfRes a = true) (hb : wfRes b = true)
    (h : keyA cfg a = keyA cfg b) : a = b := by
  obtain ⟨⟨c, r1, r2⟩, k⟩ := a
  obtain ⟨⟨c', r1', r2'⟩, k'⟩ := b
  rw [keyA_eq, keyA_eq] at h
  rw [wfRes_iff] at ha hb
  obtain ⟨hc, h1, h2, hk, _, _⟩ := ha
  obtain ⟨hc', h1', h2', hk', _, _⟩ := hb
  simp only at hc h1 h2 hk hc' h1' h2' hk'
  have hidx := idx_facts cfg c hc c' hc'
  have e0 : variantIdx cfg c = variantIdx cfg c' := by omega
  have := hidx.2 e0
  subst this
  have : r1 = r1' := by omega
  have : r2 = r2' := by omega
  have : k = k' := by omega
  subst_vars
  rfl

/-- **key order**: the derived order of `Strength` on well-formed results is the order of the
    translated rule values -/
theorem key_order (cfg : Cfg) (a b : Rk × Nat) (ha : wfRes a = true) (hb : wfRes b = true) :
    compare (keyA cfg a) (keyA cfg b) = compare (specOf cfg a) (specOf cfg b) := by
  rcases Nat.lt_trichotomy (keyA cfg a) (keyA cfg b) with h | h | h
  · have := key_lt_imp cfg a b ha hb h
    rw [Nat.compare_eq_lt.mpr h, Nat.compare_eq_lt.mpr this]
  · have := key_inj cfg a b ha hb h
    subst this
    simp
  · have := key_lt_imp cfg b a hb ha h
    rw [Nat.compare_eq_gt.mpr h, Nat.compare_eq_gt.mpr this]

end RP.C01
