import RP.Lemmas.C01.Sound
import RP.Lemmas.C01.Order
/-! consequences of the table on classes: model result = rules value -/
namespace RP.C01
open RP.Bits RP.Eval RP.Spec.Poker

/-- rules value of a class: best of the rank multiset, and of the flush suit if there is one -/
def specA (cfg : Cfg) (c : Cls) : Nat :=
  match c.fl with
  | none => specN cfg c.cv
  | some F => max (specN cfg c.cv) (specF cfg F)

/-- what the class `α h` of a 5..7-card hand satisfies -/
structure ValidCls (c : Cls) : Prop where
  cv : validCV 13 c.cv
  lo : 5 ≤ digitSum 13 c.cv
  hi : digitSum 13 c.cv ≤ 7
  rk : c.rk = ranksOfW 13 c.cv
  fl : ∀ F, c.fl = some F → F < 2^13 ∧ 5 ≤ popW 13 F ∧ popW 13 F ≤ 7 ∧ 5 ≤ popW 13 (ranksOfW 13 c.cv)

/-- the two table facts everything below rests on: the walkers accept every row.  Instantiated
    by native evaluation in `Native.lean` (quick tier) and by kernel evaluation in
    `Kernel/All.lean` (thorough tier). -/
structure TableOK (cfg : Cfg) : Prop where
  n : forallCV 13 7 (rowN cfg) = true
  f : forallF (rowF cfg) = true

theorem rowN_of_valid_of {cfg : Cfg} (T : TableOK cfg) (cv : Nat) (h1 : validCV 13 cv) (h2 : 5 ≤ digitSum 13 cv) (h3 : digitSum 13 cv ≤ 7) :
    rowN cfg cv = true :=
  forallCV_sound 13 7 (rowN cfg) T.n cv h1 h3 (by omega)

theorem rowF_of_valid_of {cfg : Cfg} (T : TableOK cfg) (F : Nat) (h1 : F < 2^13) (h2 : 5 ≤ popW 13 F) (h3 : popW 13 F ≤ 7) :
    rowF cfg F = true :=
  forallF_sound (rowF cfg) T.f F h1 h2 h3

/-- with a flush suit the evaluator looks at nothing else -/
theorem evalA?_flush (cfg : Cfg) (cv rk F : Nat) : evalA? cfg ⟨cv, rk, some F⟩ = evalA? cfg ⟨0, 0, some F⟩ := by
  have nk8 : RP.Gen.nKickers[cStraightFlush]?.getD 0 = 0 := by decide
  have c8 : cStraightFlush ∉ RP.Gen.C01.flushKickerCats := by decide
  have c6 : cFlush ∈ RP.Gen.C01.flushKickerCats := by decide
  simp only [evalA?, findRanking?, findFlush]
  cases findStraight cfg F <;> simp [Option.orElse, findKickers?, flushKickers?, nk8, c8, c6]

theorem evalA_flush (cfg : Cfg) (cv rk F : Nat) : evalA cfg ⟨cv, rk, some F⟩ = evalF cfg F := by
  simp only [evalA, evalF, evalA?_flush cfg cv rk F]

/-- **the table on classes**: on every valid class the evaluator succeeds, its result is
    well-formed, and translated into the value space of the rules it is the rules' value of the class -/
theorem table_cls_of {cfg : Cfg} (T : TableOK cfg) (c : Cls) (hv : ValidCls c) :
    (evalA? cfg c).isSome = true ∧ wfRes (evalA cfg c) = true ∧ specOf cfg (evalA cfg c) = specA cfg c := by
  have hN := rowN_of_valid_of T c.cv hv.cv hv.lo hv.hi
  simp only [rowN, Bool.and_eq_true, beq_iff_eq, Bool.or_eq_true, decide_eq_true_eq] at hN
  obtain ⟨⟨⟨n1, n2⟩, n3⟩, n5⟩ := hN
  have hrk := hv.rk
  have hfl := hv.fl
  obtain ⟨cv, rk, fl⟩ := c
  simp only at n1 n2 n3 n5 hrk hfl
  cases fl with
  | none =>
    have e : (⟨cv, rk, none⟩ : Cls) = clsN cv := by rw [hrk]; rfl
    rw [e]
    refine ⟨n1, n3, ?_⟩
    have e2 : specA cfg (clsN cv) = specN cfg cv := rfl
    rw [e2, n2]
  | some F =>
    obtain ⟨f1, f2, f3, f4⟩ := hfl F rfl
    have hF := rowF_of_valid_of T F f1 f2 f3
    simp only [rowF, Bool.and_eq_true, beq_iff_eq, decide_eq_true_eq] at hF
    obtain ⟨⟨⟨g1, g2⟩, g3⟩, g4⟩ := hF
    have hA : specA cfg ⟨cv, rk, some F⟩ = specF cfg F := by
      have e2 : specA cfg ⟨cv, rk, some F⟩ = max (specN cfg cv) (specF cfg F) := rfl
      rw [e2]
      generalize specN cfg cv = sN at *
      generalize specF cfg F = sF at *
      generalize popW 13 (ranksOfW 13 cv) = pc at *
      simp only [Nat.reducePow, Nat.reduceMul] at n5 g4
      omega
    refine ⟨?_, ?_, ?_⟩
    · rw [evalA?_flush]; exact g1
    · rw [evalA_flush]; exact g3
    · rw [evalA_flush, hA]; exact g2

/-- **order on valid classes = order of the rules' values** -/
theorem order_cls_of {cfg : Cfg} (T : TableOK cfg) (c1 c2 : Cls) (h1 : ValidCls c1) (h2 : ValidCls c2) :
    compare (keyA cfg (evalA cfg c1)) (keyA cfg (evalA cfg c2)) = compare (specA cfg c1) (specA cfg c2) := by
  obtain ⟨_, w1, e1⟩ := table_cls_of T c1 h1
  obtain ⟨_, w2, e2⟩ := table_cls_of T c2 h2
  rw [key_order cfg _ _ w1 w2, e1, e2]

end RP.C01
