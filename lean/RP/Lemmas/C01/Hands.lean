import RP.Lemmas.C01.Bridge
/-! hand level: the engine's comparison of two 5..7-card hands is the comparison of the rules'
    values of their classes -/
namespace RP.C01
open RP.Bits RP.Eval RP.Spec.Poker

theorem strengthKey_eq (cfg : Cfg) (h : Nat) (hv : ValidHand cfg h) :
    strengthKey cfg h = keyA cfg (evalA cfg (α h)) := by
  simp only [strengthKey, strength, handOf, hv.1, keyA]

theorem order_hands_abs_of {cfg : Cfg} (T : TableOK cfg) (h1 h2 : Nat) (v1 : ValidHand cfg h1) (v2 : ValidHand cfg h2) :
    compareHands cfg h1 h2 = compare (specA cfg (α h1)) (specA cfg (α h2)) := by
  simp only [compareHands, strengthKey_eq cfg h1 v1, strengthKey_eq cfg h2 v2]
  exact order_cls_of T _ _ (valid_alpha cfg h1 v1) (valid_alpha cfg h2 v2)

theorem strength_total_of {cfg : Cfg} (T : TableOK cfg) (h : Nat) (hv : ValidHand cfg h) : (strength? cfg h).isSome = true := by
  have := (table_cls_of T (α h) (valid_alpha cfg h hv)).1
  simp only [strength?, handOf, hv.1, Option.isSome_map]
  exact this

/-- with a flush suit among ≤ 7 cards, the other finders would find neither quads nor a full house -/
theorem flush_excludes_of {cfg : Cfg} (T : TableOK cfg) (h F : Nat) (hv : ValidHand cfg h) (hF : (α h).fl = some F) :
    (evalA cfg (clsN (α h).cv)).1.cat ≠ cFourOAK ∧ (evalA cfg (clsN (α h).cv)).1.cat ≠ cFullHouse := by
  have hc := valid_alpha cfg h hv
  have hN := rowN_of_valid_of T (α h).cv hc.cv hc.lo hc.hi
  simp only [rowN, Bool.and_eq_true, beq_iff_eq, Bool.or_eq_true, decide_eq_true_eq] at hN
  obtain ⟨⟨⟨n1, n2⟩, n3⟩, n5⟩ := hN
  obtain ⟨_, _, _, f4⟩ := hc.fl F hF
  have hlt : specN cfg (α h).cv < 5 * 16^5 := by
    rcases n5 with h' | h'
    · omega
    · exact h'
  rw [← n2] at hlt
  generalize evalA cfg (clsN (α h).cv) = r at *
  obtain ⟨⟨c, r1, r2⟩, k⟩ := r
  have b := (specOf_bounds cfg c r1 r2 k n3).1
  simp only [Nat.reducePow, Nat.reduceMul] at hlt
  constructor
  · intro e
    simp only at e
    subst e
    have : posOfCat cfg cFourOAK = 7 := by cases cfg <;> rfl
    rw [this] at b
    omega
  · intro e
    simp only at e
    subst e
    have : 5 ≤ posOfCat cfg cFullHouse := by cases cfg <;> decide
    omega

end RP.C01
