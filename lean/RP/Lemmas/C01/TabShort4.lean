import RP.Lemmas.C01.Abs
/-! C01 table, no-flush rows, deck `short`, count vectors whose deuce digit is 4.
    Checked by native evaluation (what `native_decide` does: axiom `Lean.ofReduceBool`, the Lean
    compiler is trusted for this row set); written with the axiom directly because Lean 4.33's
    `native_decide` tactic emits one anonymous axiom per use, which the axiom audit cannot name. -/
namespace RP.C01
open RP.Eval
set_option linter.deprecated false

def tabN_short_4_native_decide : Bool := forallCV 12 (7 - 4) (fun rest => rowN .short (4 + 8 * rest))

theorem tabN_short_4 : forallCV 12 (7 - 4) (fun rest => rowN .short (4 + 8 * rest)) = true :=
  Lean.ofReduceBool tabN_short_4_native_decide true rfl

end RP.C01
