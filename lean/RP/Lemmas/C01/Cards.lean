import RP.Lemmas.C01.Suits
import RP.Lemmas.C01.Lists
/-! the card list of a hand word, rank by rank: ranks = the count vector's multiset,
    cards of one suit = the bits of that suit's rank mask -/
namespace RP.C01
open RP.Bits RP.Eval RP.Spec.Poker

theorem pow16 (w : Nat) : (16 : Nat)^w = 2^(4*w) := by
  rw [Nat.pow_mul]

/-- bit `4w+j` of `h` is bit `j` of nibble `w` -/
theorem testBit_nib (h w j : Nat) (hj : j < 4) : h.testBit (4*w + j) = (h / 16^w % 16).testBit j := by
  have h16 : (16 : Nat) = 2^4 := by decide
  rw [pow16, h16, Nat.testBit_mod_two_pow, ← Nat.shiftRight_eq_div_pow, Nat.testBit_shiftRight]
  simp [hj]

theorem cards_nib (h w : Nat) :
    cardsW (4*w + 4) h = (bitsDesc 4 (h / 16^w % 16)).map (4*w + ·) ++ cardsW (4*w) h := by
  have e3 := testBit_nib h w 3 (by decide)
  have e2 := testBit_nib h w 2 (by decide)
  have e1 := testBit_nib h w 1 (by decide)
  have e0 := testBit_nib h w 0 (by decide)
  simp only [Nat.add_zero] at e0
  simp only [cardsW, bitsDesc, e3, e2, e1, e0]
  generalize h / 16^w % 16 = n
  by_cases b3 : n.testBit 3 <;> by_cases b2 : n.testBit 2 <;> by_cases b1 : n.testBit 1 <;> by_cases b0 : n.testBit 0 <;>
    simp [b3, b2, b1, b0]

theorem bitsDesc_lt : ∀ k m j, j ∈ bitsDesc k m → j < k := by
  intro k
  induction k with
  | zero => intro m j h; simp [bitsDesc] at h
  | succ k ih =>
    intro m j h
    simp only [bitsDesc] at h
    split at h
    · simp only [List.mem_cons] at h
      rcases h with e | e
      · omega
      · have := ih m j e; omega
    · have := ih m j h; omega

theorem bitsDesc_length : ∀ k m, (bitsDesc k m).length = popW k m := by
  intro k
  induction k with
  | zero => intro m; rfl
  | succ k ih =>
    intro m
    rw [popW_succ]
    simp only [bitsDesc]
    split <;> simp [ih]

/-- ranks of the cards of nibble `w` -/
theorem nib_ranks (w n : Nat) : ((bitsDesc 4 n).map (4*w + ·)).map rank = List.replicate (popW 4 n) w := by
  rw [List.map_map, ← bitsDesc_length 4 n, ← List.map_const']
  apply List.map_congr_left
  intro j hj
  have := bitsDesc_lt 4 n j hj
  simp only [Function.comp, rank]
  omega

theorem nib_filter : ∀ n, n < 16 → ∀ i, i < 4 →
    (bitsDesc 4 n).filter (· == i) = if n.testBit i then [i] else [] := by decide

/-- cards of suit `i` among the cards of nibble `w` -/
theorem nib_suit_cards (w n i : Nat) (hn : n < 16) (hi : i < 4) :
    (((bitsDesc 4 n).map (4*w + ·)).filter (suit · == i)).map rank = if n.testBit i then [w] else [] := by
  rw [List.filter_map]
  have : (bitsDesc 4 n).filter ((fun c => suit c == i) ∘ (4*w + ·)) = (bitsDesc 4 n).filter (· == i) := by
    apply List.filter_congr
    intro j hj
    have := bitsDesc_lt 4 n j hj
    simp only [Function.comp, suit]
    have : (4*w + j) % 4 = j := by omega
    rw [this]
  rw [this, nib_filter n hn i hi]
  split
  · simp [rank]; omega
  · simp

theorem digit_eq (cv w : Nat) : digit cv w = cv / 8^w % 8 := by
  have h8 : (8 : Nat)^w = 2^(3*w) := by rw [Nat.pow_mul]
  have : (7 : Nat) = 2^3 - 1 := by decide
  simp only [digit]
  rw [this, Nat.and_two_pow_sub_one_eq_mod, Nat.shiftRight_eq_div_pow, h8]

theorem digit_cvW : ∀ n h w, w < n → digit (cvW n h) w = popW 4 (h / 16^w % 16) := by
  intro n
  induction n with
  | zero => intro h w hw; omega
  | succ n ih =>
    intro h w hw
    rw [digit_eq]
    cases w with
    | zero => simp only [Nat.pow_zero, Nat.div_one]; exact cvW_mod n h
    | succ w =>
      have e1 : cvW (n+1) h / 8^(w+1) = cvW n (h / 16) / 8^w := by
        rw [Nat.pow_succ, Nat.mul_comm, ← Nat.div_div_eq_div_mul, cvW_div]
      have e2 : h / 16^(w+1) = h / 16 / 16^w := by
        rw [Nat.pow_succ, Nat.mul_comm, ← Nat.div_div_eq_div_mul]
      rw [e1, e2, ← digit_eq]
      exact ih (h / 16) w (by omega)

/-- **the ranks of the cards of a hand are the multiset of its count vector** -/
theorem cards_ranks (h : Nat) : ∀ w, w ≤ 13 → (cardsW (4*w) h).map rank = ranksListW w (cvW 13 h) := by
  intro w
  induction w with
  | zero => intro _; rfl
  | succ w ih =>
    intro hw
    have e : 4 * (w+1) = 4*w + 4 := by omega
    rw [e, cards_nib, List.map_append, nib_ranks, ih (by omega)]
    simp only [ranksListW]
    rw [digit_cvW 13 h w (by omega)]

theorem nzW_testBit : ∀ n x w, (nzW n x).testBit w = (decide (w < n) && decide (x / 16^w % 16 ≠ 0)) := by
  intro n
  induction n with
  | zero => intro x w; simp [nzW]
  | succ n ih =>
    intro x w
    simp only [nzW]
    have he : (if x % 16 = 0 then 0 else 1) < 2 := by split <;> decide
    rw [or_shl1 _ _ he]
    cases w with
    | zero =>
      simp only [Nat.testBit_zero, Nat.pow_zero, Nat.div_one]
      by_cases h0 : x % 16 = 0 <;> simp [h0] <;> omega
    | succ w =>
      rw [Nat.testBit_succ]
      have : ((if x % 16 = 0 then 0 else 1) + 2 * nzW n (x / 16)) / 2 = nzW n (x / 16) := by
        split <;> omega
      rw [this, ih]
      have e2 : x / 16^(w+1) = x / 16 / 16^w := by
        rw [Nat.pow_succ, Nat.mul_comm, ← Nat.div_div_eq_div_mul]
      rw [e2]
      simp

theorem suitW_nib : ∀ i, i < 4 → ∀ w, w < 13 → suitW 13 i / 16^w % 16 = 2^i := by decide

theorem nib_and_pow : ∀ n, n < 16 → ∀ i, i < 4 → (decide (n &&& 2^i ≠ 0)) = n.testBit i := by decide

/-- bit `w` of the rank mask of suit `i` = card `(w, i)` present -/
theorem suit_mask_bit (h i w : Nat) (hi : i < 4) (hw : w < 13) :
    (nzW 13 (h &&& suitW 13 i)).testBit w = (h / 16^w % 16).testBit i := by
  rw [nzW_testBit]
  have h16 : (16 : Nat) = 2^4 := by decide
  have e : (h &&& suitW 13 i) / 16^w % 16 = (h / 16^w % 16) &&& 2^i := by
    rw [pow16, Nat.and_div_two_pow, h16, Nat.and_mod_two_pow, ← h16, ← pow16, suitW_nib i hi w hw]
  rw [e]
  simp only [hw, decide_true, Bool.true_and]
  exact nib_and_pow _ (Nat.mod_lt _ (by decide)) i hi

/-- **the ranks of the cards of suit `i` are the bits of that suit's rank mask** -/
theorem suit_cards_ranks (h i : Nat) (hi : i < 4) : ∀ w, w ≤ 13 →
    ((cardsW (4*w) h).filter (suit · == i)).map rank = bitsDesc w (nzW 13 (h &&& suitW 13 i)) := by
  intro w
  induction w with
  | zero => intro _; rfl
  | succ w ih =>
    intro hw
    have e : 4 * (w+1) = 4*w + 4 := by omega
    rw [e, cards_nib, List.filter_append, List.map_append, nib_suit_cards w _ i (Nat.mod_lt _ (by decide)) hi, ih (by omega)]
    simp only [bitsDesc]
    rw [suit_mask_bit h i w hi (by omega)]
    split <;> simp

end RP.C01
