import RP.Lemmas.ArithReal
import RP.Lemmas.Hist
import Mathlib.Tactic.Ring
import Mathlib.Tactic.Linarith
set_option linter.unusedSimpArgs false
set_option linter.unusedVariables false
/-! Invariants of `Heuristic::minimize` (model `RP.Transport.greedyPass / greedyLoop`) over ℝ,
    for a total distance function `d x y = some (δ x y)`. -/
namespace RP.C12
open RP.Transport

/-- total value stored under key `a` -/
noncomputable def massAt (l : Pot ℝ) (a : Nat) : ℝ := ((l.filter fun e => e.1 == a).map Prod.snd).sum
noncomputable def total (l : Pot ℝ) : ℝ := (l.map Prod.snd).sum
/-- mass the recorded moves take out of source `a` (row sum of the plan) -/
noncomputable def rowOf (st : List (Nat × Nat × ℝ)) (a : Nat) : ℝ :=
  ((st.filter fun s => s.1 == a).map fun s => s.2.2).sum
/-- mass the recorded moves put into sink `b` (column sum of the plan) -/
noncomputable def colOf (st : List (Nat × Nat × ℝ)) (b : Nat) : ℝ :=
  ((st.filter fun s => s.2.1 == b).map fun s => s.2.2).sum
/-- cost of the recorded plan `Σ mass · distance` -/
noncomputable def stepsCost (δ : Nat → Nat → ℝ) (st : List (Nat × Nat × ℝ)) : ℝ :=
  (st.map fun s => s.2.2 * δ s.1 s.2.1).sum
noncomputable def npos (l : Pot ℝ) : Nat := (l.filter fun e => decide (0 < e.2)).length
def NonNeg (l : Pot ℝ) : Prop := ∀ e ∈ l, 0 ≤ e.2

theorem massAt_cons (x : Nat) (v : ℝ) (l : Pot ℝ) (a : Nat) :
    massAt ((x, v) :: l) a = (if x = a then v else 0) + massAt l a := by
  unfold massAt
  by_cases h : x = a
  · simp [List.filter_cons, h]
  · have : (x == a) = false := by simpa using h
    simp [List.filter_cons, h, this]

theorem total_cons (x : Nat) (v : ℝ) (l : Pot ℝ) : total ((x, v) :: l) = v + total l := by
  simp [total]

theorem npos_cons (x : Nat) (v : ℝ) (l : Pot ℝ) :
    npos ((x, v) :: l) = (if 0 < v then 1 else 0) + npos l := by
  unfold npos
  by_cases h : 0 < v
  · simp [List.filter_cons, h]; omega
  · simp [List.filter_cons, h]

theorem rowOf_snoc (st : List (Nat × Nat × ℝ)) (x y : Nat) (m : ℝ) (a : Nat) :
    rowOf (st ++ [(x, y, m)]) a = rowOf st a + (if x = a then m else 0) := by
  unfold rowOf
  by_cases h : x = a
  · simp [List.filter_append, List.filter_cons, h]
  · have : (x == a) = false := by simpa using h
    simp [List.filter_append, List.filter_cons, h, this]

theorem colOf_snoc (st : List (Nat × Nat × ℝ)) (x y : Nat) (m : ℝ) (b : Nat) :
    colOf (st ++ [(x, y, m)]) b = colOf st b + (if y = b then m else 0) := by
  unfold colOf
  by_cases h : y = b
  · simp [List.filter_append, List.filter_cons, h]
  · have : (y == b) = false := by simpa using h
    simp [List.filter_append, List.filter_cons, h, this]

theorem stepsCost_snoc (δ : Nat → Nat → ℝ) (st : List (Nat × Nat × ℝ)) (x y : Nat) (m : ℝ) :
    stepsCost δ (st ++ [(x, y, m)]) = stepsCost δ st + m * δ x y := by
  simp [stepsCost]

/-! ### `List.set` on a potential -/

theorem massAt_set (l : Pot ℝ) (j y : Nat) (dy v : ℝ) (h : l[j]? = some (y, dy)) (b : Nat) :
    massAt (l.set j (y, v)) b = massAt l b + (if y = b then v - dy else 0) := by
  induction l generalizing j with
  | nil => simp at h
  | cons e es ih =>
    obtain ⟨k, w⟩ := e
    cases j with
    | zero =>
      simp only [List.getElem?_cons_zero, Option.some.injEq, Prod.mk.injEq] at h
      obtain ⟨rfl, rfl⟩ := h
      simp only [List.set_cons_zero, massAt_cons]
      split <;> ring
    | succ j =>
      simp only [List.getElem?_cons_succ] at h
      simp only [List.set_cons_succ, massAt_cons, ih j h]
      ring

theorem total_set (l : Pot ℝ) (j y : Nat) (dy v : ℝ) (h : l[j]? = some (y, dy)) :
    total (l.set j (y, v)) = total l + (v - dy) := by
  induction l generalizing j with
  | nil => simp at h
  | cons e es ih =>
    obtain ⟨k, w⟩ := e
    cases j with
    | zero =>
      simp only [List.getElem?_cons_zero, Option.some.injEq, Prod.mk.injEq] at h
      obtain ⟨rfl, rfl⟩ := h
      simp only [List.set_cons_zero, total_cons]; ring
    | succ j =>
      simp only [List.getElem?_cons_succ] at h
      simp only [List.set_cons_succ, total_cons, ih j h]; ring

theorem npos_set (l : Pot ℝ) (j y : Nat) (dy v : ℝ) (h : l[j]? = some (y, dy)) (hdy : 0 < dy) :
    npos (l.set j (y, v)) + 1 = npos l + (if 0 < v then 1 else 0) := by
  induction l generalizing j with
  | nil => simp at h
  | cons e es ih =>
    obtain ⟨k, w⟩ := e
    cases j with
    | zero =>
      simp only [List.getElem?_cons_zero, Option.some.injEq, Prod.mk.injEq] at h
      obtain ⟨rfl, rfl⟩ := h
      simp only [List.set_cons_zero, npos_cons, hdy, if_true]; omega
    | succ j =>
      simp only [List.getElem?_cons_succ] at h
      have := ih j h
      simp only [List.set_cons_succ, npos_cons]; omega

theorem nonNeg_set (l : Pot ℝ) (j y : Nat) (v : ℝ) (hl : NonNeg l) (hv : 0 ≤ v) : NonNeg (l.set j (y, v)) := by
  intro e he
  rcases List.mem_or_eq_of_mem_set he with he | rfl
  · exact hl e he
  · exact hv

theorem keys_set (l : Pot ℝ) (j y : Nat) (dy v : ℝ) (h : l[j]? = some (y, dy)) :
    (l.set j (y, v)).map Prod.fst = l.map Prod.fst := by
  induction l generalizing j with
  | nil => simp at h
  | cons e es ih =>
    cases j with
    | zero =>
      simp only [List.getElem?_cons_zero, Option.some.injEq] at h
      subst h; simp
    | succ j =>
      simp only [List.getElem?_cons_succ] at h
      simp [ih j h]

/-! ### `planAdd` adds the value to the sum of the stored values -/

theorem planAdd_total (k : Nat) (v : ℝ) (plan : List (Nat × ℝ)) :
    ((planAdd k v plan).map Prod.snd).sum = (plan.map Prod.snd).sum + v := by
  induction plan with
  | nil => simp [planAdd]
  | cons e es ih =>
    obtain ⟨k', v'⟩ := e
    unfold planAdd
    split
    · simp; ring
    · split
      · simp; ring
      · simp [ih]; ring

/-! ### `min_by` over a total comparison never panics and returns a member -/

theorem minByGo_mem {β : Type} (cmp : β → β → Option Ordering) (hc : ∀ a b, (cmp a b).isSome)
    (acc : β) (l : List β) : ∃ r, minByGo cmp acc l = some r ∧ r ∈ acc :: l := by
  induction l generalizing acc with
  | nil => exact ⟨acc, rfl, by simp⟩
  | cons c cs ih =>
    have := hc acc c
    cases hcmp : cmp acc c with
    | none => rw [hcmp] at this; cases this
    | some o =>
      cases o with
      | gt =>
        obtain ⟨r, hr, hm⟩ := ih c
        exact ⟨r, by simp [minByGo, hcmp, hr], by simp at hm ⊢; tauto⟩
      | lt =>
        obtain ⟨r, hr, hm⟩ := ih acc
        exact ⟨r, by simp [minByGo, hcmp, hr], by simp at hm ⊢; tauto⟩
      | eq =>
        obtain ⟨r, hr, hm⟩ := ih acc
        exact ⟨r, by simp [minByGo, hcmp, hr], by simp at hm ⊢; tauto⟩

theorem zip_range_mem {γ : Type} (l : List γ) (j : Nat) (e : γ) (h : (j, e) ∈ (List.range l.length).zip l) :
    l[j]? = some e := by
  obtain ⟨i, hi, hie⟩ := List.getElem_of_mem h
  simp only [List.getElem_zip, List.getElem_range, Prod.mk.injEq] at hie
  obtain ⟨rfl, rfl⟩ := hie
  simp only [List.length_zip, List.length_range, Nat.min_self] at hi
  simp [hi]

/-- `nearest` under a total distance: either no sink is positive, or it names a positive sink entry
    with its distance; it never panics -/
theorem nearest_spec (δ : Nat → Nat → ℝ) (d : Nat → Nat → Option ℝ) (hd : ∀ x y, d x y = some (δ x y))
    (x : Nat) (sink : Pot ℝ) :
    (nearest d x sink = some none ∧ npos sink = 0) ∨
    ∃ j y dy, nearest d x sink = some (some (j, y, dy, δ x y)) ∧ sink[j]? = some (y, dy) ∧ 0 < dy := by
  have hcands : ∀ c ∈ candidates d x sink,
      sink[c.1]? = some (c.2.1, c.2.2.1) ∧ 0 < c.2.2.1 ∧ c.2.2.2 = some (δ x c.2.1) := by
    intro c hc
    simp only [candidates, List.mem_filterMap] at hc
    obtain ⟨je, hje, hsome⟩ := hc
    split at hsome
    · rename_i hlt
      simp only [Option.some.injEq] at hsome
      subst hsome
      simp only [R_lt, R_ofNat, Nat.cast_zero, decide_eq_true_eq] at hlt
      exact ⟨zip_range_mem sink je.1 je.2 hje, hlt, hd _ _⟩
    · cases hsome
  have hall : (candidates d x sink).all (fun c => c.2.2.2.isSome) = true := by
    rw [List.all_eq_true]
    intro c hc
    rw [(hcands c hc).2.2]; rfl
  unfold nearest
  simp only [hall, if_true]
  cases hl : (candidates d x sink).filterMap (fun c => c.2.2.2.map fun dist => (c.1, c.2.1, c.2.2.1, dist)) with
  | nil =>
    left
    refine ⟨by simp [minBy], ?_⟩
    -- no candidate: no positive sink
    have hnil : candidates d x sink = [] := by
      cases hc : candidates d x sink with
      | nil => rfl
      | cons c cs =>
        rw [hc] at hl
        have h1 := (hcands c (by rw [hc]; simp)).2.2
        simp [List.filterMap_cons, h1] at hl
    unfold npos
    rw [List.length_eq_zero_iff, List.filter_eq_nil_iff]
    intro e he hpos
    simp only [decide_eq_true_eq] at hpos
    obtain ⟨j, hj, hje⟩ := List.getElem_of_mem he
    have hmem : (j, e) ∈ (List.range sink.length).zip sink := by
      rw [List.mem_iff_getElem]
      refine ⟨j, by simp [hj], by simp [hje]⟩
    have : (j, e.1, e.2, d x e.1) ∈ candidates d x sink := by
      simp only [candidates, List.mem_filterMap]
      refine ⟨(j, e), hmem, ?_⟩
      simp [hpos]
    rw [hnil] at this; cases this
  | cons b bs =>
    right
    obtain ⟨r, hr, hm⟩ := minByGo_mem (fun a b : Nat × Nat × ℝ × ℝ => Arith.cmp a.2.2.2 b.2.2.2)
      (fun a b => by simp) b bs
    have hr' : r ∈ (candidates d x sink).filterMap (fun c => c.2.2.2.map fun dist => (c.1, c.2.1, c.2.2.1, dist)) := by
      rw [hl]; exact hm
    simp only [List.mem_filterMap] at hr'
    obtain ⟨c, hc, hcr⟩ := hr'
    obtain ⟨h1, h2, h3⟩ := hcands c hc
    rw [h3] at hcr
    simp only [Option.map_some, Option.some.injEq] at hcr
    subst hcr
    exact ⟨c.1, c.2.1, c.2.2.1, by rw [minBy, hr]; rfl, h1, h2⟩

/-! ### one pass over the sources -/

/-- what a pass preserves and achieves, relative to its inputs -/
structure PassInv (δ : Nat → Nat → ℝ) (pile sink : Pot ℝ) (plan : List (Nat × ℝ)) (steps : List (Nat × Nat × ℝ))
    (g : Greedy ℝ) (b : Bool) : Prop where
  pile_nonneg : NonNeg g.pile
  sink_nonneg : NonNeg g.sink
  pile_keys : g.pile.map Prod.fst = pile.map Prod.fst
  sink_keys : g.sink.map Prod.fst = sink.map Prod.fst
  rows : ∀ a, massAt g.pile a + rowOf g.steps a = massAt pile a + rowOf steps a
  cols : ∀ c, massAt g.sink c + colOf g.steps c = massAt sink c + colOf steps c
  balance : total g.pile - total g.sink = total pile - total sink
  cost : (g.plan.map Prod.snd).sum - stepsCost δ g.steps = (plan.map Prod.snd).sum - stepsCost δ steps
  steps_nonneg : (∀ s ∈ steps, 0 ≤ s.2.2) → ∀ s ∈ g.steps, 0 ≤ s.2.2
  measure : npos g.pile + npos g.sink + g.steps.length ≤ npos pile + npos sink + steps.length
  steps_mono : steps.length ≤ g.steps.length
  progress : b = false → 0 < npos pile → steps.length < g.steps.length
  broke : b = true → npos g.sink = 0

theorem greedyPass_spec (δ : Nat → Nat → ℝ) (d : Nat → Nat → Option ℝ) (hd : ∀ x y, d x y = some (δ x y))
    (pile sink : Pot ℝ) (plan : List (Nat × ℝ)) (steps : List (Nat × Nat × ℝ))
    (hp : NonNeg pile) (hs : NonNeg sink) :
    ∃ g b, greedyPass d pile sink plan steps = some (g, b) ∧ PassInv δ pile sink plan steps g b := by
  induction pile generalizing sink plan steps with
  | nil =>
    refine ⟨⟨[], sink, plan, steps⟩, false, rfl, ?_⟩
    exact { pile_nonneg := (by intro e he; cases he), sink_nonneg := hs, pile_keys := rfl, sink_keys := rfl,
            rows := fun a => rfl, cols := fun c => rfl, balance := rfl, cost := rfl,
            steps_nonneg := fun h => h, measure := le_refl _, steps_mono := le_refl _,
            progress := (fun _ h => by simp [npos] at h), broke := (fun h => by cases h) }
  | cons e rest ih =>
    obtain ⟨x, dx⟩ := e
    have hrest : NonNeg rest := fun e he => hp e (by simp [he])
    have hdx0 : 0 ≤ dx := hp (x, dx) (by simp)
    unfold greedyPass
    by_cases hpos : 0 < dx
    · have hlt : Arith.lt (Arith.ofNat 0) dx = true := by simp [hpos]
      simp only [hlt, if_true]
      rcases nearest_spec δ d hd x sink with ⟨hn, hz⟩ | ⟨j, y, dy, hn, hj, hdy⟩
      · -- no sink left: break 'cost
        rw [hn]
        refine ⟨⟨(x, dx) :: rest, sink, plan, steps⟩, true, rfl, ?_⟩
        exact { pile_nonneg := hp, sink_nonneg := hs, pile_keys := rfl, sink_keys := rfl,
                rows := fun a => rfl, cols := fun c => rfl, balance := rfl, cost := rfl,
                steps_nonneg := fun h => h, measure := le_refl _, steps_mono := le_refl _,
                progress := (fun h => by cases h), broke := fun _ => hz }
      · rw [hn]
        simp only
        have hdy0 : 0 ≤ dy := le_of_lt hdy
        set mass : ℝ := Arith.min dx dy with hmass
        have hmass' : mass = min dx dy := rfl
        have hm0 : 0 ≤ mass := by rw [hmass']; exact le_min hdx0 hdy0
        have hmx : mass ≤ dx := by rw [hmass']; exact min_le_left _ _
        have hmy : mass ≤ dy := by rw [hmass']; exact min_le_right _ _
        have hsink' : NonNeg (sink.set j (y, Arith.sub dy mass)) :=
          nonNeg_set sink j y _ hs (by simp only [R_sub]; linarith)
        obtain ⟨g0, b, hg0, inv⟩ := ih (sink.set j (y, Arith.sub dy mass))
          (planAdd (pairKey x y) (Arith.mul mass (δ x y)) plan) (steps ++ [(x, y, mass)]) hrest hsink'
        rw [hg0]
        refine ⟨{ g0 with pile := (x, Arith.sub dx mass) :: g0.pile }, b, rfl, ?_⟩
        have hzero : dx - mass = 0 ∨ dy - mass = 0 := by
          rw [hmass']
          rcases le_total dx dy with h | h
          · left; rw [min_eq_left h]; ring
          · right; rw [min_eq_right h]; ring
        exact {
          pile_nonneg := by
            intro e he
            rcases List.mem_cons.mp he with rfl | he
            · simp only [R_sub]; linarith
            · exact inv.pile_nonneg e he
          sink_nonneg := inv.sink_nonneg
          pile_keys := by simp [inv.pile_keys]
          sink_keys := by rw [inv.sink_keys, keys_set sink j y dy _ hj]
          rows := by
            intro a
            have := inv.rows a
            rw [rowOf_snoc] at this
            dsimp only
            simp only [massAt_cons, R_sub]
            by_cases hxa : x = a
            · simp only [hxa, if_true] at this ⊢; linarith
            · simp only [hxa, if_false] at this ⊢; linarith
          cols := by
            intro c
            have := inv.cols c
            rw [colOf_snoc, massAt_set sink j y dy _ hj c] at this
            simp only [R_sub] at this
            dsimp only
            by_cases hyc : y = c
            · simp only [hyc, if_true] at this; linarith
            · simp only [hyc, if_false] at this; linarith
          balance := by
            have := inv.balance
            rw [total_set sink j y dy _ hj] at this
            dsimp only
            simp only [total_cons, R_sub] at this ⊢
            linarith
          cost := by
            have := inv.cost
            rw [planAdd_total, stepsCost_snoc] at this
            simp only [R_mul] at this
            dsimp only
            linarith
          steps_nonneg := by
            intro h s hs'
            apply inv.steps_nonneg _ s hs'
            intro s hs''
            rcases List.mem_append.mp hs'' with h1 | h1
            · exact h s h1
            · simp only [List.mem_singleton] at h1; rw [h1]; exact hm0
          measure := by
            have h1 := inv.measure
            have h2 : npos (sink.set j (y, Arith.sub dy mass)) + 1
                = npos sink + (if 0 < dy - mass then 1 else 0) := npos_set sink j y dy (Arith.sub dy mass) hj hdy
            simp only [List.length_append, List.length_singleton] at h1
            dsimp only
            have h3 : npos ((x, Arith.sub dx mass) :: g0.pile) = (if 0 < dx - mass then 1 else 0) + npos g0.pile :=
              npos_cons x _ g0.pile
            have h4 : npos ((x, dx) :: rest) = 1 + npos rest := by rw [npos_cons]; simp [hpos]
            rw [h3, h4]
            rcases hzero with hz | hz
            · have hn1 : ¬ (0 < dx - mass) := by rw [hz]; exact lt_irrefl _
              simp only [hn1, if_false]
              split at h2 <;> omega
            · have hn2 : ¬ (0 < dy - mass) := by rw [hz]; exact lt_irrefl _
              simp only [hn2, if_false] at h2
              split <;> omega
          steps_mono := by
            have := inv.steps_mono
            simp only [List.length_append, List.length_singleton] at this
            dsimp only
            omega
          progress := by
            intro _ _
            have := inv.steps_mono
            simp only [List.length_append, List.length_singleton] at this
            dsimp only
            omega
          broke := inv.broke }
    · have hlt : Arith.lt (Arith.ofNat 0) dx = false := by simp [hpos]
      simp only [hlt, Bool.false_eq_true, if_false]
      obtain ⟨g0, b, hg0, inv⟩ := ih sink plan steps hrest hs
      rw [hg0]
      refine ⟨{ g0 with pile := (x, dx) :: g0.pile }, b, rfl, ?_⟩
      exact {
        pile_nonneg := by
          intro e he
          rcases List.mem_cons.mp he with rfl | he
          · exact hdx0
          · exact inv.pile_nonneg e he
        sink_nonneg := inv.sink_nonneg
        pile_keys := by simp [inv.pile_keys]
        sink_keys := inv.sink_keys
        rows := by intro a; have := inv.rows a; simp only [massAt_cons]; linarith
        cols := inv.cols
        balance := by have := inv.balance; simp only [total_cons] at this ⊢; linarith
        cost := inv.cost
        steps_nonneg := inv.steps_nonneg
        measure := by have := inv.measure; simp only [npos_cons, hpos, if_false]; omega
        steps_mono := inv.steps_mono
        progress := by
          intro hb hnp
          simp only [npos_cons, hpos, if_false, Nat.zero_add] at hnp
          exact inv.progress hb hnp
        broke := inv.broke }

/-- state-level invariant of the outer loop, relative to the initial pile/sink -/
structure LoopInv (δ : Nat → Nat → ℝ) (pile0 sink0 : Pot ℝ) (g : Greedy ℝ) : Prop where
  pile_nonneg : NonNeg g.pile
  sink_nonneg : NonNeg g.sink
  rows : ∀ a, massAt g.pile a + rowOf g.steps a = massAt pile0 a
  cols : ∀ c, massAt g.sink c + colOf g.steps c = massAt sink0 c
  balance : total g.pile - total g.sink = total pile0 - total sink0
  cost : (g.plan.map Prod.snd).sum = stepsCost δ g.steps
  steps_nonneg : ∀ s ∈ g.steps, 0 ≤ s.2.2

theorem LoopInv.init (δ : Nat → Nat → ℝ) (pile sink : Pot ℝ) (hp : NonNeg pile) (hs : NonNeg sink) :
    LoopInv δ pile sink ⟨pile, sink, [], []⟩ :=
  { pile_nonneg := hp, sink_nonneg := hs, rows := (fun a => by simp [rowOf]), cols := (fun c => by simp [colOf]),
    balance := rfl, cost := (by simp [stepsCost]), steps_nonneg := (fun s h => by cases h) }

theorem any_pos_iff (l : Pot ℝ) : (l.any fun e => Arith.lt (Arith.ofNat 0) e.2) = true ↔ 0 < npos l := by
  unfold npos
  rw [List.any_eq_true, List.length_pos_iff_exists_mem]
  constructor
  · rintro ⟨e, he, h⟩
    exact ⟨e, List.mem_filter.mpr ⟨he, by simpa using h⟩⟩
  · rintro ⟨e, he⟩
    obtain ⟨h1, h2⟩ := List.mem_filter.mp he
    exact ⟨e, h1, by simpa using h2⟩

/-- the outer loop with enough fuel: never panics, keeps the invariant, and stops only when no
    source or no sink has mass left -/
theorem greedyLoop_spec (δ : Nat → Nat → ℝ) (d : Nat → Nat → Option ℝ) (hd : ∀ x y, d x y = some (δ x y))
    (pile0 sink0 : Pot ℝ) (fuel : Nat) (g : Greedy ℝ) (hinv : LoopInv δ pile0 sink0 g)
    (hfuel : npos g.pile + npos g.sink < fuel) :
    ∃ g', greedyLoop d fuel g = some g' ∧ LoopInv δ pile0 sink0 g' ∧ (npos g'.pile = 0 ∨ npos g'.sink = 0) := by
  induction fuel generalizing g with
  | zero => omega
  | succ n ih =>
    unfold greedyLoop
    by_cases hany : (g.pile.any fun e => Arith.lt (Arith.ofNat 0) e.2) = true
    · simp only [hany, if_true]
      obtain ⟨g1, b, hg1, inv⟩ := greedyPass_spec δ d hd g.pile g.sink g.plan g.steps hinv.pile_nonneg hinv.sink_nonneg
      rw [hg1]
      have hinv1 : LoopInv δ pile0 sink0 g1 :=
        { pile_nonneg := inv.pile_nonneg, sink_nonneg := inv.sink_nonneg,
          rows := (fun a => by rw [inv.rows a, hinv.rows a]),
          cols := (fun c => by rw [inv.cols c, hinv.cols c]),
          balance := (by rw [inv.balance, hinv.balance]),
          cost := (by have := inv.cost; rw [hinv.cost] at this; linarith),
          steps_nonneg := inv.steps_nonneg hinv.steps_nonneg }
      cases b with
      | true => exact ⟨g1, rfl, hinv1, Or.inr (inv.broke rfl)⟩
      | false =>
        simp only
        have hprog := inv.progress rfl ((any_pos_iff g.pile).mp hany)
        have hmeas := inv.measure
        exact ih g1 hinv1 (by omega)
    · simp only [hany, Bool.false_eq_true, if_false]
      refine ⟨g, rfl, hinv, Or.inl ?_⟩
      have := (any_pos_iff g.pile).not.mp hany
      omega

theorem npos_le_length (l : Pot ℝ) : npos l ≤ l.length := by
  unfold npos; exact List.length_filter_le _ _

theorem all_zero_of_npos (l : Pot ℝ) (hn : NonNeg l) (hz : npos l = 0) : ∀ e ∈ l, e.2 = 0 := by
  intro e he
  unfold npos at hz
  rw [List.length_eq_zero_iff, List.filter_eq_nil_iff] at hz
  have := hz e he
  simp only [decide_eq_true_eq, not_lt] at this
  exact le_antisymm this (hn e he)

theorem total_zero_of_all (l : Pot ℝ) (h : ∀ e ∈ l, e.2 = 0) : total l = 0 := by
  unfold total
  apply List.sum_eq_zero
  intro v hv
  obtain ⟨e, he, rfl⟩ := List.mem_map.mp hv
  exact h e he

theorem all_zero_of_total (l : Pot ℝ) (hn : NonNeg l) (ht : total l = 0) : ∀ e ∈ l, e.2 = 0 := by
  induction l with
  | nil => intro e he; cases he
  | cons x xs ih =>
    have hx : 0 ≤ x.2 := hn x (by simp)
    have hxs : NonNeg xs := fun e he => hn e (by simp [he])
    have hts : 0 ≤ total xs := List.sum_nonneg (by
      intro v hv; obtain ⟨e, he, rfl⟩ := List.mem_map.mp hv; exact hxs e he)
    have : total (x :: xs) = x.2 + total xs := by simp [total]
    rw [this] at ht
    intro e he
    rcases List.mem_cons.mp he with rfl | he
    · linarith
    · exact ih hxs (by linarith) e he

theorem massAt_zero_of_all (l : Pot ℝ) (h : ∀ e ∈ l, e.2 = 0) (a : Nat) : massAt l a = 0 := by
  unfold massAt
  apply List.sum_eq_zero
  intro v hv
  obtain ⟨e, he, rfl⟩ := List.mem_map.mp hv
  exact h e (List.mem_filter.mp he).1

theorem massAt_nonneg (l : Pot ℝ) (hn : NonNeg l) (a : Nat) : 0 ≤ massAt l a := by
  unfold massAt
  apply List.sum_nonneg
  intro v hv
  obtain ⟨e, he, rfl⟩ := List.mem_map.mp hv
  exact hn e (List.mem_filter.mp he).1

end RP.C12
