import RP.Model.Transport
import Mathlib.Analysis.SpecialFunctions.Log.Basic
import Mathlib.Algebra.BigOperators.Group.List.Basic
/-! The exact-arithmetic instantiation of `RP.Transport.Arith`: `α = ℝ`.
    Rounding, overflow and NaN do not exist here (`finite` is always true, `cmp` is total):
    this is the stated limit of the C12/C13 theorems (DESIGN §2). -/
namespace RP.Transport

/-- `f32::MIN_POSITIVE = 2⁻¹²⁶` -/
noncomputable def minPosR : ℝ := (2 : ℝ) ^ (-126 : ℤ)

theorem minPosR_pos : 0 < minPosR := by unfold minPosR; positivity

noncomputable instance instArithReal : Arith ℝ where
  add := (· + ·)
  sub := (· - ·)
  mul := (· * ·)
  div := (· / ·)
  exp := Real.exp
  log := Real.log
  abs := fun x => |x|
  max := max
  min := min
  ofNat := fun n => (n : ℝ)
  sumSeed := 0
  lt := fun a b => decide (a < b)
  cmp := fun a b => some (compare a b)
  finite := fun _ => true
  minPos := minPosR

@[simp] theorem R_add (a b : ℝ) : Arith.add a b = a + b := rfl
@[simp] theorem R_sub (a b : ℝ) : Arith.sub a b = a - b := rfl
@[simp] theorem R_mul (a b : ℝ) : Arith.mul a b = a * b := rfl
@[simp] theorem R_div (a b : ℝ) : Arith.div a b = a / b := rfl
@[simp] theorem R_exp (a : ℝ) : Arith.exp a = Real.exp a := rfl
@[simp] theorem R_log (a : ℝ) : Arith.log a = Real.log a := rfl
@[simp] theorem R_abs (a : ℝ) : Arith.abs a = |a| := rfl
@[simp] theorem R_max (a b : ℝ) : Arith.max a b = max a b := rfl
@[simp] theorem R_min (a b : ℝ) : Arith.min a b = min a b := rfl
@[simp] theorem R_ofNat (n : ℕ) : (Arith.ofNat n : ℝ) = (n : ℝ) := rfl
@[simp] theorem R_sumSeed : (Arith.sumSeed : ℝ) = 0 := rfl
@[simp] theorem R_lt (a b : ℝ) : Arith.lt a b = decide (a < b) := rfl
@[simp] theorem R_cmp (a b : ℝ) : Arith.cmp a b = some (compare a b) := rfl
@[simp] theorem R_finite (a : ℝ) : Arith.finite a = true := rfl
@[simp] theorem R_minPos : (Arith.minPos : ℝ) = minPosR := rfl

theorem foldl_add_eq (xs : List ℝ) (a : ℝ) : xs.foldl (· + ·) a = a + xs.sum := by
  induction xs generalizing a with
  | nil => simp
  | cons x xs ih => simp [List.foldl_cons, ih, add_assoc]

/-- Rust's left-fold `sum` is the mathematical sum -/
@[simp] theorem sum_eq (xs : List ℝ) : RP.Transport.sum xs = xs.sum := by
  unfold RP.Transport.sum
  have : (Arith.add : ℝ → ℝ → ℝ) = (· + ·) := rfl
  rw [this, foldl_add_eq]; simp

end RP.Transport
