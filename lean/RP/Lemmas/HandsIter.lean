import RP.Lemmas.Gosper
/-! # Lemmas for C06: the skip loops and the list unfolding of `HandIterator` -/
namespace RP.C06
open RP.Bits RP.Hands

/-! ## `exhausted` -/

theorem exhaustedN_iff (x : Nat) : exhaustedN x = true ↔ x = 0 ∨ 2^52 ≤ x := by
  unfold exhaustedN lz64
  by_cases h0 : x = 0
  · simp [h0]
  · have hl : (x.log2 < 52 ↔ x < 2^52) := Nat.log2_lt h0
    simp only [h0, if_false, Bool.or_eq_true, beq_iff_eq, decide_eq_true_eq, false_or,
      show RP.Gen.C06.exhaustWidth = 52 from rfl]
    omega

/-! ## the skip loop -/

/-- the words handed to `permute` by `skipUntil` (for the no-overflow statement) -/
def skipArgs (stop : Nat → Bool) : Nat → Nat → List Nat
  | 0, _ => []
  | f+1, x => if stop x then [] else x :: skipArgs stop f (permute x)

/-- From a word `x` with `k` bits, if some `k`-bit word `T ≥ x` (below `2^63`, within fuel distance)
satisfies `stop`, the loop ends at the least such word; every word it hands to `permute` is
positive and below `T`, so nothing overflows. -/
theorem skipUntil_spec (stop : Nat → Bool) (k : Nat) :
    ∀ fuel x T, 0 < x → popW 64 x = k → x ≤ T → T ≤ 2^63 → popW 64 T = k → stop T = true →
      T - x ≤ fuel →
      stop (skipUntil stop fuel x) = true ∧ popW 64 (skipUntil stop fuel x) = k ∧
      x ≤ skipUntil stop fuel x ∧ skipUntil stop fuel x ≤ T ∧
      (∀ y, x ≤ y → popW 64 y = k → stop y = true → skipUntil stop fuel x ≤ y) ∧
      (∀ a ∈ skipArgs stop fuel x, 0 < a ∧ a < T) := by
  intro fuel
  induction fuel with
  | zero =>
    intro x T hx hk hxT hT hkT hsT hf
    have : x = T := by omega
    subst this
    simp only [skipUntil, skipArgs]
    exact ⟨hsT, hk, Nat.le_refl _, Nat.le_refl _, fun y hy _ _ => hy, by simp⟩
  | succ fuel ih =>
    intro x T hx hk hxT hT hkT hsT hf
    simp only [skipUntil, skipArgs]
    by_cases hs : stop x = true
    · rw [if_pos hs, if_pos hs]
      exact ⟨hs, hk, Nat.le_refl _, hxT, fun y hy _ _ => hy, by simp⟩
    · rw [if_neg hs, if_neg hs]
      have hne : x ≠ T := by intro h; rw [h] at hs; exact hs hsT
      have hlt : x < T := by omega
      obtain ⟨g1, _, g3, g4⟩ := gosper_step_least x hx (by omega)
      have hpT : permute x ≤ T := g4 T hlt (by rw [hkT, hk])
      obtain ⟨i1, i2, i3, i4, i5, i6⟩ := ih (permute x) T (by omega) (by rw [g3, hk]) hpT hT hkT hsT (by omega)
      refine ⟨i1, i2, by omega, i4, ?_, ?_⟩
      · intro y hy hky hsy
        have hyne : y ≠ x := by intro h; rw [h] at hsy; exact hs hsy
        exact i5 y (g4 y (by omega) (by rw [hky, hk])) hky hsy
      · intro a ha
        simp only [List.mem_cons] at ha
        rcases ha with rfl | ha
        · exact ⟨hx, hlt⟩
        · exact i6 a ha

/-! ## state invariant, `advance`, `From<(usize, Hand)>` -/

/-- the mask the iterator really uses: the blocking hand, plus the low 16 cards in the short deck -/
def effMask (short : Bool) (hand : Nat) : Nat := if short then hand ||| RP.Gen.C06.shortBlocked else hand

theorem effMask_lt (short : Bool) (hand : Nat) (h : hand < 2^52) : effMask short hand < 2^52 := by
  unfold effMask; split
  · exact Nat.or_lt_two_pow h (by decide)
  · exact h

/-- invariant of a `HandIterator` over `k`-card hands with effective mask `m` -/
structure HInv (k m : Nat) (s : HandIter) : Prop where
  mask : s.mask = m
  pop : popW 64 s.next = k
  lt : s.next < 2^63
  ok : s.next &&& m = 0 ∨ 2^52 ≤ s.next

theorem pos_of_pop {k x : Nat} (hk : 1 ≤ k) (h : popW 64 x = k) : 0 < x := by
  rcases Nat.eq_zero_or_pos x with rfl | h0
  · rw [popW_zero] at h; omega
  · exact h0

theorem popW_one (w : Nat) : popW (w+1) 1 = 1 := by
  simp [popW, popW_zero]

theorem and_testBit_false {x m : Nat} (h : x &&& m = 0) (i : Nat) : (x.testBit i && m.testBit i) = false := by
  have := congrArg (fun n => n.testBit i) h
  simpa using this

/-- moving the top card of an unmasked hand below `2^52` to position 52 gives an unmasked word
with the same number of bits: the skip loop of `advance` always has a place to stop. -/
theorem target_exists (x m : Nat) (hx : 0 < x) (hlt : x < 2^52) (hm : m < 2^52) (hxm : x &&& m = 0) :
    ∃ T, x < T ∧ T < 2^53 ∧ popW 64 T = popW 64 x ∧ T &&& m = 0 := by
  have h0 : x ≠ 0 := by omega
  have hlo := Nat.log2_self_le h0
  have hhi := Nat.lt_log2_self (n := x)
  have htop : x.log2 < 52 := (Nat.log2_lt h0).mpr hlt
  generalize x.log2 = top at *
  have hdiv : x / 2^top = 1 := by
    apply Nat.div_eq_of_lt_le
    · omega
    · rw [Nat.pow_succ] at hhi; omega
  have hx' : x = 1 * 2^top + x % 2^top := by
    conv => lhs; rw [← Nat.div_add_mod x (2^top), hdiv, Nat.mul_comm]
  have hrest : x % 2^top < 2^top := Nat.mod_lt _ (Nat.two_pow_pos _)
  have hrest52 : x % 2^top < 2^52 :=
    Nat.lt_of_lt_of_le hrest (Nat.pow_le_pow_right (by omega) (by omega))
  refine ⟨1 * 2^52 + x % 2^top, by omega, by omega, ?_, ?_⟩
  · obtain ⟨w, hw⟩ : ∃ w, 64 = (w + 1) + top := ⟨63 - top, by omega⟩
    have e1 : popW 64 (1 * 2^52 + x % 2^top) = 1 + popW 52 (x % 2^top) :=
      popW_mul_add 12 52 1 _ hrest52
    have e2 : popW 64 x = 1 + popW top (x % 2^top) := by
      conv => lhs; rw [hx', hw, popW_mul_add _ _ _ _ hrest, popW_one]
    rw [e1, e2, popW_eq_of_lt hrest (by omega)]
  · apply Nat.eq_of_testBit_eq
    intro i
    rw [Nat.testBit_and, Nat.zero_testBit, Nat.mul_comm, Nat.testBit_two_pow_mul_add 1 hrest52]
    by_cases hi : i < 52
    · simp only [hi, if_true, Nat.testBit_mod_two_pow]
      have := and_testBit_false hxm i
      rw [Bool.and_assoc, this, Bool.and_false]
    · have : m.testBit i = false :=
        Nat.testBit_lt_two_pow (Nat.lt_of_lt_of_le hm (Nat.pow_le_pow_right (by omega) (by omega)))
      simp [this]

/-- **`advance` terminates without overflow and finds the next unmasked hand**: from a
non-exhausted valid state the loop stops (long before the fuel) at the least word above `next`
with the same number of cards and no masked card; that word is below `2^53`. -/
theorem advance_spec (k m : Nat) (hk : 1 ≤ k) (hm : m < 2^52) (s : HandIter) (hs : HInv k m s)
    (hne : s.next < 2^52) :
    HInv k m s.advance ∧ s.next < s.advance.next ∧ s.advance.next < 2^53 ∧
    s.advance.next &&& m = 0 ∧
    (∀ y, s.next < y → popW 64 y = k → y &&& m = 0 → s.advance.next ≤ y) ∧
    (∀ a ∈ s.next :: skipArgs (fun y => y &&& s.mask == 0) SKIP_FUEL (permute s.next), 0 < a ∧ a < 2^53) := by
  have hx := pos_of_pop hk hs.pop
  have hxm : s.next &&& m = 0 := by rcases hs.ok with h | h <;> [exact h; omega]
  obtain ⟨T, hT1, hT2, hT3, hT4⟩ := target_exists s.next m hx hne hm hxm
  obtain ⟨g1, g2, g3, g4⟩ := gosper_step_least s.next hx (by omega)
  have hpT : permute s.next ≤ T := g4 T hT1 hT3
  have hstop : ∀ y, ((fun y => y &&& s.mask == 0) y = true) ↔ y &&& m = 0 := by
    intro y; simp [hs.mask]
  have spec := skipUntil_spec (fun y => y &&& s.mask == 0) k SKIP_FUEL (permute s.next) T (by omega)
    (by rw [g3, hs.pop]) hpT (by omega) (by rw [hT3, hs.pop]) ((hstop T).mpr hT4)
    (by show T - permute s.next ≤ 2^53; omega)
  obtain ⟨i1, i2, i3, i4, i5, i6⟩ := spec
  have hadv : s.advance.next = skipUntil (fun y => y &&& s.mask == 0) SKIP_FUEL (permute s.next) := rfl
  have hmask : s.advance.mask = s.mask := rfl
  rw [← hadv] at i1 i2 i3 i4 i5
  have hz : s.advance.next &&& m = 0 := (hstop _).mp i1
  refine ⟨⟨by rw [hmask, hs.mask], i2, by omega, Or.inl hz⟩, by omega, by omega, hz, ?_, ?_⟩
  · intro y hy hky hym
    exact i5 y (g4 y hy (by rw [hky, hs.pop])) hky ((hstop y).mpr hym)
  · intro a ha
    simp only [List.mem_cons] at ha
    rcases ha with rfl | ha
    · exact ⟨hx, by omega⟩
    · have := i6 a ha; omega

/-- the loop condition of `From<(usize, Hand)>`, as a stop predicate -/
def initStop (m : Nat) (x : Nat) : Bool := !(decide (x &&& m > 0) && !exhaustedN x)

theorem initStop_iff (m x : Nat) : initStop m x = true ↔ (x &&& m = 0 ∨ x = 0 ∨ 2^52 ≤ x) := by
  unfold initStop
  have := exhaustedN_iff x
  cases h : exhaustedN x <;> simp [h] at this ⊢ <;> omega

theorem init_next (short : Bool) (k hand : Nat) :
    (HandIter.init short k hand).next = skipUntil (initStop (effMask short hand)) SKIP_FUEL (2^k - 1) := by
  unfold HandIter.init effMask initStop
  simp only [Nat.one_shiftLeft]

theorem init_mask (short : Bool) (k hand : Nat) :
    (HandIter.init short k hand).mask = effMask short hand := by
  unfold HandIter.init effMask
  cases short <;> rfl

/-- **The initial skip loop terminates without overflow** and leaves the iterator either on the
least `k`-card hand avoiding the mask or exhausted (no such hand below `2^52`). -/
theorem init_spec (short : Bool) (k hand : Nat) (hk : 1 ≤ k) (hk64 : k < 64) :
    HInv k (effMask short hand) (HandIter.init short k hand) ∧
    (∀ y, popW 64 y = k → y &&& effMask short hand = 0 → (HandIter.init short k hand).next ≤ y) ∧
    (∀ a ∈ skipArgs (initStop (effMask short hand)) SKIP_FUEL (2^k - 1), 0 < a ∧ a < 2^63) := by
  generalize hm : effMask short hand = m
  have hK : 0 < 2^k := Nat.two_pow_pos k
  have hK2 : 2 ≤ 2^k := by
    have := Nat.pow_le_pow_right (by omega : 0 < 2) hk; simpa using this
  have hpop0 : popW 64 (2^k - 1) = k := by
    rw [popW_eq_of_lt (w := k) (by omega) (by omega), popW_two_pow_sub_one]
  have h63 : 2^k ≤ 2^63 := Nat.pow_le_pow_right (by omega) (by omega)
  -- a place to stop
  have hT : ∃ T, 2^k - 1 ≤ T ∧ T < 2^63 ∧ popW 64 T = k ∧ initStop m T = true ∧ T - (2^k - 1) ≤ 2^53 := by
    by_cases hk52 : k ≤ 52
    · obtain ⟨q, rfl⟩ : ∃ q, k = q + 1 := ⟨k - 1, by omega⟩
      have hQ : 2^q ≤ 2^52 := Nat.pow_le_pow_right (by omega) (by omega)
      have hQ1 : 2^(q+1) ≤ 2^52 := Nat.pow_le_pow_right (by omega) (by omega)
      have hpp := pop_shape_p 0 q 11 52 (by omega)
      simp only [Nat.zero_mul, Nat.zero_add, popW_zero] at hpp
      refine ⟨2^52 + (2^q - 1), by omega, by omega, hpp, ?_, by omega⟩
      rw [initStop_iff]; omega
    · have : 2^53 ≤ 2^k := Nat.pow_le_pow_right (by omega) (by omega)
      refine ⟨2^k - 1, Nat.le_refl _, by omega, hpop0, ?_, by omega⟩
      rw [initStop_iff]; omega
  obtain ⟨T, hT1, hT2, hT3, hT4, hT5⟩ := hT
  obtain ⟨i1, i2, i3, i4, i5, i6⟩ := skipUntil_spec (initStop m) k SKIP_FUEL (2^k - 1) T (by omega) hpop0 hT1
    (by omega) hT3 hT4 (by show T - (2^k - 1) ≤ 2^53; exact hT5)
  have hn := init_next short k hand
  have hmk := init_mask short k hand
  rw [hm] at hn hmk
  rw [← hn] at i1 i2 i3 i4 i5
  have hst := (initStop_iff m _).mp i1
  refine ⟨⟨hmk, i2, by omega, ?_⟩, ?_, ?_⟩
  · rcases hst with h | h | h
    · exact Or.inl h
    · omega
    · exact Or.inr h
  · intro y hy hym
    have hlow := popW_lower 64 y
    rw [hy] at hlow
    exact i5 y hlow hy ((initStop_iff m y).mpr (Or.inl hym))
  · intro a ha
    have := i6 a ha; omega

/-! ## the list unfolding -/

theorem step_exhausted (short : Bool) (s : HandIter) (h : s.next = 0 ∨ 2^52 ≤ s.next) :
    HandIter.step short s = none := by
  unfold HandIter.step HandIter.exhausted
  rw [if_pos ((exhaustedN_iff _).mpr h)]

theorem step_live (short : Bool) (s : HandIter) (h0 : 0 < s.next) (h : s.next < 2^52) :
    HandIter.step short s = some (handOf short s.next, s.advance) := by
  unfold HandIter.step HandIter.exhausted HandIter.look
  have : ¬ exhaustedN s.next = true := by rw [exhaustedN_iff]; omega
  rw [if_neg this]

/-- **The iterator yields, in increasing order, exactly the unmasked `k`-card hands from its current
position on** (`k ≥ 1`; `hlook`: `Hand::from` is the identity on such hands). -/
theorem unfold_hands (short : Bool) (k m : Nat) (hk : 1 ≤ k) (hm : m < 2^52)
    (hlook : ∀ y, y < 2^52 → y &&& m = 0 → handOf short y = y) :
    ∀ fuel s, HInv k m s → 2^52 ≤ fuel + s.next →
      List.Pairwise (· < ·) (unfold (HandIter.step short) fuel s) ∧
      ∀ y, y ∈ unfold (HandIter.step short) fuel s ↔
        (popW 64 y = k ∧ y &&& m = 0 ∧ y < 2^52 ∧ s.next ≤ y) := by
  intro fuel
  induction fuel with
  | zero =>
    intro s hs hf
    simp only [unfold, List.Pairwise.nil, List.not_mem_nil, true_and, false_iff]
    intro y; omega
  | succ fuel ih =>
    intro s hs hf
    simp only [unfold]
    have hx := pos_of_pop hk hs.pop
    by_cases hex : 2^52 ≤ s.next
    · rw [step_exhausted short s (Or.inr hex)]
      simp only [List.Pairwise.nil, List.not_mem_nil, true_and, false_iff]
      intro y; omega
    · have hlt : s.next < 2^52 := by omega
      have hxm : s.next &&& m = 0 := by rcases hs.ok with h | h <;> [exact h; omega]
      rw [step_live short s hx hlt, hlook _ hlt hxm]
      obtain ⟨a1, a2, a3, a4, a5, _⟩ := advance_spec k m hk hm s hs hlt
      obtain ⟨p1, p2⟩ := ih s.advance a1 (by omega)
      simp only [List.pairwise_cons, List.mem_cons]
      refine ⟨⟨?_, p1⟩, ?_⟩
      · intro b hb
        have := (p2 b).mp hb; omega
      · intro y
        constructor
        · rintro (rfl | hy)
          · exact ⟨hs.pop, hxm, hlt, Nat.le_refl _⟩
          · obtain ⟨q1, q2, q3, q4⟩ := (p2 y).mp hy
            exact ⟨q1, q2, q3, by omega⟩
        · rintro ⟨q1, q2, q3, q4⟩
          by_cases he : y = s.next
          · exact Or.inl he
          · exact Or.inr ((p2 y).mpr ⟨q1, q2, q3, a5 y (by omega) q1 q2⟩)

end RP.C06
