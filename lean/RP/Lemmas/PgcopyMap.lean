import RP.Model.Pgcopy
/-! Lemmas about the table layer of `RP.Pgcopy`: sorted association lists as `BTreeMap`s. -/
namespace RP.Pgcopy

variable {ν : Type}

/-- strictly ascending keys: the canonical form of a map -/
def Sorted (m : List (Nat × ν)) : Prop := m.Pairwise (fun a b => a.1 < b.1)

theorem lookupKV_insertKV (k k' : Nat) (v : ν) (m : List (Nat × ν)) :
    lookupKV k' (insertKV k v m) = if k' = k then some v else lookupKV k' m := by
  induction m with
  | nil => simp [insertKV, lookupKV]
  | cons p m ih =>
    obtain ⟨kp, vp⟩ := p
    simp only [insertKV]
    by_cases h1 : k < kp
    · simp only [h1, if_true, lookupKV]
    · simp only [h1, if_false]
      by_cases h2 : k = kp
      · subst h2
        simp only [if_true, lookupKV]
        by_cases h3 : k' = k <;> simp [h3]
      · simp only [h2, if_false, lookupKV, ih]
        by_cases h3 : k' = kp
        · have : ¬ k' = k := by omega
          simp [h3, this]
          intro h; omega
        · simp [h3]

theorem mem_insertKV {k : Nat} {v : ν} {m : List (Nat × ν)} {p : Nat × ν} (h : p ∈ insertKV k v m) :
    p = (k, v) ∨ p ∈ m := by
  induction m with
  | nil => simp [insertKV] at h; exact Or.inl h
  | cons q m ih =>
    obtain ⟨kq, vq⟩ := q
    simp only [insertKV] at h
    by_cases h1 : k < kq
    · simp only [h1, if_true, List.mem_cons] at h
      rcases h with h | h | h
      · exact Or.inl h
      · exact Or.inr (by simp [h])
      · exact Or.inr (by simp [h])
    · simp only [h1, if_false] at h
      by_cases h2 : k = kq
      · simp only [h2, if_true, List.mem_cons] at h
        rcases h with h | h
        · exact Or.inl (by rw [h, h2])
        · exact Or.inr (by simp [h])
      · simp only [h2, if_false, List.mem_cons] at h
        rcases h with h | h
        · exact Or.inr (by simp [h])
        · rcases ih h with h | h
          · exact Or.inl h
          · exact Or.inr (by simp [h])

theorem sorted_insertKV (k : Nat) (v : ν) {m : List (Nat × ν)} (hm : Sorted m) : Sorted (insertKV k v m) := by
  induction m with
  | nil => simp [insertKV, Sorted]
  | cons q m ih =>
    obtain ⟨kq, vq⟩ := q
    simp only [Sorted, List.pairwise_cons] at hm
    obtain ⟨hq, hm'⟩ := hm
    simp only [insertKV]
    by_cases h1 : k < kq
    · simp only [h1, if_true, Sorted, List.pairwise_cons]
      refine ⟨?_, hq, hm'⟩
      intro p hp
      simp only [List.mem_cons] at hp
      rcases hp with hp | hp
      · rw [hp]; exact h1
      · exact Nat.lt_trans h1 (hq p hp)
    · simp only [h1, if_false]
      by_cases h2 : k = kq
      · subst h2
        simp only [if_true, Sorted, List.pairwise_cons]
        exact ⟨hq, hm'⟩
      · simp only [h2, if_false, Sorted, List.pairwise_cons]
        refine ⟨?_, ih hm'⟩
        intro p hp
        rcases mem_insertKV hp with hp | hp
        · rw [hp]; show kq < k; omega
        · exact hq p hp

theorem lookupKV_none_of_lt {k : Nat} {m : List (Nat × ν)} (h : ∀ p ∈ m, k < p.1) : lookupKV k m = none := by
  induction m with
  | nil => rfl
  | cons q m ih =>
    obtain ⟨kq, vq⟩ := q
    have := h (kq, vq) (by simp)
    simp only [lookupKV]
    rw [if_neg (by simp at this; omega)]
    exact ih (fun p hp => h p (by simp [hp]))

theorem lookupKV_mem {k : Nat} {v : ν} {m : List (Nat × ν)} (h : lookupKV k m = some v) : (k, v) ∈ m := by
  induction m with
  | nil => simp [lookupKV] at h
  | cons q m ih =>
    obtain ⟨kq, vq⟩ := q
    simp only [lookupKV] at h
    by_cases h1 : k = kq
    · simp only [h1, if_true, Option.some.injEq] at h
      simp [h1, h]
    · simp only [h1, if_false] at h
      simp [ih h]

theorem lookupKV_of_mem {k : Nat} {v : ν} {m : List (Nat × ν)} (hm : Sorted m) (h : (k, v) ∈ m) :
    lookupKV k m = some v := by
  induction m with
  | nil => simp at h
  | cons q m ih =>
    obtain ⟨kq, vq⟩ := q
    simp only [Sorted, List.pairwise_cons] at hm
    obtain ⟨hq, hm'⟩ := hm
    simp only [List.mem_cons, Prod.mk.injEq] at h
    simp only [lookupKV]
    rcases h with ⟨h1, h2⟩ | h
    · simp [h1, h2]
    · have := hq _ h
      rw [if_neg (by simp at this; omega)]
      exact ih hm' h

/-- two canonical maps with the same lookups are the same list -/
theorem sorted_ext {m1 m2 : List (Nat × ν)} (h1 : Sorted m1) (h2 : Sorted m2)
    (h : ∀ k, lookupKV k m1 = lookupKV k m2) : m1 = m2 := by
  induction m1 generalizing m2 with
  | nil =>
    cases m2 with
    | nil => rfl
    | cons q m2 =>
      obtain ⟨kq, vq⟩ := q
      have := h kq
      simp [lookupKV] at this
  | cons p m1 ih =>
    obtain ⟨kp, vp⟩ := p
    cases m2 with
    | nil =>
      have := h kp
      simp [lookupKV] at this
    | cons q m2 =>
      obtain ⟨kq, vq⟩ := q
      simp only [Sorted, List.pairwise_cons] at h1 h2
      obtain ⟨hp, h1'⟩ := h1
      obtain ⟨hq, h2'⟩ := h2
      have hk : kp = kq := by
        rcases Nat.lt_trichotomy kp kq with hlt | heq | hgt
        · have a := h kp
          simp only [lookupKV, if_true] at a
          rw [if_neg (by omega), lookupKV_none_of_lt (fun x hx => Nat.lt_trans hlt (hq x hx))] at a
          simp at a
        · exact heq
        · have a := h kq
          simp only [lookupKV, if_true] at a
          rw [if_neg (by omega), lookupKV_none_of_lt (fun x hx => Nat.lt_trans hgt (hp x hx))] at a
          simp at a
      subst hk
      have hv : vp = vq := by
        have a := h kp
        simpa [lookupKV] using a
      subst hv
      congr 1
      apply ih h1' h2'
      intro k
      by_cases hkk : k = kp
      · subst hkk
        rw [lookupKV_none_of_lt hp, lookupKV_none_of_lt hq]
      · have a := h k
        simpa [lookupKV, hkk] using a

/-! ## building a map by insertion in any order -/

/-- the value of the last row with key `k` -/
def lastKV (k : Nat) : List (Nat × ν) → Option ν
  | [] => none
  | (k', v') :: t =>
    match lastKV k t with
    | some v => some v
    | none => if k = k' then some v' else none

def buildKV (rows : List (Nat × ν)) (acc : List (Nat × ν)) : List (Nat × ν) :=
  rows.foldl (fun a p => insertKV p.1 p.2 a) acc

theorem sorted_buildKV (rows : List (Nat × ν)) {acc : List (Nat × ν)} (h : Sorted acc) : Sorted (buildKV rows acc) := by
  induction rows generalizing acc with
  | nil => exact h
  | cons p rows ih => exact ih (sorted_insertKV p.1 p.2 h)

theorem lookupKV_buildKV (k : Nat) (rows : List (Nat × ν)) (acc : List (Nat × ν)) :
    lookupKV k (buildKV rows acc) = match lastKV k rows with | some v => some v | none => lookupKV k acc := by
  induction rows generalizing acc with
  | nil => rfl
  | cons p rows ih =>
    obtain ⟨kp, vp⟩ := p
    simp only [buildKV, List.foldl_cons] at ih ⊢
    rw [ih, lastKV]
    cases lastKV k rows with
    | some v => rfl
    | none => simp only [lookupKV_insertKV]; by_cases hk : k = kp <;> simp [hk]

/-- rows are *functional*: equal keys carry equal values (e.g. distinct keys) -/
def Func (rows : List (Nat × ν)) : Prop := ∀ p ∈ rows, ∀ q ∈ rows, p.1 = q.1 → p.2 = q.2

theorem lastKV_mem {k : Nat} {v : ν} {rows : List (Nat × ν)} (h : lastKV k rows = some v) : (k, v) ∈ rows := by
  induction rows with
  | nil => simp [lastKV] at h
  | cons p rows ih =>
    obtain ⟨kp, vp⟩ := p
    simp only [lastKV] at h
    cases hl : lastKV k rows with
    | some w =>
      rw [hl] at h
      simp only [Option.some.injEq] at h
      subst h
      simp [ih hl]
    | none =>
      rw [hl] at h
      by_cases hk : k = kp
      · simp only [hk, if_true, Option.some.injEq] at h
        simp [hk, h]
      · simp [hk] at h

theorem lastKV_isSome_of_mem {k : Nat} {v : ν} {rows : List (Nat × ν)} (h : (k, v) ∈ rows) :
    ∃ w, lastKV k rows = some w := by
  induction rows with
  | nil => simp at h
  | cons p rows ih =>
    obtain ⟨kp, vp⟩ := p
    simp only [lastKV]
    cases hl : lastKV k rows with
    | some w => exact ⟨w, rfl⟩
    | none =>
      simp only [List.mem_cons, Prod.mk.injEq] at h
      rcases h with ⟨h1, _⟩ | h
      · exact ⟨vp, by simp [h1]⟩
      · obtain ⟨w, hw⟩ := ih h
        rw [hl] at hw
        simp at hw

theorem lastKV_iff {k : Nat} {v : ν} {rows : List (Nat × ν)} (hf : Func rows) :
    lastKV k rows = some v ↔ (k, v) ∈ rows := by
  constructor
  · exact lastKV_mem
  · intro h
    obtain ⟨w, hw⟩ := lastKV_isSome_of_mem h
    have := hf _ (lastKV_mem hw) _ h rfl
    simp only at this
    rw [hw, this]

theorem sorted_func {t : List (Nat × ν)} (ht : Sorted t) : Func t := by
  intro p hp q hq hk
  obtain ⟨kp, vp⟩ := p
  obtain ⟨kq, vq⟩ := q
  simp only at hk
  subst hk
  have a := lookupKV_of_mem ht hp
  have b := lookupKV_of_mem ht hq
  rw [a] at b
  simpa using b

/-- **insertion in any order**: rows with the same members as a canonical map build that map -/
theorem buildKV_eq {t rows : List (Nat × ν)} (ht : Sorted t) (hm : ∀ p, p ∈ rows ↔ p ∈ t) :
    buildKV rows [] = t := by
  have hf : Func rows := by
    intro p hp q hq hk
    exact sorted_func ht p ((hm p).1 hp) q ((hm q).1 hq) hk
  apply sorted_ext (sorted_buildKV rows (by simp [Sorted])) ht
  intro k
  rw [lookupKV_buildKV]
  cases hl : lastKV k rows with
  | some v =>
    have := (hm _).1 (lastKV_mem hl)
    simp only
    rw [lookupKV_of_mem ht this]
  | none =>
    simp only [lookupKV]
    cases ht' : lookupKV k t with
    | none => rfl
    | some v =>
      have := (lastKV_iff hf).2 ((hm _).2 (lookupKV_mem ht'))
      rw [hl] at this
      simp at this

end RP.Pgcopy
