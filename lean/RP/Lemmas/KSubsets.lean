import RP.Spec.Hands
import RP.Lemmas.Gosper
import Mathlib.Data.Nat.Choose.Basic
/-! # Lemmas for C06: the specification list `ksubsets` — membership, order, length -/
namespace RP.C06
open RP.Bits RP.Spec

/-- two strictly increasing lists with the same members are equal -/
theorem pairwise_lt_ext : ∀ (l1 l2 : List Nat), l1.Pairwise (· < ·) → l2.Pairwise (· < ·) →
    (∀ a, a ∈ l1 ↔ a ∈ l2) → l1 = l2
  | [], l2, _, _, h => by
    cases l2 with
    | nil => rfl
    | cons b u => exact absurd ((h b).mpr (List.mem_cons_self ..)) (List.not_mem_nil)
  | a :: t, l2, h1, h2, h => by
    cases l2 with
    | nil => exact absurd ((h a).mp (List.mem_cons_self ..)) (List.not_mem_nil)
    | cons b u =>
      rw [List.pairwise_cons] at h1 h2
      have hab : a = b := by
        have ha := (h a).mp (List.mem_cons_self ..)
        have hb := (h b).mpr (List.mem_cons_self ..)
        rw [List.mem_cons] at ha hb
        rcases ha with ha | ha
        · exact ha
        · rcases hb with hb | hb
          · exact hb.symm
          · have := h2.1 a ha; have := h1.1 b hb; omega
      subst hab
      congr 1
      apply pairwise_lt_ext t u h1.2 h2.2
      intro x
      constructor
      · intro hx
        have := (h x).mp (List.mem_cons_of_mem _ hx)
        rw [List.mem_cons] at this
        rcases this with rfl | this
        · have := h1.1 x hx; omega
        · exact this
      · intro hx
        have := (h x).mpr (List.mem_cons_of_mem _ hx)
        rw [List.mem_cons] at this
        rcases this with rfl | this
        · have := h2.1 x hx; omega
        · exact this

theorem popW_eq_zero {w y : Nat} (hy : y < 2^w) (h : popW w y = 0) : y = 0 := by
  have := popW_upper w y hy
  rw [h] at this; simp at this; omega

theorem and_eq_zero_iff_testBit (y m : Nat) : y &&& m = 0 ↔ ∀ i, y.testBit i = true → m.testBit i = false := by
  constructor
  · intro h i hi
    have := and_testBit_false' h i
    rw [hi] at this; simpa using this
  · intro h
    apply Nat.eq_of_testBit_eq
    intro i
    rw [Nat.testBit_and, Nat.zero_testBit]
    cases hy : y.testBit i
    · rfl
    · rw [h i hy]; rfl
where
  and_testBit_false' {x m : Nat} (h : x &&& m = 0) (i : Nat) : (x.testBit i && m.testBit i) = false := by
    have := congrArg (fun n => n.testBit i) h
    simpa using this

/-- membership in the specification list: exactly the `k`-card sets below `2^w` avoiding `m` -/
theorem mem_ksubsets : ∀ (w k m y : Nat),
    y ∈ ksubsets w k m ↔ (y < 2^w ∧ popW w y = k ∧ y &&& m = 0)
  | w, 0, m, y => by
    simp only [ksubsets, List.mem_singleton]
    constructor
    · rintro rfl; exact ⟨Nat.two_pow_pos w, popW_zero w, Nat.zero_and m⟩
    · rintro ⟨h1, h2, _⟩; exact popW_eq_zero h1 h2
  | 0, k+1, m, y => by
    simp only [ksubsets, List.not_mem_nil, false_iff]
    rintro ⟨h1, h2, _⟩
    simp [popW] at h2
  | w+1, k+1, m, y => by
    simp only [ksubsets, List.mem_append]
    rw [mem_ksubsets w (k+1) m y]
    have hpw : 2^(w+1) = 2 * 2^w := by ring
    have hW := Nat.two_pow_pos w
    rw [popW_succ]
    by_cases hy : y < 2^w
    · -- card w not in y
      have hb : y.testBit w = false := Nat.testBit_lt_two_pow hy
      have hnotB : ¬ y ∈ (if m.testBit w = true then [] else List.map (fun x => x + 2^w) (ksubsets w k m)) := by
        split
        · exact List.not_mem_nil
        · rw [List.mem_map]; rintro ⟨z, _, rfl⟩; omega
      simp only [hb, hnotB, or_false, Bool.false_eq_true, if_false, Nat.add_zero]
      constructor
      · rintro ⟨h1, h2, h3⟩; exact ⟨by omega, h2, h3⟩
      · rintro ⟨_, h2, h3⟩; exact ⟨hy, h2, h3⟩
    · -- card w in y (or y too large)
      have hnotA : ¬ (y < 2^w ∧ popW w y = k + 1 ∧ y &&& m = 0) := fun h => hy h.1
      simp only [hnotA, false_or]
      constructor
      · intro hB
        split at hB
        · exact absurd hB List.not_mem_nil
        · next hmw =>
          rw [List.mem_map] at hB
          obtain ⟨z, hz, rfl⟩ := hB
          obtain ⟨z1, z2, z3⟩ := (mem_ksubsets w k m z).mp hz
          have hbit : (z + 2^w).testBit w = true := by
            rw [Nat.add_comm, Nat.testBit_two_pow_add_eq, Nat.testBit_lt_two_pow z1]; rfl
          have hpop : popW w (z + 2^w) = popW w z := by
            have := popW_mul_add 0 w 1 z z1
            have e : popW w (z + 2^w) = popW (0 + w) (1 * 2^w + z) := by
              rw [Nat.zero_add, Nat.one_mul, Nat.add_comm]
            have e2 := popW_mul_add 1 w 1 z z1
            -- popW w ignores the bits from w on
            have h3 : popW (1 + w) (1 * 2^w + z) = popW w (1 * 2^w + z) + 1 := by
              have hw : 1 + w = w + 1 := by omega
              rw [hw, popW_succ]
              have : (1 * 2^w + z).testBit w = true := by
                rw [Nat.one_mul, Nat.testBit_two_pow_add_eq, Nat.testBit_lt_two_pow z1]; rfl
              rw [this]; rfl
            have h4 : popW 1 1 = 1 := by decide
            rw [e, Nat.zero_add]; omega
          refine ⟨by omega, by rw [hbit, hpop, z2]; rfl, ?_⟩
          rw [and_eq_zero_iff_testBit] at z3 ⊢
          intro i hi
          by_cases hiw : i = w
          · subst hiw; simpa using hmw
          · apply z3
            rw [Nat.add_comm] at hi
            by_cases hlt : i < w
            · rwa [Nat.testBit_two_pow_add_gt hlt] at hi
            · have hzi : (2^w + z) < 2^i := by
                have : 2^(w+1) ≤ 2^i := Nat.pow_le_pow_right (by omega) (by omega)
                omega
              rw [Nat.testBit_lt_two_pow hzi] at hi; exact absurd hi (by simp)
      · rintro ⟨h1, h2, h3⟩
        obtain ⟨z, rfl⟩ : ∃ z, y = z + 2^w := ⟨y - 2^w, by omega⟩
        have z1 : z < 2^w := by omega
        have hbit : (z + 2^w).testBit w = true := by
          rw [Nat.add_comm, Nat.testBit_two_pow_add_eq, Nat.testBit_lt_two_pow z1]; rfl
        have hmw : m.testBit w = false := ((and_eq_zero_iff_testBit _ _).mp h3) w hbit
        rw [hmw]
        simp only [Bool.false_eq_true, if_false, List.mem_map]
        refine ⟨z, ?_, rfl⟩
        rw [mem_ksubsets w k m z]
        have hpop : popW w (z + 2^w) = popW w z := by
          have e2 := popW_mul_add 1 w 1 z z1
          have h3 : popW (1 + w) (1 * 2^w + z) = popW w (1 * 2^w + z) + 1 := by
            have hw : 1 + w = w + 1 := by omega
            rw [hw, popW_succ]
            have : (1 * 2^w + z).testBit w = true := by
              rw [Nat.one_mul, Nat.testBit_two_pow_add_eq, Nat.testBit_lt_two_pow z1]; rfl
            rw [this]; rfl
          have h4 : popW 1 1 = 1 := by decide
          have e : popW w (z + 2^w) = popW w (1 * 2^w + z) := by rw [Nat.one_mul, Nat.add_comm]
          rw [e]; omega
        rw [hbit, hpop] at h2
        refine ⟨z1, by simpa using h2, ?_⟩
        rw [and_eq_zero_iff_testBit] at h3 ⊢
        intro i hi
        apply h3
        have hiw : i < w := by
          apply Nat.lt_of_not_le
          intro hle
          have : z < 2^i := Nat.lt_of_lt_of_le z1 (Nat.pow_le_pow_right (by omega) hle)
          rw [Nat.testBit_lt_two_pow this] at hi; exact absurd hi (by simp)
        rw [Nat.add_comm, Nat.testBit_two_pow_add_gt hiw]; exact hi

theorem ksubsets_sorted : ∀ (w k m : Nat), (ksubsets w k m).Pairwise (· < ·)
  | _, 0, _ => by simp [ksubsets]
  | 0, _+1, _ => by simp [ksubsets]
  | w+1, k+1, m => by
    simp only [ksubsets]
    rw [List.pairwise_append]
    refine ⟨ksubsets_sorted w (k+1) m, ?_, ?_⟩
    · split
      · exact List.Pairwise.nil
      · rw [List.pairwise_map]
        exact (ksubsets_sorted w k m).imp (by intro a b h; omega)
    · intro a ha b hb
      have h1 := ((mem_ksubsets w (k+1) m a).mp ha).1
      split at hb
      · exact absurd hb List.not_mem_nil
      · rw [List.mem_map] at hb
        obtain ⟨z, _, rfl⟩ := hb
        omega

/-- the specification list has `C(n, k)` entries, `n` the number of unblocked cards below `w` -/
theorem length_ksubsets : ∀ (w k m : Nat), (ksubsets w k m).length = Nat.choose (w - popW w m) k
  | w, 0, m => by simp [ksubsets]
  | 0, k+1, m => by simp [ksubsets, popW]
  | w+1, k+1, m => by
    simp only [ksubsets, List.length_append]
    rw [length_ksubsets w (k+1) m, popW_succ]
    have hle := popW_le w m
    by_cases hb : m.testBit w = true
    · simp only [hb, if_true, List.length_nil, Nat.add_zero]
      congr 1; omega
    · simp only [hb, Bool.false_eq_true, if_false, List.length_map, length_ksubsets w k m, Nat.add_zero]
      have : w + 1 - popW w m = (w - popW w m) + 1 := by omega
      rw [this, Nat.choose_succ_succ, Nat.succ_eq_add_one]; omega

end RP.C06
