import RP.Lemmas.IsoKeys
/-! # C05: `Permutation::order` is "content key first, suit second"

The seven comparison keys (in the generated order `RP.Gen.permOrderKeys`) are packed into one
number `kcode` (six content keys, base 128) so that the `then_with` chain becomes
`kcode < kcode' ∨ (kcode = kcode' ∧ suit < suit')`. -/
namespace RP.Iso
open RP.Bits

/-- the generated key order is the one the proofs below are about -/
theorem keys_known : RP.Gen.permOrderKeys =
    ["1:size", "2:size", "1:min_rank", "2:min_rank", "1:max_rank", "2:max_rank", "0"] := by decide

theorem keyVec_eq (s P Q : Nat) : keyVec (s, P, Q) =
    [size P, size Q, optKey (minRank P), optKey (minRank Q), optKey (maxRank P), optKey (maxRank Q), s] := by
  simp [keyVec, keyFns, RP.Gen.permOrderKeys, keyOf]

/-- the six content keys as one number (each key is below 128) -/
def kcode (a b : Nat) : Nat :=
  ((((size a * 128 + size b) * 128 + optKey (minRank a)) * 128 + optKey (minRank b)) * 128
    + optKey (maxRank a)) * 128 + optKey (maxRank b)

theorem size_le (h : Nat) : size h ≤ 64 := popW_le 64 h

theorem optKey_minRank_le (h : Nat) : optKey (minRank h) ≤ 17 := by
  unfold minRank lo
  have := tzW_le 64 h
  split <;> simp only [optKey] <;> omega

theorem optKey_maxRank_le (h : Nat) : optKey (maxRank h) ≤ 17 := by
  unfold maxRank hi
  have := msbW_le 64 h
  split <;> simp only [optKey] <;> omega

theorem then_lt (a b : Nat) (o : Ordering) :
    ((compare a b).then o = .lt) ↔ (a < b ∨ (a = b ∧ o = .lt)) := by
  rcases Nat.lt_trichotomy a b with h | h | h
  · have : compare a b = .lt := Nat.compare_eq_lt.2 h
    simp [this, h]
  · have hc : compare a b = .eq := Nat.compare_eq_eq.2 h
    rw [hc]; simp [h]
  · have hc : compare a b = .gt := Nat.compare_eq_gt.2 h
    rw [hc]; simp; omega

theorem lex_step {B a a' r r' : Nat} (hr : r < B) (hr' : r' < B) (P : Prop) :
    (a < a' ∨ (a = a' ∧ (r < r' ∨ (r = r' ∧ P)))) ↔
      (a * B + r < a' * B + r' ∨ (a * B + r = a' * B + r' ∧ P)) := by
  have h1 : a < a' → a * B + r < a' * B + r' := by
    intro h
    have : (a + 1) * B ≤ a' * B := Nat.mul_le_mul_right B h
    rw [Nat.add_mul] at this; omega
  have h2 : a' < a → a' * B + r' < a * B + r := by
    intro h
    have : (a' + 1) * B ≤ a * B := Nat.mul_le_mul_right B h
    rw [Nat.add_mul] at this; omega
  constructor
  · rintro (h | ⟨rfl, h | ⟨rfl, h⟩⟩)
    · exact Or.inl (h1 h)
    · exact Or.inl (by omega)
    · exact Or.inr ⟨rfl, h⟩
  · intro h
    rcases Nat.lt_trichotomy a a' with ha | ha | ha
    · exact Or.inl ha
    · subst ha
      refine Or.inr ⟨rfl, ?_⟩
      rcases h with h | ⟨h, hp⟩
      · exact Or.inl (by omega)
      · exact Or.inr ⟨by omega, hp⟩
    · have := h2 ha; omega

/-- **`Permutation::order` = content key, then suit** -/
theorem orderLt_iff (s t P Q P' Q' : Nat) :
    orderLt (s, P, Q) (t, P', Q') = true ↔
      (kcode P Q < kcode P' Q' ∨ (kcode P Q = kcode P' Q' ∧ s < t)) := by
  have b1 := size_le P; have b2 := size_le Q; have b1' := size_le P'; have b2' := size_le Q'
  have b3 := optKey_minRank_le P; have b4 := optKey_minRank_le Q
  have b3' := optKey_minRank_le P'; have b4' := optKey_minRank_le Q'
  have b5 := optKey_maxRank_le P; have b6 := optKey_maxRank_le Q
  have b5' := optKey_maxRank_le P'; have b6' := optKey_maxRank_le Q'
  simp only [orderLt, order, keyVec_eq, cmpVec, beq_iff_eq, then_lt, kcode]
  have e : (Ordering.eq = Ordering.lt) ↔ False := by simp
  simp only [e, and_false, or_false]
  rw [lex_step (B := 128) (by omega) (by omega), lex_step (B := 128) (by omega) (by omega),
    lex_step (B := 128) (by omega) (by omega), lex_step (B := 128) (by omega) (by omega)]
  generalize size P = a1, size Q = a2, optKey (minRank P) = a3, optKey (minRank Q) = a4,
    optKey (maxRank P) = a5, optKey (maxRank Q) = a6 at *
  generalize size P' = c1, size Q' = c2, optKey (minRank P') = c3, optKey (minRank Q') = c4,
    optKey (maxRank P') = c5, optKey (maxRank Q') = c6 at *
  omega

/-- equal codes mean equal keys -/
theorem kcode_inj {a b a' b' : Nat} (h : kcode a b = kcode a' b') :
    size a = size a' ∧ size b = size b' ∧ minRank a = minRank a' ∧ minRank b = minRank b' ∧
      maxRank a = maxRank a' ∧ maxRank b = maxRank b' := by
  have b1 := size_le a; have b2 := size_le b; have b1' := size_le a'; have b2' := size_le b'
  have b3 := optKey_minRank_le a; have b4 := optKey_minRank_le b
  have b3' := optKey_minRank_le a'; have b4' := optKey_minRank_le b'
  have b5 := optKey_maxRank_le a; have b6 := optKey_maxRank_le b
  have b5' := optKey_maxRank_le a'; have b6' := optKey_maxRank_le b'
  have inj : ∀ x y : Option Nat, optKey x = optKey y → x = y := by
    intro x y hxy
    cases x <;> cases y <;> simp [optKey] at hxy ⊢ <;> omega
  unfold kcode at h
  refine ⟨by omega, by omega, inj _ _ (by omega), inj _ _ (by omega), inj _ _ (by omega), inj _ _ (by omega)⟩

/-- the content key does not see the suit a content sits on -/
theorem kcode_shift {a b s : Nat} (ha : Normalized a) (hb : Normalized b) (hs : s < 4) :
    kcode (a <<< s) (b <<< s) = kcode a b := by
  unfold kcode
  rw [size_shift ha.lt hs, size_shift hb.lt hs, minRank_shift ha hs, minRank_shift hb hs,
    maxRank_shift ha hs, maxRank_shift hb hs]

end RP.Iso
