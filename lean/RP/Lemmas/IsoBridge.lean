import RP.Lemmas.IsoSort
import RP.Lemmas.IsoOrder
import RP.Lemmas.IsoImage
/-! # C05: the model's sort is the abstract sort of the four normalised contents

`cont m o s` is the content of suit `s` (pocket part, board part) moved down to suit 0.
The entries the model sorts are `(s, content <<< s)`; because the keys do not see the suit
(`kcode_shift`) the model's `sigma` is the abstract `sortedA` of `cont m o`. -/
namespace RP.Iso
open List

/-- a pair of normalised contents (pocket part, board part) -/
def NC : Type := { k : Nat × Nat // Normalized k.1 ∧ Normalized k.2 }

/-- the content of suit `s` in an observation -/
def cont (m : Nat) (o : Obs) (s : Nat) : NC :=
  ⟨(norm m o.pocket s, norm m o.board s), norm_normalized _ _ _, norm_normalized _ _ _⟩

theorem NC.ext {a b : NC} (h1 : a.1.1 = b.1.1) (h2 : a.1.2 = b.1.2) : a = b := by
  obtain ⟨⟨a1, a2⟩, ha⟩ := a
  obtain ⟨⟨b1, b2⟩, hb⟩ := b
  simp only at h1 h2
  subst h1 h2
  rfl

/-- put a content back on its suit: the entry the model sorts -/
def toEntry (e : Nat × NC) : Entry := (e.1, e.2.1.1 <<< (e.1 % 4), e.2.1.2 <<< (e.1 % 4))

/-- the model's comparison, on contents -/
def ltN (a b : Nat × NC) : Bool := orderLt (toEntry a) (toEntry b)

/-- the content key -/
def KN (k : NC) : Nat := kcode k.1.1 k.1.2

theorem orderSpec : OrderSpec ltN KN := by
  intro s t a b
  simp only [ltN, toEntry, KN, orderLt_iff]
  rw [kcode_shift a.2.1 a.2.2 (Nat.mod_lt _ (by omega)), kcode_shift b.2.1 b.2.2 (Nat.mod_lt _ (by omega))]

theorem colex_eq (m : Nat) (o : Obs) {s : Nat} (hs : s < 4) : colex m o s = toEntry (s, cont m o s) := by
  simp only [colex, toEntry, cont, Nat.mod_eq_of_lt hs, ofSuit_eq_norm hs]

theorem entries_eq (m : Nat) (o : Obs) : suits.map (colex m o) = (entriesA (cont m o)).map toEntry := by
  simp only [suits_eq, entriesA, map_cons, map_nil]
  rw [colex_eq m o (show 0 < 4 by omega), colex_eq m o (show 1 < 4 by omega),
    colex_eq m o (show 2 < 4 by omega), colex_eq m o (show 3 < 4 by omega)]

theorem sortedEntries_eq (m : Nat) (o : Obs) :
    sortedEntries m o = (sortedA ltN (cont m o)).map toEntry := by
  rw [sortedEntries, entries_eq, isort_map]
  rfl

/-- **bridge**: the model's sorted suits are the abstract sorted suits of the contents -/
theorem sigma_eq (m : Nat) (o : Obs) : sigma m o = (sortedA ltN (cont m o)).map Prod.fst := by
  rw [sigma, sortedEntries_eq, map_map]
  rfl

theorem sigma_mem (m : Nat) (o : Obs) : sigma m o ∈ S4 := by
  rw [sigma_eq]
  exact mem_S4_of_perm (sigmaA_perm _)

theorem permOf_mem (m : Nat) (o : Obs) : permOf m o ∈ S4 := invFold_mem _ (sigma_mem m o)

/-- the contents of a relabeled observation -/
theorem cont_permute {m : Nat} (hm : MaskOK m) {p : List Nat} (hp : p ∈ S4) (o : Obs) {s : Nat}
    (hs : s < 4) : cont m (permute m p o) (pmap p s) = cont m o s := by
  apply NC.ext
  · exact norm_image hm hp hs o.pocket
  · exact norm_image hm hp hs o.board

/-- `canon` puts the `i`-th sorted content on suit `i` -/
theorem cont_canon {m : Nat} (hm : MaskOK m) (o : Obs) :
    [0, 1, 2, 3].map (cont m (canon m o)) = (sortedA ltN (cont m o)).map Prod.snd := by
  rw [sortedA_snd, ← sigma_eq]
  have hsg := sigma_mem m o
  have hp := permOf_mem m o
  have key : ∀ i, i < 4 → cont m (canon m o) i = cont m o ((sigma m o).getD i 0) := by
    intro i hi
    have h1 : pmap (permOf m o) ((sigma m o).getD i 0) = i := invFold_getD _ hsg i hi
    have h2 : (sigma m o).getD i 0 < 4 := pmap_lt _ hsg i hi
    have := cont_permute hm hp o h2
    rw [h1] at this
    exact this
  have hl := S4_eq_getD _ hsg
  conv => rhs; rw [hl]
  simp only [map_cons, map_nil, pmap]
  rw [key 0 (by omega), key 1 (by omega), key 2 (by omega), key 3 (by omega)]

end RP.Iso
