import RP.Lemmas.HandsIter
import RP.Lemmas.KSubsets
/-! # Lemmas for C06: fuel-free view of `HandIterator`, and the unfolding of `ObservationIterator` -/
namespace RP.C06
open RP.Bits RP.Hands RP.Spec

/-! ## popcount of a disjoint union -/

theorem popW_or_disjoint (w a b : Nat) (h : a &&& b = 0) : popW w (a ||| b) = popW w a + popW w b := by
  induction w generalizing a b with
  | zero => rfl
  | succ w ih =>
    simp only [popW]
    have hd : a / 2 &&& b / 2 = 0 := by rw [← Nat.and_div_two, h]
    have hm : ¬ ((a &&& b) % 2 = 1) := by rw [h]; decide
    rw [Nat.and_mod_two_eq_one] at hm
    rw [Nat.or_div_two, ih _ _ hd]
    have ho : (a ||| b) % 2 = 1 ↔ a % 2 = 1 ∨ b % 2 = 1 := Nat.or_mod_two_eq_one
    omega

/-! ## `Hand::from` is the identity on what the iterator can stand on -/

theorem handMask_testBit' (short : Bool) (i : Nat) :
    (handMask short).testBit i = (decide (i < 52) && (!short || decide (16 ≤ i))) := by
  cases short
  · show (2^52 - 1).testBit i = _
    rw [Nat.testBit_two_pow_sub_one]; simp
  · show (2^16 * (2^36 - 1) + 0).testBit i = _
    rw [Nat.testBit_two_pow_mul_add _ (by decide), Nat.testBit_two_pow_sub_one]
    by_cases h : i < 16
    · simp [h]
    · by_cases h2 : i < 52
      · have : i - 16 < 36 := by omega
        simp [h, h2, this]; omega
      · have : ¬ i - 16 < 36 := by omega
        simp [h, h2, this]

theorem effMask_testBit (short : Bool) (hand i : Nat) :
    (effMask short hand).testBit i = (hand.testBit i || (short && decide (i < 16))) := by
  unfold effMask
  cases short
  · simp
  · show (hand ||| (2^16 - 1)).testBit i = _
    rw [Nat.testBit_or, Nat.testBit_two_pow_sub_one]; simp

theorem look_id_eff (short : Bool) (hand y : Nat) (hy : y < 2^52) (h : y &&& effMask short hand = 0) :
    handOf short y = y := by
  unfold handOf
  rw [and_eq_zero_iff_testBit] at h
  apply Nat.eq_of_testBit_eq
  intro i
  rw [Nat.testBit_and]
  cases hi : y.testBit i
  · rfl
  · have hb := h i hi
    rw [effMask_testBit] at hb
    have hlt : i < 52 := by
      apply Nat.lt_of_not_le
      intro hle
      have : y < 2^i := Nat.lt_of_lt_of_le hy (Nat.pow_le_pow_right (by omega) hle)
      rw [Nat.testBit_lt_two_pow this] at hi; exact absurd hi (by simp)
    rw [handMask_testBit']
    cases short <;> simp_all

/-! ## fuel-free view of one `HandIterator` -/

/-- a `HandIterator` state reachable for `k ≥ 1` cards -/
def Good (short : Bool) (k : Nat) (s : HandIter) : Prop :=
  ∃ m, m < 2^52 ∧ (∀ y, y < 2^52 → y &&& m = 0 → handOf short y = y) ∧ HInv k m s

theorem good_init (short : Bool) (k hand : Nat) (hk : 1 ≤ k) (hk64 : k < 64) (hh : hand < 2^52) :
    Good short k (HandIter.init short k hand) :=
  ⟨effMask short hand, effMask_lt short hand hh, fun y hy h => look_id_eff short hand y hy h,
    (init_spec short k hand hk hk64).1⟩

/-- the list does not depend on the fuel once the fuel covers the distance to `2^52` -/
theorem unfold_fuel_irrel (short : Bool) (k : Nat) (hk : 1 ≤ k) (s : HandIter) (hg : Good short k s)
    (f1 f2 : Nat) (h1 : 2^52 ≤ f1 + s.next) (h2 : 2^52 ≤ f2 + s.next) :
    unfold (HandIter.step short) f1 s = unfold (HandIter.step short) f2 s := by
  obtain ⟨m, hm, hlook, hinv⟩ := hg
  obtain ⟨p1, p2⟩ := unfold_hands short k m hk hm hlook f1 s hinv h1
  obtain ⟨q1, q2⟩ := unfold_hands short k m hk hm hlook f2 s hinv h2
  exact pairwise_lt_ext _ _ p1 q1 (fun y => by rw [p2, q2])

/-- **handsFrom_fuel**: one `next()` of the iterator peels exactly the head off the list of what it
still yields (so the list fuel `2^52` is never the reason the list ends) -/
theorem good_step (short : Bool) (k : Nat) (hk : 1 ≤ k) (s : HandIter) (hg : Good short k s) :
    (HandIter.step short s = none ∧ handsFrom short s = []) ∨
    (∃ x s', HandIter.step short s = some (x, s') ∧ Good short k s' ∧
      handsFrom short s = x :: handsFrom short s') := by
  have hg' := hg
  obtain ⟨m, hm, hlook, hinv⟩ := hg
  have hx := pos_of_pop hk hinv.pop
  by_cases hex : 2^52 ≤ s.next
  · left
    have := step_exhausted short s (Or.inr hex)
    refine ⟨this, ?_⟩
    show unfold _ (2^52) s = []
    rw [show (2:Nat)^52 = (2^52 - 1) + 1 from by norm_num]
    simp only [unfold, this]
  · right
    have hlt : s.next < 2^52 := by omega
    have hst := step_live short s hx hlt
    obtain ⟨a1, a2, _⟩ := advance_spec k m hk hm s hinv hlt
    have hgood' : Good short k s.advance := ⟨m, hm, hlook, a1⟩
    refine ⟨_, _, hst, hgood', ?_⟩
    show unfold _ (2^52) s = _ :: unfold _ (2^52) s.advance
    rw [unfold_fuel_irrel short k hk s.advance hgood' (2^52) (2^52 - 1) (by omega) (by omega)]
    conv => lhs; rw [show (2:Nat)^52 = (2^52 - 1) + 1 from by norm_num]
    simp only [unfold, hst]

/-! ## the observation iterator -/

/-- what an `ObservationIterator` state over a street with `n ≥ 1` board cards still yields, in terms
of the lists of its two `HandIterator`s -/
def obsRest (short : Bool) (n : Nat) (st : ObsIter) : List (Nat × Nat) :=
  (handsFrom short st.inner).map (fun b => (st.pocket, b)) ++
  (handsFrom short st.outer).flatMap (fun p => (handsOfHand short n p).map (fun b => (p, b)))

theorem obs_unfold (short : Bool) (n : Nat) (hn : 1 ≤ n) (hn64 : n < 64) :
    ∀ fuel (st : ObsIter), st.street ≠ 0 → nObserved st.street = n →
      Good short n st.inner → Good short 2 st.outer →
      (∀ p ∈ handsFrom short st.outer, p < 2^52 ∧ handsOfHand short n p ≠ []) →
      (obsRest short n st).length < fuel →
      unfold (ObsIter.step short) fuel st = obsRest short n st := by
  intro fuel
  induction fuel with
  | zero => intro st _ _ _ _ _ hf; omega
  | succ fuel ih =>
    intro st hs0 hsn hgi hgo hne hf
    simp only [unfold]
    rcases good_step short n hn st.inner hgi with ⟨hi1, hi2⟩ | ⟨b, inner', hi1, hi2, hi3⟩
    · -- inner exhausted: advance the outer iterator
      rcases good_step short 2 (by omega) st.outer hgo with ⟨ho1, ho2⟩ | ⟨p, outer', ho1, ho2, ho3⟩
      · have : ObsIter.step short st = none := by simp only [ObsIter.step, hi1, ho1]
        rw [this]; simp [obsRest, hi2, ho2]
      · have hp := hne p (by rw [ho3]; exact List.mem_cons_self ..)
        have hgn := good_init short n p hn hn64 hp.1
        rcases good_step short n hn _ hgn with ⟨hq1, hq2⟩ | ⟨b, inner'', hq1, hq2, hq3⟩
        · exact absurd hq2 hp.2
        · have hstep : ObsIter.step short st =
              some ((p, b), { st with pocket := p, outer := outer', inner := inner'' }) := by
            simp only [ObsIter.step, hi1, ho1, hs0, if_false, hsn, hq1]
          rw [hstep]
          have hrest : obsRest short n st
              = (p, b) :: obsRest short n { st with pocket := p, outer := outer', inner := inner'' } := by
            simp only [obsRest, hi2, ho3, List.map_nil, List.nil_append, List.flatMap_cons]
            have : handsOfHand short n p = b :: handsFrom short inner'' := hq3
            rw [this]; simp
          rw [hrest] at hf ⊢
          simp only [List.cons.injEq, true_and]
          apply ih { st with pocket := p, outer := outer', inner := inner'' } hs0 hsn hq2 ho2 _
            (by simp only [List.length_cons] at hf; omega)
          intro q hq
          exact hne q (by rw [ho3]; exact List.mem_cons_of_mem _ hq)
    · have hstep : ObsIter.step short st = some ((st.pocket, b), { st with inner := inner' }) := by
        simp only [ObsIter.step, hi1]
      rw [hstep]
      have hrest : obsRest short n st = (st.pocket, b) :: obsRest short n { st with inner := inner' } := by
        simp only [obsRest, hi3, List.map_cons, List.cons_append]
      rw [hrest] at hf ⊢
      simp only [List.cons.injEq, true_and]
      exact ih { st with inner := inner' } hs0 hsn hi2 hgo hne (by simp only [List.length_cons] at hf; omega)

theorem init_zero_next (short : Bool) (hand : Nat) : (HandIter.init short 0 hand).next = 0 := by
  rw [init_next]
  show skipUntil _ (2^53) 0 = 0
  have : initStop (effMask short hand) 0 = true := by
    rw [initStop_iff]; right; left; rfl
  rw [show (2:Nat)^53 = (2^53 - 1) + 1 from by norm_num]
  simp only [skipUntil, this, if_true]

/-- pre-flop: the inner iterator (`k = 0`) never yields, every `next()` takes one pocket -/
theorem obs_unfold_pref (short : Bool) :
    ∀ fuel (st : ObsIter), st.street = 0 → st.inner.next = 0 → Good short 2 st.outer →
      (handsFrom short st.outer).length < fuel →
      unfold (ObsIter.step short) fuel st = (handsFrom short st.outer).map (fun p => (p, 0)) := by
  intro fuel
  induction fuel with
  | zero => intro st _ _ _ hf; omega
  | succ fuel ih =>
    intro st hs0 hin hgo hf
    simp only [unfold]
    have hi1 : HandIter.step short st.inner = none := step_exhausted short _ (Or.inl hin)
    rcases good_step short 2 (by omega) st.outer hgo with ⟨ho1, ho2⟩ | ⟨p, outer', ho1, ho2, ho3⟩
    · have : ObsIter.step short st = none := by simp only [ObsIter.step, hi1, ho1]
      rw [this, ho2]; rfl
    · have hstep : ObsIter.step short st = some ((p, 0), { st with pocket := p, outer := outer' }) := by
        simp only [ObsIter.step, hi1, ho1, hs0, if_true]
      rw [ho3] at hf
      rw [hstep, ho3]
      simp only [List.map_cons, List.cons.injEq, true_and]
      exact ih { st with pocket := p, outer := outer' } hs0 hin ho2
        (by simp only [List.length_cons] at hf; show (handsFrom short outer').length < fuel; omega)

end RP.C06
