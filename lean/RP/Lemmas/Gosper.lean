import RP.Model.Hands
import Mathlib.Tactic.Ring
/-! # Lemmas for C06: popcount arithmetic and the closed form of Gosper's step (DESIGN A.4) -/
namespace RP.C06
open RP.Bits RP.Hands

/-! ## popcount arithmetic -/

theorem popW_of_lt {w n : Nat} (h : n < 2^w) : ∀ d, popW (w + d) n = popW w n := by
  induction w generalizing n with
  | zero =>
    intro d
    have : n = 0 := by simpa using h
    subst this; simp [popW_zero]
  | succ w ih =>
    intro d
    have h2 : n / 2 < 2^w := by rw [Nat.pow_succ] at h; omega
    have : w + 1 + d = (w + d) + 1 := by omega
    rw [this]; simp only [popW]; rw [ih h2]

theorem popW_eq_of_lt {w w' n : Nat} (h : n < 2^w) (hw : w ≤ w') : popW w' n = popW w n := by
  obtain ⟨d, rfl⟩ := Nat.exists_eq_add_of_le hw
  exact popW_of_lt h d

/-- disjoint fields add up -/
theorem popW_mul_add (w n A B : Nat) (hB : B < 2^n) :
    popW (w + n) (A * 2^n + B) = popW w A + popW n B := by
  induction n generalizing B with
  | zero =>
    have : B = 0 := by simpa using hB
    subst this; simp [popW]
  | succ n ih =>
    show popW ((w + n) + 1) _ = _
    simp only [popW]
    have e : A * 2^(n+1) = 2 * (A * 2^n) := by rw [Nat.pow_succ]; ac_rfl
    have h1 : (A * 2^(n+1) + B) % 2 = B % 2 := by rw [e]; omega
    have h2 : (A * 2^(n+1) + B) / 2 = A * 2^n + B / 2 := by rw [e]; omega
    have h3 : B / 2 < 2^n := by rw [Nat.pow_succ] at hB; omega
    rw [h1, h2, ih _ h3]; omega

theorem popW_two_pow_sub_one (r : Nat) : popW r (2^r - 1) = r := by
  induction r with
  | zero => rfl
  | succ r ih =>
    simp only [popW]
    have hp : 0 < 2^r := Nat.two_pow_pos r
    have h1 : (2^(r+1) - 1) % 2 = 1 := by rw [Nat.pow_succ]; omega
    have h2 : (2^(r+1) - 1) / 2 = 2^r - 1 := by rw [Nat.pow_succ]; omega
    rw [h1, h2, ih]; omega

/-- a number with `j` set bits is at least `2^j - 1` -/
theorem popW_lower (w m : Nat) : 2^(popW w m) - 1 ≤ m := by
  induction w generalizing m with
  | zero => simp [popW]
  | succ w ih =>
    simp only [popW]
    have := ih (m / 2)
    rcases Nat.mod_two_eq_zero_or_one m with hb | hb <;> rw [hb]
    · simp only [Nat.zero_add]; omega
    · rw [Nat.add_comm, Nat.pow_succ]; omega

/-- a number below `2^s` with `j` set bits is at most `2^s - 2^(s-j)` -/
theorem popW_upper (s m : Nat) (h : m < 2^s) : m + 2^(s - popW s m) ≤ 2^s := by
  induction s generalizing m with
  | zero => simp [popW] at *; omega
  | succ s ih =>
    simp only [popW]
    have h2 : m / 2 < 2^s := by rw [Nat.pow_succ] at h; omega
    have := ih (m / 2) h2
    have hle := popW_le s (m / 2)
    rcases Nat.mod_two_eq_zero_or_one m with hb | hb <;> rw [hb]
    · have e : s + 1 - (0 + popW s (m / 2)) = (s - popW s (m / 2)) + 1 := by omega
      rw [e, Nat.pow_succ, Nat.pow_succ]; omega
    · have e : s + 1 - (1 + popW s (m / 2)) = s - popW s (m / 2) := by omega
      have hp : 0 < 2^(s - popW s (m / 2)) := Nat.two_pow_pos _
      rw [e, Nat.pow_succ]; omega

/-! ## shape of a positive word: `x = (A·2^(r+1) + 2^r − 1)·2^t`, `r ≥ 1` -/

theorem odd_decomp (m : Nat) (hm : m % 2 = 1) : ∃ r A, 1 ≤ r ∧ m + 1 = A * 2^(r+1) + 2^r := by
  induction m using Nat.strongRecOn with
  | _ m ih =>
    by_cases h2 : (m / 2) % 2 = 1
    · obtain ⟨r, A, hr, e⟩ := ih (m/2) (by omega) h2
      refine ⟨r+1, A, by omega, ?_⟩
      have e1 : A * 2^(r+1+1) + 2^(r+1) = 2 * (A * 2^(r+1) + 2^r) := by ring
      rw [e1, ← e]; omega
    · exact ⟨1, m/4, Nat.le_refl 1, by omega⟩

/-! ## the bitwise steps of `permute` -/

/-- `x | (x-1)` fills the trailing zeros -/
theorem or_pred (m : Nat) (hm : m % 2 = 1) (t : Nat) :
    (m * 2^t ||| (m * 2^t - 1)) + 1 = m * 2^t + 2^t := by
  induction t with
  | zero =>
    have h1 : (m ||| (m - 1)) / 2 = m / 2 := by
      rw [Nat.or_div_two]
      have : (m - 1) / 2 = m / 2 := by omega
      rw [this, Nat.or_self]
    have h2 : (m ||| (m - 1)) % 2 = 1 := Nat.or_mod_two_eq_one.mpr (Or.inl hm)
    simp only [Nat.pow_zero, Nat.mul_one]; omega
  | succ t ih =>
    have hp : 0 < 2^t := Nat.two_pow_pos t
    have hy : 0 < m * 2^t := Nat.mul_pos (by omega) hp
    have e : m * 2^(t+1) = 2 * (m * 2^t) := by ring
    have e' : 2^(t+1) = 2 * 2^t := by ring
    rw [e, e']
    generalize m * 2^t = y at *
    have h1 : (2 * y ||| (2 * y - 1)) / 2 = y ||| (y - 1) := by
      rw [Nat.or_div_two]
      have a1 : 2 * y / 2 = y := by omega
      have a2 : (2 * y - 1) / 2 = y - 1 := by omega
      rw [a1, a2]
    have h2 : (2 * y ||| (2 * y - 1)) % 2 = 1 := Nat.or_mod_two_eq_one.mpr (Or.inr (by omega))
    omega

/-- `!a & (a+1)` isolates the lowest clear bit of `a` -/
theorem xor_and_succ (A s : Nat) :
    ((A * 2^(s+1) + 2^s - 1) ^^^ (A * 2^(s+1) + 2^s)) &&& (A * 2^(s+1) + 2^s) = 2^s := by
  induction s with
  | zero =>
    simp only [Nat.zero_add, Nat.pow_one, Nat.pow_zero, Nat.add_sub_cancel]
    have h1 : ((A * 2 ^^^ (A * 2 + 1)) &&& (A * 2 + 1)) / 2 = 0 := by
      rw [Nat.and_div_two, Nat.xor_div_two]
      have a1 : A * 2 / 2 = A := by omega
      have a2 : (A * 2 + 1) / 2 = A := by omega
      rw [a1, a2, Nat.xor_self, Nat.zero_and]
    have h2 : ((A * 2 ^^^ (A * 2 + 1)) &&& (A * 2 + 1)) % 2 = 1 := by
      rw [Nat.and_mod_two_eq_one]
      refine ⟨?_, by omega⟩
      rw [Nat.xor_mod_two_eq_one]; omega
    omega
  | succ s ih =>
    have hp : 0 < 2^s := Nat.two_pow_pos s
    have e1 : A * 2^(s+1+1) = 2 * (A * 2^(s+1)) := by ring
    have e2 : 2^(s+1) = 2 * 2^s := by ring
    have h1 : ((A * 2^(s+1+1) + 2^(s+1) - 1) ^^^ (A * 2^(s+1+1) + 2^(s+1))) &&& (A * 2^(s+1+1) + 2^(s+1))
        = 2 * (((A * 2^(s+1) + 2^s - 1) ^^^ (A * 2^(s+1) + 2^s)) &&& (A * 2^(s+1) + 2^s)) := by
      generalize hX : ((A * 2^(s+1+1) + 2^(s+1) - 1) ^^^ (A * 2^(s+1+1) + 2^(s+1))) &&& (A * 2^(s+1+1) + 2^(s+1)) = X
      have d : X / 2 = ((A * 2^(s+1) + 2^s - 1) ^^^ (A * 2^(s+1) + 2^s)) &&& (A * 2^(s+1) + 2^s) := by
        rw [← hX, Nat.and_div_two, Nat.xor_div_two]
        have a1 : (A * 2^(s+1+1) + 2^(s+1) - 1) / 2 = A * 2^(s+1) + 2^s - 1 := by
          rw [e1]; rw [e2]; omega
        have a2 : (A * 2^(s+1+1) + 2^(s+1)) / 2 = A * 2^(s+1) + 2^s := by
          rw [e1]; rw [e2]; omega
        rw [a1, a2]
      have m : X % 2 = 0 := by
        rw [← hX]
        have : ¬ (((A * 2^(s+1+1) + 2^(s+1) - 1) ^^^ (A * 2^(s+1+1) + 2^(s+1))) &&& (A * 2^(s+1+1) + 2^(s+1))) % 2 = 1 := by
          rw [Nat.and_mod_two_eq_one]
          intro ⟨_, h⟩
          rw [e1] at h; rw [e2] at h; omega
        omega
      omega
    rw [h1, ih]; ring

theorem two_pow_sub_one_shiftRight (s j : Nat) (h : j ≤ s) : (2^s - 1) >>> j = 2^(s - j) - 1 := by
  rw [Nat.shiftRight_eq_div_pow]
  have e : 2^s = 2^j * 2^(s-j) := by rw [← Nat.pow_add]; congr 1; omega
  have hj : 0 < 2^j := Nat.two_pow_pos j
  have hq : 0 < 2^(s-j) := Nat.two_pow_pos _
  rw [e]
  generalize 2^j = K at *
  generalize 2^(s-j) = Q at *
  obtain ⟨Q', rfl⟩ : ∃ Q', Q = Q' + 1 := ⟨Q - 1, by omega⟩
  have : K * (Q' + 1) - 1 = K * Q' + (K - 1) := by rw [Nat.mul_succ]; omega
  rw [this, Nat.mul_add_div hj, Nat.div_eq_of_lt (by omega)]; omega

/-! ## closed form and minimality of Gosper's step -/

/-- DESIGN A.4: on `x = (A·2^(r+1) + 2^r − 1)·2^t` the step gives `(A·2^(r+1) + 2^r)·2^t + 2^(r−1) − 1`;
no intermediate leaves the 64-bit range as long as `x + 2^t < 2^64` -/
theorem permute_closed (A r t : Nat) (hr : 1 ≤ r) (hb : (A * 2^(r+1) + 2^r) * 2^t < 2^64) :
    permute ((A * 2^(r+1) + 2^r - 1) * 2^t) = (A * 2^(r+1) + 2^r) * 2^t + (2^(r-1) - 1) := by
  have hR : 0 < 2^r := Nat.two_pow_pos r
  have hP : 0 < 2^t := Nat.two_pow_pos t
  obtain ⟨r', rfl⟩ : ∃ r', r = r' + 1 := ⟨r - 1, by omega⟩
  have hm : (A * 2^(r'+1+1) + 2^(r'+1) - 1) % 2 = 1 := by
    have e1 : A * 2^(r'+1+1) = 2 * (A * 2^(r'+1)) := by ring
    have e2 : 2^(r'+1) = 2 * 2^r' := by ring
    have := Nat.two_pow_pos r'
    rw [e1]; rw [e2]; omega
  have ht : t < 64 := by
    have h1 : 2^t ≤ (A * 2^(r'+1+1) + 2^(r'+1)) * 2^t := Nat.le_mul_of_pos_left _ (by omega)
    exact (Nat.pow_lt_pow_iff_right (by omega : 1 < 2)).mp (Nat.lt_of_le_of_lt h1 hb)
  have hB : (A * 2^(r'+1+1) + 2^(r'+1)) * 2^t = A * 2^(t + (r'+1) + 1) + 2^(t + (r'+1)) := by ring
  have hor := or_pred _ hm t
  have hm1 : A * 2^(r'+1+1) + 2^(r'+1) - 1 + 1 = A * 2^(r'+1+1) + 2^(r'+1) := by omega
  have hsum : (A * 2^(r'+1+1) + 2^(r'+1) - 1) * 2^t + 2^t = A * 2^(t + (r'+1) + 1) + 2^(t + (r'+1)) := by
    rw [← hB]; conv => rhs; rw [← hm1]
    ring
  rw [hsum] at hor
  rw [hB] at hb
  have htz := tzW_mul_two_pow _ hm t 64 ht
  generalize (A * 2^(r'+1+1) + 2^(r'+1) - 1) * 2^t = x at *
  have hS : 0 < 2^(t + (r'+1)) := Nat.two_pow_pos _
  have ha : x ||| (x - 1) = A * 2^(t + (r'+1) + 1) + 2^(t + (r'+1)) - 1 := by omega
  unfold permute
  simp only []
  rw [ha, htz]
  have hb1 : A * 2^(t + (r'+1) + 1) + 2^(t + (r'+1)) - 1 + 1 = A * 2^(t + (r'+1) + 1) + 2^(t + (r'+1)) := by omega
  rw [hb1, not64_and _ _ hb, xor_and_succ, two_pow_sub_one_shiftRight _ _ (by omega)]
  have e1 : t + (r'+1) - (1 + t) = r' := by omega
  have e2 : r' + 1 - 1 = r' := by omega
  rw [e1, e2]
  have hg : 2^r' - 1 < 2^(t + (r'+1)) := by
    have : 2^r' ≤ 2^(t + (r'+1)) := Nat.pow_le_pow_right (by omega) (by omega)
    have := Nat.two_pow_pos r'
    omega
  have e3 : A * 2^(t + (r'+1) + 1) + 2^(t + (r'+1)) = 2^(t + (r'+1)) * (2 * A + 1) := by ring
  rw [e3, ← Nat.two_pow_add_eq_or_of_lt hg, ← e3, ← hB]

/-- every positive word has the shape of `permute_closed` -/
theorem shape (x : Nat) (hx : 0 < x) :
    ∃ A r t, 1 ≤ r ∧ x = (A * 2^(r+1) + 2^r - 1) * 2^t := by
  obtain ⟨t, m, hm, rfl⟩ := pos_decomp x hx
  obtain ⟨r, A, hr, e⟩ := odd_decomp m hm
  exact ⟨A, r, t, hr, by rw [← e]; simp⟩

/-- the run of `r` ones at position `t` plus its lowest bit carries into bit `t + r` -/
theorem low_field (r t s : Nat) (hs : s = t + r) : (2^r - 1) * 2^t + 2^t = 2^s := by
  have e : 2^s = 2^r * 2^t := by rw [hs, Nat.add_comm, Nat.pow_add]
  have hR : 0 < 2^r := Nat.two_pow_pos r
  rw [e]
  generalize 2^r = K at *
  obtain ⟨K', rfl⟩ : ∃ K', K = K' + 1 := ⟨K - 1, by omega⟩
  simp [Nat.succ_mul]

/-- popcount of `A·2^(s+1) + (2^r − 1)·2^t`, `s = t + r` -/
theorem pop_shape_x (A r t wA s : Nat) (hs : s = t + r) :
    popW (wA + (s + 1)) (A * 2^(s+1) + (2^r - 1) * 2^t) = popW wA A + r := by
  have hP : 0 < 2^t := Nat.two_pow_pos t
  have hR : 0 < 2^r := Nat.two_pow_pos r
  have hLS := low_field r t s hs
  have hS2 : 2^(s+1) = 2 * 2^s := by ring
  rw [popW_mul_add _ _ _ _ (by omega)]
  congr 1
  have h0 : (2^r - 1) * 2^t = (2^r - 1) * 2^t + 0 := by omega
  have hw : s + 1 = (r + 1) + t := by omega
  rw [h0, hw, popW_mul_add _ _ _ _ hP, popW_zero]
  have := popW_eq_of_lt (w := r) (w' := r+1) (n := 2^r - 1) (by omega) (by omega)
  rw [this, popW_two_pow_sub_one]; omega

/-- popcount of `A·2^(s+1) + 2^s + (2^q − 1)`, `q ≤ s` -/
theorem pop_shape_p (A q wA s : Nat) (hq : q ≤ s) :
    popW (wA + (s + 1)) (A * 2^(s+1) + 2^s + (2^q - 1)) = popW wA A + (q + 1) := by
  have hQ : 0 < 2^q := Nat.two_pow_pos q
  have hQS : 2^q ≤ 2^s := Nat.pow_le_pow_right (by omega) hq
  have hS2 : 2^(s+1) = 2 * 2^s := by ring
  have e : A * 2^(s+1) + 2^s + (2^q - 1) = A * 2^(s+1) + (1 * 2^s + (2^q - 1)) := by omega
  rw [e, popW_mul_add _ _ _ _ (by omega)]
  congr 1
  have hw : s + 1 = 1 + s := by omega
  rw [hw, popW_mul_add _ _ _ _ (by omega)]
  have := popW_eq_of_lt (w := q) (w' := s) (n := 2^q - 1) (by omega) hq
  rw [this, popW_two_pow_sub_one]
  simp [popW]; omega

/-- nothing with the popcount of `x = A·2^(s+1) + (2^r − 1)·2^t` lies strictly between `x` and
`A·2^(s+1) + 2^s + 2^(r−1) − 1` -/
theorem no_pattern_between (A r' t wA s y : Nat) (hs : s = t + (r'+1))
    (hxy : A * 2^(s+1) + (2^(r'+1) - 1) * 2^t < y)
    (hyp : y < A * 2^(s+1) + 2^s + (2^r' - 1))
    (hpy : popW (wA + (s+1)) y = popW wA A + (r' + 1)) : False := by
  have hP : 0 < 2^t := Nat.two_pow_pos t
  have hH : 0 < 2^r' := Nat.two_pow_pos r'
  have hS : 0 < 2^s := Nat.two_pow_pos s
  have hS2 : 2^(s+1) = 2 * 2^s := by ring
  have hHS : 2 * 2^r' ≤ 2^s := by
    have : 2 * 2^r' = 2^(r'+1) := by ring
    rw [this]; exact Nat.pow_le_pow_right (by omega) (by omega)
  have hLS := low_field (r'+1) t s hs
  have hdiv : y / 2^(s+1) = A := by
    apply Nat.div_eq_of_lt_le
    · omega
    · rw [Nat.succ_mul]; omega
  have hy : y = A * 2^(s+1) + y % 2^(s+1) := by
    conv => lhs; rw [← Nat.div_add_mod y (2^(s+1)), hdiv, Nat.mul_comm]
  have hM : y % 2^(s+1) < 2^(s+1) := Nat.mod_lt _ (Nat.two_pow_pos _)
  generalize y % 2^(s+1) = M at hy hM
  subst hy
  rw [popW_mul_add _ _ _ _ hM] at hpy
  have hpM : popW (s+1) M = r' + 1 := by omega
  by_cases hlow : M < 2^s
  · have h1 := popW_eq_of_lt (w := s) (w' := s+1) hlow (by omega)
    have h2 := popW_upper s M hlow
    rw [← h1, hpM] at h2
    have e : s - (r'+1) = t := by omega
    rw [e] at h2
    omega
  · obtain ⟨M', hM'⟩ : ∃ M', M = 1 * 2^s + M' := ⟨M - 2^s, by omega⟩
    have hM'lt : M' < 2^s := by omega
    have hw : s + 1 = 1 + s := by omega
    rw [hM', hw, popW_mul_add _ _ _ _ hM'lt] at hpM
    have h1 : popW s M' = r' := by simp [popW] at hpM; omega
    have h2 := popW_lower s M'
    rw [h1] at h2
    omega

/-- the result stays inside 64 bits for words below `2^63` -/
theorem permute_lt (x : Nat) (hlt : x < 2^63) : permute x < 2^64 := by
  unfold permute
  simp only []
  have ha : x ||| (x - 1) < 2^63 := Nat.or_lt_two_pow hlt (by omega)
  have h64 : (2:Nat)^64 = 2 * 2^63 := by norm_num
  apply Nat.or_lt_two_pow (by omega)
  rw [Nat.shiftRight_eq_div_pow]
  have h1 : not64 (x ||| (x - 1)) &&& ((x ||| (x - 1)) + 1) ≤ (x ||| (x - 1)) + 1 := Nat.and_le_right
  have h2 := Nat.div_le_self ((not64 (x ||| (x - 1)) &&& ((x ||| (x - 1)) + 1)) - 1) (2 ^ (1 + tzW 64 x))
  omega

/-- **Gosper's step is the successor among words of equal popcount** (64-bit words below `2^63`):
it is larger, stays inside 64 bits, keeps the popcount, and nothing of the same popcount lies
strictly between. -/
theorem gosper_step_least (x : Nat) (hx : 0 < x) (hlt : x < 2^63) :
    x < permute x ∧ permute x < 2^64 ∧ popW 64 (permute x) = popW 64 x ∧
    ∀ y, x < y → popW 64 y = popW 64 x → permute x ≤ y := by
  obtain ⟨A, r, t, hr, rfl⟩ := shape x hx
  obtain ⟨r', rfl⟩ : ∃ r', r = r' + 1 := ⟨r - 1, by omega⟩
  obtain ⟨s, hs⟩ : ∃ s, s = t + (r'+1) := ⟨_, rfl⟩
  have hB : (A * 2^(r'+1+1) + 2^(r'+1)) * 2^t = A * 2^(s + 1) + 2^s := by rw [hs]; ring
  have hP : 0 < 2^t := Nat.two_pow_pos t
  have hH : 0 < 2^r' := Nat.two_pow_pos r'
  have hS : 0 < 2^s := Nat.two_pow_pos _
  have hHS : 2 * 2^r' ≤ 2^s := by
    have : 2 * 2^r' = 2^(r'+1) := by ring
    rw [this]; exact Nat.pow_le_pow_right (by omega) (by omega)
  have hLS := low_field (r'+1) t s hs
  have hm1 : A * 2^(r'+1+1) + 2^(r'+1) - 1 + 1 = A * 2^(r'+1+1) + 2^(r'+1) := by
    have := Nat.two_pow_pos (r'+1); omega
  have hxP : (A * 2^(r'+1+1) + 2^(r'+1) - 1) * 2^t + 2^t = A * 2^(s + 1) + 2^s := by
    rw [← hB]; conv => rhs; rw [← hm1]
    ring
  have hL : (A * 2^(r'+1+1) + 2^(r'+1) - 1) * 2^t = A * 2^(s + 1) + (2^(r'+1) - 1) * 2^t := by omega
  have h64 : (2:Nat)^64 = 2 * 2^63 := by norm_num
  have hbound : A * 2^(s + 1) + 2^s < 2^64 := by
    have : 2^t ≤ (2^(r'+1) - 1) * 2^t := Nat.le_mul_of_pos_left _ (by have := Nat.two_pow_pos r'; rw [Nat.pow_succ]; omega)
    omega
  have hs64 : s + 1 ≤ 64 := by
    have h1 : 2^s < 2^64 := by omega
    have := (Nat.pow_lt_pow_iff_right (by omega : 1 < 2)).mp h1
    omega
  have hclosed := permute_closed A (r'+1) t hr (by rw [hB]; exact hbound)
  have e2 : r' + 1 - 1 = r' := by omega
  rw [hB, e2] at hclosed
  obtain ⟨wA, hwA⟩ : ∃ wA, wA + (s + 1) = 64 := ⟨64 - (s + 1), by omega⟩
  have hpx := pop_shape_x A (r'+1) t wA s hs
  have hpp := pop_shape_p A r' wA s (by omega)
  rw [hwA] at hpx hpp
  rw [hclosed, hL]
  refine ⟨by omega, by rw [← hclosed]; exact permute_lt _ hlt, by rw [hpp, hpx], ?_⟩
  intro y hxy hpy
  apply Nat.le_of_not_lt
  intro hyp
  rw [hpx, ← hwA] at hpy
  exact no_pattern_between A r' t wA s y hs hxy hyp hpy

/-- **No `u64` overflow or underflow inside `permute`** for a non-zero word below `2^63`:
`x - 1` does not underflow, `a + 1` fits, `d - 1` does not underflow (`d` is a single bit), and the
shift amount is below 64. -/
theorem permute_no_overflow (x : Nat) (hx : 0 < x) (hlt : x < 2^63) :
    1 ≤ x ∧ (x ||| (x - 1)) + 1 < 2^64 ∧
    1 ≤ (not64 (x ||| (x - 1)) &&& ((x ||| (x - 1)) + 1)) ∧ 1 + tzW 64 x < 64 := by
  have ha : x ||| (x - 1) < 2^63 := Nat.or_lt_two_pow hlt (by omega)
  have h64 : (2:Nat)^64 = 2 * 2^63 := by norm_num
  refine ⟨hx, by omega, ?_, ?_⟩
  · obtain ⟨A, r, t, hr, rfl⟩ := shape x hx
    have hm : (A * 2^(r+1) + 2^r - 1) % 2 = 1 := by
      obtain ⟨r', rfl⟩ : ∃ r', r = r' + 1 := ⟨r - 1, by omega⟩
      have e1 : A * 2^(r'+1+1) = 2 * (A * 2^(r'+1)) := by ring
      have e2 : 2^(r'+1) = 2 * 2^r' := by ring
      have := Nat.two_pow_pos r'
      rw [e1]; rw [e2]; omega
    have hor := or_pred _ hm t
    have hR := Nat.two_pow_pos r
    have hm1 : A * 2^(r+1) + 2^r - 1 + 1 = A * 2^(r+1) + 2^r := by omega
    have hB : (A * 2^(r+1) + 2^r - 1) * 2^t + 2^t = A * 2^(t + r + 1) + 2^(t + r) := by
      have : (A * 2^(r+1) + 2^r) * 2^t = A * 2^(t + r + 1) + 2^(t + r) := by ring
      rw [← this]; conv => rhs; rw [← hm1]
      ring
    rw [hB] at hor
    have hS := Nat.two_pow_pos (t + r)
    have hae : (A * 2^(r+1) + 2^r - 1) * 2^t ||| ((A * 2^(r+1) + 2^r - 1) * 2^t - 1)
        = A * 2^(t + r + 1) + 2^(t + r) - 1 := by omega
    have hb1 : A * 2^(t + r + 1) + 2^(t + r) - 1 + 1 = A * 2^(t + r + 1) + 2^(t + r) := by omega
    rw [hae, hb1, not64_and _ _ (by omega), xor_and_succ]
    exact hS
  · obtain ⟨t, m, hm, rfl⟩ := pos_decomp x hx
    have ht : t < 63 := by
      have h1 : 2^t ≤ m * 2^t := Nat.le_mul_of_pos_left _ (by omega)
      exact (Nat.pow_lt_pow_iff_right (by omega : 1 < 2)).mp (Nat.lt_of_le_of_lt h1 hlt)
    rw [tzW_mul_two_pow m hm t 64 (by omega)]; omega

end RP.C06
