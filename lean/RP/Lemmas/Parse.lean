import RP.Model.Parse
import RP.Lemmas.Codec
/-! Helper lemmas for C16: on ASCII input the parsers do not depend on the Unicode tables
(`parseX U s = parseX asciiU s` under `U.AsciiOK`). -/
namespace RP.Parse
open RP.Codec RP.Gen

def AllAscii (s : List Char) : Prop := ∀ c ∈ s, isAscii c = true

theorem dropWhile_congr {p q : Char → Bool} : ∀ s : List Char, (∀ c ∈ s, p c = q c) → s.dropWhile p = s.dropWhile q
  | [], _ => rfl
  | c :: cs, h => by
    have hc := h c (by simp)
    simp only [List.dropWhile_cons, hc]
    split
    · exact dropWhile_congr cs (fun x hx => h x (by simp [hx]))
    · rfl

theorem mem_dropWhile {p : Char → Bool} {c : Char} : ∀ s : List Char, c ∈ s.dropWhile p → c ∈ s
  | [], h => by simp at h
  | d :: ds, h => by
    simp only [List.dropWhile_cons] at h
    split at h
    · exact List.mem_cons_of_mem _ (mem_dropWhile ds h)
    · exact h

theorem mem_trim {U : Unicode} {c : Char} {s : List Char} (h : c ∈ trim U s) : c ∈ s := by
  unfold trim at h
  rw [List.mem_reverse] at h
  have := mem_dropWhile _ h
  rw [List.mem_reverse] at this
  exact mem_dropWhile _ this

theorem trim_ascii {U : Unicode} (hU : U.AsciiOK) {s : List Char} (hs : AllAscii s) : trim U s = trim asciiU s := by
  unfold trim
  have h1 : s.dropWhile U.isWs = s.dropWhile asciiU.isWs := dropWhile_congr s (fun c hc => hU.ws c (hs c hc))
  rw [h1]
  congr 1
  apply dropWhile_congr
  intro c hc
  rw [List.mem_reverse] at hc
  exact hU.ws c (hs c (mem_dropWhile _ hc))

theorem allAscii_trim {U : Unicode} {s : List Char} (hs : AllAscii s) : AllAscii (trim U s) :=
  fun c hc => hs c (mem_trim hc)

theorem parseRank_ascii {U : Unicode} (hU : U.AsciiOK) {s : List Char} (hs : AllAscii s) : parseRank U s = parseRank asciiU s := by
  unfold parseRank
  rw [hU.upper _ (allAscii_trim hs), trim_ascii hU hs]; rfl
theorem parseSuit_ascii {U : Unicode} (hU : U.AsciiOK) {s : List Char} (hs : AllAscii s) : parseSuit U s = parseSuit asciiU s := by
  unfold parseSuit
  rw [hU.lower _ (allAscii_trim hs), trim_ascii hU hs]; rfl

theorem parseCard_ascii {U : Unicode} (hU : U.AsciiOK) {s : List Char} (hs : AllAscii s) : parseCard U s = parseCard asciiU s := by
  unfold parseCard
  rw [trim_ascii hU hs]
  have ht : AllAscii (trim asciiU s) := allAscii_trim hs
  split
  · rename_i r su heq
    rw [heq] at ht
    have hr : AllAscii [r] := fun c hc => ht c (by simp at hc; simp [hc])
    have hsu : AllAscii [su] := fun c hc => ht c (by simp at hc; simp [hc])
    rw [parseRank_ascii hU hr, parseSuit_ascii hU hsu]
  · rfl

theorem mem_chunks2 {c : Char} : ∀ (t : List Char) (ch : List Char), ch ∈ chunks2 t → c ∈ ch → c ∈ t
  | [], ch, h, _ => by simp [chunks2] at h
  | [a], ch, h, hc => by simp [chunks2] at h; subst h; exact hc
  | a :: b :: rest, ch, h, hc => by
    simp only [chunks2, List.mem_cons] at h
    rcases h with rfl | h
    · simp at hc; rcases hc with rfl | rfl <;> simp
    · have := mem_chunks2 rest ch h hc
      simp [this]

theorem collectCards_ascii {U : Unicode} (hU : U.AsciiOK) : ∀ l : List (List Char), (∀ ch ∈ l, AllAscii ch) →
    collectCards U l = collectCards asciiU l
  | [], _ => rfl
  | ch :: rest, h => by
    unfold collectCards
    rw [parseCard_ascii hU (h ch (by simp)), collectCards_ascii hU rest (fun x hx => h x (by simp [hx]))]

theorem tokensCards_ascii {U : Unicode} (hU : U.AsciiOK) : ∀ l : List (List Char), (∀ t ∈ l, AllAscii t) →
    tokensCards U l = tokensCards asciiU l
  | [], _ => rfl
  | t :: ts, h => by
    unfold tokensCards
    have ht := h t (by simp)
    rw [collectCards_ascii hU (chunks2 t) (fun ch hch c hc => ht c (mem_chunks2 t ch hch hc)),
      tokensCards_ascii hU ts (fun x hx => h x (by simp [hx]))]

theorem splitWsAux_ascii {U : Unicode} (hU : U.AsciiOK) : ∀ (s cur : List Char), AllAscii s →
    splitWsAux U s cur = splitWsAux asciiU s cur
  | [], _, _ => rfl
  | c :: cs, cur, h => by
    have hc : U.isWs c = asciiU.isWs c := hU.ws c (h c (by simp))
    have hcs : AllAscii cs := fun x hx => h x (by simp [hx])
    simp only [splitWsAux, hc]
    rw [splitWsAux_ascii hU cs [] hcs, splitWsAux_ascii hU cs (c :: cur) hcs]

theorem mem_splitWsAux {U : Unicode} {x : Char} : ∀ (s cur t : List Char), t ∈ splitWsAux U s cur → x ∈ t → x ∈ s ∨ x ∈ cur
  | [], cur, t, h, hx => by
    simp only [splitWsAux] at h
    split at h
    · simp at h
    · simp at h; subst h; right; simpa using hx
  | c :: cs, cur, t, h, hx => by
    simp only [splitWsAux] at h
    split at h
    · split at h
      · rcases mem_splitWsAux cs [] t h hx with h' | h'
        · left; simp [h']
        · simp at h'
      · rcases List.mem_cons.mp h with rfl | h
        · right; simpa using hx
        · rcases mem_splitWsAux cs [] t h hx with h' | h'
          · left; simp [h']
          · simp at h'
    · rcases mem_splitWsAux cs (c :: cur) t h hx with h' | h'
      · left; simp [h']
      · rcases List.mem_cons.mp h' with rfl | h''
        · left; simp
        · right; exact h''

theorem allAscii_splitWs {U : Unicode} {s : List Char} (hs : AllAscii s) : ∀ t ∈ splitWs U s, AllAscii t := by
  intro t ht c hc
  rcases mem_splitWsAux s [] t ht hc with h | h
  · exact hs c h
  · simp at h

theorem parseHand_ascii {U : Unicode} (hU : U.AsciiOK) {s : List Char} (hs : AllAscii s) : parseHand U s = parseHand asciiU s := by
  unfold parseHand splitWs
  rw [splitWsAux_ascii hU s [] hs]
  have := tokensCards_ascii hU (splitWsAux asciiU s []) (allAscii_splitWs (U := asciiU) hs)
  rw [this]
theorem parseHole_ascii {U : Unicode} (hU : U.AsciiOK) {s : List Char} (hs : AllAscii s) : parseHole U s = parseHole asciiU s := by
  unfold parseHole; rw [parseHand_ascii hU hs]

theorem mem_splitOnce {sep : List Char} {x : Char} : ∀ (s a b : List Char), splitOnce sep s = some (a, b) → (x ∈ a ∨ x ∈ b) → x ∈ s
  | [], a, b, h, hx => by
    simp only [splitOnce] at h
    split at h
    · simp at h; rcases h with ⟨rfl, rfl⟩; simp at hx
    · simp at h
  | c :: cs, a, b, h, hx => by
    simp only [splitOnce] at h
    split at h
    · simp at h; rcases h with ⟨rfl, rfl⟩
      simp at hx
      exact List.mem_of_mem_drop hx
    · cases h' : splitOnce sep cs with
      | none => rw [h'] at h; simp at h
      | some p =>
        rw [h'] at h; simp at h
        rcases h with ⟨rfl, rfl⟩
        rcases hx with hx | hx
        · rcases List.mem_cons.mp hx with rfl | hx
          · simp
          · exact List.mem_cons_of_mem _ (mem_splitOnce cs p.1 p.2 (by rw [h']) (Or.inl hx))
        · exact List.mem_cons_of_mem _ (mem_splitOnce cs p.1 p.2 (by rw [h']) (Or.inr hx))

theorem parseObs_ascii {U : Unicode} (hU : U.AsciiOK) {s : List Char} (hs : AllAscii s) : parseObs U s = parseObs asciiU s := by
  unfold parseObs
  rw [trim_ascii hU hs]
  have ht : AllAscii (trim asciiU s) := allAscii_trim hs
  cases h : splitOnce C16.obsSeparator (trim asciiU s) with
  | none =>
    simp only [h, Option.getD_none]
    rw [parseHand_ascii hU ht, parseHand_ascii hU (s := []) (fun c hc => by simp at hc)]
  | some p =>
    obtain ⟨a, b⟩ := p
    simp only [h, Option.getD_some]
    have ha : AllAscii a := fun c hc => ht c (mem_splitOnce _ a b h (Or.inl hc))
    have hb : AllAscii b := fun c hc => ht c (mem_splitOnce _ a b h (Or.inr hc))
    rw [parseHand_ascii hU ha, parseHand_ascii hU hb]

theorem parseStreet_ascii {U : Unicode} (hU : U.AsciiOK) {s : List Char} (hs : AllAscii s) : parseStreet U s = parseStreet asciiU s := by
  unfold parseStreet; rw [hU.upper s hs]; rfl

theorem mem_splitOnAux {sep : List Char} {x : Char} : ∀ (s cur : List Char) (k : Nat) (piece : List Char),
    piece ∈ splitOnAux sep s cur k → x ∈ piece → x ∈ s ∨ x ∈ cur
  | [], cur, k, piece, h, hx => by
    simp only [splitOnAux, List.mem_singleton] at h; subst h; right; simpa using hx
  | c :: cs, cur, k+1, piece, h, hx => by
    simp only [splitOnAux] at h
    rcases mem_splitOnAux cs cur k piece h hx with h' | h'
    · left; simp [h']
    · right; exact h'
  | c :: cs, cur, 0, piece, h, hx => by
    simp only [splitOnAux] at h
    split at h
    · rcases List.mem_cons.mp h with rfl | h
      · right; simpa using hx
      · rcases mem_splitOnAux cs [] _ piece h hx with h' | h'
        · left; simp [h']
        · simp at h'
    · rcases mem_splitOnAux cs (c :: cur) 0 piece h hx with h' | h'
      · left; simp [h']
      · rcases List.mem_cons.mp h' with rfl | h''
        · left; simp
        · right; exact h''

theorem parseAbs_ascii {U : Unicode} (hU : U.AsciiOK) {s : List Char} (hs : AllAscii s) : parseAbs U s = parseAbs asciiU s := by
  unfold parseAbs
  rw [trim_ascii hU hs]
  have ht : AllAscii (trim asciiU s) := allAscii_trim hs
  simp only
  split
  · rename_i a b ha hb
    have hmem : a ∈ splitOn C16.absDelim (trim asciiU s) := List.mem_of_getElem? ha
    have haa : AllAscii a := by
      intro c hc
      rcases mem_splitOnAux _ _ _ a hmem hc with h | h
      · exact ht c h
      · simp at h
    rw [parseStreet_ascii hU haa]
  · rfl

theorem mem_joinSp {x : Char} : ∀ l : List (List Char), x ∈ joinSp l → x = ' ' ∨ ∃ t ∈ l, x ∈ t
  | [], h => by simp [joinSp] at h
  | [a], h => by simp only [joinSp] at h; right; exact ⟨a, by simp, h⟩
  | a :: b :: rest, h => by
    simp only [joinSp, List.mem_append, List.mem_cons] at h
    rcases h with h | h | h
    · right; exact ⟨a, by simp, h⟩
    · left; exact h
    · rcases mem_joinSp (b :: rest) h with h' | ⟨t, ht, hx⟩
      · left; exact h'
      · right; exact ⟨t, List.mem_cons_of_mem _ ht, hx⟩

theorem parseAction_ascii {U : Unicode} (hU : U.AsciiOK) {s : List Char} (hs : AllAscii s) : parseAction U s = parseAction asciiU s := by
  unfold parseAction
  have hsp : splitWs U s = splitWs asciiU s := by unfold splitWs; exact splitWsAux_ascii hU s [] hs
  rw [hsp]
  have htok := allAscii_splitWs (U := asciiU) hs
  simp only
  split
  · rfl
  · rename_i first rest hparts
    rw [hparts] at htok
    have hf : U.upper first = asciiU.upper first := hU.upper first (htok first (by simp))
    rw [hf]
    have hj : AllAscii (joinSp rest) := by
      intro c hc
      rcases mem_joinSp rest hc with rfl | ⟨t, ht, hx⟩
      · decide
      · exact htok t (by simp [ht]) c hx
    have hv : vecSliceFrom (first :: rest) 1 = some rest := by simp [vecSliceFrom]
    simp only [hparts, hv, parseHand_ascii hU hj]

/-! ### numbers -/
def valLEr (radix : Nat) : List Nat → Nat
  | [] => 0
  | d :: ds => d + radix * valLEr radix ds

theorem digitVal_digitChar16 : ∀ d, d < 16 → digitVal 16 (digitChar d) = some d := by decide
theorem digitVal_digitChar10 : ∀ d, d < 10 → digitVal 10 (digitChar d) = some d := by decide
theorem digitChar_not_sign : ∀ d, d < 16 → digitChar d ≠ '+' ∧ digitChar d ≠ '-' := by decide
theorem digitChar_ascii : ∀ d, d < 16 → isAscii (digitChar d) = true ∧ asciiWs (digitChar d) = false := by decide

theorem parseDigits_append (radix : Nat) : ∀ (l1 l2 : List Char) (acc : Nat),
    parseDigits radix (l1 ++ l2) acc = (parseDigits radix l1 acc).bind (fun a => parseDigits radix l2 a)
  | [], l2, acc => by simp [parseDigits]
  | c :: cs, l2, acc => by
    simp only [List.cons_append, parseDigits]
    cases digitVal radix c with
    | none => simp
    | some d => exact parseDigits_append radix cs l2 _

/-- reading the printed digits (most significant first) of a little-endian digit list gives its value -/
theorem parseDigits_reverse (radix : Nat) (hd : ∀ d, d < radix → digitVal radix (digitChar d) = some d) :
    ∀ ds : List Nat, (∀ d ∈ ds, d < radix) → parseDigits radix ((ds.reverse).map digitChar) 0 = some (valLEr radix ds)
  | [], _ => by simp [parseDigits, valLEr]
  | d :: ds, h => by
    have ih := parseDigits_reverse radix hd ds (fun x hx => h x (by simp [hx]))
    rw [List.reverse_cons, List.map_append, parseDigits_append, ih]
    simp only [Option.bind_some, List.map_cons, List.map_nil, parseDigits, hd d (h d (by simp)), valLEr]
    congr 1; rw [Nat.mul_comm]; omega

theorem digitsLE_spec (radix : Nat) (hr : 2 ≤ radix) : ∀ (f n : Nat), n < f →
    valLEr radix (digitsLE radix f n) = n ∧ (∀ d ∈ digitsLE radix f n, d < radix) ∧ digitsLE radix f n ≠ []
  | 0, n, h => by omega
  | f+1, n, h => by
    simp only [digitsLE]
    split
    · rename_i hlt
      simp [valLEr, hlt]
    · rename_i hge
      have hdiv : n / radix < f := by
        have : n / radix < n := Nat.div_lt_self (by omega) (by omega)
        omega
      obtain ⟨h1, h2, _⟩ := digitsLE_spec radix hr f (n / radix) hdiv
      refine ⟨?_, ?_, by simp⟩
      · simp only [valLEr, h1]
        have := Nat.div_add_mod n radix; omega
      · intro d hd
        rcases List.mem_cons.mp hd with rfl | hd
        · exact Nat.mod_lt _ (by omega)
        · exact h2 d hd

/-- a digit string: little-endian digits `ds` (non-empty, all below the radix) printed most significant first -/
def printDigits (ds : List Nat) : List Char := (ds.reverse).map digitChar

theorem printNat_eq (radix n : Nat) : printNat radix n = printDigits (digitsLE radix (n+1) n) := rfl

theorem printDigits_cons (radix : Nat) (ds : List Nat) (hne : ds ≠ []) (hd : ∀ d ∈ ds, d < radix) :
    ∃ x rest, x < radix ∧ printDigits ds = digitChar x :: rest := by
  unfold printDigits
  have : ds.reverse ≠ [] := by simpa using hne
  cases h : ds.reverse with
  | nil => exact absurd h this
  | cons x xs =>
    refine ⟨x, xs.map digitChar, hd x ?_, by simp⟩
    have : x ∈ ds.reverse := by rw [h]; simp
    simpa using this

/-- `from_str_radix` of an unsigned digit string (no sign) is its value, when it fits -/
theorem parseInt_printDigits (radix bits : Nat) (signed : Bool) (hr : radix = 10 ∨ radix = 16) (ds : List Nat) (hne : ds ≠ [])
    (hd : ∀ d ∈ ds, d < radix) (hfit : valLEr radix ds ≤ (if signed then 2^(bits-1) - 1 else 2^bits - 1)) :
    parseInt radix bits signed (printDigits ds) = some (valLEr radix ds : Int) := by
  have hdv : ∀ d, d < radix → digitVal radix (digitChar d) = some d := by
    rcases hr with rfl | rfl
    · exact fun d h => digitVal_digitChar10 d h
    · exact digitVal_digitChar16
  have hr16 : radix ≤ 16 := by rcases hr with rfl | rfl <;> omega
  obtain ⟨x, rest, hx, he⟩ := printDigits_cons radix ds hne hd
  have hp := parseDigits_reverse radix hdv ds hd
  have hs := digitChar_not_sign x (by omega)
  unfold parseInt
  rw [he]
  simp only [hs.1, hs.2, if_false]
  rw [← he]
  change (if (printDigits ds).isEmpty = true then none else
    match parseDigits radix (printDigits ds) 0 with
    | some v => if v ≤ (if signed = true then 2 ^ (bits - 1) - 1 else 2 ^ bits - 1) then some (v : Int) else none
    | none => none) = _
  have hne' : (printDigits ds).isEmpty = false := by rw [he]; rfl
  rw [hne']
  unfold printDigits
  rw [hp]
  simp [hfit]

theorem parseInt_printNat (radix bits : Nat) (signed : Bool) (hr : radix = 10 ∨ radix = 16) (n : Nat)
    (hfit : n ≤ (if signed then 2^(bits-1) - 1 else 2^bits - 1)) :
    parseInt radix bits signed (printNat radix n) = some (n : Int) := by
  have hr2 : 2 ≤ radix := by rcases hr with rfl | rfl <;> omega
  obtain ⟨h1, h2, h3⟩ := digitsLE_spec radix hr2 (n+1) n (by omega)
  rw [printNat_eq]
  have := parseInt_printDigits radix bits signed hr _ h3 h2 (by rw [h1]; exact hfit)
  rw [this, h1]

/-! ### hands -/
def NoWs (s : List Char) : Prop := ∀ c ∈ s, asciiWs c = false

theorem splitWsAux_tok : ∀ (tok rest cur : List Char), NoWs tok →
    splitWsAux asciiU (tok ++ rest) cur = splitWsAux asciiU rest (tok.reverse ++ cur)
  | [], rest, cur, _ => by simp
  | c :: cs, rest, cur, h => by
    have hc : asciiU.isWs c = false := h c (by simp)
    simp only [List.cons_append, splitWsAux, hc]
    rw [splitWsAux_tok cs rest (c :: cur) (fun x hx => h x (by simp [hx]))]
    simp

theorem splitWs_single (tok : List Char) (hne : tok ≠ []) (h : NoWs tok) : splitWs asciiU tok = [tok] := by
  unfold splitWs
  have := splitWsAux_tok tok [] [] h
  rw [List.append_nil] at this
  rw [this]
  simp [splitWsAux, hne]

theorem card_print_len : ∀ c, c < 52 → (printCard c).length = 2 := by decide
theorem card_print_chars : ∀ c, c < 52 → ∀ ch ∈ printCard c, asciiWs ch = false ∧ isAscii ch = true ∧ ch ≠ '~' := by decide
theorem card_rt_ascii' : ∀ c, c < 52 → parseCard asciiU (printCard c) = .ok c := by decide

theorem chunks2_flatMap : ∀ cs : List Nat, (∀ c ∈ cs, c < 52) → chunks2 (cs.flatMap printCard) = cs.map printCard
  | [], _ => rfl
  | c :: cs, h => by
    have hl := card_print_len c (h c (by simp))
    have ih := chunks2_flatMap cs (fun x hx => h x (by simp [hx]))
    simp only [List.flatMap_cons, List.map_cons]
    match hp : printCard c, hl with
    | [a, b], _ => simp [chunks2, ih]

theorem collectCards_map : ∀ cs : List Nat, (∀ c ∈ cs, c < 52) → collectCards asciiU (cs.map printCard) = .ok cs
  | [], _ => rfl
  | c :: cs, h => by
    simp only [List.map_cons, collectCards, card_rt_ascii' c (h c (by simp)),
      collectCards_map cs (fun x hx => h x (by simp [hx]))]

theorem addAll_foldl : ∀ (cs : List Nat) (acc r : Nat), addAll cs acc = some r →
    cs.foldl (fun a c => a ||| (1 <<< c)) acc = r
  | [], acc, r, h => by simp only [addAll, Option.some.injEq] at h; subst h; rfl
  | c :: cs, acc, r, h => by
    unfold addAll at h
    by_cases hc : c < 64
    · simp only [handOfCard, hc, if_true] at h
      by_cases hd : acc &&& 1 <<< c = 0
      · simp only [handAdd, hd, if_true] at h
        simp only [List.foldl_cons]; exact addAll_foldl cs _ r h
      · simp [handAdd, hd] at h
    · simp [handOfCard, hc] at h

theorem handCards_lt52 (h : Nat) (hh : h < 2^52) : ∀ c ∈ handCards h, c < 52 := by
  intro c hc
  have := (mem_handCards h c).mp hc
  by_cases hlt : c < 52
  · exact hlt
  · have : h.testBit c = false := Nat.testBit_lt_two_pow (Nat.lt_of_lt_of_le hh (Nat.pow_le_pow_right (by omega) (by omega)))
    simp_all

theorem handOfCards_handCards (h : Nat) (hh : h < 2^52) : handOfCards (handCards h) = h := by
  unfold handOfCards
  apply addAll_foldl
  exact addAll_perm_handCards h (Nat.lt_of_lt_of_le hh (by decide)) _ (nodup_handCards h) (fun _ => Iff.rfl)

theorem printHand_chars (h : Nat) (hh : h < 2^52) : ∀ ch ∈ printHand h, asciiWs ch = false ∧ isAscii ch = true ∧ ch ≠ '~' := by
  intro ch hch
  unfold printHand at hch
  rw [List.mem_flatMap] at hch
  obtain ⟨c, hc, hm⟩ := hch
  exact card_print_chars c (handCards_lt52 h hh c hc) ch hm

theorem printHand_nil_iff (h : Nat) (hh : h < 2^52) : printHand h = [] ↔ handCards h = [] := by
  unfold printHand
  constructor
  · intro e
    cases hc : handCards h with
    | nil => rfl
    | cons c cs =>
      rw [hc] at e
      have hl := card_print_len c (handCards_lt52 h hh c (by rw [hc]; simp))
      simp only [List.flatMap_cons, List.append_eq_nil_iff] at e
      rw [e.1] at hl; simp at hl
  · intro e; rw [e]; rfl

/-- the parse of a hand only looks at the token list; the printed hand as its single token (or no token at all) gives the hand -/
theorem parseHand_of_split (h : Nat) (hh : h < 2^52) (s : List Char)
    (hs : splitWs asciiU s = if handCards h = [] then [] else [printHand h]) : parseHand asciiU s = .ok h := by
  unfold parseHand
  rw [hs]
  have hv := handOfCards_handCards h hh
  by_cases he : handCards h = []
  · rw [if_pos he]
    simp only [tokensCards]
    rw [he] at hv; rw [← hv]
  · rw [if_neg he]
    have h52 := handCards_lt52 h hh
    simp only [tokensCards]
    have : chunks2 (printHand h) = (handCards h).map printCard := chunks2_flatMap _ h52
    rw [this, collectCards_map _ h52]
    simp [hv]

theorem parseHand_print_ascii (h : Nat) (hh : h < 2^52) : parseHand asciiU (printHand h) = .ok h := by
  apply parseHand_of_split h hh
  by_cases he : handCards h = []
  · rw [if_pos he, (printHand_nil_iff h hh).mpr he]; rfl
  · rw [if_neg he]
    exact splitWs_single _ (fun e => he ((printHand_nil_iff h hh).mp e)) (fun c hc => (printHand_chars h hh c hc).1)

/-! ### white space around tokens, trimming, the observation separator -/
def AllWs (s : List Char) : Prop := ∀ c ∈ s, asciiWs c = true

theorem splitWsAux_allws : ∀ (post cur : List Char), AllWs post →
    splitWsAux asciiU post cur = if cur.isEmpty then [] else [cur.reverse]
  | [], cur, _ => by simp [splitWsAux]
  | c :: cs, cur, h => by
    have hc : asciiU.isWs c = true := h c (by simp)
    have ih := splitWsAux_allws cs [] (fun x hx => h x (by simp [hx]))
    simp only [splitWsAux, hc, if_true, ih]
    simp

/-- one token with white space before and after it -/
theorem splitWs_pad : ∀ (pre tok post : List Char), AllWs pre → NoWs tok → AllWs post →
    splitWs asciiU (pre ++ (tok ++ post)) = if tok.isEmpty then [] else [tok]
  | [], tok, post, _, ht, hp => by
    unfold splitWs
    rw [List.nil_append, splitWsAux_tok tok post [] ht, splitWsAux_allws post _ hp]
    simp
  | c :: cs, tok, post, hpre, ht, hp => by
    have hc : asciiU.isWs c = true := hpre c (by simp)
    have ih := splitWs_pad cs tok post (fun x hx => hpre x (by simp [hx])) ht hp
    unfold splitWs at ih ⊢
    simp only [List.cons_append, splitWsAux, hc, if_true]
    simpa using ih

theorem parseHand_pad (h : Nat) (hh : h < 2^52) (pre post : List Char) (hpre : AllWs pre) (hpost : AllWs post) :
    parseHand asciiU (pre ++ (printHand h ++ post)) = .ok h := by
  apply parseHand_of_split h hh
  rw [splitWs_pad pre _ post hpre (fun c hc => (printHand_chars h hh c hc).1) hpost]
  by_cases he : handCards h = []
  · rw [if_pos he, (printHand_nil_iff h hh).mpr he]; rfl
  · rw [if_neg he]
    have : printHand h ≠ [] := fun e => he ((printHand_nil_iff h hh).mp e)
    cases hp : printHand h with
    | nil => exact absurd hp this
    | cons a b => rfl

theorem dropWhile_allws_append {p : Char → Bool} : ∀ (l1 l2 : List Char), (∀ c ∈ l1, p c = true) →
    (∀ z r, l2 = z :: r → p z = false) → (l1 ++ l2).dropWhile p = l2
  | [], l2, _, h2 => by
    cases l2 with
    | nil => rfl
    | cons z r => simp [h2 z r rfl]
  | c :: cs, l2, h1, h2 => by
    simp only [List.cons_append, List.dropWhile_cons, h1 c (by simp), if_true]
    exact dropWhile_allws_append cs l2 (fun x hx => h1 x (by simp [hx])) h2

/-- trimming a string whose core starts and ends with non-blank characters removes exactly the blanks around it -/
theorem trim_core (core post : List Char) (a : Char) (as : List Char) (hcore : core = a :: as) (ha : asciiWs a = false)
    (z : Char) (zs : List Char) (hrev : core.reverse = z :: zs) (hz : asciiWs z = false) (hpost : AllWs post) :
    trim asciiU (core ++ post) = core := by
  unfold trim
  have h1 : (core ++ post).dropWhile asciiU.isWs = core ++ post := by
    rw [hcore]; simp [asciiU, ha]
  rw [h1, List.reverse_append]
  have h2 := dropWhile_allws_append (p := asciiU.isWs) post.reverse core.reverse (fun c hc => hpost c (by simpa using hc))
    (fun z' r' e => by rw [hrev] at e; simp at e; rw [← e.1]; exact hz)
  rw [h2]
  simp

theorem splitOnce_tilde : ∀ (pre rest : List Char), (∀ c ∈ pre, c ≠ '~') →
    splitOnce ['~'] (pre ++ '~' :: rest) = some (pre, rest)
  | [], rest, _ => by simp [splitOnce, List.isPrefixOf]
  | c :: cs, rest, h => by
    have hc : c ≠ '~' := h c (by simp)
    have ih := splitOnce_tilde cs rest (fun x hx => h x (by simp [hx]))
    simp only [List.cons_append, splitOnce, List.isPrefixOf, ih]
    have : ¬ '~' = c := fun e => hc e.symm
    simp [this]

/-! ### actions -/
theorem splitWs_two (tok1 : List Char) (w : Char) (ws tok2 : List Char) (h1 : NoWs tok1) (hne : tok1 ≠ [])
    (hw : asciiWs w = true) (hws : AllWs ws) (h2 : NoWs tok2) :
    splitWs asciiU (tok1 ++ w :: (ws ++ tok2)) = tok1 :: (if tok2.isEmpty then [] else [tok2]) := by
  unfold splitWs
  rw [splitWsAux_tok tok1 _ [] h1]
  have hw' : asciiU.isWs w = true := hw
  have hc : (tok1.reverse ++ []).isEmpty = false := by
    cases tok1 with
    | nil => exact absurd rfl hne
    | cons a b => simp
  simp only [splitWsAux, hw', if_true, hc]
  have := splitWs_pad ws tok2 [] hws h2 (by intro c hc; simp at hc)
  unfold splitWs at this
  rw [List.append_nil] at this
  simp [this]

theorem printNat10_spec (n : Nat) : parseDigits 10 (printNat 10 n) 0 = some n ∧ printNat 10 n ≠ [] ∧
    (∀ c ∈ printNat 10 n, asciiWs c = false ∧ isAscii c = true) := by
  obtain ⟨h1, h2, h3⟩ := digitsLE_spec 10 (by omega) (n+1) n (by omega)
  rw [printNat_eq]
  refine ⟨?_, ?_, ?_⟩
  · have := parseDigits_reverse 10 (fun d h => digitVal_digitChar10 d h) _ h2
    unfold printDigits; rw [this, h1]
  · unfold printDigits; simpa using h3
  · intro c hc
    unfold printDigits at hc
    simp only [List.mem_map, List.mem_reverse] at hc
    obtain ⟨d, hd, rfl⟩ := hc
    have := digitChar_ascii d (by have := h2 d hd; omega)
    exact ⟨this.2, this.1⟩

theorem parseInt_printInt (x : Int) (hx : -32768 ≤ x ∧ x ≤ 32767) : parseInt 10 CHIPS_BITS true (printInt x) = some x := by
  have hb : CHIPS_BITS = 16 := rfl
  rw [hb]
  unfold printInt
  split
  · rename_i hneg
    obtain ⟨h1, h2, _⟩ := printNat10_spec x.natAbs
    unfold parseInt
    have he : (printNat 10 x.natAbs).isEmpty = false := by
      cases h : printNat 10 x.natAbs with
      | nil => exact absurd h h2
      | cons a b => rfl
    simp only [show ('-' : Char) ≠ '+' by decide, if_false, if_true, he, h1]
    have hle : x.natAbs ≤ 2 ^ (16 - 1) := by omega
    have hval : (-(x.natAbs : Int)) = x := by omega
    simp only [hle, if_true, hval]
    simp
  · rename_i hpos
    have := parseInt_printNat 10 16 true (Or.inl rfl) x.natAbs (by simp; omega)
    rw [this]; congr 1; omega

theorem printInt_chars (x : Int) : printInt x ≠ [] ∧ ∀ c ∈ printInt x, asciiWs c = false ∧ isAscii c = true := by
  obtain ⟨_, h2, h3⟩ := printNat10_spec x.natAbs
  unfold printInt
  split
  · refine ⟨by simp, ?_⟩
    intro c hc
    rcases List.mem_cons.mp hc with rfl | hc
    · decide
    · exact h3 c hc
  · exact ⟨h2, h3⟩

/-! ### abstractions -/
theorem digitChar_hex : ∀ d, d < 16 → digitChar d ≠ ':' ∧ asciiWs (digitChar d) = false ∧ isAscii (digitChar d) = true := by decide

theorem splitOnAux_nocolon : ∀ (t cur : List Char), (∀ c ∈ t, c ≠ ':') → splitOnAux [':', ':'] t cur 0 = [cur.reverse ++ t]
  | [], cur, _ => by simp [splitOnAux]
  | c :: cs, cur, h => by
    have hc : c ≠ ':' := h c (by simp)
    have hc' : ¬ ':' = c := fun e => hc e.symm
    have ih := splitOnAux_nocolon cs (c :: cur) (fun x hx => h x (by simp [hx]))
    simp only [splitOnAux, List.isPrefixOf]
    simp [hc', ih]

theorem valLEr_append_zeros (radix : Nat) : ∀ (ds : List Nat) (k : Nat), valLEr radix (ds ++ List.replicate k 0) = valLEr radix ds
  | [], 0 => rfl
  | [], k+1 => by
    have := valLEr_append_zeros radix [] k
    simp only [List.nil_append] at this
    simp [List.replicate_succ, valLEr, this]
  | d :: ds, k => by simp [valLEr, valLEr_append_zeros radix ds k]

theorem hexPad_eq (w n : Nat) : ∃ k, hexPad w n = printDigits (digitsLE 16 (n+1) n ++ List.replicate k 0) := by
  refine ⟨w - (printNat 16 n).length, ?_⟩
  unfold hexPad printDigits
  simp only [List.reverse_append, List.reverse_replicate, List.map_append, List.map_replicate]
  rfl

theorem parseInt_hexPad (w n : Nat) (hn : n < 2^64) : parseInt 16 64 false (hexPad w n) = some (n : Int) ∧
    hexPad w n ≠ [] ∧ (∀ c ∈ hexPad w n, c ≠ ':' ∧ asciiWs c = false ∧ isAscii c = true) := by
  obtain ⟨k, hk⟩ := hexPad_eq w n
  obtain ⟨h1, h2, h3⟩ := digitsLE_spec 16 (by omega) (n+1) n (by omega)
  have hd : ∀ d ∈ digitsLE 16 (n+1) n ++ List.replicate k 0, d < 16 := by
    intro d hd
    rcases List.mem_append.mp hd with hd | hd
    · exact h2 d hd
    · have := List.eq_of_mem_replicate hd; omega
  have hne : digitsLE 16 (n+1) n ++ List.replicate k 0 ≠ [] := by simp [h3]
  have hv : valLEr 16 (digitsLE 16 (n+1) n ++ List.replicate k 0) = n := by rw [valLEr_append_zeros, h1]
  rw [hk]
  refine ⟨?_, ?_, ?_⟩
  · have := parseInt_printDigits 16 64 false (Or.inr rfl) _ hne hd (by rw [hv]; simp; omega)
    rw [this, hv]
  · unfold printDigits
    intro e
    simp only [List.map_eq_nil_iff, List.reverse_eq_nil_iff] at e
    exact hne e
  · intro c hc
    unfold printDigits at hc
    simp only [List.mem_map, List.mem_reverse] at hc
    obtain ⟨d, hdm, rfl⟩ := hc
    exact digitChar_hex d (hd d hdm)

end RP.Parse
