import RP.Model.Codec
/-! Helper lemmas for C15: bit fields as arithmetic, little-endian digit strings, card lists of a
hand word. Core Lean only. -/
namespace RP.Codec
open RP.Bits RP.Gen

/-! ### bitwise → arithmetic -/
theorem shl_or_eq (a b k : Nat) (h : b < 2^k) : a <<< k ||| b = a * 2^k + b := by
  rw [← Nat.shiftLeft_add_eq_or_of_lt h, Nat.shiftLeft_eq]

theorem or_shl_eq (a b k : Nat) (h : a < 2^k) : a ||| b <<< k = a + b * 2^k := by
  rw [Nat.or_comm, shl_or_eq _ _ _ h, Nat.add_comm]

/-- field extraction: `x &&& ((2^w - 1) <<< lo) = (x / 2^lo % 2^w) * 2^lo` -/
theorem and_field (x lo w : Nat) : x &&& ((2^w - 1) <<< lo) = (x / 2^lo % 2^w) * 2^lo := by
  apply Nat.eq_of_testBit_eq; intro i
  simp only [Nat.testBit_and, Nat.testBit_shiftLeft, Nat.testBit_two_pow_sub_one,
    Nat.testBit_mul_two_pow, Nat.testBit_mod_two_pow, Nat.testBit_div_two_pow]
  by_cases h : lo ≤ i
  · have : i - lo + lo = i := by omega
    simp [h, this, Bool.and_comm]
  · simp [h]

/-! ### little-endian digit strings in base `2^w` -/
def valLE (w : Nat) : List Nat → Nat
  | [] => 0
  | d :: ds => d + 2^w * valLE w ds

theorem valLE_lt (w : Nat) : ∀ ds : List Nat, (∀ d ∈ ds, d < 2^w) → valLE w ds < 2^(ds.length * w)
  | [], _ => by simp [valLE]
  | d :: ds, h => by
    have hd : d < 2^w := h d (by simp)
    have ih := valLE_lt w ds (fun x hx => h x (by simp [hx]))
    simp only [valLE, List.length_cons]
    have e : 2^((ds.length + 1) * w) = 2^w * 2^(ds.length * w) := by
      rw [Nat.add_mul, Nat.one_mul, Nat.pow_add, Nat.mul_comm]
    rw [e]
    have : 2^w * (valLE w ds + 1) ≤ 2^w * 2^(ds.length * w) := Nat.mul_le_mul_left _ ih
    rw [Nat.mul_add, Nat.mul_one] at this
    omega

theorem packAt_eq (w W : Nat) : ∀ (bs : List Nat) (i acc : Nat), (∀ b ∈ bs, b < 2^w) →
    acc < 2^(i*w) → (i + bs.length) * w ≤ W →
    packAt w (2^W) i bs acc = acc + 2^(i*w) * valLE w bs
  | [], i, acc, _, _, _ => by simp [packAt, valLE]
  | b :: bs, i, acc, hb, hacc, hW => by
    have hb0 : b < 2^w := hb b (by simp)
    simp only [packAt, valLE, List.length_cons] at hW ⊢
    have e1 : 2^((i+1)*w) = 2^(i*w) * 2^w := by rw [Nat.add_mul, Nat.one_mul, Nat.pow_add]
    have hlt : b * 2^(i*w) + 2^(i*w) ≤ 2^((i+1)*w) := by
      rw [e1, Nat.mul_comm (2^(i*w)) (2^w)]
      have : (b + 1) * 2^(i*w) ≤ 2^w * 2^(i*w) := Nat.mul_le_mul_right _ hb0
      rw [Nat.add_mul, Nat.one_mul] at this; exact this
    have hle : 2^((i+1)*w) ≤ 2^W := Nat.pow_le_pow_right (by omega) (by
      have : (i + 1) * w ≤ (i + (bs.length + 1)) * w := Nat.mul_le_mul_right _ (by omega)
      omega)
    have hmod : (b <<< (i*w)) % 2^W = b * 2^(i*w) := by
      rw [Nat.shiftLeft_eq]; apply Nat.mod_eq_of_lt
      have : 0 < 2^(i*w) := Nat.pow_pos (by omega)
      omega
    rw [hmod]
    have hor : acc ||| b * 2^(i*w) = acc + b * 2^(i*w) := by
      have := or_shl_eq acc b (i*w) hacc
      rwa [Nat.shiftLeft_eq] at this
    rw [hor]
    rw [packAt_eq w W bs (i+1) _ (fun x hx => hb x (by simp [hx])) (by omega) (by
      have : (i + 1 + bs.length) = (i + (bs.length + 1)) := by omega
      rw [this]; exact hW)]
    rw [e1, Nat.mul_add, Nat.mul_assoc, Nat.mul_comm b]
    omega

theorem valLE_cons_mod (w d : Nat) (ds : List Nat) (h : d < 2^w) : valLE w (d :: ds) % 2^w = d := by
  simp only [valLE]; rw [Nat.add_mul_mod_self_left]; exact Nat.mod_eq_of_lt h
theorem valLE_cons_div (w d : Nat) (ds : List Nat) (h : d < 2^w) : valLE w (d :: ds) / 2^w = valLE w ds := by
  simp only [valLE]
  rw [Nat.add_mul_div_left _ _ (Nat.pow_pos (by omega)), Nat.div_eq_of_lt h, Nat.zero_add]

/-- the `take_while(bits > 0)` walk reads back a digit string without zero digits -/
theorem digitsRem_valLE : ∀ (ds : List Nat) (k : Nat), (∀ d ∈ ds, 0 < d ∧ d < 256) → ds.length ≤ k →
    digitsRem 8 k (valLE 8 ds) = ds
  | [], k, _, _ => by cases k <;> simp [digitsRem, valLE]
  | d :: ds, 0, _, hk => by simp at hk
  | d :: ds, k+1, h, hk => by
    have hd := h d (by simp)
    have hd' : d < 2^8 := by omega
    have h1 := valLE_cons_mod 8 d ds hd'
    have h2 := valLE_cons_div 8 d ds hd'
    have hne : valLE 8 (d :: ds) ≠ 0 := by
      intro h0; rw [h0] at h1; simp at h1; omega
    simp only [digitsRem, hne, if_false, Nat.shiftRight_eq_div_pow]
    have e : (256 : Nat) = 2^8 := by decide
    rw [e, h1, h2, digitsRem_valLE ds k (fun x hx => h x (by simp [hx])) (by simpa using hk)]

/-- the `take_while(nibble != 0)` walk reads back a digit string without zero digits -/
theorem nibbles_valLE (w : Nat) : ∀ (ds : List Nat) (k : Nat), (∀ d ∈ ds, 0 < d ∧ d < 2^w) → ds.length ≤ k →
    nibbles w (2^w - 1) k (valLE w ds) = ds
  | [], k, _, _ => by cases k <;> simp [nibbles, valLE]
  | d :: ds, 0, _, hk => by simp at hk
  | d :: ds, k+1, h, hk => by
    have hd := h d (by simp)
    have h1 := valLE_cons_mod w d ds hd.2
    have h2 := valLE_cons_div w d ds hd.2
    simp only [nibbles, Nat.and_two_pow_sub_one_eq_mod, h1, Nat.shiftRight_eq_div_pow, h2]
    have : d ≠ 0 := by omega
    simp only [this, if_false]
    rw [nibbles_valLE w ds k (fun x hx => h x (by simp [hx])) (by simpa using hk)]

/-! ### the cards of a hand word -/
theorem mem_cardsW : ∀ (w off n j : Nat), j ∈ cardsW w off n ↔ (off ≤ j ∧ j < off + w ∧ n.testBit (j - off) = true)
  | 0, off, n, j => by simp [cardsW]; omega
  | w+1, off, n, j => by
    have ih := mem_cardsW w (off+1) (n/2) j
    simp only [cardsW]
    by_cases hb : n % 2 = 1
    · simp only [hb, if_true, List.mem_cons, ih]
      constructor
      · rintro (rfl | ⟨h1, h2, h3⟩)
        · refine ⟨Nat.le_refl _, by omega, ?_⟩
          simp [Nat.testBit_zero, hb]
        · refine ⟨by omega, by omega, ?_⟩
          have : j - off = (j - (off+1)) + 1 := by omega
          rw [this, Nat.testBit_succ]; exact h3
      · rintro ⟨h1, h2, h3⟩
        by_cases hj : j = off
        · exact Or.inl hj
        · right
          refine ⟨by omega, by omega, ?_⟩
          have : j - off = (j - (off+1)) + 1 := by omega
          rw [this, Nat.testBit_succ] at h3; exact h3
    · simp only [hb, if_false, ih]
      constructor
      · rintro ⟨h1, h2, h3⟩
        refine ⟨by omega, by omega, ?_⟩
        have : j - off = (j - (off+1)) + 1 := by omega
        rw [this, Nat.testBit_succ]; exact h3
      · rintro ⟨h1, h2, h3⟩
        have hj : j ≠ off := by
          intro e; subst e; simp [Nat.testBit_zero] at h3; omega
        refine ⟨by omega, by omega, ?_⟩
        have : j - off = (j - (off+1)) + 1 := by omega
        rw [this, Nat.testBit_succ] at h3; exact h3

theorem nodup_cardsW : ∀ (w off n : Nat), (cardsW w off n).Nodup
  | 0, off, n => by simp [cardsW]
  | w+1, off, n => by
    have ih := nodup_cardsW w (off+1) (n/2)
    simp only [cardsW]
    split
    · refine List.nodup_cons.mpr ⟨?_, ih⟩
      intro hm
      have := (mem_cardsW w (off+1) (n/2) off).mp hm
      omega
    · exact ih

theorem length_cardsW : ∀ (w off n : Nat), (cardsW w off n).length = popW w n
  | 0, off, n => by simp [cardsW, popW]
  | w+1, off, n => by
    have ih := length_cardsW w (off+1) (n/2)
    simp only [cardsW, popW]
    split
    · simp [ih]; omega
    · simp [ih]; omega

theorem mem_handCards (h j : Nat) : j ∈ handCards h ↔ (j < 64 ∧ h.testBit j = true) := by
  simp [handCards, mem_cardsW]
theorem length_handCards (h : Nat) : (handCards h).length = handSize h := length_cardsW 64 0 h
theorem nodup_handCards (h : Nat) : (handCards h).Nodup := nodup_cardsW 64 0 h
theorem nodup_reverse' {l : List Nat} (h : l.Nodup) : l.reverse.Nodup := by
  unfold List.Nodup at *
  rw [List.pairwise_reverse]
  exact h.imp (fun hab => fun e => hab e.symm)

/-- folding `Hand::add` over distinct cards not yet in the accumulator never trips the assertion and
sets exactly those bits -/
theorem addAll_spec : ∀ (cs : List Nat) (acc : Nat), cs.Nodup → (∀ c ∈ cs, c < 64 ∧ acc.testBit c = false) →
    ∃ r, addAll cs acc = some r ∧ ∀ j, r.testBit j = (acc.testBit j || decide (j ∈ cs))
  | [], acc, _, _ => ⟨acc, rfl, by simp⟩
  | c :: cs, acc, hn, h => by
    have hc := h c (by simp)
    have hn' := List.nodup_cons.mp hn
    have hdis : acc &&& 1 <<< c = 0 := by
      apply Nat.eq_of_testBit_eq; intro i
      simp only [Nat.testBit_and, Nat.one_shiftLeft, Nat.testBit_two_pow, Nat.zero_testBit]
      by_cases e : c = i
      · subst e; simp [hc.2]
      · simp [e]
    simp only [addAll, handOfCard, hc.1, if_true, handAdd, hdis]
    have ih := addAll_spec cs (acc ||| 1 <<< c) hn'.2 (by
      intro x hx
      refine ⟨(h x (by simp [hx])).1, ?_⟩
      simp only [Nat.testBit_or, Nat.one_shiftLeft, Nat.testBit_two_pow, (h x (by simp [hx])).2, Bool.false_or]
      have : c ≠ x := by intro e; subst e; exact hn'.1 hx
      simp [this])
    obtain ⟨r, hr, hbits⟩ := ih
    refine ⟨r, hr, ?_⟩
    intro j
    rw [hbits j]
    simp only [Nat.testBit_or, Nat.one_shiftLeft, Nat.testBit_two_pow, List.mem_cons]
    by_cases e : c = j
    · subst e; simp
    · have : ¬ j = c := fun x => e x.symm
      simp [e, this]

/-- in any order, adding up the cards of a hand word gives the word back -/
theorem addAll_perm_handCards (h : Nat) (hh : h < 2^64) (cs : List Nat) (hn : cs.Nodup)
    (hm : ∀ j, j ∈ cs ↔ j ∈ handCards h) : addAll cs 0 = some h := by
  obtain ⟨r, hr, hbits⟩ := addAll_spec cs 0 hn (by
    intro c hc; exact ⟨((mem_handCards h c).mp ((hm c).mp hc)).1, by simp⟩)
  rw [hr]; congr 1
  apply Nat.eq_of_testBit_eq; intro j
  rw [hbits j]
  simp only [Nat.zero_testBit, Bool.false_or, hm, mem_handCards]
  by_cases hj : j < 64
  · simp [hj]
  · have : h.testBit j = false := Nat.testBit_lt_two_pow (Nat.lt_of_lt_of_le hh (Nat.pow_le_pow_right (by omega) (by omega)))
    simp [hj, this]

/-! ### observation digits -/
/-- big-endian fold `acc << 8 | card` over ≤ 8 byte-sized digits = little-endian value of the reversed string -/
theorem foldr_obsStep : ∀ R : List Nat, (∀ d ∈ R, d < 256) → R.length ≤ 8 →
    R.foldr (fun d acc => obsStep acc d) 0 = valLE 8 R
  | [], _, _ => rfl
  | d :: R, h, hl => by
    have hd : d < 2^8 := by have := h d (by simp); omega
    have hR : ∀ x ∈ R, x < 2^8 := fun x hx => by have := h x (by simp [hx]); omega
    have ih := foldr_obsStep R (fun x hx => h x (by simp [hx])) (by simp at hl; omega)
    have hv := valLE_lt 8 R hR
    rw [List.foldr_cons, ih]
    simp only [obsStep, C15.obsShift, valLE, u64]
    have hle : 2^(R.length * 8) ≤ 2^56 := Nat.pow_le_pow_right (by omega) (by simp at hl; omega)
    have hsm : valLE 8 R <<< 8 < 2^64 := by rw [Nat.shiftLeft_eq]; omega
    rw [Nat.mod_eq_of_lt hsm, shl_or_eq _ _ _ hd]; omega

theorem obsToU64_eq (o : Obs) (hl : (obsCards o).length ≤ 8) (hc : ∀ c ∈ obsCards o, c < 64) :
    obsToU64 o = valLE 8 (((obsCards o).map (fun c => C15.obsOffset + c)).reverse) := by
  unfold obsToU64
  rw [List.foldl_eq_foldr_reverse]
  apply foldr_obsStep
  · intro d hd
    simp only [List.mem_reverse, List.mem_map, C15.obsOffset] at hd
    obtain ⟨c, hc', rfl⟩ := hd
    have := hc c hc'; omega
  · simpa using hl

theorem obsDigits_nat (k sh n : Nat) : obsDigits k sh (n : Int) = digitsRem sh k n := by
  unfold obsDigits
  split
  · have : n = 0 := by omega
    subst this; cases k <;> simp [digitsRem]
  · simp

theorem obsFold_tail (off np : Nat) : ∀ (ds : List Nat) (i p q : Nat), np ≤ i → (∀ d ∈ ds, off ≤ d) →
    obsFold off np i ds (p, q) = (addAll (ds.map (· - off)) q).map (fun q' => (p, q'))
  | [], i, p, q, _, _ => by simp [obsFold, addAll]
  | d :: ds, i, p, q, hi, h => by
    have hd : ¬ d < off := by have := h d (by simp); omega
    have hi' : ¬ i < np := by omega
    simp only [obsFold, hd, if_false, hi', List.map_cons, addAll]
    cases handOfCard (d - off) with
    | none => simp
    | some hh =>
      simp only []
      cases handAdd q hh with
      | none => simp
      | some q' => simp only []; exact obsFold_tail off np ds (i+1) p q' (by omega) (fun x hx => h x (by simp [hx]))

theorem obsFold_head (off np : Nat) : ∀ (ds1 ds2 : List Nat) (i p q : Nat), i + ds1.length = np →
    (∀ d ∈ ds1 ++ ds2, off ≤ d) →
    obsFold off np i (ds1 ++ ds2) (p, q) =
      (addAll (ds1.map (· - off)) p).bind (fun p' => (addAll (ds2.map (· - off)) q).map (fun q' => (p', q')))
  | [], ds2, i, p, q, hi, h => by
    simp only [List.nil_append, List.map_nil, addAll, Option.bind_some]
    exact obsFold_tail off np ds2 i p q (by simp at hi; omega) (by simpa using h)
  | d :: ds1, ds2, i, p, q, hi, h => by
    have hd : ¬ d < off := by have := h d (by simp); omega
    have hi' : i < np := by simp at hi; omega
    simp only [List.cons_append, obsFold, hd, if_false, hi', if_true, List.map_cons, addAll]
    cases handOfCard (d - off) with
    | none => simp
    | some hh =>
      simp only []
      cases handAdd p hh with
      | none => simp
      | some p' =>
        simp only []
        exact obsFold_head off np ds1 ds2 (i+1) p' q (by simp at hi; omega) (fun x hx => h x (by simp at hx ⊢; exact Or.inr hx))

end RP.Codec
