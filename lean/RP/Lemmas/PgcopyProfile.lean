import RP.Lemmas.PgcopyMap
/-! Lemmas about the nested map of the blueprint (`BTreeMap<Bucket, BTreeMap<Edge, Memory>>`). -/
namespace RP.Pgcopy

def lookup2 (b e : Nat) (m : PMap) : Option (Nat × Nat) := (lookupKV b m).bind (lookupKV e)

/-- canonical form: buckets ascending, every bucket's edges ascending and at least one edge
    (the code never creates a strategy without an edge) -/
def WFP (m : PMap) : Prop := Sorted m ∧ ∀ p ∈ m, Sorted p.2 ∧ p.2 ≠ []

def pkey (r : PRow) : Nat := bkey r.past r.present r.future

/-- bucket codes are three 64-bit words -/
def KeysOK (m : PMap) : Prop := ∀ p ∈ m, p.1 < 6277101735386680763835789423207666416102355444464034512896

theorem insertKV_ne_nil {ν : Type} (k : Nat) (v : ν) (m : List (Nat × ν)) : insertKV k v m ≠ [] := by
  cases m with
  | nil => simp [insertKV]
  | cons p m =>
    obtain ⟨kp, vp⟩ := p
    simp only [insertKV]
    split
    · simp
    · split <;> simp

theorem lookup2_insP (b e : Nat) (r : PRow) (m : PMap) :
    lookup2 b e (insP r m) = if b = pkey r ∧ e = r.edge then some (r.regret, r.policy) else lookup2 b e m := by
  simp only [lookup2, insP, lookupKV_insertKV]
  by_cases hb : b = pkey r
  · subst hb
    simp only [pkey, if_true, Option.bind_some, lookupKV_insertKV, true_and]
    by_cases he : e = r.edge
    · simp [he]
    · simp only [he, if_false]
      cases lookupKV (bkey r.past r.present r.future) m <;> simp [lookupKV]
  · have : ¬ b = bkey r.past r.present r.future := hb
    simp [this, hb]

theorem wfp_insP (r : PRow) {m : PMap} (h : WFP m) : WFP (insP r m) := by
  obtain ⟨hs, hi⟩ := h
  refine ⟨sorted_insertKV _ _ hs, ?_⟩
  intro p hp
  rcases mem_insertKV hp with hp | hp
  · subst hp
    refine ⟨sorted_insertKV _ _ ?_, insertKV_ne_nil _ _ _⟩
    cases hl : lookupKV (bkey r.past r.present r.future) m with
    | none => simp [Sorted]
    | some i => exact (hi _ (lookupKV_mem hl)).1
  · exact hi p hp

theorem wfp_ext {m1 m2 : PMap} (h1 : WFP m1) (h2 : WFP m2)
    (h : ∀ b e, lookup2 b e m1 = lookup2 b e m2) : m1 = m2 := by
  apply sorted_ext h1.1 h2.1
  intro b
  cases a : lookupKV b m1 with
  | none =>
    cases c : lookupKV b m2 with
    | none => rfl
    | some i2 =>
      have hne := (h2.2 _ (lookupKV_mem c)).2
      cases i2 with
      | nil => exact absurd rfl hne
      | cons q i2 =>
        obtain ⟨e, v⟩ := q
        have := h b e
        simp [lookup2, a, c, lookupKV] at this
  | some i1 =>
    cases c : lookupKV b m2 with
    | none =>
      have hne := (h1.2 _ (lookupKV_mem a)).2
      cases i1 with
      | nil => exact absurd rfl hne
      | cons q i1 =>
        obtain ⟨e, v⟩ := q
        have := h b e
        simp [lookup2, a, c, lookupKV] at this
    | some i2 =>
      congr 1
      apply sorted_ext (h1.2 _ (lookupKV_mem a)).1 (h2.2 _ (lookupKV_mem c)).1
      intro e
      have := h b e
      simpa [lookup2, a, c] using this

def buildP (rows : List PRow) (acc : PMap) : PMap := rows.foldl (fun a r => insP r a) acc

def lastP (b e : Nat) : List PRow → Option (Nat × Nat)
  | [] => none
  | r :: t =>
    match lastP b e t with
    | some v => some v
    | none => if b = pkey r ∧ e = r.edge then some (r.regret, r.policy) else none

theorem wfp_buildP (rows : List PRow) {acc : PMap} (h : WFP acc) : WFP (buildP rows acc) := by
  induction rows generalizing acc with
  | nil => exact h
  | cons r rows ih => exact ih (wfp_insP r h)

theorem lookup2_buildP (b e : Nat) (rows : List PRow) (acc : PMap) :
    lookup2 b e (buildP rows acc) = match lastP b e rows with | some v => some v | none => lookup2 b e acc := by
  induction rows generalizing acc with
  | nil => rfl
  | cons r rows ih =>
    simp only [buildP, List.foldl_cons] at ih ⊢
    rw [ih, lastP]
    cases lastP b e rows with
    | some v => rfl
    | none => simp only [lookup2_insP]; by_cases hk : b = pkey r ∧ e = r.edge <;> simp [hk]

/-- equal (bucket, edge) ⇒ equal values -/
def FuncP (rows : List PRow) : Prop :=
  ∀ r1 ∈ rows, ∀ r2 ∈ rows, pkey r1 = pkey r2 → r1.edge = r2.edge → (r1.regret, r1.policy) = (r2.regret, r2.policy)

theorem lastP_mem {b e : Nat} {v : Nat × Nat} {rows : List PRow} (h : lastP b e rows = some v) :
    ∃ r ∈ rows, pkey r = b ∧ r.edge = e ∧ (r.regret, r.policy) = v := by
  induction rows with
  | nil => simp [lastP] at h
  | cons r rows ih =>
    simp only [lastP] at h
    cases hl : lastP b e rows with
    | some w =>
      rw [hl] at h
      simp only [Option.some.injEq] at h
      subst h
      obtain ⟨r', hr', h'⟩ := ih hl
      exact ⟨r', by simp [hr'], h'⟩
    | none =>
      rw [hl] at h
      by_cases hk : b = pkey r ∧ e = r.edge
      · simp only [hk, and_self, if_true, Option.some.injEq] at h
        exact ⟨r, by simp, hk.1.symm, hk.2.symm, h⟩
      · simp [hk] at h

theorem lastP_isSome_of_mem {r : PRow} {rows : List PRow} (h : r ∈ rows) :
    ∃ w, lastP (pkey r) r.edge rows = some w := by
  induction rows with
  | nil => simp at h
  | cons q rows ih =>
    simp only [lastP]
    cases hl : lastP (pkey r) r.edge rows with
    | some w => exact ⟨w, rfl⟩
    | none =>
      simp only [List.mem_cons] at h
      rcases h with h | h
      · subst h
        exact ⟨(r.regret, r.policy), by simp⟩
      · obtain ⟨w, hw⟩ := ih h
        rw [hl] at hw
        simp at hw

theorem mem_rows {r : PRow} {t : PMap} :
    r ∈ t.rows ↔ ∃ b inner, (b, inner) ∈ t ∧ ∃ e rg po, (e, (rg, po)) ∈ inner ∧
      r = ⟨b / 18446744073709551616 / 18446744073709551616, b / 18446744073709551616 % 18446744073709551616,
        b % 18446744073709551616, e, rg, po⟩ := by
  simp only [PMap.rows, List.mem_flatMap, List.mem_map, Prod.exists]
  constructor
  · rintro ⟨b, inner, hb, e, rg, po, he, hr⟩
    exact ⟨b, inner, hb, e, rg, po, he, hr.symm⟩
  · rintro ⟨b, inner, hb, e, rg, po, he, hr⟩
    exact ⟨b, inner, hb, e, rg, po, he, hr.symm⟩

theorem lookup2_rows {t : PMap} (hw : WFP t) (hk : KeysOK t) (b e : Nat) (v : Nat × Nat) :
    lookup2 b e t = some v ↔ ∃ r ∈ t.rows, pkey r = b ∧ r.edge = e ∧ (r.regret, r.policy) = v := by
  constructor
  · intro h
    simp only [lookup2] at h
    cases hl : lookupKV b t with
    | none => simp [hl] at h
    | some inner =>
      rw [hl] at h
      simp only [Option.bind_some] at h
      have hb := lookupKV_mem hl
      have he := lookupKV_mem h
      have hkb := hk _ hb
      simp only at hkb
      refine ⟨⟨b / 18446744073709551616 / 18446744073709551616, b / 18446744073709551616 % 18446744073709551616,
        b % 18446744073709551616, e, v.1, v.2⟩, ?_, ?_, rfl, rfl⟩
      · exact mem_rows.2 ⟨b, inner, hb, e, v.1, v.2, he, rfl⟩
      · simp only [pkey, bkey]
        omega
  · rintro ⟨r, hr, h1, h2, h3⟩
    obtain ⟨b', inner, hb, e', rg, po, he, hreq⟩ := mem_rows.1 hr
    have hkb := hk _ hb
    simp only at hkb
    subst hreq
    simp only [pkey, bkey] at h1
    simp only at h2 h3
    have : b' = b := by omega
    subst this
    subst h2
    subst h3
    simp only [lookup2]
    rw [lookupKV_of_mem hw.1 hb]
    simp only [Option.bind_some]
    exact lookupKV_of_mem (hw.2 _ hb).1 he

/-- **insertion in any order**: rows with the same members as the rows of a canonical blueprint
    build that blueprint -/
theorem buildP_eq {t : PMap} {rows : List PRow} (hw : WFP t) (hk : KeysOK t)
    (hm : ∀ r, r ∈ rows ↔ r ∈ t.rows) : buildP rows [] = t := by
  have hf : FuncP rows := by
    intro r1 h1 r2 h2 hb he
    have a := (lookup2_rows hw hk (pkey r1) r1.edge (r1.regret, r1.policy)).2 ⟨r1, (hm r1).1 h1, rfl, rfl, rfl⟩
    have c := (lookup2_rows hw hk (pkey r1) r1.edge (r2.regret, r2.policy)).2 ⟨r2, (hm r2).1 h2, hb.symm, he.symm, rfl⟩
    rw [a] at c
    simpa using c
  apply wfp_ext (wfp_buildP rows ⟨by simp [Sorted], by simp⟩) hw
  intro b e
  rw [lookup2_buildP]
  cases hl : lastP b e rows with
  | some v =>
    obtain ⟨r, hr, h1, h2, h3⟩ := lastP_mem hl
    simp only
    exact ((lookup2_rows hw hk b e v).2 ⟨r, (hm r).1 hr, h1, h2, h3⟩).symm
  | none =>
    simp only [lookup2, lookupKV, Option.bind_none]
    cases ht : (lookupKV b t).bind (lookupKV e) with
    | none => rfl
    | some v =>
      obtain ⟨r, hr, h1, h2, _⟩ := (lookup2_rows hw hk b e v).1 ht
      obtain ⟨w, hw'⟩ := lastP_isSome_of_mem ((hm r).2 hr)
      rw [h1, h2, hl] at hw'
      simp at hw'

end RP.Pgcopy
