import RP.Lemmas.IsoBits
/-! # C05, bit level: the sort keys (`size`, `min_rank`, `max_rank`) on normalised contents

* the keys of `k <<< s` (`s < 4`) are the keys of the normalised content `k`,
* a normalised content with at most two cards is determined by `(size, minRank, maxRank)`
  — the first half of the counting argument of DESIGN A.3. -/
namespace RP.Iso
open RP.Bits

theorem tzW_step (w n : Nat) : tzW (w + 1) n = if n % 2 = 1 then 0 else tzW w (n / 2) + 1 := rfl
theorem msbW_step (w n : Nat) : msbW (w + 1) n = if n / 2 = 0 then 0 else msbW w (n / 2) + 1 := rfl
theorem popW_step (w n : Nat) : popW (w + 1) n = n % 2 + popW w (n / 2) := rfl

theorem tzW_le (w : Nat) : ∀ n, tzW w n ≤ w := by
  induction w with
  | zero => intro n; simp [tzW]
  | succ w ih =>
    intro n; rw [tzW_step]; have := ih (n / 2)
    by_cases h : n % 2 = 1
    · rw [if_pos h]; omega
    · rw [if_neg h]; omega

theorem msbW_le (w : Nat) : ∀ n, msbW w n ≤ w := by
  induction w with
  | zero => intro n; simp [msbW]
  | succ w ih =>
    intro n; rw [msbW_step]; have := ih (n / 2)
    by_cases h : n / 2 = 0
    · rw [if_pos h]; omega
    · rw [if_neg h]; omega

/-- for a non-zero word that fits, the width does not matter -/
theorem tzW_widen (w : Nat) : ∀ k, k ≠ 0 → k < 2 ^ w → tzW (w + 1) k = tzW w k := by
  induction w with
  | zero => intro k h0 hk; simp at hk; omega
  | succ w ih =>
    intro k h0 hk
    rw [tzW_step (w + 1) k, tzW_step w k]
    rw [Nat.pow_succ] at hk
    by_cases h : k % 2 = 1
    · simp [h]
    · simp only [h, if_false]
      rw [ih (k / 2) (by omega) (by omega)]

theorem msbW_widen (w : Nat) : ∀ k, k < 2 ^ w → msbW (w + 1) k = msbW w k := by
  induction w with
  | zero => intro k hk; simp at hk; subst hk; rfl
  | succ w ih =>
    intro k hk
    rw [msbW_step (w + 1) k, msbW_step w k]
    rw [Nat.pow_succ] at hk
    by_cases h : k / 2 = 0
    · simp [h]
    · simp only [h, if_false]
      rw [ih (k / 2) (by omega)]

theorem tzW_testBit (w : Nat) : ∀ k, k ≠ 0 → k < 2 ^ w → k.testBit (tzW w k) = true := by
  induction w with
  | zero => intro k h0 hk; simp at hk; omega
  | succ w ih =>
    intro k h0 hk
    rw [tzW_step]
    rw [Nat.pow_succ] at hk
    by_cases h : k % 2 = 1
    · simp [h, Nat.testBit_zero]
    · simp only [h, if_false]
      rw [Nat.testBit_succ]
      exact ih (k / 2) (by omega) (by omega)

theorem msbW_testBit (w : Nat) : ∀ k, k ≠ 0 → k < 2 ^ w → k.testBit (msbW w k) = true := by
  induction w with
  | zero => intro k h0 hk; simp at hk; omega
  | succ w ih =>
    intro k h0 hk
    rw [msbW_step]
    rw [Nat.pow_succ] at hk
    by_cases h : k / 2 = 0
    · have : k = 1 := by omega
      subst this; simp
    · simp only [h, if_false]
      rw [Nat.testBit_succ]
      exact ih (k / 2) h (by omega)

theorem tz_double {k : Nat} (h0 : k ≠ 0) (hk : k < 2 ^ 63) : tzW 64 (2 * k) = tzW 64 k + 1 := by
  have e1 : tzW (63 + 1) k = tzW 63 k := tzW_widen 63 k h0 hk
  have e2 : tzW (63 + 1) (2 * k) = if (2 * k) % 2 = 1 then 0 else tzW 63 (2 * k / 2) + 1 := rfl
  have e3 : 2 * k / 2 = k := by omega
  have e4 : ¬ (2 * k) % 2 = 1 := by omega
  rw [e3, if_neg e4] at e2
  calc tzW 64 (2 * k) = tzW 63 k + 1 := e2
    _ = tzW 64 k + 1 := by rw [← e1]

theorem msb_double {k : Nat} (h0 : k ≠ 0) (hk : k < 2 ^ 63) : msbW 64 (2 * k) = msbW 64 k + 1 := by
  have e1 : msbW (63 + 1) k = msbW 63 k := msbW_widen 63 k hk
  have e2 : msbW (63 + 1) (2 * k) = if 2 * k / 2 = 0 then 0 else msbW 63 (2 * k / 2) + 1 := rfl
  have e3 : 2 * k / 2 = k := by omega
  rw [e3, if_neg h0] at e2
  calc msbW 64 (2 * k) = msbW 63 k + 1 := e2
    _ = msbW 64 k + 1 := by rw [← e1]

theorem tz_shift {k s : Nat} (h0 : k ≠ 0) (hk : k < 2 ^ 52) (hs : s < 4) :
    tzW 64 (k <<< s) = tzW 64 k + s := by
  have : s = 0 ∨ s = 1 ∨ s = 2 ∨ s = 3 := by omega
  have e1 : k <<< 1 = 2 * k := by rw [Nat.shiftLeft_eq]; omega
  have e2 : k <<< 2 = 2 * (2 * k) := by rw [Nat.shiftLeft_eq]; omega
  have e3 : k <<< 3 = 2 * (2 * (2 * k)) := by rw [Nat.shiftLeft_eq]; omega
  rcases this with rfl | rfl | rfl | rfl
  · rfl
  · rw [e1, tz_double h0 (by omega)]
  · rw [e2, tz_double (by omega) (by omega), tz_double h0 (by omega)]
  · rw [e3, tz_double (by omega) (by omega), tz_double (by omega) (by omega), tz_double h0 (by omega)]

theorem msb_shift {k s : Nat} (h0 : k ≠ 0) (hk : k < 2 ^ 52) (hs : s < 4) :
    msbW 64 (k <<< s) = msbW 64 k + s := by
  have : s = 0 ∨ s = 1 ∨ s = 2 ∨ s = 3 := by omega
  have e1 : k <<< 1 = 2 * k := by rw [Nat.shiftLeft_eq]; omega
  have e2 : k <<< 2 = 2 * (2 * k) := by rw [Nat.shiftLeft_eq]; omega
  have e3 : k <<< 3 = 2 * (2 * (2 * k)) := by rw [Nat.shiftLeft_eq]; omega
  rcases this with rfl | rfl | rfl | rfl
  · rfl
  · rw [e1, msb_double h0 (by omega)]
  · rw [e2, msb_double (by omega) (by omega), msb_double h0 (by omega)]
  · rw [e3, msb_double (by omega) (by omega), msb_double (by omega) (by omega), msb_double h0 (by omega)]

theorem Normalized.tz_mod {k : Nat} (hk : Normalized k) (h0 : k ≠ 0) : tzW 64 k % 4 = 0 :=
  (hk _ (tzW_testBit 64 k h0 (Nat.lt_trans hk.lt (by decide)))).1

theorem Normalized.msb_mod {k : Nat} (hk : Normalized k) (h0 : k ≠ 0) : msbW 64 k % 4 = 0 :=
  (hk _ (msbW_testBit 64 k h0 (Nat.lt_trans hk.lt (by decide)))).1

/-- **keys are suit-independent** -/
theorem minRank_shift {k s : Nat} (hk : Normalized k) (hs : s < 4) : minRank (k <<< s) = minRank k := by
  unfold minRank
  rw [size_shift hk.lt hs]
  by_cases h : size k = 0
  · simp [h]
  · have h0 := ne_zero_of_size h
    simp only [h, if_false, lo]
    rw [tz_shift h0 hk.lt hs]
    have := hk.tz_mod h0
    congr 1; omega

theorem maxRank_shift {k s : Nat} (hk : Normalized k) (hs : s < 4) : maxRank (k <<< s) = maxRank k := by
  unfold maxRank
  rw [size_shift hk.lt hs]
  by_cases h : size k = 0
  · simp [h]
  · have h0 := ne_zero_of_size h
    simp only [h, if_false, hi]
    rw [msb_shift h0 hk.lt hs]
    have := hk.msb_mod h0
    congr 1; omega

/-! ## at most two cards: determined by size, lowest and highest card -/

theorem pop1_det (w : Nat) : ∀ a b : Nat, a < 2 ^ w → b < 2 ^ w → popW w a = 1 → popW w b = 1 →
    msbW w a = msbW w b → a = b := by
  induction w with
  | zero => intro a b _ _ pa; simp [popW] at pa
  | succ w ih =>
    intro a b ha hb pa pb hm
    rw [popW_step] at pa pb
    rw [msbW_step, msbW_step] at hm
    rw [Nat.pow_succ] at ha hb
    by_cases ha0 : a % 2 = 1
    · have ha2 : a / 2 = 0 := popW_eq_zero (w := w) (by omega) (by omega)
      rw [if_pos ha2] at hm
      by_cases hb2 : b / 2 = 0
      · rw [hb2, popW_zero] at pb; omega
      · rw [if_neg hb2] at hm; omega
    · have pa' : popW w (a / 2) = 1 := by omega
      have ha2 : a / 2 ≠ 0 := by intro e; rw [e, popW_zero] at pa'; omega
      rw [if_neg ha2] at hm
      by_cases hb2 : b / 2 = 0
      · rw [if_pos hb2] at hm; omega
      · rw [if_neg hb2] at hm
        by_cases hb0 : b % 2 = 1
        · have : b / 2 = 0 := popW_eq_zero (w := w) (by omega) (by omega)
          exact absurd this hb2
        · have := ih (a / 2) (b / 2) (by omega) (by omega) pa' (by omega) (by omega)
          omega

theorem pop2_det (w : Nat) : ∀ a b : Nat, a < 2 ^ w → b < 2 ^ w → popW w a = 2 → popW w b = 2 →
    tzW w a = tzW w b → msbW w a = msbW w b → a = b := by
  induction w with
  | zero => intro a b _ _ pa; simp [popW] at pa
  | succ w ih =>
    intro a b ha hb pa pb ht hm
    rw [popW_step] at pa pb
    rw [msbW_step, msbW_step] at hm
    rw [tzW_step, tzW_step] at ht
    rw [Nat.pow_succ] at ha hb
    have ha2 : a / 2 ≠ 0 := by intro e; rw [e, popW_zero] at pa; omega
    have hb2 : b / 2 ≠ 0 := by intro e; rw [e, popW_zero] at pb; omega
    rw [if_neg ha2, if_neg hb2] at hm
    by_cases ha0 : a % 2 = 1
    · rw [if_pos ha0] at ht
      by_cases hb0 : b % 2 = 1
      · have := pop1_det w (a / 2) (b / 2) (by omega) (by omega) (by omega) (by omega) (by omega)
        omega
      · rw [if_neg hb0] at ht; omega
    · rw [if_neg ha0] at ht
      by_cases hb0 : b % 2 = 1
      · rw [if_pos hb0] at ht; omega
      · rw [if_neg hb0] at ht
        have := ih (a / 2) (b / 2) (by omega) (by omega) (by omega) (by omega) (by omega) (by omega)
        omega

/-- **key completeness, per hand**: two normalised contents with at most two cards and the same
    `(size, min_rank, max_rank)` are equal -/
theorem determined {a b : Nat} (ha : Normalized a) (hb : Normalized b) (hs : size a = size b)
    (h2 : size a ≤ 2) (hmin : minRank a = minRank b) (hmax : maxRank a = maxRank b) : a = b := by
  have la : a < 2 ^ 64 := Nat.lt_trans ha.lt (by decide)
  have lb : b < 2 ^ 64 := Nat.lt_trans hb.lt (by decide)
  by_cases h0 : size a = 0
  · have e1 : a = 0 := popW_eq_zero h0 la
    have e2 : b = 0 := popW_eq_zero (w := 64) (show size b = 0 by omega) lb
    rw [e1, e2]
  · have h0b : size b ≠ 0 := by omega
    have na := ne_zero_of_size h0
    have nb := ne_zero_of_size h0b
    simp only [minRank, maxRank, h0, h0b, if_false, Option.some.injEq, lo, hi] at hmin hmax
    have t1 := ha.tz_mod na
    have t2 := hb.tz_mod nb
    have m1 := ha.msb_mod na
    have m2 := hb.msb_mod nb
    have ht : tzW 64 a = tzW 64 b := by omega
    have hm : msbW 64 a = msbW 64 b := by omega
    have : size a = 1 ∨ size a = 2 := by omega
    rcases this with h1 | h1
    · exact pop1_det 64 a b la lb h1 (show size b = 1 by omega) hm
    · exact pop2_det 64 a b la lb h1 (show size b = 2 by omega) ht hm

end RP.Iso
