import RP.Model.Game
/-! Helper lemmas about the two-seat `Game` model: the actor/other view, the invariant
`GameInv`, the explicit form of every permitted transition, and preservation of the invariant.
Used by `RP.Props.C02`, `C03`, `C14Game` (and by C11 later). Core Lean only. -/
namespace RP.Game
open RP.Showdown (Status)
open RP.Bits (popW)

/-! ## the actor / other view -/

/-- one more action counted: `self.ticker += 1` -/
def tick (g : Game) : Game := { g with ticker := g.ticker + 1 }

/-- the "everyone touched" threshold of the current street -/
def thr (g : Game) : Nat :=
  RP.Gen.N + (if street g = 0 then RP.Gen.touchedPref else RP.Gen.touchedPost)

def matched2 (a o : Seat) : Bool :=
  (a.state != Status.betting || a.stake == max a.stake o.stake) &&
  (o.state != Status.betting || o.stake == max a.stake o.stake)
def shoving2 (a o : Seat) : Bool :=
  (a.state == Status.folding || a.state == Status.shoving) &&
  (o.state == Status.folding || o.state == Status.shoving)
def folding2 (a o : Seat) : Bool :=
  (if a.state != Status.folding then 1 else 0) + (if o.state != Status.folding then 1 else 0) == (1 : Nat)
def alright2 (touched : Bool) (a o : Seat) : Bool :=
  (touched && matched2 a o) || folding2 a o || shoving2 a o

theorem actor_other_cases (g : Game) :
    (actor g = g.s0 ∧ other g = g.s1) ∨ (actor g = g.s1 ∧ other g = g.s0) := by
  unfold actor other; by_cases h : actorIdx g = 0 <;> simp [h]

theorem matched_eq (g : Game) : isEveryoneMatched g = matched2 (actor g) (other g) := by
  unfold isEveryoneMatched matched2 effectiveStake actor other
  by_cases h : actorIdx g = 0 <;> simp [h]
  rw [Bool.and_comm, Int.max_comm]

theorem shoving_eq (g : Game) : isEveryoneShoving g = shoving2 (actor g) (other g) := by
  unfold isEveryoneShoving shoving2 actor other
  by_cases h : actorIdx g = 0 <;> simp [h]
  rw [Bool.and_comm]

theorem folding_eq (g : Game) : isEveryoneFolding g = folding2 (actor g) (other g) := by
  unfold isEveryoneFolding folding2 actor other
  by_cases h : actorIdx g = 0 <;> simp [h]
  rw [Nat.add_comm]

theorem touched_eq (g : Game) : isEveryoneTouched g = decide (g.ticker > thr g) := rfl

theorem alright_eq (g : Game) :
    isEveryoneAlright g = alright2 (decide (g.ticker > thr g)) (actor g) (other g) := by
  unfold isEveryoneAlright isEveryoneCalling alright2
  rw [matched_eq, shoving_eq, folding_eq, touched_eq]

theorem effectiveStake_eq (g : Game) : effectiveStake g = max (actor g).stake (other g).stake := by
  unfold effectiveStake actor other
  by_cases h : actorIdx g = 0 <;> simp [h]
  rw [Int.max_comm]

theorem toCall_eq (g : Game) : toCall g = max (actor g).stake (other g).stake - (actor g).stake := by
  unfold toCall; rw [effectiveStake_eq]

/-- with non-negative stakes and nobody folded the `(most, next)` fold is `(max, min)` -/
theorem topStakes_eq (g : Game) (h0 : 0 ≤ g.s0.stake) (h1 : 0 ≤ g.s1.stake)
    (hf0 : g.s0.state ≠ Status.folding) (hf1 : g.s1.state ≠ Status.folding) :
    topStakes g = (max g.s0.stake g.s1.stake, min g.s0.stake g.s1.stake) := by
  unfold topStakes top2
  simp only [bne_iff_ne, ne_eq, hf0, hf1, not_false_eq_true, if_true]
  by_cases ha : g.s0.stake > 0
  · simp only [ha, if_true]
    by_cases hb : g.s1.stake > g.s0.stake
    · simp only [hb, if_true]; congr 1 <;> omega
    · simp only [hb, if_false]
      by_cases hc : g.s1.stake > 0
      · simp only [hc, if_true]; congr 1 <;> omega
      · simp only [hc, if_false]; congr 1 <;> omega
  · have : g.s0.stake = 0 := by omega
    simp only [this, Int.lt_irrefl, gt_iff_lt, if_false]
    by_cases hb : g.s1.stake > 0
    · simp only [hb, if_true]; congr 1 <;> omega
    · simp only [hb, if_false]; congr 1 <;> omega

/-! ## projections of the elementary state updates -/

section proj
variable (g : Game) (x : Int) (c : Nat)

@[simp] theorem tick_ticker : (tick g).ticker = g.ticker + 1 := rfl
@[simp] theorem tick_dealer : (tick g).dealer = g.dealer := rfl
@[simp] theorem tick_board : (tick g).board = g.board := rfl
@[simp] theorem tick_pot : (tick g).pot = g.pot := rfl
@[simp] theorem tick_s0 : (tick g).s0 = g.s0 := rfl
@[simp] theorem tick_s1 : (tick g).s1 = g.s1 := rfl
@[simp] theorem bet_ticker : (bet g x).ticker = g.ticker := rfl
@[simp] theorem bet_dealer : (bet g x).dealer = g.dealer := rfl
@[simp] theorem bet_board : (bet g x).board = g.board := rfl
@[simp] theorem bet_pot : (bet g x).pot = g.pot + x := rfl
@[simp] theorem fold_ticker : (foldActor g).ticker = g.ticker := rfl
@[simp] theorem fold_dealer : (foldActor g).dealer = g.dealer := rfl
@[simp] theorem fold_board : (foldActor g).board = g.board := rfl
@[simp] theorem fold_pot : (foldActor g).pot = g.pot := rfl
@[simp] theorem show_ticker : (showCards g c).ticker = g.dealer := rfl
@[simp] theorem show_dealer : (showCards g c).dealer = g.dealer := rfl
@[simp] theorem show_board : (showCards g c).board = g.board ||| c := rfl
@[simp] theorem show_pot : (showCards g c).pot = g.pot := rfl
@[simp] theorem show_s0 : (showCards g c).s0 = g.s0 := rfl
@[simp] theorem show_s1 : (showCards g c).s1 = g.s1 := rfl
@[simp] theorem nextStreet_ticker : (nextStreet g).ticker = g.ticker := rfl
@[simp] theorem nextStreet_dealer : (nextStreet g).dealer = g.dealer := rfl
@[simp] theorem nextStreet_board : (nextStreet g).board = g.board := rfl
@[simp] theorem nextStreet_pot : (nextStreet g).pot = g.pot := rfl

@[simp] theorem street_tick : street (tick g) = street g := rfl
@[simp] theorem street_bet : street (bet g x) = street g := rfl
@[simp] theorem street_fold : street (foldActor g) = street g := rfl
@[simp] theorem street_nextStreet : street (nextStreet g) = street g := rfl
@[simp] theorem thr_tick : thr (tick g) = thr g := rfl
@[simp] theorem thr_bet : thr (bet g x) = thr g := rfl
@[simp] theorem thr_fold : thr (foldActor g) = thr g := rfl
@[simp] theorem thr_nextStreet : thr (nextStreet g) = thr g := rfl

@[simp] theorem actorIdx_bet : actorIdx (bet g x) = actorIdx g := rfl
@[simp] theorem actorIdx_fold : actorIdx (foldActor g) = actorIdx g := rfl
@[simp] theorem actorIdx_nextStreet : actorIdx (nextStreet g) = actorIdx g := rfl

theorem actorIdx_lt : actorIdx g < 2 := by
  unfold actorIdx; rw [n_eq]; omega

theorem actorIdx_tick (hd : g.dealer = 0) :
    (actorIdx (tick g) = 0 ↔ actorIdx g ≠ 0) := by
  unfold actorIdx tick; simp only [hd, n_eq]; omega

theorem actor_tick (hd : g.dealer = 0) : actor (tick g) = other g := by
  have := actorIdx_tick g hd
  unfold actor other
  by_cases h : actorIdx g = 0
  · have h' : actorIdx (tick g) ≠ 0 := by rw [Ne, this]; simp [h]
    simp [h, h']
  · have h' : actorIdx (tick g) = 0 := this.2 h
    simp [h, h']

theorem other_tick (hd : g.dealer = 0) : other (tick g) = actor g := by
  have := actorIdx_tick g hd
  unfold actor other
  by_cases h : actorIdx g = 0
  · have h' : actorIdx (tick g) ≠ 0 := by rw [Ne, this]; simp [h]
    simp [h, h']
  · have h' : actorIdx (tick g) = 0 := this.2 h
    simp [h, h']

theorem actor_bet : actor (bet g x) = (actor g).bet x := by
  unfold actor; rw [actorIdx_bet]; unfold bet
  by_cases h : actorIdx g = 0 <;> simp [h]

theorem other_bet : other (bet g x) = other g := by
  unfold other; rw [actorIdx_bet]; unfold bet
  by_cases h : actorIdx g = 0 <;> simp [h]

theorem actor_fold : actor (foldActor g) = { actor g with state := Status.folding } := by
  unfold actor; rw [actorIdx_fold]; unfold foldActor
  by_cases h : actorIdx g = 0 <;> simp [h]

theorem other_fold : other (foldActor g) = other g := by
  unfold other; rw [actorIdx_fold]; unfold foldActor
  by_cases h : actorIdx g = 0 <;> simp [h]

theorem actor_nextStreet : actor (nextStreet g) = { actor g with stake := 0 } := by
  unfold actor; rw [actorIdx_nextStreet]; unfold nextStreet
  by_cases h : actorIdx g = 0 <;> simp [h]

theorem other_nextStreet : other (nextStreet g) = { other g with stake := 0 } := by
  unfold other; rw [actorIdx_nextStreet]; unfold nextStreet
  by_cases h : actorIdx g = 0 <;> simp [h]

end proj

/-- `next_player` when the seat after the actor is `Betting` (or the hand is alright): the inner
    loop runs exactly once -/
theorem nextPlayer_eq (g : Game) (hd : g.dealer = 0)
    (hb : isEveryoneAlright g = false → (other g).state = Status.betting) :
    nextPlayer g = if isEveryoneAlright g then g else tick g := by
  unfold nextPlayer
  by_cases h : isEveryoneAlright g = true
  · simp [h]
  · have h' : isEveryoneAlright g = false := by simpa using h
    have hs := hb h'
    rw [← actor_tick g hd] at hs
    simp only [h', Bool.false_eq_true, if_false, n_eq, advance]
    change (if (actor (tick g)).state = Status.betting then tick g else _) = tick g
    simp [hs]


/-! ## bit lemmas for the card sets -/

theorem popW_or_disjoint (w : Nat) : ∀ a b : Nat, a &&& b = 0 → popW w (a ||| b) = popW w a + popW w b := by
  induction w with
  | zero => intro a b _; simp [popW]
  | succ w ih =>
    intro a b h
    have h2 : (a / 2) &&& (b / 2) = 0 := by rw [← Nat.and_div_two, h]
    simp only [popW, Nat.or_div_two, ih _ _ h2]
    have hm : (a &&& b) % 2 = 0 := by rw [h]
    have : (a ||| b) % 2 = a % 2 + b % 2 := by
      have e1 := @Nat.or_mod_two_eq_one a b
      have e2 := @Nat.and_mod_two_eq_one a b
      omega
    omega

theorem subset_compl_iff (c x : Nat) (hx : x < 2 ^ 52) :
    (c &&& (x ^^^ (2 ^ 52 - 1)) = c) ↔ (c &&& x = 0 ∧ c < 2 ^ 52) := by
  constructor
  · intro h
    constructor
    · apply Nat.eq_of_testBit_eq
      intro i
      have := congrArg (fun n => n.testBit i) h
      simp only [Nat.testBit_and, Nat.testBit_xor, Nat.testBit_two_pow_sub_one, Nat.zero_testBit] at this ⊢
      by_cases hi : i < 52
      · cases hc : c.testBit i <;> cases hxx : x.testBit i <;> simp_all
      · have hxi : x.testBit i = false :=
          Nat.testBit_lt_two_pow (Nat.lt_of_lt_of_le hx (Nat.pow_le_pow_right (by omega) (by omega)))
        simp [hxi]
    · rw [← h]
      exact Nat.and_lt_two_pow c (Nat.xor_lt_two_pow hx (by omega))
  · intro ⟨h0, hc⟩
    apply Nat.eq_of_testBit_eq
    intro i
    have := congrArg (fun n => n.testBit i) h0
    simp only [Nat.testBit_and, Nat.testBit_xor, Nat.testBit_two_pow_sub_one, Nat.zero_testBit] at this ⊢
    by_cases hi : i < 52
    · cases hc' : c.testBit i <;> cases hxx : x.testBit i <;> simp_all
    · have : c.testBit i = false := Nat.testBit_lt_two_pow (Nat.lt_of_lt_of_le hc (Nat.pow_le_pow_right (by omega) (by omega)))
      simp [this]


/-! ## the invariant at the level of the (actor, other) pair -/

structure PairInv (a o : Seat) : Prop where
  sumA : a.stack + a.spent = STACK
  sumO : o.stack + o.spent = STACK
  stackA : 0 ≤ a.stack
  stackO : 0 ≤ o.stack
  stakeA : 0 ≤ a.stake
  stakeO : 0 ≤ o.stake
  prior : a.spent - a.stake = o.spent - o.stake
  stake_le : a.stake ≤ a.spent
  blindA : SB ≤ a.spent
  blindO : SB ≤ o.spent
  blinds : SB + BB ≤ a.spent + o.spent
  shoveA : a.state = Status.shoving → a.stack = 0
  shoveO : o.state = Status.shoving → o.stack = 0
  betA : a.state = Status.betting → 0 < a.stack
  betO : o.state = Status.betting → 0 < o.stack
  foldA : a.state = Status.folding → a.stake < o.stake ∧ o.state ≠ Status.folding
  foldO : o.state = Status.folding → o.stake < a.stake ∧ a.state ≠ Status.folding

theorem PairInv.symm {a o : Seat} (h : PairInv a o) : PairInv o a := by
  obtain ⟨h1, h2, h3, h4, h5, h6, h7, h8, h9, h10, h11, h12, h13, h14, h15, h16, h17⟩ := h
  exact ⟨h2, h1, h4, h3, h6, h5, by omega, by omega, h10, h9, by omega, h13, h12, h15, h14, h17, h16⟩

def Phase (t : Bool) (a o : Seat) : Prop :=
  alright2 t a o = false →
    a.state = Status.betting ∧ o.state ≠ Status.folding ∧ a.stake ≤ o.stake ∧
    (t = true → a.stake < o.stake)

def toRaise2 (a o : Seat) : Int :=
  (max a.stake o.stake - a.stake) + max (max a.stake o.stake - min a.stake o.stake) BB

theorem raise_pair {a o : Seat} {t : Bool} {x : Int} (hp : PairInv a o) (hph : Phase t a o)
    (hna : alright2 t a o = false) (hlo : toRaise2 a o ≤ x) (hhi : x ≤ a.stack - 1) :
    o.state = Status.betting ∧ (∀ t', alright2 t' (a.bet x) o = false) ∧ PairInv o (a.bet x) ∧
    (∀ t', Phase t' o (a.bet x)) := by
  obtain ⟨hA, hO, hle, hlt⟩ := hph hna
  obtain ⟨sa, ka, ea, pa, ha⟩ := a
  obtain ⟨so, ko, eo, po, ho⟩ := o
  obtain ⟨h1, h2, h3, h4, h5, h6, h7, h8, h9, h10, h11, h12, h13, h14, h15, h16, h17⟩ := hp
  have hc := consts_ok
  simp only at *
  subst hA
  have hx : ka - x ≠ 0 := by omega
  cases so <;> simp [toRaise2, alright2, matched2, folding2, shoving2, Seat.bet, Phase, hx] at *
  · refine ⟨by omega, ⟨?_, ?_, ?_, ?_, ?_, ?_, ?_, ?_, ?_, ?_, ?_, ?_, ?_, ?_, ?_, ?_, ?_⟩, by omega, by omega⟩ <;> simp <;> omega
  · omega

theorem choice_facts {a o : Seat} {t : Bool} (hp : PairInv a o) (hph : Phase t a o)
    (hna : alright2 t a o = false) :
    a.state = Status.betting ∧ (o.state = Status.betting ∨ o.state = Status.shoving) ∧
    a.stake ≤ o.stake ∧ (t = true → a.stake < o.stake) ∧ 0 < a.stack ∧
    o.stake - a.stake = a.stack - o.stack := by
  obtain ⟨hA, hO, hle, hlt⟩ := hph hna
  obtain ⟨h1, h2, h3, h4, h5, h6, h7, h8, h9, h10, h11, h12, h13, h14, h15, h16, h17⟩ := hp
  refine ⟨hA, ?_, hle, hlt, h14 hA, by omega⟩
  cases h : o.state <;> simp_all

theorem check_pair {a o : Seat} {t : Bool} (hp : PairInv a o) (hph : Phase t a o)
    (hna : alright2 t a o = false) (hck : max a.stake o.stake = a.stake) :
    o.state = Status.betting ∧ t = false ∧ PairInv o a ∧ (∀ t', Phase t' o a) := by
  obtain ⟨hA, hO, hle, hlt⟩ := hph hna
  refine ⟨?_, ?_, hp.symm, ?_⟩
  · obtain ⟨h1, h2, h3, h4, h5, h6, h7, h8, h9, h10, h11, h12, h13, h14, h15, h16, h17⟩ := hp
    cases h : o.state
    · rfl
    · have := h13 h; have := h14 hA; omega
    · exact absurd h hO
  · cases t
    · rfl
    · have := hlt rfl; omega
  · intro t' hna'
    obtain ⟨sa, ka, ea, pa, ha⟩ := a
    obtain ⟨so, ko, eo, po, ho⟩ := o
    obtain ⟨h1, h2, h3, h4, h5, h6, h7, h8, h9, h10, h11, h12, h13, h14, h15, h16, h17⟩ := hp
    simp only at *
    subst hA
    cases so <;> cases t' <;> simp [alright2, matched2, folding2, shoving2] at * <;> omega

theorem call_pair {a o : Seat} {t : Bool} {x : Int} (hp : PairInv a o) (hph : Phase t a o)
    (hna : alright2 t a o = false) (hx : x = max a.stake o.stake - a.stake) (hpos : 0 < x)
    (hlt : x < a.stack) :
    o.state = Status.betting ∧ (∀ t', alright2 t' (a.bet x) o = t') ∧ PairInv o (a.bet x) ∧
    PairInv (a.bet x) o ∧ (∀ t', Phase t' o (a.bet x)) ∧ (∀ t', Phase t' (a.bet x) o) := by
  obtain ⟨hA, hO, hle, hlt'⟩ := hph hna
  obtain ⟨sa, ka, ea, pa, ha⟩ := a
  obtain ⟨so, ko, eo, po, ho⟩ := o
  obtain ⟨h1, h2, h3, h4, h5, h6, h7, h8, h9, h10, h11, h12, h13, h14, h15, h16, h17⟩ := hp
  have hc := consts_ok
  simp only at *
  subst hA
  have hx' : ka - x ≠ 0 := by omega
  cases so <;> simp [alright2, matched2, folding2, shoving2, Seat.bet, Phase, hx'] at *
  · have he : ea + x = eo := by omega
    refine ⟨?_, ⟨?_, ?_, ?_, ?_, ?_, ?_, ?_, ?_, ?_, ?_, ?_, ?_, ?_, ?_, ?_, ?_, ?_⟩, ⟨?_, ?_, ?_, ?_, ?_, ?_, ?_, ?_, ?_, ?_, ?_, ?_, ?_, ?_, ?_, ?_, ?_⟩, ?_, ?_⟩ <;>
      (try intro t') <;> (try cases t') <;> simp [he] <;> omega
  · omega

theorem shove_pair {a o : Seat} {t : Bool} (hp : PairInv a o) (hph : Phase t a o)
    (hna : alright2 t a o = false) :
    (a.bet a.stack).state = Status.shoving ∧
    (o.state = Status.shoving → ∀ t', alright2 t' (a.bet a.stack) o = true) ∧
    (o.state = Status.betting → ∀ t', alright2 t' (a.bet a.stack) o = false) ∧
    PairInv o (a.bet a.stack) ∧ PairInv (a.bet a.stack) o ∧
    (∀ t', Phase t' o (a.bet a.stack)) ∧ (o.state = Status.shoving → ∀ t', Phase t' (a.bet a.stack) o) := by
  obtain ⟨hA, hO, hle, hlt'⟩ := hph hna
  obtain ⟨sa, ka, ea, pa, ha⟩ := a
  obtain ⟨so, ko, eo, po, ho⟩ := o
  obtain ⟨h1, h2, h3, h4, h5, h6, h7, h8, h9, h10, h11, h12, h13, h14, h15, h16, h17⟩ := hp
  have hc := consts_ok
  simp only at *
  subst hA
  cases so <;> simp [alright2, matched2, folding2, shoving2, Seat.bet, Phase] at hna h12 h13 h14 h15 h16 h17 hO ⊢
  · refine ⟨?_, ⟨?_, ?_, ?_, ?_, ?_, ?_, ?_, ?_, ?_, ?_, ?_, ?_, ?_, ?_, ?_, ?_, ?_⟩, ⟨?_, ?_, ?_, ?_, ?_, ?_, ?_, ?_, ?_, ?_, ?_, ?_, ?_, ?_, ?_, ?_, ?_⟩, ?_⟩ <;>
      first | omega | (simp; done) | (simp; omega)
  · refine ⟨⟨?_, ?_, ?_, ?_, ?_, ?_, ?_, ?_, ?_, ?_, ?_, ?_, ?_, ?_, ?_, ?_, ?_⟩, ⟨?_, ?_, ?_, ?_, ?_, ?_, ?_, ?_, ?_, ?_, ?_, ?_, ?_, ?_, ?_, ?_, ?_⟩⟩ <;>
      first | omega | (simp; done) | (simp; omega)

theorem fold_pair {a o : Seat} {t : Bool} (hp : PairInv a o) (hph : Phase t a o)
    (hna : alright2 t a o = false) (hpos : 0 < max a.stake o.stake - a.stake) :
    (∀ t', alright2 t' { a with state := Status.folding } o = true) ∧
    folding2 { a with state := Status.folding } o = true ∧
    PairInv { a with state := Status.folding } o := by
  obtain ⟨hA, hO, hle, hlt'⟩ := hph hna
  obtain ⟨sa, ka, ea, pa, ha⟩ := a
  obtain ⟨so, ko, eo, po, ho⟩ := o
  obtain ⟨h1, h2, h3, h4, h5, h6, h7, h8, h9, h10, h11, h12, h13, h14, h15, h16, h17⟩ := hp
  simp only at *
  subst hA
  cases so <;> simp [alright2, matched2, folding2, shoving2] at * <;>
  · refine ⟨?_, ?_, ?_, ?_, ?_, ?_, ?_, ?_, ?_, ?_, ?_, ?_, ?_, ?_, ?_, ?_, ?_⟩ <;> simp <;> omega

theorem thr_eq (g : Game) : thr g = if street g = 0 then 4 else 2 := by
  unfold thr; rw [n_eq, touchedPref_eq, touchedPost_eq]; split <;> rfl

theorem thr_ge (g : Game) : 2 ≤ thr g := by rw [thr_eq]; split <;> omega

/-! ## the invariant of the game -/

structure CardsInv (g : Game) : Prop where
  board_lt : g.board < 2 ^ 52
  hole0_lt : g.s0.hole < 2 ^ 52
  hole1_lt : g.s1.hole < 2 ^ 52
  d0 : g.board &&& g.s0.hole = 0
  d1 : g.board &&& g.s1.hole = 0
  d01 : g.s0.hole &&& g.s1.hole = 0

structure GameInv (g : Game) : Prop where
  dealer0 : g.dealer = 0
  pot_eq : g.pot = (actor g).spent + (other g).spent
  pair : PairInv (actor g) (other g)
  street_ok : street g ≤ 3
  cards : CardsInv g
  tick_pre : street g = 0 → 3 ≤ g.ticker
  tick_post : street g ≠ 0 →
    1 ≤ g.ticker ∨ ((actor g).state = Status.shoving ∧ (other g).state = Status.shoving)
  phase : Phase (decide (g.ticker > thr g)) (actor g) (other g)

theorem hole_bet (g : Game) (x : Int) :
    (bet g x).s0.hole = g.s0.hole ∧ (bet g x).s1.hole = g.s1.hole := by
  unfold bet Seat.bet; by_cases h : actorIdx g = 0 <;> simp [h]

theorem hole_fold (g : Game) :
    (foldActor g).s0.hole = g.s0.hole ∧ (foldActor g).s1.hole = g.s1.hole := by
  unfold foldActor; by_cases h : actorIdx g = 0 <;> simp [h]

theorem CardsInv.of_eq {g g' : Game} (h : CardsInv g) (hb : g'.board = g.board)
    (h0 : g'.s0.hole = g.s0.hole) (h1 : g'.s1.hole = g.s1.hole) : CardsInv g' := by
  obtain ⟨a, b, c, d, e, f⟩ := h
  exact ⟨hb ▸ a, h0 ▸ b, h1 ▸ c, by rw [hb, h0]; exact d, by rw [hb, h1]; exact e, by rw [h0, h1]; exact f⟩

theorem CardsInv.bet {g : Game} (h : CardsInv g) (x : Int) : CardsInv (bet g x) :=
  h.of_eq rfl (hole_bet g x).1 (hole_bet g x).2
theorem CardsInv.fold {g : Game} (h : CardsInv g) : CardsInv (foldActor g) :=
  h.of_eq rfl (hole_fold g).1 (hole_fold g).2
theorem CardsInv.tick {g : Game} (h : CardsInv g) : CardsInv (tick g) := h.of_eq rfl rfl rfl

/-- assemble the invariant for a state whose ticker has just advanced -/
theorem GameInv.mk_tick {g1 : Game} (hd : g1.dealer = 0)
    (hpot : g1.pot = (actor g1).spent + (other g1).spent)
    (hp : PairInv (other g1) (actor g1)) (hs : street g1 ≤ 3) (hc : CardsInv g1)
    (hpre : street g1 = 0 → 2 ≤ g1.ticker)
    (hph : ∀ t, Phase t (other g1) (actor g1)) : GameInv (tick g1) := by
  refine ⟨hd, ?_, ?_, hs, hc.tick, ?_, ?_, ?_⟩
  · rw [actor_tick g1 hd, other_tick g1 hd, tick_pot, hpot]; omega
  · rw [actor_tick g1 hd, other_tick g1 hd]; exact hp
  · intro h; have := hpre h; simp only [tick_ticker]; omega
  · intro _; left; simp only [tick_ticker]; omega
  · rw [actor_tick g1 hd, other_tick g1 hd]; exact hph _

/-- assemble the invariant for a state in which the hand is "alright" (no actor needed) -/
theorem GameInv.mk_alright {g1 : Game} (hd : g1.dealer = 0)
    (hpot : g1.pot = (actor g1).spent + (other g1).spent)
    (hp : PairInv (actor g1) (other g1)) (hs : street g1 ≤ 3) (hc : CardsInv g1)
    (hpre : street g1 = 0 → 3 ≤ g1.ticker)
    (hpost : street g1 ≠ 0 →
      1 ≤ g1.ticker ∨ ((actor g1).state = Status.shoving ∧ (other g1).state = Status.shoving))
    (hal : alright2 (decide (g1.ticker > thr g1)) (actor g1) (other g1) = true) : GameInv g1 := by
  refine ⟨hd, hpot, hp, hs, hc, hpre, hpost, ?_⟩
  intro h; rw [hal] at h; cases h

theorem alright_of_choice {g : Game} (h1 : mustStop g = false) (h2 : mustDeal g = false) :
    isEveryoneAlright g = false := by
  unfold mustStop at h1; unfold mustDeal at h2
  by_cases hs : street g = 3
  · simpa [hs] using h1
  · simpa [hs] using h2

theorem mustPost_false {g : Game} (h : GameInv g) : mustPost g = false := by
  unfold mustPost
  have := h.pair.blinds; have := h.pot_eq
  by_cases hs : street g = 0 <;> simp [hs]; omega

theorem toRaise_eq {g : Game} (h : GameInv g) (hA : (actor g).state ≠ Status.folding)
    (hO : (other g).state ≠ Status.folding) : toRaise g = toRaise2 (actor g) (other g) := by
  have hp := h.pair
  unfold toRaise toRaise2
  rcases actor_other_cases g with ⟨ha, ho⟩ | ⟨ha, ho⟩
  · rw [topStakes_eq g (ha ▸ hp.stakeA) (ho ▸ hp.stakeO) (ha ▸ hA) (ho ▸ hO), ha, ho]
  · rw [topStakes_eq g (ho ▸ hp.stakeO) (ha ▸ hp.stakeA) (ho ▸ hO) (ha ▸ hA), ha, ho]
    simp only [Int.max_comm, Int.min_comm]

/-- what `GameInv` gives at a node that is neither terminal nor chance -/
theorem choice_view {g : Game} (h : GameInv g) (hna : isEveryoneAlright g = false) :
    alright2 (decide (g.ticker > thr g)) (actor g) (other g) = false ∧
    (actor g).state = Status.betting ∧
    ((other g).state = Status.betting ∨ (other g).state = Status.shoving) ∧
    (actor g).stake ≤ (other g).stake ∧ 0 < (actor g).stack ∧
    toCall g = (other g).stake - (actor g).stake ∧
    toRaise g = toCall g + max (toCall g) BB ∧ toShove g = (actor g).stack := by
  rw [alright_eq] at hna
  obtain ⟨hA, hO, hle, _, hk, _⟩ := choice_facts h.pair h.phase hna
  have hOf : (other g).state ≠ Status.folding := by rcases hO with h | h <;> simp [h]
  have hc : toCall g = (other g).stake - (actor g).stake := by rw [toCall_eq]; omega
  refine ⟨hna, hA, hO, hle, hk, hc, ?_, rfl⟩
  rw [toRaise_eq h (by simp [hA]) hOf, hc]; unfold toRaise2; omega

theorem contains_fold (g : Game) : (legalChoice g).contains Action.fold = mayFold g := by
  unfold legalChoice
  cases mayRaise g <;> cases mayShove g <;> cases mayCall g <;> cases mayFold g <;> cases mayCheck g <;> simp
theorem contains_check (g : Game) : (legalChoice g).contains Action.check = mayCheck g := by
  unfold legalChoice
  cases mayRaise g <;> cases mayShove g <;> cases mayCall g <;> cases mayFold g <;> cases mayCheck g <;> simp
theorem contains_call (g : Game) (x : Int) :
    (legalChoice g).contains (Action.call x) = (mayCall g && decide (x = toCall g)) := by
  unfold legalChoice
  cases mayRaise g <;> cases mayShove g <;> cases mayCall g <;> cases mayFold g <;> cases mayCheck g <;> simp
theorem contains_shove (g : Game) (x : Int) :
    (legalChoice g).contains (Action.shove x) = (mayShove g && decide (x = toShove g)) := by
  unfold legalChoice
  cases mayRaise g <;> cases mayShove g <;> cases mayCall g <;> cases mayFold g <;> cases mayCheck g <;> simp


theorem choice_of_alright {g : Game} (hna : isEveryoneAlright g = false) :
    mustStop g = false ∧ mustDeal g = false := by
  have hf : isEveryoneFolding g = false := by
    unfold isEveryoneAlright at hna
    cases h : isEveryoneFolding g <;> simp_all
  unfold mustStop mustDeal
  by_cases hs : street g = 3 <;> simp [hs, hna, hf]

/-- at a choice node `legal()` is the five-way menu -/
theorem legal_choice {g : Game} (h : GameInv g) (hna : isEveryoneAlright g = false) (d : Nat) :
    legal g d = legalChoice g := by
  obtain ⟨h1, h2⟩ := choice_of_alright hna
  unfold legal; simp [h1, h2, mustPost_false h]

theorem not_allowed_of_stop {g : Game} (a : Action) (h : mustStop g = true) : isAllowed g a = false := by
  unfold isAllowed; simp [h]

/-- a chance node offers no player action -/
theorem legal_chance {g : Game} (h1 : mustStop g = false) (h2 : mustDeal g = true) (d : Nat) :
    legal g d = [Action.draw d] := by
  unfold legal; simp [h1, h2]

theorem allowed_raise_iff {g : Game} (h : GameInv g) (x : Int) :
    isAllowed g (.raise x) = true ↔
      (isEveryoneAlright g = false ∧ toCall g + max (toCall g) BB ≤ x ∧ x ≤ (actor g).stack - 1) := by
  constructor
  · intro ha
    unfold isAllowed at ha
    by_cases hs : mustStop g = true
    · simp [hs] at ha
    · have hs' : mustStop g = false := by simpa using hs
      simp only [hs', Bool.false_eq_true, if_false, Bool.and_eq_true, Bool.not_eq_true',
        decide_eq_true_eq] at ha
      obtain ⟨⟨⟨hd, _⟩, hlo⟩, hhi⟩ := ha
      have hna := alright_of_choice hs' hd
      obtain ⟨_, _, _, _, _, _, hr, hsv⟩ := choice_view h hna
      rw [hr] at hlo; rw [hsv] at hhi
      exact ⟨hna, hlo, hhi⟩
  · intro ⟨hna, hlo, hhi⟩
    obtain ⟨h1, h2⟩ := choice_of_alright hna
    obtain ⟨_, _, _, _, _, _, hr, hsv⟩ := choice_view h hna
    unfold isAllowed mayRaise
    simp only [h1, h2, Bool.false_eq_true, if_false, Bool.not_false, Bool.true_and,
      Bool.and_eq_true, decide_eq_true_eq, hr, hsv]
    omega

theorem allowed_menu {g : Game} (h : GameInv g) (a : Action)
    (ha : a = .fold ∨ a = .check ∨ (∃ x, a = .call x) ∨ (∃ x, a = .shove x)) :
    isAllowed g a = true ↔ (isEveryoneAlright g = false ∧ (legalChoice g).contains a = true) := by
  constructor
  · intro hal
    by_cases hs : mustStop g = true
    · rw [not_allowed_of_stop a hs] at hal; cases hal
    · have hs' : mustStop g = false := by simpa using hs
      by_cases hd : mustDeal g = true
      · exfalso
        unfold isAllowed at hal
        rw [legal_chance hs' hd] at hal
        rcases ha with rfl | rfl | ⟨x, rfl⟩ | ⟨x, rfl⟩ <;> simp [hs'] at hal
      · have hd' : mustDeal g = false := by simpa using hd
        have hna := alright_of_choice hs' hd'
        refine ⟨hna, ?_⟩
        unfold isAllowed at hal
        rw [legal_choice h hna] at hal
        rcases ha with rfl | rfl | ⟨x, rfl⟩ | ⟨x, rfl⟩ <;> simpa [hs'] using hal
  · intro ⟨hna, hc⟩
    obtain ⟨h1, h2⟩ := choice_of_alright hna
    unfold isAllowed
    rw [legal_choice h hna]
    rcases ha with rfl | rfl | ⟨x, rfl⟩ | ⟨x, rfl⟩ <;> simpa [h1] using hc

theorem allowed_fold_iff {g : Game} (h : GameInv g) :
    isAllowed g .fold = true ↔ (isEveryoneAlright g = false ∧ 0 < toCall g) := by
  rw [allowed_menu h _ (Or.inl rfl), contains_fold]; simp [mayFold]

theorem allowed_check_iff {g : Game} (h : GameInv g) :
    isAllowed g .check = true ↔ (isEveryoneAlright g = false ∧ toCall g = 0) := by
  rw [allowed_menu h _ (Or.inr (Or.inl rfl)), contains_check]
  simp only [mayCheck, toCall, beq_iff_eq, and_congr_right_iff]
  intro _; omega

theorem allowed_call_iff {g : Game} (h : GameInv g) (x : Int) :
    isAllowed g (.call x) = true ↔
      (isEveryoneAlright g = false ∧ x = toCall g ∧ 0 < toCall g ∧ toCall g < (actor g).stack) := by
  rw [allowed_menu h _ (Or.inr (Or.inr (Or.inl ⟨x, rfl⟩))), contains_call]
  simp [mayCall, mayFold, toShove]
  intro _
  constructor
  · rintro ⟨⟨b, c⟩, d⟩; exact ⟨d, b, of_decide_eq_true c⟩
  · rintro ⟨d, b, c⟩; exact ⟨⟨b, decide_eq_true c⟩, d⟩

theorem allowed_shove_iff {g : Game} (h : GameInv g) (x : Int) :
    isAllowed g (.shove x) = true ↔ (isEveryoneAlright g = false ∧ x = (actor g).stack) := by
  rw [allowed_menu h _ (Or.inr (Or.inr (Or.inr ⟨x, rfl⟩))), contains_shove]
  simp [mayShove, toShove]
  intro a
  obtain ⟨_, _, _, _, hk, _⟩ := choice_view h a
  constructor
  · rintro ⟨_, c⟩; exact of_decide_eq_true c
  · intro c; exact ⟨hk, decide_eq_true c⟩

theorem allowed_blind_iff {g : Game} (h : GameInv g) (x : Int) : isAllowed g (.blind x) = false := by
  unfold isAllowed
  by_cases hs : mustStop g = true <;> simp [hs, mustPost_false h]

/-! ## explicit form of every permitted transition, and preservation of the invariant -/

theorem alright_bet (g : Game) (x : Int) :
    isEveryoneAlright (bet g x) =
      alright2 (decide (g.ticker > thr g)) ((actor g).bet x) (other g) := by
  rw [alright_eq, actor_bet, other_bet, bet_ticker, thr_bet]

theorem alright_fold (g : Game) :
    isEveryoneAlright (foldActor g) =
      alright2 (decide (g.ticker > thr g)) { actor g with state := Status.folding } (other g) := by
  rw [alright_eq, actor_fold, other_fold, fold_ticker, thr_fold]

theorem pot_bet {g : Game} (h : GameInv g) (x : Int) :
    (bet g x).pot = (actor (bet g x)).spent + (other (bet g x)).spent := by
  rw [actor_bet, other_bet, bet_pot, h.pot_eq]; simp only [Seat.bet]; omega

theorem inv_raise {g : Game} (h : GameInv g) {x : Int} (ha : isAllowed g (.raise x) = true) :
    act g (.raise x) = tick (bet g x) ∧ GameInv (tick (bet g x)) := by
  obtain ⟨hna, hlo, hhi⟩ := (allowed_raise_iff h x).1 ha
  obtain ⟨hna2, hA, hO, hle, hk, hc, hr, hsv⟩ := choice_view h hna
  have hlo' : toRaise2 (actor g) (other g) ≤ x := by
    rw [← toRaise_eq h (by simp [hA]) (by rcases hO with h | h <;> simp [h]), hr]; exact hlo
  obtain ⟨hOb, hal, hp, hph⟩ := raise_pair h.pair h.phase hna2 hlo' hhi
  have hna1 : isEveryoneAlright (bet g x) = false := by rw [alright_bet]; exact hal _
  constructor
  · show nextPlayer (bet g x) = _
    rw [nextPlayer_eq (bet g x) h.dealer0 (fun _ => by rw [other_bet]; exact hOb), hna1]; rfl
  · refine GameInv.mk_tick h.dealer0 (pot_bet h x) ?_ h.street_ok (h.cards.bet x) ?_ ?_
    · rw [actor_bet, other_bet]; exact hp
    · intro hs; have := h.tick_pre hs; simp only [bet_ticker]; omega
    · intro t; rw [actor_bet, other_bet]; exact hph t

theorem inv_check {g : Game} (h : GameInv g) (ha : isAllowed g .check = true) :
    act g .check = tick g ∧ GameInv (tick g) := by
  obtain ⟨hna, hz⟩ := (allowed_check_iff h).1 ha
  obtain ⟨hna2, hA, hO, hle, hk, hc, hr, hsv⟩ := choice_view h hna
  have hck : max (actor g).stake (other g).stake = (actor g).stake := by omega
  obtain ⟨hOb, _, hp, hph⟩ := check_pair h.pair h.phase hna2 hck
  constructor
  · show nextPlayer g = _
    rw [nextPlayer_eq g h.dealer0 (fun _ => hOb), hna]; rfl
  · exact GameInv.mk_tick h.dealer0 h.pot_eq hp h.street_ok h.cards
      (fun hs => by have := h.tick_pre hs; omega) hph

theorem inv_call {g : Game} (h : GameInv g) {x : Int} (ha : isAllowed g (.call x) = true) :
    act g (.call x) = (if g.ticker > thr g then bet g x else tick (bet g x)) ∧
    GameInv (if g.ticker > thr g then bet g x else tick (bet g x)) := by
  obtain ⟨hna, hx, hpos, hlt⟩ := (allowed_call_iff h x).1 ha
  obtain ⟨hna2, hA, hO, hle, hk, hc, hr, hsv⟩ := choice_view h hna
  have hx' : x = max (actor g).stake (other g).stake - (actor g).stake := by rw [hx, toCall_eq]
  obtain ⟨hOb, hal, hp, hp', hph, hph'⟩ :=
    call_pair h.pair h.phase hna2 hx' (by omega) (by omega)
  have hal1 : isEveryoneAlright (bet g x) = decide (g.ticker > thr g) := by
    rw [alright_bet]; exact hal _
  have hact : act g (.call x) = (if g.ticker > thr g then bet g x else tick (bet g x)) := by
    show nextPlayer (bet g x) = _
    rw [nextPlayer_eq (bet g x) h.dealer0 (fun _ => by rw [other_bet]; exact hOb), hal1]
    by_cases ht : g.ticker > thr g <;> simp [ht]
  refine ⟨hact, ?_⟩
  by_cases ht : g.ticker > thr g
  · simp only [ht, if_true]
    refine GameInv.mk_alright h.dealer0 (pot_bet h x) ?_ h.street_ok (h.cards.bet x) h.tick_pre ?_ ?_
    · rw [actor_bet, other_bet]; exact hp'
    · intro hs; left
      have := thr_ge g
      simp only [bet_ticker]; omega
    · rw [actor_bet, other_bet, bet_ticker, thr_bet, hal]; simp [ht]
  · simp only [ht, if_false]
    refine GameInv.mk_tick h.dealer0 (pot_bet h x) ?_ h.street_ok (h.cards.bet x) ?_ ?_
    · rw [actor_bet, other_bet]; exact hp
    · intro hs; have := h.tick_pre hs; simp only [bet_ticker]; omega
    · intro t; rw [actor_bet, other_bet]; exact hph t

theorem inv_shove {g : Game} (h : GameInv g) {x : Int} (ha : isAllowed g (.shove x) = true) :
    act g (.shove x) =
      (if (other g).state = Status.shoving then bet g x else tick (bet g x)) ∧
    GameInv (if (other g).state = Status.shoving then bet g x else tick (bet g x)) := by
  obtain ⟨hna, hx⟩ := (allowed_shove_iff h x).1 ha
  subst hx
  obtain ⟨hna2, hA, hO, hle, hk, hc, hr, hsv⟩ := choice_view h hna
  obtain ⟨hst, halS, halB, hp, hp', hph, hph'⟩ := shove_pair h.pair h.phase hna2
  by_cases hS : (other g).state = Status.shoving
  · have hal1 : isEveryoneAlright (bet g (actor g).stack) = true := by
      rw [alright_bet]; exact halS hS _
    simp only [hS, if_true]
    constructor
    · show nextPlayer (bet g _) = _
      unfold nextPlayer; simp [hal1]
    · refine GameInv.mk_alright h.dealer0 (pot_bet h _) ?_ h.street_ok (h.cards.bet _) h.tick_pre ?_ ?_
      · rw [actor_bet, other_bet]; exact hp'
      · intro _; right; rw [actor_bet, other_bet]; exact ⟨hst, hS⟩
      · rw [actor_bet, other_bet, bet_ticker, thr_bet]; exact halS hS _
  · have hB : (other g).state = Status.betting := by rcases hO with h | h; exact h; exact absurd h hS
    have hal1 : isEveryoneAlright (bet g (actor g).stack) = false := by
      rw [alright_bet]; exact halB hB _
    simp only [hS, if_false]
    constructor
    · show nextPlayer (bet g _) = _
      rw [nextPlayer_eq (bet g _) h.dealer0 (fun _ => by rw [other_bet]; exact hB), hal1]; rfl
    · refine GameInv.mk_tick h.dealer0 (pot_bet h _) ?_ h.street_ok (h.cards.bet _) ?_ ?_
      · rw [actor_bet, other_bet]; exact hp
      · intro hs; have := h.tick_pre hs; simp only [bet_ticker]; omega
      · intro t; rw [actor_bet, other_bet]; exact hph t

theorem inv_fold {g : Game} (h : GameInv g) (ha : isAllowed g .fold = true) :
    act g .fold = foldActor g ∧ GameInv (foldActor g) ∧ isEveryoneFolding (foldActor g) = true := by
  obtain ⟨hna, hpos⟩ := (allowed_fold_iff h).1 ha
  obtain ⟨hna2, hA, hO, hle, hk, hc, hr, hsv⟩ := choice_view h hna
  obtain ⟨hal, hfo, hp⟩ := fold_pair h.pair h.phase hna2 (by rw [← toCall_eq]; exact hpos)
  have hal1 : isEveryoneAlright (foldActor g) = true := by rw [alright_fold]; exact hal _
  refine ⟨?_, ?_, ?_⟩
  · show nextPlayer (foldActor g) = _
    unfold nextPlayer; simp [hal1]
  · refine GameInv.mk_alright h.dealer0 ?_ ?_ h.street_ok h.cards.fold h.tick_pre ?_ ?_
    · rw [actor_fold, other_fold, fold_pot, h.pot_eq]
    · rw [actor_fold, other_fold]; exact hp
    · intro hs; rcases h.tick_post hs with h1 | ⟨h1, _⟩
      · left; exact h1
      · rw [hA] at h1; cases h1
    · rw [actor_fold, other_fold, fold_ticker, thr_fold]; exact hal _
  · rw [folding_eq, actor_fold, other_fold]; exact hfo

/-! ## chance nodes -/

theorem chance_pair {a o : Seat} {t : Bool} (hp : PairInv a o) (hal : alright2 t a o = true)
    (hnf : folding2 a o = false) :
    (a.state = Status.betting ∧ o.state = Status.betting ∧ a.stake = o.stake ∧ a.spent = o.spent ∧ t = true) ∨
    (a.state = Status.shoving ∧ o.state = Status.shoving ∧ a.spent = o.spent) := by
  obtain ⟨sa, ka, ea, pa, ha⟩ := a
  obtain ⟨so, ko, eo, po, ho⟩ := o
  obtain ⟨h1, h2, h3, h4, h5, h6, h7, h8, h9, h10, h11, h12, h13, h14, h15, h16, h17⟩ := hp
  simp only at *
  cases sa <;> cases so <;> cases t <;> simp [alright2, matched2, folding2, shoving2] at * <;> omega

theorem reset_pair {a o : Seat} (hp : PairInv a o)
    (h : (a.state = Status.betting ∧ o.state = Status.betting ∧ a.stake = o.stake) ∨
         (a.state = Status.shoving ∧ o.state = Status.shoving)) :
    PairInv { a with stake := 0 } { o with stake := 0 } ∧
    Phase false { a with stake := 0 } { o with stake := 0 } := by
  obtain ⟨sa, ka, ea, pa, ha⟩ := a
  obtain ⟨so, ko, eo, po, ho⟩ := o
  obtain ⟨h1, h2, h3, h4, h5, h6, h7, h8, h9, h10, h11, h12, h13, h14, h15, h16, h17⟩ := hp
  have hc := consts_ok
  simp only at *
  rcases h with ⟨rfl, rfl, rfl⟩ | ⟨rfl, rfl⟩ <;>
    simp [alright2, matched2, folding2, shoving2, Phase] at * <;>
    refine ⟨?_, ?_, ?_, ?_, ?_, ?_, ?_, ?_, ?_, ?_, ?_, ?_, ?_, ?_, ?_, ?_, ?_⟩ <;>
      first | omega | (simp; done) | (simp; omega)

theorem streetOf_eq (n : Nat) :
    streetOf n = if n = 0 then 0 else if n = 3 then 1 else if n = 4 then 2 else if n = 5 then 3 else 4 := by
  unfold streetOf; rw [streetOfSize_eq]
  simp only [List.lookup]
  by_cases h0 : n = 0
  · subst h0; rfl
  by_cases h3 : n = 3
  · subst h3; rfl
  by_cases h4 : n = 4
  · subst h4; rfl
  by_cases h5 : n = 5
  · subst h5; rfl
  have e0 : (n == 0) = false := by simpa using h0
  have e3 : (n == 3) = false := by simpa using h3
  have e4 : (n == 4) = false := by simpa using h4
  have e5 : (n == 5) = false := by simpa using h5
  simp [e0, e3, e4, e5, h0, h3, h4, h5]

theorem nRevealed_vals : nRevealed 0 = 3 ∧ nRevealed 1 = 1 ∧ nRevealed 2 = 1 := by
  unfold nRevealed; rw [nRevealed_eq]; exact ⟨rfl, rfl, rfl⟩

/-- dealing the right number of fresh cards moves to the next street -/
theorem street_show {g : Game} {c : Nat} (hs : street g < 3) (hd : g.board &&& c = 0)
    (hn : popW 64 c = nRevealed (street g)) : street (showCards g c) = street g + 1 := by
  unfold street at *
  rw [show_board, RP.Game.popW_or_disjoint 64 _ _ hd, hn]
  obtain ⟨n0, n1, n2⟩ := nRevealed_vals
  rw [streetOf_eq] at hs ⊢
  generalize popW 64 g.board = n at *
  by_cases h0 : n = 0
  · subst h0; simp [streetOf_eq, n0]
  by_cases h3 : n = 3
  · subst h3; simp [streetOf_eq, n1]
  by_cases h4 : n = 4
  · subst h4; simp [streetOf_eq, n2]
  by_cases h5 : n = 5
  · subst h5; simp at hs
  · simp [h0, h3, h4, h5] at hs

theorem inPlay_lt {g : Game} (h : CardsInv g) : inPlay g < 2 ^ 52 :=
  Nat.or_lt_two_pow (Nat.or_lt_two_pow h.board_lt h.hole0_lt) h.hole1_lt

theorem allowed_draw_iff {g : Game} (h : GameInv g) (c : Nat) :
    isAllowed g (.draw c) = true ↔
      (mustStop g = false ∧ mustDeal g = true ∧ c &&& inPlay g = 0 ∧ c < 2 ^ 52 ∧
        popW 64 c = nRevealed (street g)) := by
  have hsub : subset c (deck g) = true ↔ (c &&& inPlay g = 0 ∧ c < 2 ^ 52) := by
    unfold subset deck; rw [handMask_eq, beq_iff_eq]
    exact subset_compl_iff c (inPlay g) (inPlay_lt h.cards)
  unfold isAllowed
  by_cases hs : mustStop g = true
  · simp [hs]
  · have hs' : mustStop g = false := by simpa using hs
    simp only [hs', Bool.false_eq_true, if_false, Bool.and_eq_true, beq_iff_eq, hsub, true_and]
    constructor
    · rintro ⟨⟨a, b, c⟩, d⟩; exact ⟨a, b, c, d⟩
    · rintro ⟨a, b, c, d⟩; exact ⟨⟨a, b, c⟩, d⟩

/-- what `GameInv` gives at a chance node -/
theorem chance_view {g : Game} (h : GameInv g) (h1 : mustStop g = false) (h2 : mustDeal g = true) :
    street g < 3 ∧
    ((g.s0.state = Status.betting ∧ g.s1.state = Status.betting ∧ g.s0.stake = g.s1.stake ∧
        g.s0.spent = g.s1.spent ∧ g.ticker > thr g) ∨
     (g.s0.state = Status.shoving ∧ g.s1.state = Status.shoving ∧ g.s0.spent = g.s1.spent)) := by
  have hs3 : street g ≠ 3 := by
    intro hs; unfold mustDeal at h2; simp [hs] at h2
  have hal : isEveryoneAlright g = true := by unfold mustDeal at h2; simpa [hs3] using h2
  have hnf : isEveryoneFolding g = false := by unfold mustStop at h1; simpa [hs3] using h1
  rw [alright_eq] at hal; rw [folding_eq] at hnf
  have hso := h.street_ok
  refine ⟨by omega, ?_⟩
  have := chance_pair h.pair hal hnf
  rcases actor_other_cases g with ⟨ha, ho⟩ | ⟨ha, ho⟩ <;> rw [ha, ho] at this
  · rcases this with ⟨a, b, c, d, e⟩ | ⟨a, b, c⟩
    · left; exact ⟨a, b, c, d, by simpa using e⟩
    · right; exact ⟨a, b, c⟩
  · rcases this with ⟨a, b, c, d, e⟩ | ⟨a, b, c⟩
    · left; exact ⟨b, a, c.symm, d.symm, by simpa using e⟩
    · right; exact ⟨b, a, c.symm⟩

theorem actorIdx_show (g : Game) (c : Nat) (hd : g.dealer = 0) : actorIdx (showCards g c) = 0 := by
  unfold actorIdx showCards; simp [hd]

theorem inv_draw {g : Game} (h : GameInv g) {c : Nat} (ha : isAllowed g (.draw c) = true) :
    act g (.draw c) =
      nextStreet (if g.s0.state = Status.shoving then showCards g c else tick (showCards g c)) ∧
    GameInv (nextStreet (if g.s0.state = Status.shoving then showCards g c else tick (showCards g c))) ∧
    street (act g (.draw c)) = street g + 1 := by
  obtain ⟨h1, h2, hdis, hlt, hn⟩ := (allowed_draw_iff h c).1 ha
  obtain ⟨hs, hview⟩ := chance_view h h1 h2
  -- cards
  have hcI := h.cards
  have hdb : g.board &&& c = 0 := by
    have : c &&& g.board = 0 := by
      unfold inPlay at hdis
      rw [Nat.and_or_distrib_left, Nat.and_or_distrib_left] at hdis
      exact (Nat.or_eq_zero_iff.1 (Nat.or_eq_zero_iff.1 hdis).1).1
    rw [Nat.and_comm]; exact this
  have hd0 : c &&& g.s0.hole = 0 := by
    unfold inPlay at hdis
    rw [Nat.and_or_distrib_left, Nat.and_or_distrib_left] at hdis
    exact (Nat.or_eq_zero_iff.1 (Nat.or_eq_zero_iff.1 hdis).1).2
  have hd1 : c &&& g.s1.hole = 0 := by
    unfold inPlay at hdis
    rw [Nat.and_or_distrib_left] at hdis
    exact (Nat.or_eq_zero_iff.1 hdis).2
  have hstreet : street (showCards g c) = street g + 1 := street_show hs hdb hn
  have hcards : CardsInv (showCards g c) :=
    ⟨Nat.or_lt_two_pow hcI.board_lt hlt, hcI.hole0_lt, hcI.hole1_lt,
     by show (g.board ||| c) &&& g.s0.hole = 0
        rw [Nat.and_or_distrib_right, hcI.d0, hd0]; rfl,
     by show (g.board ||| c) &&& g.s1.hole = 0
        rw [Nat.and_or_distrib_right, hcI.d1, hd1]; rfl,
     hcI.d01⟩
  have hidx := actorIdx_show g c h.dealer0
  have hact1 : actor (showCards g c) = g.s0 := by unfold actor; simp [hidx]
  have hoth1 : other (showCards g c) = g.s1 := by unfold other; simp [hidx]
  have hpair01 : PairInv g.s0 g.s1 := by
    rcases actor_other_cases g with ⟨ha, ho⟩ | ⟨ha, ho⟩
    · rw [← ha, ← ho]; exact h.pair
    · rw [← ha, ← ho]; exact h.pair.symm
  have hpot01 : g.pot = g.s0.spent + g.s1.spent := by
    rcases actor_other_cases g with ⟨ha, ho⟩ | ⟨ha, ho⟩
    · rw [← ha, ← ho]; exact h.pot_eq
    · rw [← ha, ← ho, h.pot_eq]; omega
  have hal1 : isEveryoneAlright (showCards g c) = (shoving2 g.s0 g.s1 || folding2 g.s0 g.s1) := by
    rw [alright_eq, hact1, hoth1]
    have : decide ((showCards g c).ticker > thr (showCards g c)) = false := by
      have := thr_ge (showCards g c); simp [h.dealer0]
    rw [this]; unfold alright2
    cases folding2 g.s0 g.s1 <;> cases shoving2 g.s0 g.s1 <;> rfl
  rcases hview with ⟨b0, b1, he, hsp, _⟩ | ⟨s0, s1, hsp⟩
  · -- both betting: the small blind (seat 1) opens the new street
    have hns : ¬ g.s0.state = Status.shoving := by rw [b0]; simp
    have hal1' : isEveryoneAlright (showCards g c) = false := by
      rw [hal1]; simp [shoving2, folding2, b0, b1]
    have hnp : nextPlayer (showCards g c) = tick (showCards g c) := by
      rw [nextPlayer_eq (showCards g c) h.dealer0 (fun _ => by rw [hoth1]; exact b1), hal1']; rfl
    simp only [hns, if_false]
    have hact : act g (.draw c) = nextStreet (tick (showCards g c)) := by
      show nextStreet (nextPlayer (showCards g c)) = _; rw [hnp]
    refine ⟨hact, ?_, by rw [hact]; simpa using hstreet⟩
    obtain ⟨hp0, hph0⟩ := reset_pair hpair01.symm (Or.inl ⟨b1, b0, he.symm⟩)
    have hA : actor (tick (showCards g c)) = g.s1 := by rw [actor_tick (showCards g c) h.dealer0, hoth1]
    have hO : other (tick (showCards g c)) = g.s0 := by rw [other_tick (showCards g c) h.dealer0, hact1]
    refine ⟨h.dealer0, ?_, ?_, ?_, ?_, ?_, ?_, ?_⟩
    · rw [actor_nextStreet, other_nextStreet, hA, hO]; simp only [nextStreet_pot, tick_pot, show_pot]; omega
    · rw [actor_nextStreet, other_nextStreet, hA, hO]; exact hp0
    · simp only [street_nextStreet, street_tick, hstreet]; omega
    · exact hcards.tick.of_eq rfl rfl rfl
    · intro hs0; simp only [street_nextStreet, street_tick, hstreet] at hs0; omega
    · intro _; left; simp [h.dealer0]
    · rw [actor_nextStreet, other_nextStreet, hA, hO]
      have : decide ((nextStreet (tick (showCards g c))).ticker > thr (nextStreet (tick (showCards g c)))) = false := by
        have := thr_ge (nextStreet (tick (showCards g c)))
        have ht : (nextStreet (tick (showCards g c))).ticker = 1 := by simp [h.dealer0]
        rw [decide_eq_false_iff_not, ht]; omega
      rw [this]; exact hph0
  · -- both all-in: the board is run out, nobody acts
    have hal1' : isEveryoneAlright (showCards g c) = true := by
      rw [hal1]; simp [shoving2, s0, s1]
    have hnp : nextPlayer (showCards g c) = showCards g c := by unfold nextPlayer; simp [hal1']
    simp only [s0, if_true]
    have hact : act g (.draw c) = nextStreet (showCards g c) := by
      show nextStreet (nextPlayer (showCards g c)) = _; rw [hnp]
    refine ⟨hact, ?_, by rw [hact]; simpa using hstreet⟩
    obtain ⟨hp0, _⟩ := reset_pair hpair01 (Or.inr ⟨s0, s1⟩)
    refine GameInv.mk_alright h.dealer0 ?_ ?_ ?_ (hcards.of_eq rfl rfl rfl) ?_ ?_ ?_
    · rw [actor_nextStreet, other_nextStreet, hact1, hoth1]; simp only [nextStreet_pot, show_pot]; omega
    · rw [actor_nextStreet, other_nextStreet, hact1, hoth1]; exact hp0
    · simp only [street_nextStreet, hstreet]; omega
    · intro hs0; simp only [street_nextStreet, hstreet] at hs0; omega
    · intro _; right; rw [actor_nextStreet, other_nextStreet, hact1, hoth1]; exact ⟨s0, s1⟩
    · rw [actor_nextStreet, other_nextStreet, hact1, hoth1]
      simp [alright2, shoving2, s0, s1]

/-! ## every step, every history -/

theorem betOk_of_allowed {g : Game} (h : GameInv g) {a : Action} (ha : isAllowed g a = true) :
    betOk g a = true := by
  unfold betOk
  cases a with
  | draw c => rfl
  | fold => rfl
  | check => rfl
  | call x =>
    obtain ⟨_, hx, _, hlt⟩ := (allowed_call_iff h x).1 ha
    simp only [Action.chips, decide_eq_true_eq]; omega
  | raise x =>
    obtain ⟨_, _, hhi⟩ := (allowed_raise_iff h x).1 ha
    simp only [Action.chips, decide_eq_true_eq]; omega
  | shove x =>
    obtain ⟨_, hx⟩ := (allowed_shove_iff h x).1 ha
    simp only [Action.chips, decide_eq_true_eq]; omega
  | blind x => rw [allowed_blind_iff h x] at ha; cases ha

/-- the two assertions on the way into `act` collapse to `is_allowed` in reachable states -/
theorem step?_eq {g : Game} (h : GameInv g) (a : Action) :
    step? g a = if isAllowed g a then some (act g a) else none := by
  unfold step?
  by_cases ha : isAllowed g a = true
  · simp [ha, betOk_of_allowed h ha]
  · simp [ha]

theorem inv_act {g : Game} (h : GameInv g) {a : Action} (ha : isAllowed g a = true) :
    GameInv (act g a) := by
  cases a with
  | draw c => obtain ⟨e, i, _⟩ := inv_draw h ha; rw [e]; exact i
  | fold => obtain ⟨e, i, _⟩ := inv_fold h ha; rw [e]; exact i
  | check => obtain ⟨e, i⟩ := inv_check h ha; rw [e]; exact i
  | call x => obtain ⟨e, i⟩ := inv_call h ha; rw [e]; exact i
  | raise x => obtain ⟨e, i⟩ := inv_raise h ha; rw [e]; exact i
  | shove x => obtain ⟨e, i⟩ := inv_shove h ha; rw [e]; exact i
  | blind x => rw [allowed_blind_iff h x] at ha; cases ha

theorem inv_step {g g' : Game} (h : GameInv g) {a : Action} (hs : step? g a = some g') :
    GameInv g' := by
  rw [step?_eq h] at hs
  by_cases ha : isAllowed g a = true
  · simp only [ha, if_true, Option.some.injEq] at hs; rw [← hs]; exact inv_act h ha
  · simp [ha] at hs

theorem inv_run {g : Game} (h : GameInv g) : ∀ {as : List Action} {g' : Game},
    run? g as = some g' → GameInv g' := by
  intro as
  induction as generalizing g with
  | nil => intro g' hr; simp only [run?, Option.some.injEq] at hr; rw [← hr]; exact h
  | cons a as ih =>
    intro g' hr
    simp only [run?] at hr
    cases hs : step? g a with
    | none => rw [hs] at hr; cases hr
    | some g1 => rw [hs] at hr; exact ih (inv_step h hs) hr

/-- a well-formed deal of the two holes -/
def ValidDeal (h0 h1 : Nat) : Prop := h0 < 2 ^ 52 ∧ h1 < 2 ^ 52 ∧ h0 &&& h1 = 0

theorem street_root (h0 h1 : Nat) : street (root h0 h1) = 0 := by
  unfold street root; simp only [RP.Bits.popW_zero]; rw [streetOf_eq]; rfl

theorem actorIdx_root (h0 h1 : Nat) : actorIdx (root h0 h1) = 1 := by
  unfold actorIdx root; simp [baseDealer_eq, baseTicker_eq, n_eq]

theorem inv_root {h0 h1 : Nat} (hv : ValidDeal h0 h1) : GameInv (root h0 h1) := by
  obtain ⟨v0, v1, v01⟩ := hv
  have hc := consts_ok
  have hi := actorIdx_root h0 h1
  have hA : actor (root h0 h1) = (root h0 h1).s1 := by unfold actor; simp [hi]
  have hO : other (root h0 h1) = (root h0 h1).s0 := by unfold other; simp [hi]
  have hthr : thr (root h0 h1) = 4 := by rw [thr_eq, street_root]; rfl
  have htk : (root h0 h1).ticker = 3 := by simp [root, baseTicker_eq]
  refine ⟨baseDealer_eq, ?_, ?_, ?_, ?_, ?_, ?_, ?_⟩
  · rw [hA, hO]; simp only [root]
  · rw [hA, hO]; simp only [root]
    refine ⟨?_, ?_, ?_, ?_, ?_, ?_, ?_, ?_, ?_, ?_, ?_, ?_, ?_, ?_, ?_, ?_, ?_⟩ <;>
      first | omega | (simp; done) | (simp; omega)
  · rw [street_root]; omega
  · exact ⟨by simp [root], v0, v1, by simp [root], by simp [root], v01⟩
  · intro _; omega
  · intro hs; rw [street_root] at hs; simp at hs
  · rw [hA, hO, htk, hthr]
    intro _
    simp only [root]
    refine ⟨trivial, by simp, by omega, by simp⟩

/-! ## the end of the hand -/

theorem settle_fold0 (r0 r1 : Int) (s0 s1 : Nat) (st1 : Status) (h1 : st1 ≠ Status.folding)
    (hr0 : 0 ≤ r0) (hlt : r0 < r1) :
    RP.Showdown.settle [⟨r0, Status.folding, s0, 0⟩, ⟨r1, st1, s1, 0⟩] =
      [⟨r0, Status.folding, s0, 0⟩, ⟨r1, st1, s1, r0 + r1⟩] := by
  have hr1 : 0 < r1 := by omega
  have hm : min r0 r1 = r0 := by omega
  have hmx : max r0 0 = r0 := by omega
  have hmx1 : max r1 0 = r1 := by omega
  simp [RP.Showdown.settle, RP.Showdown.run, RP.Showdown.outer, RP.Showdown.inner, RP.Showdown.init, RP.Showdown.strongest, RP.Showdown.remaining, RP.Showdown.distribute, RP.Showdown.winnings, RP.Showdown.pay, RP.Showdown.isWinner,
    RP.Showdown.isComplete, RP.Showdown.below, RP.Showdown.maxNat?, RP.Showdown.minInt?, RP.Showdown.sumInt, h1, hr1, hm, hmx, hmx1]

theorem settle_fold1 (r0 r1 : Int) (s0 s1 : Nat) (st0 : Status) (h0 : st0 ≠ Status.folding)
    (hr1 : 0 ≤ r1) (hlt : r1 < r0) :
    RP.Showdown.settle [⟨r0, st0, s0, 0⟩, ⟨r1, Status.folding, s1, 0⟩] =
      [⟨r0, st0, s0, r0 + r1⟩, ⟨r1, Status.folding, s1, 0⟩] := by
  have hr0 : 0 < r0 := by omega
  have hm : min r1 r0 = r1 := by omega
  have hmx : max r0 0 = r0 := by omega
  have hmx1 : max r1 0 = r1 := by omega
  simp [RP.Showdown.settle, RP.Showdown.run, RP.Showdown.outer, RP.Showdown.inner, RP.Showdown.init, RP.Showdown.strongest, RP.Showdown.remaining, RP.Showdown.distribute, RP.Showdown.winnings, RP.Showdown.pay, RP.Showdown.isWinner,
    RP.Showdown.isComplete, RP.Showdown.below, RP.Showdown.maxNat?, RP.Showdown.minInt?, RP.Showdown.sumInt, h0, hr0, hm, hmx, hmx1]

theorem settle_show_gt (r : Int) (s0 s1 : Nat) (st0 st1 : Status) (h0 : st0 ≠ Status.folding)
    (h1 : st1 ≠ Status.folding) (hr : 0 < r) (hs : s1 < s0) :
    RP.Showdown.settle [⟨r, st0, s0, 0⟩, ⟨r, st1, s1, 0⟩] = [⟨r, st0, s0, r + r⟩, ⟨r, st1, s1, 0⟩] := by
  have hmx : max r 0 = r := by omega
  have hne : ¬ s1 = s0 := by omega
  have hms : max s0 s1 = s0 := by omega
  simp [RP.Showdown.settle, RP.Showdown.run, RP.Showdown.outer, RP.Showdown.inner, RP.Showdown.init, RP.Showdown.strongest, RP.Showdown.remaining, RP.Showdown.distribute, RP.Showdown.winnings, RP.Showdown.pay, RP.Showdown.isWinner,
    RP.Showdown.isComplete, RP.Showdown.below, RP.Showdown.maxNat?, RP.Showdown.minInt?, RP.Showdown.sumInt, h0, h1, hr, hmx, hne, hms]

theorem settle_show_lt (r : Int) (s0 s1 : Nat) (st0 st1 : Status) (h0 : st0 ≠ Status.folding)
    (h1 : st1 ≠ Status.folding) (hr : 0 < r) (hs : s0 < s1) :
    RP.Showdown.settle [⟨r, st0, s0, 0⟩, ⟨r, st1, s1, 0⟩] = [⟨r, st0, s0, 0⟩, ⟨r, st1, s1, r + r⟩] := by
  have hmx : max r 0 = r := by omega
  have hne : ¬ s0 = s1 := by omega
  have hms : max s0 s1 = s1 := by omega
  simp [RP.Showdown.settle, RP.Showdown.run, RP.Showdown.outer, RP.Showdown.inner, RP.Showdown.init, RP.Showdown.strongest, RP.Showdown.remaining, RP.Showdown.distribute, RP.Showdown.winnings, RP.Showdown.pay, RP.Showdown.isWinner,
    RP.Showdown.isComplete, RP.Showdown.below, RP.Showdown.maxNat?, RP.Showdown.minInt?, RP.Showdown.sumInt, h0, h1, hr, hmx, hne, hms]

theorem settle_show_eq (r : Int) (s : Nat) (st0 st1 : Status) (h0 : st0 ≠ Status.folding)
    (h1 : st1 ≠ Status.folding) (hr : 0 < r) :
    RP.Showdown.settle [⟨r, st0, s, 0⟩, ⟨r, st1, s, 0⟩] = [⟨r, st0, s, r⟩, ⟨r, st1, s, r⟩] := by
  have hmx : max r 0 = r := by omega
  have hd : Int.tdiv (r + r) 2 = r := by rw [Int.tdiv_eq_ediv_of_nonneg (by omega)]; omega
  have hmd : Int.tmod (r + r) 2 = 0 := by rw [Int.tmod_eq_emod_of_nonneg (by omega)]; omega
  simp [RP.Showdown.settle, RP.Showdown.run, RP.Showdown.outer, RP.Showdown.inner, RP.Showdown.init, RP.Showdown.strongest, RP.Showdown.remaining, RP.Showdown.distribute, RP.Showdown.winnings, RP.Showdown.pay, RP.Showdown.isWinner,
    RP.Showdown.isComplete, RP.Showdown.below, RP.Showdown.maxNat?, RP.Showdown.minInt?, RP.Showdown.sumInt, h0, h1, hr, hmx, hd, hmd]

theorem folded_pair {a o : Seat} (hp : PairInv a o) (hf : folding2 a o = true) :
    (a.state = Status.folding ∧ o.state ≠ Status.folding ∧ a.spent < o.spent) ∨
    (o.state = Status.folding ∧ a.state ≠ Status.folding ∧ o.spent < a.spent) := by
  obtain ⟨sa, ka, ea, pa, ha⟩ := a
  obtain ⟨so, ko, eo, po, ho⟩ := o
  obtain ⟨h1, h2, h3, h4, h5, h6, h7, h8, h9, h10, h11, h12, h13, h14, h15, h16, h17⟩ := hp
  simp only at *
  cases sa <;> cases so <;> simp [folding2] at * <;> omega

/-- what `GameInv` gives at the end of a hand -/
theorem terminal_view {g : Game} (h : GameInv g) (hs : mustStop g = true) :
    (g.s0.state = Status.folding ∧ g.s1.state ≠ Status.folding ∧ g.s0.spent < g.s1.spent) ∨
    (g.s1.state = Status.folding ∧ g.s0.state ≠ Status.folding ∧ g.s1.spent < g.s0.spent) ∨
    (street g = 3 ∧ g.s0.state ≠ Status.folding ∧ g.s1.state ≠ Status.folding ∧
      g.s0.spent = g.s1.spent) := by
  by_cases hf : isEveryoneFolding g = true
  · rw [folding_eq] at hf
    have := folded_pair h.pair hf
    rcases actor_other_cases g with ⟨ha, ho⟩ | ⟨ha, ho⟩ <;> rw [ha, ho] at this
    · rcases this with h | h
      · exact Or.inl h
      · exact Or.inr (Or.inl h)
    · rcases this with h | h
      · exact Or.inr (Or.inl h)
      · exact Or.inl h
  · have hf' : isEveryoneFolding g = false := by simpa using hf
    have hs3 : street g = 3 := by
      by_cases h3 : street g = 3
      · exact h3
      · unfold mustStop at hs; simp [h3, hf'] at hs
    have hal : isEveryoneAlright g = true := by unfold mustStop at hs; simpa [hs3] using hs
    rw [alright_eq] at hal; rw [folding_eq] at hf'
    have := chance_pair h.pair hal hf'
    right; right
    rcases actor_other_cases g with ⟨ha, ho⟩ | ⟨ha, ho⟩ <;> rw [ha, ho] at this
    · rcases this with ⟨a, b, _, d, _⟩ | ⟨a, b, d⟩ <;> exact ⟨hs3, by simp [a], by simp [b], d⟩
    · rcases this with ⟨a, b, _, d, _⟩ | ⟨a, b, d⟩ <;> exact ⟨hs3, by simp [b], by simp [a], d.symm⟩

theorem seats_view {g : Game} (h : GameInv g) :
    PairInv g.s0 g.s1 ∧ g.pot = g.s0.spent + g.s1.spent := by
  rcases actor_other_cases g with ⟨ha, ho⟩ | ⟨ha, ho⟩
  · rw [← ha, ← ho]; exact ⟨h.pair, h.pot_eq⟩
  · rw [← ha, ← ho]; exact ⟨h.pair.symm, by rw [h.pot_eq]; omega⟩

/-! ## the menu at a choice node -/

/-- `legal()` never hits its `assert!(options.len() > 0)` at a choice node: all-in is always on
the menu; and every entry of the menu is accepted by `is_allowed` (used by C11) -/
theorem legalChoice_spec {g : Game} (h : GameInv g) (hna : isEveryoneAlright g = false) :
    Action.shove (toShove g) ∈ legalChoice g ∧ ∀ a ∈ legalChoice g, isAllowed g a = true := by
  obtain ⟨_, hA, hO, hle, hk, hc, hr, hsv⟩ := choice_view h hna
  have hms : mayShove g = true := by unfold mayShove; rw [hsv]; simpa using hk
  constructor
  · unfold legalChoice; simp [hms]
  · intro a ha
    unfold legalChoice at ha
    simp only [List.mem_append] at ha
    rcases ha with (((ha | ha) | ha) | ha) | ha
    · by_cases hm : mayRaise g = true
      · simp only [hm, if_true, List.mem_singleton] at ha; subst ha
        rw [allowed_raise_iff h]
        unfold mayRaise at hm; rw [hr, hsv] at hm
        have : toCall g + max (toCall g) BB < (actor g).stack := by simpa using hm
        exact ⟨hna, by omega, by omega⟩
      · simp [hm] at ha
    · simp only [hms, if_true, List.mem_singleton] at ha; subst ha
      rw [allowed_shove_iff h]; exact ⟨hna, hsv⟩
    · by_cases hm : mayCall g = true
      · simp only [hm, if_true, List.mem_singleton] at ha; subst ha
        rw [allowed_call_iff h]
        unfold mayCall mayFold at hm; rw [hsv] at hm
        simp only [Bool.and_eq_true, decide_eq_true_eq] at hm
        exact ⟨hna, rfl, hm.1, hm.2⟩
      · simp [hm] at ha
    · by_cases hm : mayFold g = true
      · simp only [hm, if_true, List.mem_singleton] at ha; subst ha
        rw [allowed_fold_iff h]; unfold mayFold at hm; exact ⟨hna, by simpa using hm⟩
      · simp [hm] at ha
    · by_cases hm : mayCheck g = true
      · simp only [hm, if_true, List.mem_singleton] at ha; subst ha
        rw [allowed_check_iff h]; unfold mayCheck at hm
        refine ⟨hna, ?_⟩
        unfold toCall; have : effectiveStake g = (actor g).stake := by simpa using hm
        omega
      · simp [hm] at ha

end RP.Game
