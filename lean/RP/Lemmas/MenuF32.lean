import RP.Lemmas.Menu
/-! Kernel evaluation of the `f32` product of `Game::actionize` on Lean's IEEE-754 `Float32`
(`RP.Menu.betF32`) against the integer floor (`RP.Menu.betFloor`): one `decide +kernel` per entry
of `Odds::GRID`, 201 pots each (≈ 5 s per row). Kept in its own module so that it is compiled
once; used by `RP.C11.C11_f32_floor`. Core Lean only. -/
namespace RP.Menu

theorem grid_length : gridOdds.length = 10 := by decide

/-- one row of the table: every pot `0..=2·STACK` for one odds -/
def f32Row (o : Nat × Nat) : Bool :=
  (List.range (2 * RP.Gen.STACK + 1)).all fun p => betF32 p o.1 o.2 == betFloor p o.1 o.2

theorem f32_row0 : f32Row (gridOdds.getD 0 (0, 0)) = true := by decide +kernel
theorem f32_row1 : f32Row (gridOdds.getD 1 (0, 0)) = true := by decide +kernel
theorem f32_row2 : f32Row (gridOdds.getD 2 (0, 0)) = true := by decide +kernel
theorem f32_row3 : f32Row (gridOdds.getD 3 (0, 0)) = true := by decide +kernel
theorem f32_row4 : f32Row (gridOdds.getD 4 (0, 0)) = true := by decide +kernel
theorem f32_row5 : f32Row (gridOdds.getD 5 (0, 0)) = true := by decide +kernel
theorem f32_row6 : f32Row (gridOdds.getD 6 (0, 0)) = true := by decide +kernel
theorem f32_row7 : f32Row (gridOdds.getD 7 (0, 0)) = true := by decide +kernel
theorem f32_row8 : f32Row (gridOdds.getD 8 (0, 0)) = true := by decide +kernel
theorem f32_row9 : f32Row (gridOdds.getD 9 (0, 0)) = true := by decide +kernel

theorem f32_rows : ∀ o ∈ gridOdds, f32Row o = true := by
  intro o ho
  obtain ⟨i, hi, rfl⟩ := List.getElem_of_mem ho
  have hl := grid_length
  have e : gridOdds[i] = gridOdds.getD i (0, 0) := by simp [List.getD, hi]
  rw [e]
  have : i = 0 ∨ i = 1 ∨ i = 2 ∨ i = 3 ∨ i = 4 ∨ i = 5 ∨ i = 6 ∨ i = 7 ∨ i = 8 ∨ i = 9 := by omega
  rcases this with rfl | rfl | rfl | rfl | rfl | rfl | rfl | rfl | rfl | rfl
  · exact f32_row0
  · exact f32_row1
  · exact f32_row2
  · exact f32_row3
  · exact f32_row4
  · exact f32_row5
  · exact f32_row6
  · exact f32_row7
  · exact f32_row8
  · exact f32_row9


end RP.Menu
