import RP.Model.Iso
/-! # C05: the 24-row table `Permutation::exhaust()` (generated as `RP.Gen.permExhaust`)

Finite facts about the table, all by `decide` on the generated value: it is exactly the set of
rearrangements of the four suits, every row is a bijection on suits, the table is closed under
composition, and `invFold` (the loop `permutation[suit] = i` of `Permutation::from`) inverts a row. -/
namespace RP.Iso
open List

/-- the relabelings of suits: rows of `Permutation::exhaust()` -/
abbrev S4 : List (List Nat) := RP.Gen.permExhaust

theorem S4_length : S4.length = 24 := by decide
theorem S4_nodup : S4.Nodup := by decide

theorem S4_perm : ∀ p ∈ S4, p.Perm [0, 1, 2, 3] := by decide

/-- every rearrangement of the four suits is a row of the table -/
theorem mem_S4_of_perm {l : List Nat} (h : l.Perm [0, 1, 2, 3]) : l ∈ S4 := by
  have hl := h.length_eq
  match l, hl with
  | [a, b, c, d], _ =>
    have ha : a ∈ [0, 1, 2, 3] := h.subset (by simp)
    have hb : b ∈ [0, 1, 2, 3] := h.subset (by simp)
    have hc : c ∈ [0, 1, 2, 3] := h.subset (by simp)
    have hd : d ∈ [0, 1, 2, 3] := h.subset (by simp)
    have nd : [a, b, c, d].Nodup := h.nodup_iff.2 (by decide)
    simp only [mem_cons, not_mem_nil, or_false] at ha hb hc hd
    simp only [nodup_cons, mem_cons, not_mem_nil, or_false, not_or, nodup_nil, and_true] at nd
    rcases ha with rfl | rfl | rfl | rfl <;> rcases hb with rfl | rfl | rfl | rfl <;>
      rcases hc with rfl | rfl | rfl | rfl <;> rcases hd with rfl | rfl | rfl | rfl <;>
      first | (exfalso; omega) | decide

/-- **the generated table is exactly S₄** -/
theorem exhaust_is_S4 (l : List Nat) : l ∈ RP.Gen.permExhaust ↔ l.Perm [0, 1, 2, 3] :=
  ⟨S4_perm l, mem_S4_of_perm⟩

theorem pmap_lt : ∀ p ∈ S4, ∀ s, s < 4 → pmap p s < 4 := by decide
theorem pmap_inj : ∀ p ∈ S4, ∀ s, s < 4 → ∀ t, t < 4 → pmap p s = pmap p t → s = t := by decide
theorem pmap_surj : ∀ p ∈ S4, ∀ t, t < 4 → ∃ s, s < 4 ∧ pmap p s = t := by decide

theorem S4_eq_getD : ∀ p ∈ S4, p = [pmap p 0, pmap p 1, pmap p 2, pmap p 3] := by decide

/-- composition `s ↦ q[p[s]]` -/
def comp (q p : List Nat) : List Nat := [0, 1, 2, 3].map (fun s => pmap q (pmap p s))

theorem comp_mem : ∀ p ∈ S4, ∀ q ∈ S4, comp q p ∈ S4 := by decide
theorem pmap_comp (q p : List Nat) {s : Nat} (hs : s < 4) : pmap (comp q p) s = pmap q (pmap p s) := by
  have : s = 0 ∨ s = 1 ∨ s = 2 ∨ s = 3 := by omega
  rcases this with rfl | rfl | rfl | rfl <;> rfl

theorem invFold_mem : ∀ sg ∈ S4, invFold sg ∈ S4 := by decide
/-- `invFold sg` sends the `i`-th sorted suit to `i` -/
theorem invFold_getD : ∀ sg ∈ S4, ∀ i, i < 4 → pmap (invFold sg) (sg.getD i 0) = i := by decide
theorem invFold_inv : ∀ sg ∈ S4, ∀ s, s < 4 → sg.getD (pmap (invFold sg) s) 0 = s := by decide
theorem invFold_id : ∀ sg ∈ S4, (invFold sg = suits ↔ sg = [0, 1, 2, 3]) := by decide
/-- a row is inverted by the `invFold` of itself read as a sorted-suit list -/
theorem comp_invFold : ∀ p ∈ S4, comp (invFold p) p = [0, 1, 2, 3] := by decide

theorem comp_self_invFold : ∀ sg ∈ S4, comp sg (invFold sg) = [0, 1, 2, 3] := by decide

theorem suits_mem_S4 : suits ∈ S4 := by decide

end RP.Iso
