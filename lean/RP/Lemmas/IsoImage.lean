import RP.Lemmas.IsoKeys
/-! # C05, bit level: `Permutation::image` never trips `Hand::add`'s assertion and keeps the card count -/
namespace RP.Iso
open RP.Bits

theorem shift_disjoint {m : Nat} (hm : MaskOK m) {p : List Nat} {s t : Nat} (hs : s < 4) (ht : t < 4)
    (hps : pmap p s < 4) (hpt : pmap p t < 4) (hne : pmap p s ≠ pmap p t) (h h' : Nat) :
    shift m p s h &&& shift m p t h' = 0 := by
  apply Nat.eq_of_testBit_eq
  intro i
  rw [Nat.testBit_and, shift_testBit hm hs hps, shift_testBit hm ht hpt, Nat.zero_testBit]
  by_cases e : i % 4 = pmap p s
  · have : ¬ i % 4 = pmap p t := by omega
    simp [this]
  · simp [e]

section
variable {m : Nat} (hm : MaskOK m) {p : List Nat} (hp : p ∈ S4) (h : Nat)
include hm hp

theorem shifts_disjoint :
    shift m p 0 h &&& shift m p 1 h = 0 ∧
    (shift m p 0 h ||| shift m p 1 h) &&& shift m p 2 h = 0 ∧
    (shift m p 0 h ||| shift m p 1 h ||| shift m p 2 h) &&& shift m p 3 h = 0 := by
  have r := pmap_lt p hp
  have inj := pmap_inj p hp
  have d : ∀ s t, s < 4 → t < 4 → s ≠ t → shift m p s h &&& shift m p t h = 0 := by
    intro s t hs ht hst
    exact shift_disjoint hm hs ht (r s hs) (r t ht) (fun e => hst (inj s hs t ht e)) h h
  refine ⟨d 0 1 (by omega) (by omega) (by omega), ?_, ?_⟩
  · rw [Nat.and_or_distrib_right, d 0 2 (by omega) (by omega) (by omega),
      d 1 2 (by omega) (by omega) (by omega)]; rfl
  · rw [Nat.and_or_distrib_right, Nat.and_or_distrib_right, d 0 3 (by omega) (by omega) (by omega),
      d 1 3 (by omega) (by omega) (by omega), d 2 3 (by omega) (by omega) (by omega)]; rfl

/-- `Hand::add`'s `assert!` never fires inside `Permutation::image` -/
theorem image?_eq : image? m p h = some (image m p h) := by
  obtain ⟨d1, d2, d3⟩ := shifts_disjoint hm hp h
  rw [image_eq]
  simp [image?, suits_eq, List.foldl, add?, d1, d2, d3]

theorem size_shift_eq {s : Nat} (hs : s < 4) : size (shift m p s h) = size (norm m h s) := by
  rw [shift_eq_norm hm hs (pmap_lt p hp s hs), size_shift (norm_normalized m h s).lt (pmap_lt p hp s hs)]

/-- relabeling keeps the number of cards (of the part of the hand inside the deck) -/
theorem size_image (hh : h &&& m = h) : size (image m p h) = size h := by
  obtain ⟨d1, d2, d3⟩ := shifts_disjoint hm hp h
  rw [image_eq, size_norms hm hh]
  unfold size
  rw [popW_or_disjoint 64 _ _ d3, popW_or_disjoint 64 _ _ d2, popW_or_disjoint 64 _ _ d1]
  have e := fun s (hs : s < 4) => size_shift_eq hm hp h hs
  unfold size at e
  rw [e 0 (by omega), e 1 (by omega), e 2 (by omega), e 3 (by omega)]

end

/-- card-by-card meaning of a relabeling: card `(rank r, suit s)` of `h` is card `(r, p[s])` of `h'` -/
def Relabel (p : List Nat) (h h' : Nat) : Prop :=
  ∀ r s, s < 4 → h'.testBit (4 * r + pmap p s) = h.testBit (4 * r + s)

/-- **shift by the suit difference = relabel** -/
theorem image_relabel {m : Nat} (hm : MaskOK m) {p : List Nat} (hp : p ∈ S4) {h : Nat}
    (hh : h &&& m = h) : Relabel p h (image m p h) := by
  intro r s hs
  have ht := pmap_lt p hp s hs
  have hi : (4 * r + pmap p s) % 4 = pmap p s := by omega
  rw [image_testBit_at hm hp hs h hi]
  have e : (4 * r + pmap p s) / 4 * 4 + s = 4 * r + s := by omega
  rw [e]
  have hmm : m.testBit (4 * r + pmap p s) = m.testBit (4 * r + s) := hm.sym (by omega)
  rw [hmm]
  have : h.testBit (4 * r + s) = (h.testBit (4 * r + s) && m.testBit (4 * r + s)) := by
    rw [← Nat.testBit_and, hh]
  rw [this]
  cases h.testBit (4 * r + s) <;> cases m.testBit (4 * r + s) <;> rfl

end RP.Iso
