import RP.Props.C06Classes
import RP.Props.C06Burnside
import Mathlib.Algebra.BigOperators.Group.Finset.Basic
import Mathlib.Algebra.BigOperators.Group.Finset.Sigma
/-! # Burnside's lemma for the suit relabelings, by double counting

`24 · #classes = Σ_π #{legal observations fixed by π}` for every street and both decks. The group
is the generated 24-row table `RP.Gen.permExhaust` with C05's `comp` / `invFold`; the group laws that
are needed are decided on the table, the action laws are C05's `image_image` / `image_id`, and the
orbit representatives are the yielded classes (`C06_one_per_class_iso`). -/
namespace RP.C06
open RP.Bits RP.Hands RP.Spec

/-! ## the laws of the table that the counting argument uses -/

theorem inv_comp_comp : ∀ σ ∈ RP.Gen.permExhaust, ∀ τ ∈ RP.Gen.permExhaust,
    Iso.comp (Iso.invFold σ) (Iso.comp σ τ) = τ := by decide +kernel
theorem comp_inv_comp : ∀ σ ∈ RP.Gen.permExhaust, ∀ π ∈ RP.Gen.permExhaust,
    Iso.comp σ (Iso.comp (Iso.invFold σ) π) = π := by decide +kernel
theorem inv_comp_self : ∀ σ ∈ RP.Gen.permExhaust, Iso.comp (Iso.invFold σ) σ = [0, 1, 2, 3] := by decide +kernel

/-! ## the action on observations written as pairs -/

def toObs (o : Nat × Nat) : Iso.Obs := ⟨o.1, o.2⟩
def ofObs (o : Iso.Obs) : Nat × Nat := (o.pocket, o.board)

theorem toObs_ofObs (o : Iso.Obs) : toObs (ofObs o) = o := rfl
theorem ofObs_toObs (o : Nat × Nat) : ofObs (toObs o) = o := rfl

/-- relabel an observation by a row of the table -/
def act (short : Bool) (π : List Nat) (o : Nat × Nat) : Nat × Nat :=
  ofObs (Iso.permute (deckMask short) π (toObs o))

def canonP (short : Bool) (o : Nat × Nat) : Nat × Nat := ofObs (Iso.canon (deckMask short) (toObs o))

theorem act_act (short : Bool) {p q : List Nat} (hp : p ∈ RP.Gen.permExhaust) (hq : q ∈ RP.Gen.permExhaust)
    (o : Nat × Nat) : act short q (act short p o) = act short (Iso.comp q p) o := by
  unfold act
  rw [toObs_ofObs]
  simp only [Iso.permute, ofObs, Iso.image_image (deckMask_ok short) hp hq]

theorem act_id (short : Bool) (o : Nat × Nat) (h1 : o.1 &&& deckMask short = o.1)
    (h2 : o.2 &&& deckMask short = o.2) : act short [0, 1, 2, 3] o = o := by
  unfold act
  simp only [Iso.permute, ofObs, toObs, Iso.image_id (deckMask_ok short) h1, Iso.image_id (deckMask_ok short) h2]

/-! ## observations, classes and the action -/

theorem mem_obs_legal (short : Bool) (street : Nat) (hs : street ≤ 3) (o : Nat × Nat) :
    o ∈ Hands.observations short street ↔ Legal short street (toObs o) :=
  mem_observations_iff short street hs o.1 o.2

theorem act_mem (short : Bool) (street : Nat) (hs : street ≤ 3) {o : Nat × Nat} {π : List Nat}
    (ho : o ∈ Hands.observations short street) (hπ : π ∈ RP.Gen.permExhaust) :
    act short π o ∈ Hands.observations short street := by
  rw [mem_obs_legal short street hs] at ho ⊢
  exact ho.permute hs hπ

theorem act_inv_left (short : Bool) (street : Nat) (hs : street ≤ 3) {o : Nat × Nat} {π : List Nat}
    (ho : o ∈ Hands.observations short street) (hπ : π ∈ RP.Gen.permExhaust) :
    act short (Iso.invFold π) (act short π o) = o := by
  have hl := (mem_obs_legal short street hs o).mp ho
  rw [act_act short hπ (Iso.invFold_mem π hπ), inv_comp_self π hπ]
  exact act_id short o hl.pocket_in hl.board_in

theorem act_inv_right (short : Bool) (street : Nat) (hs : street ≤ 3) {o : Nat × Nat} {π : List Nat}
    (ho : o ∈ Hands.observations short street) (hπ : π ∈ RP.Gen.permExhaust) :
    act short π (act short (Iso.invFold π) o) = o := by
  have hl := (mem_obs_legal short street hs o).mp ho
  rw [act_act short (Iso.invFold_mem π hπ) hπ, Iso.comp_self_invFold π hπ]
  exact act_id short o hl.pocket_in hl.board_in

theorem canonP_eq_act (short : Bool) (o : Nat × Nat) :
    canonP short o = act short (Iso.permOf (deckMask short) (toObs o)) o := rfl

theorem canonP_act (short : Bool) (street : Nat) (hs : street ≤ 3) {o : Nat × Nat} {π : List Nat}
    (ho : o ∈ Hands.observations short street) (hπ : π ∈ RP.Gen.permExhaust) :
    canonP short (act short π o) = canonP short o := by
  have hl := (mem_obs_legal short street hs o).mp ho
  unfold canonP act
  rw [toObs_ofObs, C05.C05_invariant (deckMask_ok short) (hl.wellFormed hs).toValid hπ]

theorem canonP_mem (short : Bool) (street : Nat) (hs : street ≤ 3) {o : Nat × Nat}
    (ho : o ∈ Hands.observations short street) : canonP short o ∈ classes short street := by
  have hl := (mem_obs_legal short street hs o).mp ho
  have hmem := (C06_classes_are_canonical short street hs).2
  show ((Iso.canon (deckMask short) (toObs o)).pocket, (Iso.canon (deckMask short) (toObs o)).board) ∈ _
  rw [hmem]
  exact ⟨hl.permute hs (Iso.permOf_mem _ _), (C05.C05_idempotent (deckMask_ok short) _).2⟩

theorem class_fixed (short : Bool) (street : Nat) (hs : street ≤ 3) {c : Nat × Nat}
    (hc : c ∈ classes short street) : c ∈ Hands.observations short street ∧ canonP short c = c := by
  have hmem := (C06_classes_are_canonical short street hs).2 c.1 c.2
  obtain ⟨hl, hcan⟩ := hmem.mp hc
  refine ⟨(mem_obs_legal short street hs c).mpr hl, ?_⟩
  unfold canonP
  have : Iso.canon (deckMask short) (toObs c) = toObs c :=
    C05.canon_of_isCanonical (deckMask_ok short) (hl.wellFormed hs).toValid hcan
  rw [this]; rfl

/-! ## the double count -/

/-- observations of the street fixed by the relabeling `π` -/
def fixCount (short : Bool) (street : Nat) (π : List Nat) : Nat :=
  ((Hands.observations short street).filter (fun o => decide (act short π o = o))).length

theorem observations_nodup (short : Bool) (street : Nat) (hs : street ≤ 3) :
    (Hands.observations short street).Nodup := by
  rw [C06_observations_spec short street hs]
  unfold Spec.observations
  rw [List.nodup_flatMap]
  constructor
  · intro p _
    exact List.Nodup.map (fun a b h => (Prod.mk.injEq _ _ _ _ ▸ h).2)
      ((ksubsets_sorted _ _ _).imp (fun h => Nat.ne_of_lt h)) |> fun h => by simpa [List.Nodup] using h
  · refine (ksubsets_sorted _ _ _).imp ?_
    intro p q hpq
    simp only [Function.onFun, List.disjoint_left, List.mem_map]
    rintro x ⟨b, _, rfl⟩ ⟨b', _, h⟩
    have := (Prod.mk.injEq _ _ _ _ ▸ h).1
    omega

/-- Burnside's lemma by double counting, for a finite "group" given as a list `G` with composition
`comp` and inverse `inv` acting on a list `O`, with a canonical-form function that picks one
element `canon o = act (σ o) o` per orbit and whose values are the list `C`. -/
theorem burnside_count {α : Type} [DecidableEq α] (G : List (List Nat)) (O C : List α)
    (hG : G.Nodup) (hO : O.Nodup) (hC : C.Nodup)
    (comp : List Nat → List Nat → List Nat) (inv : List Nat → List Nat)
    (act : List Nat → α → α) (canon : α → α) (σ : α → List Nat)
    (hσ : ∀ o, σ o ∈ G) (hcomp : ∀ p ∈ G, ∀ q ∈ G, comp q p ∈ G) (hinv : ∀ p ∈ G, inv p ∈ G)
    (l1 : ∀ s ∈ G, ∀ t ∈ G, comp (inv s) (comp s t) = t)
    (l2 : ∀ s ∈ G, ∀ t ∈ G, comp s (comp (inv s) t) = t)
    (act_act : ∀ p ∈ G, ∀ q ∈ G, ∀ o, act q (act p o) = act (comp q p) o)
    (act_mem : ∀ o ∈ O, ∀ p ∈ G, act p o ∈ O)
    (inv_left : ∀ o ∈ O, ∀ p ∈ G, act (inv p) (act p o) = o)
    (inv_right : ∀ o ∈ O, ∀ p ∈ G, act p (act (inv p) o) = o)
    (canon_eq : ∀ o, canon o = act (σ o) o)
    (canon_act : ∀ o ∈ O, ∀ p ∈ G, canon (act p o) = canon o)
    (canon_mem : ∀ o ∈ O, canon o ∈ C)
    (class_fixed : ∀ c ∈ C, c ∈ O ∧ canon c = c) :
    C.length * G.length = (G.map (fun p => (O.filter (fun o => decide (act p o = o))).length)).sum := by
  classical
  let Q : Finset (Σ _ : List Nat, α) :=
    G.toFinset.sigma (fun p => (O.filter (fun o => decide (act p o = o))).toFinset)
  have hQ : Q.card = (G.map (fun p => (O.filter (fun o => decide (act p o = o))).length)).sum := by
    rw [Finset.card_sigma, List.sum_toFinset _ hG]
    congr 1
    apply List.map_congr_left
    intro p _
    exact List.toFinset_card_of_nodup (hO.filter _)
  have hT : (C.toFinset ×ˢ G.toFinset).card = C.length * G.length := by
    rw [Finset.card_product, List.toFinset_card_of_nodup hC, List.toFinset_card_of_nodup hG]
  rw [← hQ, ← hT]
  symm
  have memQ : ∀ x : (Σ _ : List Nat, α), x ∈ Q ↔ x.1 ∈ G ∧ x.2 ∈ O ∧ act x.1 x.2 = x.2 := by
    intro x
    simp only [Q, Finset.mem_sigma, List.mem_toFinset, List.mem_filter, decide_eq_true_eq]
  have memT : ∀ y : α × List Nat, y ∈ C.toFinset ×ˢ G.toFinset ↔ y.1 ∈ C ∧ y.2 ∈ G := by
    intro y
    simp only [Finset.mem_product, List.mem_toFinset]
  apply Finset.card_nbij'
    (i := fun x => (canon x.2, comp (σ x.2) x.1))
    (j := fun y => ⟨comp (inv (σ (act (inv y.2) y.1))) y.2, act (inv y.2) y.1⟩)
  · intro x hx
    rw [Finset.mem_coe, memQ] at hx
    rw [Finset.mem_coe, memT]
    exact ⟨canon_mem _ hx.2.1, hcomp _ hx.1 _ (hσ _)⟩
  · intro y hy
    rw [Finset.mem_coe, memT] at hy
    obtain ⟨hc, hp⟩ := hy
    obtain ⟨hco, hcc⟩ := class_fixed _ hc
    have hpi := hinv _ hp
    have ho' := act_mem _ hco _ hpi
    rw [Finset.mem_coe, memQ]
    have hsi := hinv _ (hσ (act (inv y.2) y.1))
    refine ⟨hcomp _ hp _ hsi, ho', ?_⟩
    show act (comp (inv (σ (act (inv y.2) y.1))) y.2) (act (inv y.2) y.1) = act (inv y.2) y.1
    rw [← act_act _ hp _ hsi, inv_right _ hco _ hp]
    have hcan : canon (act (inv y.2) y.1) = y.1 := by rw [canon_act _ hco _ hpi, hcc]
    have h2 : y.1 = act (σ (act (inv y.2) y.1)) (act (inv y.2) y.1) := by
      rw [← canon_eq]; exact hcan.symm
    generalize act (inv y.2) y.1 = o' at *
    rw [h2]
    exact inv_left _ ho' _ (hσ _)
  · intro x hx
    rw [Finset.mem_coe, memQ] at hx
    obtain ⟨ht, ho, hfix⟩ := hx
    have hp := hcomp _ ht _ (hσ x.2)
    have hx' : act (inv (comp (σ x.2) x.1)) (canon x.2) = x.2 := by
      have h1 : canon x.2 = act (comp (σ x.2) x.1) x.2 := by
        rw [← act_act _ ht _ (hσ x.2), hfix]; exact canon_eq _
      rw [h1]
      exact inv_left _ ho _ hp
    show (⟨comp (inv (σ (act (inv (comp (σ x.2) x.1)) (canon x.2)))) (comp (σ x.2) x.1),
        act (inv (comp (σ x.2) x.1)) (canon x.2)⟩ : Σ _ : List Nat, α) = x
    rw [hx', l1 _ (hσ x.2) _ ht]
  · intro y hy
    rw [Finset.mem_coe, memT] at hy
    obtain ⟨hc, hp⟩ := hy
    obtain ⟨hco, hcc⟩ := class_fixed _ hc
    have hpi := hinv _ hp
    have hcan : canon (act (inv y.2) y.1) = y.1 := by rw [canon_act _ hco _ hpi, hcc]
    show (canon (act (inv y.2) y.1), comp (σ (act (inv y.2) y.1)) (comp (inv (σ (act (inv y.2) y.1))) y.2)) = y
    rw [hcan, l2 _ (hσ _) _ hp]

/-- **Burnside's lemma for the suit relabelings**: 24 times the number of yielded classes is the
total number of (observation, relabeling) pairs with the relabeling fixing the observation. -/
theorem classes_mul_24 (short : Bool) (street : Nat) (hs : street ≤ 3) :
    (classes short street).length * 24 = (RP.Gen.permExhaust.map (fixCount short street)).sum := by
  have hndO := observations_nodup short street hs
  have hndC : (classes short street).Nodup := by
    rw [(C06_classes_are_canonical short street hs).1]; exact hndO.filter _
  have h := burnside_count RP.Gen.permExhaust (Hands.observations short street) (classes short street)
    permExhaust_is_S4.2.1 hndO hndC Iso.comp Iso.invFold (act short) (canonP short)
    (fun o => Iso.permOf (deckMask short) (toObs o))
    (fun o => Iso.permOf_mem _ _) Iso.comp_mem Iso.invFold_mem inv_comp_comp comp_inv_comp
    (fun p hp q hq o => act_act short hp hq o)
    (fun o ho p hp => act_mem short street hs ho hp)
    (fun o ho p hp => act_inv_left short street hs ho hp)
    (fun o ho p hp => act_inv_right short street hs ho hp)
    (fun o => canonP_eq_act short o)
    (fun o ho p hp => canonP_act short street hs ho hp)
    (fun o ho => canonP_mem short street hs ho)
    (fun c hc => class_fixed short street hs hc)
  rw [permExhaust_is_S4.1] at h
  exact h

end RP.C06
