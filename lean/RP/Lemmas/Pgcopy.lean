import RP.Model.Pgcopy
/-! Lemmas about the wire layer of `RP.Pgcopy` (core Lean only). -/
namespace RP.Pgcopy

/-! ## bytes -/

@[simp] theorem be_length (n v : Nat) : (be n v).length = n := by
  induction n generalizing v with
  | zero => simp [be]
  | succ n ih => simp [be, ih]

theorem beVal_snoc (l : Bytes) (b : Nat) : beVal (l ++ [b]) = beVal l * 256 + b := by
  simp [beVal, List.foldl_append]

theorem beVal_be (n v : Nat) (h : v < 256 ^ n) : beVal (be n v) = v := by
  induction n generalizing v with
  | zero => simp [be, beVal] at *; omega
  | succ n ih =>
    have h' : v / 256 < 256 ^ n := by
      rw [Nat.pow_succ] at h
      exact Nat.div_lt_of_lt_mul (by rw [Nat.mul_comm]; exact h)
    simp only [be, beVal_snoc, ih _ h']
    omega

theorem readN_append (n : Nat) (a b : Bytes) (h : a.length = n) : readN n (a ++ b) = some (a, b) := by
  subst h
  simp [readN]

theorem readN_short (n : Nat) (bs : Bytes) (h : bs.length < n) : readN n bs = none := by
  have : (List.take n bs).length ≠ n := by
    rw [List.length_take]; omega
  simp only [readN]
  rw [if_neg this]

theorem readN_some_length {n : Nat} {bs a b : Bytes} (h : readN n bs = some (a, b)) :
    a.length = n ∧ bs = a ++ b := by
  simp only [readN] at h
  split at h
  · rename_i hl
    simp only [Option.some.injEq, Prod.mk.injEq] at h
    obtain ⟨h1, h2⟩ := h
    subst h1; subst h2
    exact ⟨hl, (List.take_append_drop n bs).symm⟩
  · simp at h

/-! ## fields -/

theorem fits_length {wfs : List WField} {vals : List Nat} (h : fits wfs vals) : vals.length = wfs.length := by
  induction wfs generalizing vals with
  | nil => cases vals <;> simp_all [fits]
  | cons f fs ih =>
    cases vals with
    | nil => simp [fits] at h
    | cons v vs => simp only [fits] at h; simp [ih h.2]

/-- bytes of the fields of one row, by layout alone -/
def fieldsLen : List WField → Nat
  | [] => 0
  | f :: fs => 4 + f.width + fieldsLen fs

theorem encFields_length {wfs : List WField} {vals : List Nat} (h : fits wfs vals) :
    (encFields wfs vals).length = fieldsLen wfs := by
  induction wfs generalizing vals with
  | nil => cases vals <;> simp_all [fits, encFields, fieldsLen]
  | cons f fs ih =>
    cases vals with
    | nil => simp [fits] at h
    | cons v vs =>
      simp only [fits] at h
      simp [encFields, fieldsLen, ih h.2]
      omega

theorem compat_cons {w : WField} {ws : List WField} {r : RField} {rs : List RField}
    (h : compat (w :: ws) (r :: rs) = true) :
    w.width = r.width ∧ w.len < 4294967296 ∧ (∀ n, r.check = some n → w.len = n) ∧ compat ws rs = true := by
  simp only [compat, Bool.and_eq_true, beq_iff_eq, decide_eq_true_eq] at h
  obtain ⟨⟨⟨h1, h2⟩, h3⟩, h4⟩ := h
  refine ⟨h1, h2, ?_, h4⟩
  intro n hn
  rw [hn] at h3
  simpa using h3

theorem take_append_ge (a b : Bytes) (k : Nat) (h : a.length ≤ k) :
    (a ++ b).take k = a ++ b.take (k - a.length) := by
  rw [List.take_append, List.take_of_length_le h]

/-- reading back the fields of a row that is completely there -/
theorem decFields_encFields {wfs : List WField} {rfs : List RField} {vals : List Nat} (rest : Bytes)
    (hc : compat wfs rfs = true) (hf : fits wfs vals) :
    decFields rfs (encFields wfs vals ++ rest) = some (vals, rest) := by
  induction wfs generalizing rfs vals with
  | nil =>
    cases rfs with
    | nil => cases vals <;> simp_all [fits, encFields, decFields]
    | cons r rs => simp [compat] at hc
  | cons w ws ih =>
    cases rfs with
    | nil => simp [compat] at hc
    | cons r rs =>
      cases vals with
      | nil => simp [fits] at hf
      | cons v vs =>
        obtain ⟨hw, hl, hck, hc'⟩ := compat_cons hc
        simp only [fits] at hf
        obtain ⟨hv, hf'⟩ := hf
        have hlen : w.len < 256 ^ 4 := by
          have : (256 : Nat) ^ 4 = 4294967296 := by decide
          omega
        have hw' : r.width = w.width := hw.symm
        cases hr : r.check with
        | none =>
          simp only [encFields, decFields, List.append_assoc, readN_append 4 _ _ (be_length 4 _), hr,
            if_true, hw', readN_append w.width _ _ (be_length _ _), ih hc' hf', beVal_be _ _ hv]
        | some n =>
          have := hck n hr
          subst this
          simp only [encFields, decFields, List.append_assoc, readN_append 4 _ _ (be_length 4 _), hr,
            beVal_be 4 _ hlen, beq_self_eq_true, if_true, hw', readN_append w.width _ _ (be_length _ _),
            ih hc' hf', beVal_be _ _ hv]

/-- a row cut anywhere inside its fields: some read comes up short -/
theorem decFields_trunc {wfs : List WField} {rfs : List RField} {vals : List Nat} (rest : Bytes) (k : Nat)
    (hc : compat wfs rfs = true) (hf : fits wfs vals) (hk : k < fieldsLen wfs) :
    decFields rfs ((encFields wfs vals ++ rest).take k) = none := by
  induction wfs generalizing rfs vals k with
  | nil => simp [fieldsLen] at hk
  | cons w ws ih =>
    cases rfs with
    | nil => simp [compat] at hc
    | cons r rs =>
      cases vals with
      | nil => simp [fits] at hf
      | cons v vs =>
        obtain ⟨hw, _, _, hc'⟩ := compat_cons hc
        simp only [fits] at hf
        obtain ⟨_, hf'⟩ := hf
        have hw' : r.width = w.width := hw.symm
        simp only [encFields, List.append_assoc, fieldsLen] at hk ⊢
        by_cases h4 : k < 4
        · -- the length word itself is cut
          simp only [decFields, readN_short 4 _ (Nat.lt_of_le_of_lt (List.length_take_le _ _) h4)]
        · rw [take_append_ge _ _ _ (by rw [be_length]; omega), be_length]
          by_cases hwk : k - 4 < w.width
          · simp only [decFields, readN_append 4 _ _ (be_length 4 _), hw',
              readN_short w.width _ (Nat.lt_of_le_of_lt (List.length_take_le _ _) hwk)]
            split <;> simp
          · rw [take_append_ge _ _ _ (by rw [be_length]; omega), be_length]
            simp only [decFields, readN_append 4 _ _ (be_length 4 _), hw',
              readN_append w.width _ _ (be_length _ _), ih (k - 4 - w.width) hc' hf' (by omega)]
            split <;> simp

/-! ## the row loop -/

theorem specOK_iff (s : Spec) : specOK s = true ↔
    (compat s.wfields s.rfields = true ∧ s.nfields = s.rowtag ∧ s.nfields < 65536 ∧ s.footer < 65536 ∧
      s.rowtag ≠ s.footer ∧ s.header.length = s.seek) := by
  simp only [specOK, Bool.and_eq_true, beq_iff_eq, decide_eq_true_eq, bne_iff_ne, ne_eq]
  constructor
  · rintro ⟨⟨⟨⟨⟨a, b⟩, c⟩, d⟩, e⟩, f⟩; exact ⟨a, b, c, d, e, f⟩
  · rintro ⟨a, b, c, d, e, f⟩; exact ⟨⟨⟨⟨⟨a, b⟩, c⟩, d⟩, e⟩, f⟩

theorem encRow_length {s : Spec} {vals : List Nat} (hf : fits s.wfields vals) :
    (encRow s vals).length = 2 + fieldsLen s.wfields := by
  simp [encRow, encFields_length hf]

def rowLen (s : Spec) : Nat := 2 + fieldsLen s.wfields

theorem encRows_length {s : Spec} {rows : List (List Nat)} (hf : ∀ r ∈ rows, fits s.wfields r) :
    (encRows s rows).length = rows.length * rowLen s := by
  induction rows with
  | nil => simp [encRows]
  | cons r rs ih =>
    have h1 := encRow_length (hf r (by simp))
    have h2 := ih (fun r hr => hf r (by simp [hr]))
    simp only [encRows, List.flatMap_cons, List.length_append, List.length_cons] at *
    rw [h1, h2, rowLen, Nat.add_mul]
    omega

theorem beVal_tag (n : Nat) (h : n < 65536) : beVal (be 2 n) = n :=
  beVal_be 2 n (by have : (256 : Nat) ^ 2 = 65536 := by decide
                   omega)

/-- the loop on a complete body: all rows, then the trailer (whatever follows it is not looked at) -/
theorem loadLoop_complete {σ : Type} (s : Spec) (strict : Bool) (ins : List Nat → σ → σ)
    (hs : specOK s = true) (rows : List (List Nat)) (hf : ∀ r ∈ rows, fits s.wfields r)
    (tail : Bytes) (fuel : Nat) (hfuel : rows.length < fuel) (acc : σ) :
    loadLoop s strict ins fuel (encRows s rows ++ (be 2 s.footer ++ tail)) acc
      = some (rows.foldl (fun a r => ins r a) acc) := by
  obtain ⟨hc, htag, hlt, hflt, hne, _⟩ := (specOK_iff s).1 hs
  have hb : beVal (be 2 s.nfields) = s.rowtag := by rw [beVal_tag _ hlt, htag]
  induction rows generalizing fuel acc with
  | nil =>
    cases fuel with
    | zero => simp at hfuel
    | succ fuel =>
      simp only [encRows, List.flatMap_nil, List.nil_append, loadLoop, readN_append 2 _ _ (be_length 2 _),
        beVal_tag _ hflt, if_neg (fun h : s.footer = s.rowtag => hne h.symm), if_true, List.foldl_nil]
  | cons r rs ih =>
    cases fuel with
    | zero => simp at hfuel
    | succ fuel =>
      have hr := hf r (by simp)
      simp only [encRows, List.flatMap_cons, encRow, List.append_assoc, loadLoop,
        readN_append 2 _ _ (be_length 2 _), hb, if_true, decFields_encFields _ hc hr,
        List.foldl_cons]
      exact ih (fun r hr => hf r (by simp [hr])) fuel (by simpa using hfuel) (ins r acc)

/-- the loop on a body that stops at a row boundary, trailer missing -/
theorem loadLoop_boundary {σ : Type} (s : Spec) (strict : Bool) (ins : List Nat → σ → σ)
    (hs : specOK s = true) (rows : List (List Nat)) (hf : ∀ r ∈ rows, fits s.wfields r)
    (fuel : Nat) (hfuel : rows.length < fuel) (acc : σ) :
    loadLoop s strict ins fuel (encRows s rows) acc
      = if strict then none else some (rows.foldl (fun a r => ins r a) acc) := by
  obtain ⟨hc, htag, hlt, _, _, _⟩ := (specOK_iff s).1 hs
  have hb : beVal (be 2 s.nfields) = s.rowtag := by rw [beVal_tag _ hlt, htag]
  induction rows generalizing fuel acc with
  | nil =>
    cases fuel with
    | zero => simp at hfuel
    | succ fuel =>
      simp only [encRows, List.flatMap_nil, loadLoop, readN_short 2 [] (by simp), List.foldl_nil]
  | cons r rs ih =>
    cases fuel with
    | zero => simp at hfuel
    | succ fuel =>
      have hr := hf r (by simp)
      simp only [encRows, List.flatMap_cons, encRow, List.append_assoc, loadLoop,
        readN_append 2 _ _ (be_length 2 _), hb, if_true, decFields_encFields _ hc hr,
        List.foldl_cons]
      exact ih (fun r hr => hf r (by simp [hr])) fuel (by simpa using hfuel) (ins r acc)

/-- **prefix induction (A.6)**: with the mandatory trailer, every strict prefix of a body fails -/
theorem loadLoop_trunc {σ : Type} (s : Spec) (ins : List Nat → σ → σ)
    (hs : specOK s = true) (rows : List (List Nat)) (hf : ∀ r ∈ rows, fits s.wfields r)
    (k : Nat) (hk : k < (encRows s rows ++ be 2 s.footer).length)
    (fuel : Nat) (hfuel : k < fuel) (acc : σ) :
    loadLoop s true ins fuel ((encRows s rows ++ be 2 s.footer).take k) acc = none := by
  obtain ⟨hc, htag, hlt, _, _, _⟩ := (specOK_iff s).1 hs
  have hb : beVal (be 2 s.nfields) = s.rowtag := by rw [beVal_tag _ hlt, htag]
  induction rows generalizing fuel acc k with
  | nil =>
    cases fuel with
    | zero => simp at hfuel
    | succ fuel =>
      simp only [encRows, List.flatMap_nil, List.nil_append, List.length_append, be_length, List.length_nil] at hk ⊢
      simp only [loadLoop, readN_short 2 _ (Nat.lt_of_le_of_lt (List.length_take_le _ _) hk), if_true]
  | cons r rs ih =>
    cases fuel with
    | zero => simp at hfuel
    | succ fuel =>
      have hr := hf r (by simp)
      have hrl := encFields_length hr
      simp only [encRows, List.flatMap_cons, encRow, List.append_assoc] at hk ⊢
      by_cases h2 : k < 2
      · simp only [loadLoop, readN_short 2 _ (Nat.lt_of_le_of_lt (List.length_take_le _ _) h2), if_true]
      · rw [take_append_ge _ _ _ (by rw [be_length]; omega), be_length]
        by_cases hin : k - 2 < fieldsLen s.wfields
        · simp only [loadLoop, readN_append 2 _ _ (be_length 2 _), hb, if_true,
            decFields_trunc _ _ hc hr hin]
        · rw [take_append_ge _ _ _ (by rw [hrl]; omega), hrl]
          simp only [loadLoop, readN_append 2 _ _ (be_length 2 _), hb, if_true,
            decFields_encFields _ hc hr]
          apply ih (fun r hr => hf r (by simp [hr]))
          · simp only [List.length_append, be_length, hrl, encRows] at hk ⊢
            omega
          · omega

/-! ## whole files -/

theorem encode_length {s : Spec} {rows : List (List Nat)} (hf : ∀ r ∈ rows, fits s.wfields r) :
    (encode s rows).length = s.header.length + rows.length * rowLen s + 2 := by
  simp [encode, encRows_length hf]
  omega

/-- `load` of a complete file: the rows, inserted in file order -/
theorem loadWith_encode {σ : Type} (s : Spec) (strict : Bool) (ins : List Nat → σ → σ) (init : σ)
    (hs : specOK s = true) (rows : List (List Nat)) (hf : ∀ r ∈ rows, fits s.wfields r) :
    loadWith s strict ins init (encode s rows) = some (rows.foldl (fun a r => ins r a) init) := by
  obtain ⟨_, _, _, _, _, hseek⟩ := (specOK_iff s).1 hs
  have hlen := encode_length hf
  have hrl : 2 ≤ rowLen s := by simp [rowLen]
  have hdrop : (encode s rows).drop s.seek = encRows s rows ++ (be 2 s.footer ++ []) := by
    simp only [encode, List.append_assoc, List.append_nil]
    rw [← hseek, List.drop_left]
  simp only [loadWith]
  rw [hdrop]
  apply loadLoop_complete s strict ins hs rows hf
  rw [hlen]
  have : rows.length ≤ rows.length * rowLen s := Nat.le_mul_of_pos_right _ (by omega)
  omega

/-- **C18 core**: with the mandatory trailer, loading any strict prefix of a saved file fails -/
theorem loadWith_prefix_strict {σ : Type} (s : Spec) (ins : List Nat → σ → σ) (init : σ)
    (hs : specOK s = true) (rows : List (List Nat)) (hf : ∀ r ∈ rows, fits s.wfields r)
    (k : Nat) (hk : k < (encode s rows).length) :
    loadWith s true ins init ((encode s rows).take k) = none := by
  obtain ⟨_, _, _, _, _, hseek⟩ := (specOK_iff s).1 hs
  have hbody : (encode s rows).drop s.seek = encRows s rows ++ be 2 s.footer := by
    simp only [encode, List.append_assoc]
    rw [← hseek, List.drop_left]
  simp only [loadWith]
  rw [List.drop_take, hbody]
  have hl : ((encode s rows).take k).length = k := by rw [List.length_take]; omega
  rw [hl]
  apply loadLoop_trunc s ins hs rows hf
  · have : (encode s rows).length = s.header.length + (encRows s rows ++ be 2 s.footer).length := by
      simp [encode]
    have h2 : 2 ≤ (encRows s rows ++ be 2 s.footer).length := by simp
    omega
  · omega

/-- the pinned (non-strict) loaders: a file cut after `j` complete rows loads those `j` rows -/
theorem loadWith_boundary_nonstrict {σ : Type} (s : Spec) (ins : List Nat → σ → σ) (init : σ)
    (hs : specOK s = true) (rows more : List (List Nat)) (hf : ∀ r ∈ rows, fits s.wfields r) :
    loadWith s false ins init ((encode s (rows ++ more)).take (s.header.length + (encRows s rows).length))
      = some (rows.foldl (fun a r => ins r a) init) := by
  obtain ⟨_, _, _, _, _, hseek⟩ := (specOK_iff s).1 hs
  have hcut : (encode s (rows ++ more)).take (s.header.length + (encRows s rows).length)
      = s.header ++ encRows s rows := by
    simp only [encode, encRows, List.flatMap_append, List.append_assoc]
    rw [List.take_append, List.take_of_length_le (by omega)]
    simp
  rw [hcut]
  simp only [loadWith]
  rw [← hseek, List.drop_left]
  have := loadLoop_boundary s false ins hs rows hf ((s.header ++ encRows s rows).length + 1)
    (by rw [List.length_append, encRows_length hf]
        have h2 : 2 ≤ rowLen s := by simp [rowLen]
        have : rows.length ≤ rows.length * rowLen s := Nat.le_mul_of_pos_right _ (by omega)
        omega) init
  simpa using this

end RP.Pgcopy
