import RP.Model.Cfr
import RP.Spec.Cfr
import Mathlib.Tactic.Ring
import Mathlib.Tactic.FieldSimp
/-! # Lemmas for C08: well-formed flat trees, path products, leaves, list sums -/
namespace RP.Cfr

variable {α : Type}

/-! ## well-formed trees -/

/-- parents precede children (insertion order of `petgraph`), and the adjacency table only lists
    children. -/
structure Tree.WF (t : Tree α) : Prop where
  parent_lt : ∀ i p, t.parent i = some p → p < i
  kids_parent : ∀ i j, j ∈ t.kids i → t.parent j = some i

theorem Tree.parent_lt_size (t : Tree α) {j p : Nat} (h : t.parent j = some p) : j < t.size := by
  unfold Tree.parent at h
  by_cases hj : j < t.nodes.size
  · exact hj
  · have : t.nodes[j]? = none := by simp; omega
    rw [this] at h; simp at h

theorem Tree.wfb_sound (t : Tree α) (h : t.wfb = true) : t.WF := by
  unfold Tree.wfb at h
  simp only [Bool.and_eq_true, List.all_eq_true, List.mem_range, beq_iff_eq] at h
  obtain ⟨⟨h1, h2⟩, h3⟩ := h
  constructor
  · intro i p hp
    have hi := t.parent_lt_size hp
    have := h1 i hi
    rw [hp] at this
    simpa using this
  · intro i j hj
    by_cases hi : i < t.size
    · exact h3 i hi j hj
    · unfold Tree.kids at hj
      have : t.kidsTab[i]? = none := by simp; omega
      rw [this] at hj; simp at hj

theorem Tree.WF.kid_gt {t : Tree α} (wf : t.WF) {n c : Nat} (h : c ∈ t.kids n) : n < c :=
  wf.parent_lt c n (wf.kids_parent n c h)

theorem Tree.WF.kid_lt_size {t : Tree α} (wf : t.WF) {n c : Nat} (h : c ∈ t.kids n) : c < t.size :=
  t.parent_lt_size (wf.kids_parent n c h)

theorem Tree.WF.kids_nil_of_size_le {t : Tree α} (wf : t.WF) {n : Nat} (h : t.size ≤ n) :
    t.kids n = [] := by
  cases hk : t.kids n with
  | nil => rfl
  | cons c cs =>
    have hc : c ∈ t.kids n := by rw [hk]; simp
    have := wf.kid_gt hc
    have := wf.kid_lt_size hc
    omega

/-- `c` is `l` or an ancestor of `l` -/
inductive Anc (t : Tree α) (c : Nat) : Nat → Prop
  | refl : Anc t c c
  | step {l p : Nat} : t.parent l = some p → Anc t c p → Anc t c l

theorem Anc.le {t : Tree α} (wf : t.WF) {c l : Nat} (h : Anc t c l) : c ≤ l := by
  induction h with
  | refl => exact Nat.le_refl _
  | step hp _ ih => have := wf.parent_lt _ _ hp; omega

theorem Anc.trans {t : Tree α} {a b c : Nat} (h1 : Anc t a b) (h2 : Anc t b c) : Anc t a c := by
  induction h2 with
  | refl => exact h1
  | step hp _ ih => exact Anc.step hp ih

theorem Anc.kid {t : Tree α} (wf : t.WF) {n c : Nat} (h : c ∈ t.kids n) : Anc t n c :=
  Anc.step (wf.kids_parent n c h) Anc.refl

/-! ## leaves -/

theorem mem_leavesAux_anc {t : Tree α} (wf : t.WF) :
    ∀ f n l, l ∈ leavesAux t f n → Anc t n l := by
  intro f
  induction f with
  | zero => intro n l h; simp [leavesAux] at h; subst h; exact Anc.refl
  | succ f ih =>
    intro n l h
    unfold leavesAux at h
    split at h
    · simp at h; subst h; exact Anc.refl
    · rw [List.mem_flatMap] at h
      obtain ⟨c, hc, hl⟩ := h
      exact (Anc.kid wf hc).trans (ih c l hl)

theorem flatMap_congr' {β γ : Type} {l : List β} {f g : β → List γ} (h : ∀ x ∈ l, f x = g x) :
    l.flatMap f = l.flatMap g := by
  induction l with
  | nil => rfl
  | cons x xs ih =>
    simp only [List.flatMap_cons]
    rw [h x (by simp), ih (fun y hy => h y (by simp [hy]))]

theorem leavesAux_fuel {t : Tree α} (wf : t.WF) :
    ∀ f f' n, t.size ≤ f + n → t.size ≤ f' + n → leavesAux t f n = leavesAux t f' n := by
  intro f
  induction f with
  | zero =>
    intro f' n h _
    cases f' with
    | zero => rfl
    | succ k => simp [leavesAux, wf.kids_nil_of_size_le (by omega : t.size ≤ n)]
  | succ f ih =>
    intro f' n h h'
    cases f' with
    | zero => simp [leavesAux, wf.kids_nil_of_size_le (by omega : t.size ≤ n)]
    | succ k =>
      unfold leavesAux
      split
      · rfl
      · apply flatMap_congr'
        intro c hc
        have := wf.kid_gt hc
        exact ih k c (by omega) (by omega)

theorem leaves_of_kids {t : Tree α} (wf : t.WF) {n : Nat} (hk : t.kids n ≠ []) :
    leaves t n = (t.kids n).flatMap (leaves t) := by
  unfold leaves
  cases hs : t.size with
  | zero =>
    exfalso; exact hk (wf.kids_nil_of_size_le (by omega))
  | succ s =>
    rw [leavesAux]
    simp only [hk, if_false]
    apply flatMap_congr'
    intro c hc
    have := wf.kid_gt hc
    exact leavesAux_fuel wf _ _ _ (by omega) (by omega)

theorem leaves_kid_subset {t : Tree α} (wf : t.WF) {n c : Nat} (hc : c ∈ t.kids n) :
    ∀ l ∈ leaves t c, l ∈ leaves t n := by
  intro l hl
  have hk : t.kids n ≠ [] := by intro h; rw [h] at hc; simp at hc
  rw [leaves_of_kids wf hk, List.mem_flatMap]
  exact ⟨c, hc, hl⟩

theorem follow_mem {t : Tree α} {h a c : Nat} (hf : follow t h a = some c) :
    c ∈ t.kids h ∧ t.incoming c = a := by
  unfold follow at hf
  have h1 := List.mem_of_find?_eq_some hf
  have h2 := List.find?_some hf
  exact ⟨h1, by simpa using h2⟩

/-! ## list sums over a (semi)ring -/
section sums
variable {K : Type} [Field K] {β : Type}

theorem sum_append' (l₁ l₂ : List K) : (l₁ ++ l₂).sum = l₁.sum + l₂.sum := by
  induction l₁ with
  | nil => simp
  | cons x xs ih => simp [ih, add_assoc]

theorem sum_map_mul_left' (l : List β) (a : K) (f : β → K) :
    (l.map (fun x => a * f x)).sum = a * (l.map f).sum := by
  induction l with
  | nil => simp
  | cons x xs ih => simp [ih, mul_add]

theorem sum_map_congr' {l : List β} {f g : β → K} (h : ∀ x ∈ l, f x = g x) :
    (l.map f).sum = (l.map g).sum := by
  rw [List.map_congr_left h]

theorem sum_flatMap' {γ : Type} (l : List β) (g : β → List γ) (f : γ → K) :
    ((l.flatMap g).map f).sum = (l.map (fun c => ((g c).map f).sum)).sum := by
  induction l with
  | nil => simp
  | cons x xs ih => simp [List.flatMap_cons, ih]

theorem sum_map_sub' (l : List β) (f g : β → K) :
    (l.map (fun x => f x - g x)).sum = (l.map f).sum - (l.map g).sum := by
  induction l with
  | nil => simp
  | cons x xs ih => simp [ih]; ring

theorem sum_map_mul_add' (l : List β) (w v : β → K) (c : K) :
    (l.map (fun x => w x * (v x + c))).sum = (l.map (fun x => w x * v x)).sum + c * (l.map w).sum := by
  induction l with
  | nil => simp
  | cons x xs ih => simp [ih]; ring

end sums

/-! ## path products: the product of `g parent child` over the edges on the way up from `l`
    to the stop node `s` (or to the root) -/
section pp
variable {K : Type} [Field K]

def ppAux (t : Tree K) (g : Nat → Nat → K) (s : Option Nat) : Nat → Nat → K
  | 0, _ => 1
  | f+1, l =>
    if s = some l then 1
    else match t.parent l with
      | some p => ppAux t g s f p * g p l
      | none => 1

def pp (t : Tree K) (g : Nat → Nat → K) (s : Option Nat) (l : Nat) : K := ppAux t g s (l+1) l

theorem ppAux_fuel {t : Tree K} (wf : t.WF) (g : Nat → Nat → K) (s : Option Nat) :
    ∀ f f' l, l < f → l < f' → ppAux t g s f l = ppAux t g s f' l := by
  intro f
  induction f with
  | zero => intro f' l h; omega
  | succ f ih =>
    intro f' l h h'
    cases f' with
    | zero => omega
    | succ k =>
      unfold ppAux
      split
      · rfl
      · cases hp : t.parent l with
        | none => rfl
        | some p =>
          have := wf.parent_lt _ _ hp
          simp only []
          rw [ih k p (by omega) (by omega)]

theorem pp_stop (t : Tree K) (g : Nat → Nat → K) (l : Nat) : pp t g (some l) l = 1 := by
  simp [pp, ppAux]

theorem pp_root {t : Tree K} (g : Nat → Nat → K) (s : Option Nat) {l : Nat}
    (hp : t.parent l = none) : pp t g s l = 1 := by
  unfold pp ppAux
  split
  · rfl
  · rw [hp]

theorem pp_step {t : Tree K} (wf : t.WF) (g : Nat → Nat → K) {s : Option Nat} {l p : Nat}
    (hp : t.parent l = some p) (hs : s ≠ some l) : pp t g s l = pp t g s p * g p l := by
  have hlt := wf.parent_lt _ _ hp
  unfold pp
  rw [ppAux]
  simp only [hs, if_false, hp]
  rw [ppAux_fuel wf g s l (p+1) p hlt (by omega)]

theorem pp_mul {t : Tree K} (g h : Nat → Nat → K) (s : Option Nat) :
    ∀ f l, ppAux t (fun p n => g p n * h p n) s f l = ppAux t g s f l * ppAux t h s f l := by
  intro f
  induction f with
  | zero => intro l; simp [ppAux]
  | succ f ih =>
    intro l
    unfold ppAux
    split
    · simp
    · cases hp : t.parent l with
      | none => simp
      | some p => simp only []; rw [ih p]; ring

theorem pp_split {t : Tree K} (wf : t.WF) (g : Nat → Nat → K) {s : Option Nat} {c l : Nat}
    (hc : Anc t c l) (hs : ∀ h, s = some h → Anc t h c) :
    pp t g s l = pp t g s c * pp t g (some c) l := by
  induction hc with
  | refl => rw [pp_stop, mul_one]
  | @step l p hp hcp ih =>
    have h1 := hcp.le wf
    have h2 := wf.parent_lt _ _ hp
    have hs' : s ≠ some l := by
      intro e
      have := (hs l e).le wf
      omega
    have hc' : (some c : Option Nat) ≠ some l := by
      intro e; injection e with e; omega
    rw [pp_step wf g hp hs', pp_step wf g hp hc', ih, mul_assoc]

end pp

end RP.Cfr
