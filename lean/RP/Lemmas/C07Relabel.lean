import RP.Lemmas.C01.Suits
/-! `relabel π` (suit relabeling of a 52-bit hand word, `RP.C01.relabel`) is a homomorphism for
    `|||` and `&&&`, has an inverse among the 24 relabelings, and fixes the short deck's blocked
    low cards — the facts C07 needs on top of C01's suit-blindness. -/
namespace RP.C01
open RP.Bits RP.Eval

theorem permNib_hom : ∀ π ∈ RP.Gen.permExhaust, ∀ m, m < 16 → ∀ n, n < 16 →
    permNib π (m ||| n) = permNib π m ||| permNib π n ∧ permNib π (m &&& n) = permNib π m &&& permNib π n := by
  decide +kernel

theorem permNib_inv : ∀ π ∈ RP.Gen.permExhaust, ∃ σ ∈ RP.Gen.permExhaust, ∀ n, n < 16 →
    permNib σ (permNib π n) = n ∧ permNib π (permNib σ n) = n := by
  decide +kernel

theorem eq_of_nib {x y : Nat} (h1 : x % 16 = y % 16) (h2 : x / 16 = y / 16) : x = y := by omega

theorem or_mod16 (a b : Nat) : (a ||| b) % 16 = a % 16 ||| b % 16 := by
  have h16 : (16 : Nat) = 2^4 := by decide
  rw [h16, Nat.or_mod_two_pow]
theorem or_div16 (a b : Nat) : (a ||| b) / 16 = a / 16 ||| b / 16 := by
  have h16 : (16 : Nat) = 2^4 := by decide
  rw [h16, Nat.or_div_two_pow]
theorem and_mod16 (a b : Nat) : (a &&& b) % 16 = a % 16 &&& b % 16 := by
  have h16 : (16 : Nat) = 2^4 := by decide
  rw [h16, Nat.and_mod_two_pow]
theorem and_div16 (a b : Nat) : (a &&& b) / 16 = a / 16 &&& b / 16 := by
  have h16 : (16 : Nat) = 2^4 := by decide
  rw [h16, Nat.and_div_two_pow]

theorem relabelW_or (π : List Nat) (hπ : π ∈ RP.Gen.permExhaust) : ∀ w a b,
    relabelW w π (a ||| b) = relabelW w π a ||| relabelW w π b := by
  intro w
  induction w with
  | zero => intro a b; simp [relabelW]
  | succ w ih =>
    intro a b
    have f := (permNib_hom π hπ (a % 16) (Nat.mod_lt _ (by decide)) (b % 16) (Nat.mod_lt _ (by decide))).1
    apply eq_of_nib
    · rw [or_mod16 (relabelW (w+1) π a), relabelW_mod w π hπ, relabelW_mod w π hπ, relabelW_mod w π hπ, or_mod16, f]
    · rw [or_div16 (relabelW (w+1) π a), relabelW_div w π hπ, relabelW_div w π hπ, relabelW_div w π hπ, or_div16, ih]

theorem relabelW_and (π : List Nat) (hπ : π ∈ RP.Gen.permExhaust) : ∀ w a b,
    relabelW w π (a &&& b) = relabelW w π a &&& relabelW w π b := by
  intro w
  induction w with
  | zero => intro a b; simp [relabelW]
  | succ w ih =>
    intro a b
    have f := (permNib_hom π hπ (a % 16) (Nat.mod_lt _ (by decide)) (b % 16) (Nat.mod_lt _ (by decide))).2
    apply eq_of_nib
    · rw [and_mod16 (relabelW (w+1) π a), relabelW_mod w π hπ, relabelW_mod w π hπ, relabelW_mod w π hπ, and_mod16, f]
    · rw [and_div16 (relabelW (w+1) π a), relabelW_div w π hπ, relabelW_div w π hπ, relabelW_div w π hπ, and_div16, ih]

theorem relabel_or (π : List Nat) (hπ : π ∈ RP.Gen.permExhaust) (a b : Nat) :
    relabel π (a ||| b) = relabel π a ||| relabel π b := relabelW_or π hπ 13 a b

theorem relabel_and (π : List Nat) (hπ : π ∈ RP.Gen.permExhaust) (a b : Nat) :
    relabel π (a &&& b) = relabel π a &&& relabel π b := relabelW_and π hπ 13 a b

theorem relabelW_inv (π σ : List Nat) (hπ : π ∈ RP.Gen.permExhaust) (hσ : σ ∈ RP.Gen.permExhaust)
    (hinv : ∀ n, n < 16 → permNib σ (permNib π n) = n) : ∀ w a, a < 16^w → relabelW w σ (relabelW w π a) = a := by
  intro w
  induction w with
  | zero => intro a ha; simp at ha; simp [relabelW, ha]
  | succ w ih =>
    intro a ha
    apply eq_of_nib
    · rw [relabelW_mod w σ hσ, relabelW_mod w π hπ, hinv _ (Nat.mod_lt _ (by decide))]
    · rw [relabelW_div w σ hσ, relabelW_div w π hπ, ih (a / 16) (by rw [Nat.pow_succ] at ha; omega)]

theorem pow16_13 : (16 : Nat)^13 = 2^52 := by decide

/-- every relabeling has an inverse relabeling (on 52-bit words) -/
theorem relabel_inv (π : List Nat) (hπ : π ∈ RP.Gen.permExhaust) : ∃ σ ∈ RP.Gen.permExhaust,
    (∀ a, a < 2^52 → relabel σ (relabel π a) = a) ∧ (∀ a, a < 2^52 → relabel π (relabel σ a) = a) := by
  obtain ⟨σ, hσ, h⟩ := permNib_inv π hπ
  refine ⟨σ, hσ, ?_, ?_⟩
  · intro a ha
    exact relabelW_inv π σ hπ hσ (fun n hn => (h n hn).1) 13 a (by rw [pow16_13]; exact ha)
  · intro a ha
    exact relabelW_inv σ π hσ hπ (fun n hn => (h n hn).2) 13 a (by rw [pow16_13]; exact ha)

theorem relabel_zero (π : List Nat) : relabel π 0 = 0 := by
  simp [relabel, relabelW, permNib]

theorem relabel_inj (π : List Nat) (hπ : π ∈ RP.Gen.permExhaust) (a b : Nat) (ha : a < 2^52) (hb : b < 2^52)
    (h : relabel π a = relabel π b) : a = b := by
  obtain ⟨σ, _, h1, _⟩ := relabel_inv π hπ
  rw [← h1 a ha, ← h1 b hb, h]

/-- the sixteen low cards (ranks 2..5) are mapped onto themselves -/
theorem relabel_low : ∀ π ∈ RP.Gen.permExhaust, relabel π 65535 = 65535 := by decide +kernel

end RP.C01
