import RP.Model.Kmeans
set_option linter.unusedSimpArgs false
/-! Lemmas about the key-sorted entry lists behind `Histogram` (`BTreeMap<Abstraction, usize>`):
    `insertAdd` / `Hist.absorb` add counts pointwise and keep the list strictly sorted. -/
namespace RP.Transport

/-- strictly increasing keys: the `BTreeMap` invariant -/
def SortedKeys {γ : Type} (l : List (Nat × γ)) : Prop := l.Pairwise fun a b => a.1 < b.1

/-- well-formed histogram: entries in strictly increasing key order -/
def Hist.WF (h : Hist) : Prop := SortedKeys h.counts

theorem lookup_none_of_all_ne {γ : Type} (a : Nat) (l : List (Nat × γ)) (h : ∀ e ∈ l, e.1 ≠ a) :
    l.lookup a = none := by
  induction l with
  | nil => rfl
  | cons e es ih =>
    obtain ⟨k, c⟩ := e
    have hk : k ≠ a := h (k, c) (by simp)
    have : (a == k) = false := by simp; exact fun h' => hk h'.symm
    simp only [List.lookup_cons, this]
    exact ih fun e he => h e (by simp [he])

theorem insertAdd_keys (k c : Nat) (l : List (Nat × Nat)) :
    ∀ e ∈ insertAdd k c l, e.1 = k ∨ ∃ e' ∈ l, e'.1 = e.1 := by
  induction l with
  | nil => intro e he; simp [insertAdd] at he; left; rw [he]
  | cons x xs ih =>
    obtain ⟨k', c'⟩ := x
    intro e he
    unfold insertAdd at he
    split at he
    · rcases List.mem_cons.mp he with rfl | he
      · right; exact ⟨(k', c'), by simp, rfl⟩
      · right; exact ⟨e, by simp [he], rfl⟩
    · split at he
      · rcases List.mem_cons.mp he with rfl | he
        · left; rfl
        · right; exact ⟨e, he, rfl⟩
      · rcases List.mem_cons.mp he with rfl | he
        · right; exact ⟨(k', c'), by simp, rfl⟩
        · rcases ih e he with h | ⟨e', he', h⟩
          · left; exact h
          · right; exact ⟨e', by simp [he'], h⟩

theorem insertAdd_sorted (k c : Nat) (l : List (Nat × Nat)) (hs : SortedKeys l) :
    SortedKeys (insertAdd k c l) := by
  induction l with
  | nil => simp [insertAdd, SortedKeys]
  | cons x xs ih =>
    obtain ⟨k', c'⟩ := x
    unfold SortedKeys at hs ⊢
    rw [List.pairwise_cons] at hs
    unfold insertAdd
    split
    · rw [List.pairwise_cons]; exact ⟨fun e he => hs.1 e he, hs.2⟩
    · split
      · rename_i hlt
        rw [List.pairwise_cons]
        refine ⟨?_, by rw [List.pairwise_cons]; exact hs⟩
        intro e he
        rcases List.mem_cons.mp he with rfl | he
        · exact hlt
        · exact Nat.lt_trans hlt (hs.1 e he)
      · rename_i hne hnlt
        rw [List.pairwise_cons]
        refine ⟨?_, ih hs.2⟩
        intro e he
        rcases insertAdd_keys k c xs e he with h | ⟨e', he', h⟩
        · show k' < e.1; omega
        · show k' < e.1; rw [← h]; exact hs.1 e' he'

theorem insertAdd_lookup (k c : Nat) (l : List (Nat × Nat)) (hs : SortedKeys l) (a : Nat) :
    (insertAdd k c l).lookup a = if a = k then some ((l.lookup k).getD 0 + c) else l.lookup a := by
  induction l with
  | nil =>
    by_cases h : a = k
    · simp [insertAdd, h]
    · have : (a == k) = false := by simpa using h
      simp [insertAdd, h, List.lookup_cons, this]
  | cons x xs ih =>
    obtain ⟨k', c'⟩ := x
    unfold SortedKeys at hs
    rw [List.pairwise_cons] at hs
    unfold insertAdd
    split
    · rename_i hkk
      subst hkk
      by_cases h : a = k
      · subst h; simp [List.lookup_cons]
      · have : (a == k) = false := by simpa using h
        simp [List.lookup_cons, this, h]
    · rename_i hne
      split
      · rename_i hlt
        by_cases h : a = k
        · subst h
          have hnone : List.lookup a ((k', c') :: xs) = none := by
            apply lookup_none_of_all_ne
            intro e he
            rcases List.mem_cons.mp he with rfl | he
            · exact fun h' => hne h'.symm
            · have := hs.1 e he; omega
          simp [List.lookup_cons, hnone]
        · have : (a == k) = false := by simpa using h
          simp only [List.lookup_cons, this, h, if_false]
      · rename_i hnlt
        by_cases hak' : a = k'
        · subst hak'
          have h1 : a ≠ k := fun h => hne h.symm
          simp [List.lookup_cons, h1]
        · have h2 : (a == k') = false := by simpa using hak'
          have hk2 : (k == k') = false := by simpa using hne
          simp only [List.lookup_cons, h2, hk2]
          exact ih hs.2

theorem Hist.count_insertAdd (h : Hist) (hs : h.WF) (k c a : Nat) :
    (Hist.mk m (insertAdd k c h.counts)).count a = h.count a + if a = k then c else 0 := by
  unfold Hist.count
  simp only
  rw [insertAdd_lookup k c h.counts hs a]
  by_cases hk : a = k
  · subst hk; simp
  · simp [hk]

/-- the counts an entry list contributes to key `a` -/
def keySum (l : List (Nat × Nat)) (a : Nat) : Nat := ((l.filter fun e => e.1 == a).map Prod.snd).sum

theorem keySum_eq_lookup (l : List (Nat × Nat)) (hs : SortedKeys l) (a : Nat) :
    keySum l a = (l.lookup a).getD 0 := by
  induction l with
  | nil => rfl
  | cons x xs ih =>
    obtain ⟨k, c⟩ := x
    unfold SortedKeys at hs
    rw [List.pairwise_cons] at hs
    unfold keySum
    by_cases h : k = a
    · subst h
      have hnone : keySum xs k = 0 := by
        rw [ih hs.2]
        rw [lookup_none_of_all_ne k xs (fun e he => by have := hs.1 e he; simp at this; omega)]
        rfl
      unfold keySum at hnone
      simp [List.filter_cons, List.lookup_cons, hnone]
    · have h1 : ((k, c).1 == a) = false := by simpa using h
      have h2 : (a == k) = false := by simpa using fun h' : a = k => h h'.symm
      simp only [List.filter_cons, h1, List.lookup_cons, h2]
      exact ih hs.2

theorem foldl_insertAdd (o acc : List (Nat × Nat)) (hs : SortedKeys acc) :
    SortedKeys (o.foldl (fun acc kc => insertAdd kc.1 kc.2 acc) acc) ∧
    ∀ a, ((o.foldl (fun acc kc => insertAdd kc.1 kc.2 acc) acc).lookup a).getD 0
          = (acc.lookup a).getD 0 + keySum o a := by
  induction o generalizing acc with
  | nil => exact ⟨hs, fun a => by simp [keySum]⟩
  | cons x xs ih =>
    obtain ⟨k, c⟩ := x
    have hs' := insertAdd_sorted k c acc hs
    obtain ⟨h1, h2⟩ := ih (insertAdd k c acc) hs'
    refine ⟨h1, fun a => ?_⟩
    simp only [List.foldl_cons]
    rw [h2 a, insertAdd_lookup k c acc hs a]
    unfold keySum
    by_cases hk : a = k
    · subst hk; simp [List.filter_cons]; omega
    · have : (k == a) = false := by simpa using fun h' : k = a => hk h'.symm
      simp [hk, List.filter_cons, this]

theorem Hist.absorb_WF (h o : Hist) (hh : h.WF) : (h.absorb o).WF :=
  (foldl_insertAdd o.counts h.counts hh).1

/-- `absorb` is the pointwise sum of the counts -/
theorem Hist.absorb_count (h o : Hist) (hh : h.WF) (ho : o.WF) (a : Nat) :
    (h.absorb o).count a = h.count a + o.count a := by
  unfold Hist.count Hist.absorb
  simp only
  rw [(foldl_insertAdd o.counts h.counts hh).2 a, keySum_eq_lookup o.counts ho a]

theorem Hist.absorb_mass (h o : Hist) : (h.absorb o).mass = h.mass + o.mass := rfl

theorem Hist.empty_WF : Hist.empty.WF := by simp [Hist.WF, Hist.empty, SortedKeys]
theorem Hist.empty_count (a : Nat) : Hist.empty.count a = 0 := rfl

/-- `Histogram::from(Vec<Abstraction>)` yields a well-formed histogram -/
theorem Hist.ofList_WF (as : List Nat) : (Hist.ofList as).WF := by
  unfold Hist.ofList
  suffices ∀ h : Hist, h.WF → (as.foldl Hist.increment h).WF from this _ Hist.empty_WF
  induction as with
  | nil => intro h hh; exact hh
  | cons a as ih => intro h hh; exact ih _ (insertAdd_sorted a 1 h.counts hh)

theorem keySum_of_mem (l : List (Nat × Nat)) (hs : SortedKeys l) (e : Nat × Nat) (he : e ∈ l) :
    keySum l e.1 = e.2 := by
  induction l with
  | nil => cases he
  | cons x xs ih =>
    unfold SortedKeys at hs
    rw [List.pairwise_cons] at hs
    rcases List.mem_cons.mp he with rfl | he
    · have hz : keySum xs e.1 = 0 := by
        rw [keySum_eq_lookup xs hs.2, lookup_none_of_all_ne e.1 xs (fun e' he' => by have := hs.1 e' he'; omega)]; rfl
      unfold keySum at hz ⊢
      simp [List.filter_cons, hz]
    · have hne : x.1 ≠ e.1 := by have := hs.1 e he; omega
      have hb : (x.1 == e.1) = false := by simpa using hne
      unfold keySum
      simp only [List.filter_cons, hb]
      exact ih hs.2 he

/-- in a well-formed histogram the count of a listed key is the listed count -/
theorem Hist.count_of_mem (h : Hist) (hw : h.WF) (e : Nat × Nat) (he : e ∈ h.counts) : h.count e.1 = e.2 := by
  unfold Hist.count
  rw [← keySum_eq_lookup h.counts hw e.1]
  exact keySum_of_mem h.counts hw e he

/-- a histogram as the code builds it: sorted keys, positive counts, `mass = Σ counts > 0` -/
structure Hist.Valid (h : Hist) : Prop where
  wf : h.WF
  mass_eq : h.mass = (h.counts.map Prod.snd).sum
  mass_pos : 0 < h.mass
  counts_pos : ∀ e ∈ h.counts, 0 < e.2

theorem insertAdd_sum (k c : Nat) (l : List (Nat × Nat)) :
    ((insertAdd k c l).map Prod.snd).sum = (l.map Prod.snd).sum + c := by
  induction l with
  | nil => simp [insertAdd]
  | cons x xs ih =>
    obtain ⟨k', c'⟩ := x
    unfold insertAdd
    split
    · simp; omega
    · split
      · simp; omega
      · simp [ih]; omega

theorem insertAdd_pos (k c : Nat) (hc : 0 < c) (l : List (Nat × Nat)) (hl : ∀ e ∈ l, 0 < e.2) :
    ∀ e ∈ insertAdd k c l, 0 < e.2 := by
  induction l with
  | nil => intro e he; simp [insertAdd] at he; rw [he]; exact hc
  | cons x xs ih =>
    obtain ⟨k', c'⟩ := x
    have hx : 0 < c' := hl (k', c') (by simp)
    have hxs : ∀ e ∈ xs, 0 < e.2 := fun e he => hl e (by simp [he])
    intro e he
    unfold insertAdd at he
    split at he
    · rcases List.mem_cons.mp he with rfl | he
      · show 0 < c' + c; omega
      · exact hxs e he
    · split at he
      · rcases List.mem_cons.mp he with rfl | he
        · exact hc
        · exact hl e he
      · rcases List.mem_cons.mp he with rfl | he
        · exact hx
        · exact ih hxs e he

/-- `Histogram::from(Vec<Abstraction>)` of a non-empty vector is a valid histogram -/
theorem Hist.ofList_valid (as : List Nat) (hne : as ≠ []) : (Hist.ofList as).Valid := by
  have key : ∀ (as : List Nat) (h : Hist), h.WF → h.mass = (h.counts.map Prod.snd).sum → (∀ e ∈ h.counts, 0 < e.2) →
      (as.foldl Hist.increment h).WF ∧
      (as.foldl Hist.increment h).mass = ((as.foldl Hist.increment h).counts.map Prod.snd).sum ∧
      (∀ e ∈ (as.foldl Hist.increment h).counts, 0 < e.2) ∧
      (as.foldl Hist.increment h).mass = h.mass + as.length := by
    intro as
    induction as with
    | nil => intro h h1 h2 h3; exact ⟨h1, h2, h3, rfl⟩
    | cons a as ih =>
      intro h h1 h2 h3
      have := ih (h.increment a) (insertAdd_sorted a 1 h.counts h1)
        (by simp only [Hist.increment]; rw [insertAdd_sum, h2])
        (insertAdd_pos a 1 (by omega) h.counts h3)
      refine ⟨this.1, this.2.1, this.2.2.1, ?_⟩
      rw [List.foldl_cons, this.2.2.2]; simp [Hist.increment]; omega
  obtain ⟨h1, h2, h3, h4⟩ := key as Hist.empty Hist.empty_WF rfl (by intro e he; cases he)
  refine ⟨h1, h2, ?_, h3⟩
  unfold Hist.ofList
  rw [h4]
  cases as with
  | nil => exact absurd rfl hne
  | cons a as => simp [Hist.empty]

end RP.Transport
