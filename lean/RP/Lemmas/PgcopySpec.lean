import RP.Spec.Pgcopy
import RP.Lemmas.Pgcopy
/-! What the format reader `RP.PgSpec.pgParse` makes of the files the model encoder produces. -/
namespace RP.PgSpec
open RP.Pgcopy

/-- the payload byte strings of one wire row -/
def payloads (wfs : List WField) (vals : List Nat) : List (Option Bytes) :=
  List.zipWith (fun w v => some (be w.width v)) wfs vals

/-- what the format asks of a layout (decided on the generated lists): the header is signature,
    zero flags, empty extension; every announced length is the width of the payload written; the
    field count written is the number of fields; the trailer is −1 -/
def pgOK (s : Spec) : Bool :=
  s.header == signature ++ be 4 0 ++ be 4 0 &&
    s.wfields.all (fun w => w.len == w.width && decide (w.len < 4294967295)) &&
    s.nfields == s.wfields.length && decide (s.nfields < 65535) && s.footer == 65535

theorem pgFields_enc (wfs : List WField) (vals : List Nat) (rest : Bytes)
    (h : ∀ w ∈ wfs, w.len = w.width ∧ w.len < 4294967295) (hl : vals.length = wfs.length) :
    pgFields wfs.length (encFields wfs vals ++ rest) = some (payloads wfs vals, rest) := by
  induction wfs generalizing vals with
  | nil => cases vals <;> simp_all [pgFields, encFields, payloads]
  | cons w ws ih =>
    cases vals with
    | nil => simp at hl
    | cons v vs =>
      obtain ⟨hw, hlt⟩ := h w (by simp)
      have h256 : w.len < 256 ^ 4 := by
        have : (256 : Nat) ^ 4 = 4294967296 := by decide
        omega
      have hne : ¬ w.len = 4294967295 := by omega
      have hl' : vs.length = ws.length := by simpa using hl
      have hbl : (be w.width v).length = w.len := by rw [be_length, hw]
      simp only [List.length_cons, pgFields, encFields, List.append_assoc, readN_append 4 _ _ (be_length 4 _),
        beVal_be 4 _ h256, hne, if_false, readN_append w.len _ _ hbl,
        ih vs (fun w hw => h w (by simp [hw])) hl', payloads, List.zipWith_cons_cons]

theorem pgTuples_enc (s : Spec) (hs : pgOK s = true) (rows : List (List Nat))
    (hr : ∀ r ∈ rows, r.length = s.wfields.length) (fuel : Nat) (hfuel : rows.length < fuel) :
    pgTuples fuel (encRows s rows ++ be 2 s.footer) = some (rows.map (payloads s.wfields)) := by
  simp only [pgOK, Bool.and_eq_true, beq_iff_eq, decide_eq_true_eq, List.all_eq_true] at hs
  obtain ⟨⟨⟨⟨_, hw⟩, hn⟩, hlt⟩, hfoot⟩ := hs
  have hw' : ∀ w ∈ s.wfields, w.len = w.width ∧ w.len < 4294967295 := by
    intro w hmem
    have := hw w hmem
    simpa using this
  have h2 : (256 : Nat) ^ 2 = 65536 := by decide
  induction rows generalizing fuel with
  | nil =>
    cases fuel with
    | zero => simp at hfuel
    | succ fuel =>
      simp only [encRows, List.flatMap_nil, List.nil_append, pgTuples, hfoot]
      rw [show be 2 65535 = be 2 65535 ++ [] by simp, readN_append 2 _ _ (be_length 2 _)]
      simp [beVal_be 2 65535 (by omega)]
  | cons r rs ih =>
    cases fuel with
    | zero => simp at hfuel
    | succ fuel =>
      have hne : ¬ s.nfields = 65535 := by omega
      simp only [encRows, List.flatMap_cons, encRow, List.append_assoc, pgTuples,
        readN_append 2 _ _ (be_length 2 _), beVal_be 2 s.nfields (by omega), hne, if_false]
      rw [hn, pgFields_enc _ _ _ hw' (hr r (by simp))]
      have := ih (fun r hr' => hr r (by simp [hr'])) fuel (by simpa using hfuel)
      simp only [encRows] at this
      simp only [this, List.map_cons]

/-- the files of the model encoder are well-formed COPY streams whose tuples are the rows -/
theorem pgParse_encode (s : Spec) (hs : pgOK s = true) (rows : List (List Nat))
    (hr : ∀ r ∈ rows, r.length = s.wfields.length) :
    pgParse (encode s rows) = some (rows.map (payloads s.wfields)) := by
  have hhead : s.header = signature ++ be 4 0 ++ be 4 0 := by
    simp only [pgOK, Bool.and_eq_true, beq_iff_eq] at hs
    exact hs.1.1.1.1
  have hread0 : ∀ bs : Bytes, readN 0 bs = some ([], bs) := by intro bs; simp [readN]
  have hlen : rows.length < (encode s rows).length + 1 := by
    have : (encRows s rows).length ≥ rows.length := by
      clear hr
      induction rows with
      | nil => simp
      | cons r rs ih =>
        simp only [encRows, List.flatMap_cons, List.length_append, List.length_cons, encRow, be_length] at ih ⊢
        omega
    simp only [encode, List.length_append]
    omega
  have hsig : signature.length = 11 := by decide
  have hz : beVal (be 4 0) = 0 := by decide
  simp only [pgParse]
  rw [show encode s rows = signature ++ (be 4 0 ++ (be 4 0 ++ (encRows s rows ++ be 2 s.footer))) by
    simp [encode, hhead]]
  simp only [readN_append 11 _ _ hsig, if_true, readN_append 4 _ _ (be_length 4 _), hz, Nat.zero_div, hread0]
  exact pgTuples_enc s hs rows hr _ (by
    have : (signature ++ (be 4 0 ++ (be 4 0 ++ (encRows s rows ++ be 2 s.footer)))).length = (encode s rows).length := by
      simp [encode, hhead]
    omega)

end RP.PgSpec
