import RP.Model.Iso
/-! # C05, abstract level: sorting four `(suit, content)` entries by `(key content, suit)`

Generic facts about the model's insertion sort (`RP.Iso.ins`, `RP.Iso.isort`) and the
canonicalisation argument of DESIGN A.3 for an arbitrary content type `C` with a key `K : C → Nat`.
No bit-level reasoning here. -/
namespace RP.Iso
open List

section SortSec
variable {α : Type} (lt : α → α → Bool)

theorem ins_perm (e : α) (l : List α) : (ins lt e l).Perm (e :: l) := by
  induction l with
  | nil => exact Perm.refl _
  | cons x xs ih =>
    simp only [ins]
    split
    · exact (Perm.cons x ih).trans (Perm.swap e x xs)
    · exact Perm.refl _

theorem isort_perm (l : List α) : (isort lt l).Perm l := by
  induction l with
  | nil => exact Perm.refl _
  | cons x xs ih => exact (ins_perm lt x _).trans (Perm.cons x ih)

theorem mem_ins {a e : α} {l : List α} : a ∈ ins lt e l ↔ a = e ∨ a ∈ l := by
  rw [(ins_perm lt e l).mem_iff, mem_cons]

theorem mem_isort {a : α} {l : List α} : a ∈ isort lt l ↔ a ∈ l := (isort_perm lt l).mem_iff

theorem isort_length (l : List α) : (isort lt l).length = l.length := (isort_perm lt l).length_eq

/-- "not after": the relation a correctly sorted list satisfies pairwise -/
def NotAfter (a b : α) : Prop := lt b a = false

variable (hasymm : ∀ a b, lt a b = true → lt b a = false)
variable (hneg : ∀ a b c, lt a c = true → lt a b = true ∨ lt b c = true)
include hasymm hneg

theorem ins_sorted (e : α) (l : List α) (h : l.Pairwise (NotAfter lt)) :
    (ins lt e l).Pairwise (NotAfter lt) := by
  induction l with
  | nil => simp [ins]
  | cons x xs ih =>
    rw [pairwise_cons] at h
    simp only [ins]
    by_cases hx : lt x e = true
    · simp only [hx, if_true, pairwise_cons]
      refine ⟨?_, ih h.2⟩
      intro y hy
      rcases (mem_ins lt).1 hy with rfl | hy
      · exact hasymm _ _ hx
      · exact h.1 y hy
    · have hx' : lt x e = false := by simpa using hx
      simp only [hx', Bool.false_eq_true, if_false, pairwise_cons]
      refine ⟨?_, h.1, h.2⟩
      intro y hy
      rcases mem_cons.1 hy with rfl | hy
      · exact hx'
      · -- lt y e → lt y x ∨ lt x e, both excluded
        have hyx : lt y x = false := h.1 y hy
        unfold NotAfter
        cases hye : lt y e with
        | false => rfl
        | true =>
          rcases hneg y x e hye with h1 | h1
          · rw [hyx] at h1; cases h1
          · exact absurd h1 hx

theorem isort_sorted (l : List α) : (isort lt l).Pairwise (NotAfter lt) := by
  induction l with
  | nil => simp [isort]
  | cons x xs ih => exact ins_sorted lt hasymm hneg x _ ih

omit hasymm hneg

/-- a list that is already sorted is left alone -/
theorem isort_of_sorted (l : List α) (h : l.Pairwise (NotAfter lt)) : isort lt l = l := by
  induction l with
  | nil => rfl
  | cons x xs ih =>
    rw [pairwise_cons] at h
    simp only [isort, ih h.2]
    cases xs with
    | nil => rfl
    | cons y ys =>
      have : lt y x = false := h.1 y (by simp)
      simp [ins, this]

/-- sorting commutes with an injection of the entries into a richer type -/
theorem isort_map {β : Type} (f : β → α) (l : List β) :
    isort lt (l.map f) = (isort (fun x y => lt (f x) (f y)) l).map f := by
  have hins : ∀ (e : β) (l : List β), ins lt (f e) (l.map f) = (ins (fun x y => lt (f x) (f y)) e l).map f := by
    intro e l
    induction l with
    | nil => rfl
    | cons x xs ih =>
      simp only [map_cons, ins]
      split
      · simp [ih]
      · simp
  induction l with
  | nil => rfl
  | cons x xs ih => simp only [map_cons, isort, ih, hins]

include hasymm hneg
/-- **Any sorting algorithm returns the same list**: a permutation of `l` that is sorted w.r.t. the
    comparison equals the insertion-sorted list, provided no two distinct members of `l` tie. -/
theorem sort_unique (l l' : List α) (hp : l'.Perm l) (hs : l'.Pairwise (NotAfter lt))
    (hstrict : ∀ a ∈ l, ∀ b ∈ l, lt a b = false → lt b a = false → a = b) : l' = isort lt l := by
  refine Perm.eq_of_pairwise ?_ hs (isort_sorted lt hasymm hneg l) (hp.trans (isort_perm lt l).symm)
  intro a b ha hb hab hba
  exact hstrict a (hp.mem_iff.1 ha) b ((mem_isort lt).1 hb) hba hab

end SortSec

/-! ## Four suits, contents with a key -/
section Canon
variable {C : Type} (lt : Nat × C → Nat × C → Bool) (K : C → Nat)

/-- the comparison is "key first, suit second" -/
def OrderSpec : Prop :=
  ∀ s t a b, lt (s, a) (t, b) = true ↔ (K a < K b ∨ (K a = K b ∧ s < t))

def entriesA (c : Nat → C) : List (Nat × C) := [0, 1, 2, 3].map (fun s => (s, c s))

def sortedA (c : Nat → C) : List (Nat × C) := isort lt (entriesA c)

variable {lt K}

theorem OrderSpec.false_iff (h : OrderSpec lt K) (s t : Nat) (a b : C) :
    lt (s, a) (t, b) = false ↔ (K b < K a ∨ (K a = K b ∧ t ≤ s)) := by
  rw [← Bool.not_eq_true, h]; omega

theorem OrderSpec.asymm (h : OrderSpec lt K) : ∀ a b, lt a b = true → lt b a = false := by
  intro ⟨s, a⟩ ⟨t, b⟩ hab
  rw [h.false_iff]; rw [h] at hab; omega

theorem OrderSpec.neg (h : OrderSpec lt K) : ∀ a b c, lt a c = true → lt a b = true ∨ lt b c = true := by
  intro ⟨s, a⟩ ⟨t, b⟩ ⟨u, c⟩ hac
  rw [h] at hac; rw [h, h]; omega

theorem sortedA_perm (c : Nat → C) : (sortedA lt c).Perm (entriesA c) := isort_perm lt _

theorem sortedA_sorted (h : OrderSpec lt K) (c : Nat → C) : (sortedA lt c).Pairwise (NotAfter lt) :=
  isort_sorted lt h.asymm h.neg _

theorem mem_entriesA {c : Nat → C} {e : Nat × C} : e ∈ entriesA c ↔ e.1 < 4 ∧ e.2 = c e.1 := by
  obtain ⟨s, a⟩ := e
  simp only [entriesA, map_cons, map_nil, mem_cons, Prod.mk.injEq, not_mem_nil, or_false]
  constructor
  · rintro (⟨rfl, rfl⟩ | ⟨rfl, rfl⟩ | ⟨rfl, rfl⟩ | ⟨rfl, rfl⟩) <;> simp
  · rintro ⟨h1, rfl⟩
    have : s = 0 ∨ s = 1 ∨ s = 2 ∨ s = 3 := by omega
    rcases this with rfl | rfl | rfl | rfl <;> simp

theorem mem_sortedA {c : Nat → C} {e : Nat × C} : e ∈ sortedA lt c ↔ e.1 < 4 ∧ e.2 = c e.1 := by
  rw [sortedA, mem_isort, mem_entriesA]

theorem sortedA_snd (c : Nat → C) : (sortedA lt c).map Prod.snd = ((sortedA lt c).map Prod.fst).map c := by
  rw [map_map]
  apply map_congr_left
  intro e he
  exact (mem_sortedA.1 he).2

/-- the sorted suits are a rearrangement of the four suits -/
theorem sigmaA_perm (c : Nat → C) : ((sortedA lt c).map Prod.fst).Perm [0, 1, 2, 3] := by
  have := (sortedA_perm (lt := lt) c).map Prod.fst
  simpa [entriesA] using this

/-- the contents in sorted order are weakly increasing in the key -/
theorem sortedA_keys (h : OrderSpec lt K) (c : Nat → C) :
    ((sortedA lt c).map Prod.snd).Pairwise (fun a b => K a ≤ K b) := by
  rw [pairwise_map]
  refine (sortedA_sorted h c).imp ?_
  intro ⟨s, a⟩ ⟨t, b⟩ hab
  have := (h.false_iff t s b a).1 hab
  simp only; omega

/-- **Invariance, abstract form.** If `c'` is `c` with the suits renamed by a rearrangement `π` of the
    four suits and the key separates the contents that occur, both sorts list the same contents. -/
theorem sortedA_invariant (h : OrderSpec lt K) (c c' : Nat → C) (π : List Nat)
    (hπ : π.Perm [0, 1, 2, 3]) (hrel : ∀ s, s < 4 → c' (π.getD s 0) = c s)
    (hinj : ∀ s t, s < 4 → t < 4 → K (c s) = K (c t) → c s = c t) :
    (sortedA lt c').map Prod.snd = (sortedA lt c).map Prod.snd := by
  -- the multiset of contents is the same
  have hlen : π.length = 4 := hπ.length_eq
  have hπl : π = [π.getD 0 0, π.getD 1 0, π.getD 2 0, π.getD 3 0] := by
    match π, hlen with
    | [a, b, c, d], _ => rfl
  have hcc : ([0, 1, 2, 3].map c').Perm ([0, 1, 2, 3].map c) := by
    have h1 : π.map c' = [0, 1, 2, 3].map c := by
      rw [hπl]
      simp only [map_cons, map_nil]
      rw [hrel 0 (by omega), hrel 1 (by omega), hrel 2 (by omega), hrel 3 (by omega)]
    rw [← h1]
    exact (hπ.map c').symm
  have hp : ((sortedA lt c').map Prod.snd).Perm ((sortedA lt c).map Prod.snd) := by
    have a1 := (sortedA_perm (lt := lt) c').map Prod.snd
    have a2 := (sortedA_perm (lt := lt) c).map Prod.snd
    have e1 : (entriesA c').map Prod.snd = [0, 1, 2, 3].map c' := by simp [entriesA]
    have e2 : (entriesA c).map Prod.snd = [0, 1, 2, 3].map c := by simp [entriesA]
    rw [e1] at a1; rw [e2] at a2
    exact a1.trans (hcc.trans a2.symm)
  refine Perm.eq_of_pairwise ?_ (sortedA_keys h c') (sortedA_keys h c) hp
  intro a b ha hb hab hba
  -- both are contents of `c`
  have ha' : a ∈ (sortedA lt c).map Prod.snd := hp.mem_iff.1 ha
  obtain ⟨⟨s, a0⟩, hs, rfl⟩ := mem_map.1 ha'
  obtain ⟨⟨t, b0⟩, ht, rfl⟩ := mem_map.1 hb
  obtain ⟨hs4, hsa⟩ := mem_sortedA.1 hs
  obtain ⟨ht4, htb⟩ := mem_sortedA.1 ht
  simp only at hsa htb hs4 ht4 hab hba ⊢
  subst hsa htb
  exact hinj s t hs4 ht4 (by omega)

/-- **Idempotence, abstract form.** Put the `i`-th sorted content on suit `i`: the result sorts to
    the identity arrangement. -/
theorem sortedA_canonical (h : OrderSpec lt K) (c ct : Nat → C)
    (hct : [0, 1, 2, 3].map ct = (sortedA lt c).map Prod.snd) :
    sortedA lt ct = entriesA ct := by
  apply isort_of_sorted
  have hk := sortedA_keys h c
  rw [← hct] at hk
  simp only [map_cons, map_nil, pairwise_cons, mem_cons, not_mem_nil, or_false, forall_eq_or_imp,
    forall_eq, Pairwise.nil, and_true] at hk
  simp only [entriesA, map_cons, map_nil, pairwise_cons, mem_cons, not_mem_nil, or_false,
    forall_eq_or_imp, forall_eq, Pairwise.nil, and_true, NotAfter]
  simp only [h.false_iff]
  simp at hk ⊢
  omega

end Canon
end RP.Iso
