import RP.Lemmas.Codec
import RP.Lemmas.PairKeys
/-! Bit fields of `Abstraction::from((street, index))` as arithmetic (shared by C15 and C16). -/
namespace RP.C15
open RP.Bits RP.Gen RP.Codec

theorem absL_and (x : Nat) : absL &&& x = x % 2^12 := by
  have : absL = 2^12 - 1 := by decide
  rw [Nat.and_comm, this, Nat.and_two_pow_sub_one_eq_mod]
theorem absM_and (x : Nat) : absM &&& x = (x / 2^12 % 2^44) * 2^12 := by
  have : absM = (2^44 - 1) <<< 12 := by decide
  rw [Nat.and_comm, this, and_field]
theorem absH_and (x : Nat) : absH &&& x = (x / 2^56 % 2^8) * 2^56 := by
  have : absH = (2^8 - 1) <<< 56 := by decide
  rw [Nat.and_comm, this, and_field]
theorem absLbits_eq : absLbits = 12 := by decide
theorem absHshift_eq : absHshift = 56 := by decide

theorem absOf_bits (s i : Nat) (hs : s < 4) : (absOf s i).bits = absBitsFast s i := by
  have hu : streetU8 s = s := by
    have : s = 0 ∨ s = 1 ∨ s = 2 ∨ s = 3 := by omega
    rcases this with rfl | rfl | rfl | rfl <;> decide
  simp only [absOf, signature, hu, absLbits_eq, absHshift_eq, absL_and, absM_and, absH_and, u64]
  have e1 : i % 2 ^ 64 % 2 ^ 12 = i % 4096 := by omega
  have e2 : (s <<< 12) % 2^64 = s <<< 12 := by rw [Nat.shiftLeft_eq]; omega
  have e3 : (s <<< 56) % 2^64 = s * 2^56 := by rw [Nat.shiftLeft_eq]; omega
  rw [e1, e2, e3, or_shl_eq _ _ _ (by omega)]
  unfold absBitsFast absMid
  generalize ((i % 4096 + s * 2 ^ 12) * absMul % 2 ^ 64) = y
  generalize hm : y / 2 ^ 12 % 2 ^ 44 = m
  have hm' : m < 2^44 := by omega
  have e4 : m * 2 ^ 12 / 2 ^ 12 % 2 ^ 44 * 2 ^ 12 = m * 2^12 := by omega
  have e5 : s * 2 ^ 56 / 2 ^ 56 % 2 ^ 8 * 2 ^ 56 = s * 2^56 := by
    rw [Nat.mul_div_cancel _ (Nat.pow_pos (by omega)), Nat.mod_eq_of_lt (by omega)]
  rw [e4, e5]
  have e6 : i % 4096 ||| m * 2 ^ 12 = i % 4096 + m * 2^12 := by
    rw [← Nat.shiftLeft_eq, or_shl_eq _ _ _ (by omega), Nat.shiftLeft_eq]
  rw [e6]
  rw [← Nat.shiftLeft_eq s 56, or_shl_eq _ _ _ (by omega), Nat.shiftLeft_eq]

theorem absMid_lt (s i : Nat) : absMid s i < 2^44 := by unfold absMid; omega
theorem absBitsFast_lt (s i : Nat) (hs : s < 4) : absBitsFast s i < 2^64 := by
  have := absMid_lt s i; unfold absBitsFast; omega

/-- street tag, index and variant of a constructed abstraction -/
theorem absOf_fields (s i : Nat) (hs : s < 4) :
    absTag (absOf s i).bits = s ∧ absIndex (absOf s i) = i % 4096 ∧ (absOf s i).bits < 2^64 := by
  have hm := absMid_lt s i
  unfold absTag absIndex
  rw [absOf_bits s i hs, absH_and, absL_and, absHshift_eq, Nat.shiftRight_eq_div_pow]
  unfold absBitsFast
  refine ⟨by omega, by omega, by omega⟩

theorem variant_tables : ∀ s, s < 4 → lookup C15.absTagVariant s = some (C15.absStreetVariant.getD s 255) ∧
    lookup C15.absTagStreet s = some s := by decide


/-- the street and the index of a constructed abstraction are read back from its word -/
theorem abs_street_index (s i : Nat) (hs : s < 4) : absStreet (absOf s i) = some s ∧ absIndex (absOf s i) = i % 4096 := by
  obtain ⟨ht, hi, _⟩ := absOf_fields s i hs
  refine ⟨?_, hi⟩
  unfold absStreet; rw [ht]; exact (variant_tables s hs).2

end RP.C15
