#!/bin/bash
# tools/remut.sh <seed-id>… : re-run mutcheck for already imported seeds (MUT_DIR lane from env) and append the verdicts
cd /verif
export MUT_DIR=${MUT_DIR:-/tmp/mut-lead}
for S in "$@"; do
  P=${S:0:3}; [ "${S:0:5}" = unfix ] && P=$(python3 -c "import json;print(json.load(open('seeded/$S/meta.json'))['property'][:3])")
  R=$(python3 tools/mutcheck.py seeded/$S/patch.diff $P 2>&1 | tail -1)
  echo "$S $R"
  echo -e "$(date +%H:%M)\t$S\t$R" >> seeded/RESULTS.tsv
done
