#!/bin/bash
# tools/seedtest.sh <Cxx> [extra check ids…] : import both seeds of a sub-agent and run mutcheck on them
P=$1; shift; EXTRA="$@"
export MUT_DIR=${MUT_DIR:-/tmp/mut-lead}
cd /verif
TAG=s; [ -d /tmp/seed/$P/seed_r1 ] && TAG=r2s; [ -d /tmp/seed/$P/seed_r2 ] && TAG=r3s; [ -d /tmp/seed/$P/seed_r3 ] && TAG=r4s; [ -d /tmp/seed/$P/seed_r4 ] && TAG=r5s; TAG=${SEEDTAG:-$TAG}
for n in 1 2 3 4 5; do
  [ -d /tmp/seed/$P/seed/$n ] || continue
  if [ ! -d seeded/$P-$TAG$n ]; then tools/import_seed.sh $P $n | tail -1; fi
  [ -d seeded/$P-$TAG$n ] || { echo "$P-$TAG$n not confirmed"; continue; }
  R=$(python3 tools/mutcheck.py seeded/$P-$TAG$n/patch.diff $P $EXTRA 2>&1 | tail -1)
  echo "$P-$TAG$n $R"
  echo -e "$(date +%H:%M)\t$P-$TAG$n\t$R" >> seeded/RESULTS.tsv
done
