#!/bin/bash
# tools/seedtest.sh <Cxx> [extra check ids…] : import both seeds of a sub-agent and run mutcheck on them
P=$1; shift; EXTRA="$@"
export MUT_DIR=${MUT_DIR:-/tmp/mut-lead}
cd /verif
for n in 1 2; do
  [ -d /tmp/seed/$P/seed/$n ] || continue
  if [ ! -d seeded/$P-s$n ]; then tools/import_seed.sh $P $n | tail -1; fi
  [ -d seeded/$P-s$n ] || { echo "$P-s$n not confirmed"; continue; }
  R=$(python3 tools/mutcheck.py seeded/$P-s$n/patch.diff $P $EXTRA 2>&1 | tail -1)
  echo "$P-s$n $R"
  echo -e "$(date +%H:%M)\t$P-s$n\t$R" >> seeded/RESULTS.tsv
done
