"""Extractor plug-in for C17/C18: what tools/extract.py's Layout.lean lacks.

For each of the four Table impls it re-reads from /repo/src:
  * `creates()`  : CREATE TABLE column names and SQL types
  * `save()`     : the `for PATTERN in EXPR` loop heads (which loop variable is key / value)
  * `load()`     : for every `reader.read_*` call, in order, what happens to the value read:
                   ("skip","")      the value is discarded (a field length nobody looks at)
                   ("assert","8")   `assert!(8 == reader.read_u32 ..)`
                   ("bind", sink)   the value is bound to a variable; `sink` says where that variable
                                    ends up in the table: bucket.0/1/2 (Bucket::from tuple position),
                                    entry.N (argument of the N-th `.entry(..)` call), memory.regret /
                                    memory.policy (`set_regret` / `set_policy`), insert.0/1, set.0/1
                   and the loop-nesting depth of the header write and of every `write_*` call
  * `load()`     : the offset of `reader.seek(SeekFrom::Start(..))`
  * the expression the f32 weight goes through in transitions' load (`(weight * mass) as usize`)
Generates lean/RP/Gen/C17.lean (namespace RP.Gen.C17).  Fails loudly on anything unexpected.
"""
import re, json


def extract(api):
    src, need, lean_list, Err = api["src"], api["need"], api["lean_list"], api["ExtractError"]
    strip = api["strip_comments"]

    def q(s):
        return json.dumps(s)

    def split_args(s):
        """split on top-level commas"""
        out, depth, cur = [], 0, ""
        for ch in s:
            if ch in "([{":
                depth += 1
            elif ch in ")]}":
                depth -= 1
            if ch == "," and depth == 0:
                out.append(cur.strip()); cur = ""
            else:
                cur += ch
        if cur.strip():
            out.append(cur.strip())
        return out

    def balanced(text, start):
        """text[start] == '(' -> index after the matching ')'"""
        depth = 0
        for i in range(start, len(text)):
            if text[i] == "(":
                depth += 1
            elif text[i] == ")":
                depth -= 1
                if depth == 0:
                    return i + 1
        raise Err("c17: unbalanced parenthesis in load()")

    def calls(body, pat):
        """argument strings of every call matching `pat(`, in order"""
        out = []
        for m in re.finditer(pat + r"\(", body):
            end = balanced(body, m.end() - 1)
            out.append(body[m.end():end - 1])
        return out

    def table(rel, tag):
        t = strip(src(rel))
        cm = need(r"fn creates\(\) -> String \{\s*\"(.*?)\"", t, f"{rel} creates()")
        inner = need(r"CREATE TABLE IF NOT EXISTS \w+ \((.*?)\)\s*;", cm.group(1), f"{rel} CREATE TABLE body")
        creates = []
        for part in split_args(inner.group(1)):
            w = part.split()
            if len(w) != 2:
                raise Err(f"c17: {rel} creates(): cannot read column definition {part!r}")
            creates.append((w[0], w[1]))
        sm = need(r"fn save\(&self\) \{(.*?)\n    \}", t, f"{rel} save()")
        loops = [re.sub(r"\s+", " ", x.strip()) for x in re.findall(r"\bfor (.*?) \{", sm.group(1))]
        if not loops:
            raise Err(f"c17: {rel} save(): no row loop found")
        # brace depth (inside save's body) of the header write and of every write_* call:
        # the header and the trailer must be outside the row loops, the row writes inside all of them
        depths = []
        sbody = sm.group(1)
        for m in re.finditer(r"file\.write_all\(Self::header\(\)\)|file\.write_\w+::<BE>\(", sbody):
            before = sbody[:m.start()]
            depths.append(before.count("{") - before.count("}"))
        lm = need(r"fn load\([^)]*\) -> Self \{(.*?)\n    \}", t, f"{rel} load()")
        body = lm.group(1)
        rowm = need(r"match u16::from_be_bytes\(buffer\.clone\(\)\) \{\s*\d+ => \{(.*?)\n                \}", body, f"{rel} load() row arm")
        row = rowm.group(1)
        # statements of the row arm
        stmts = [re.sub(r"\s+", " ", s.strip()) for s in row.split(";") if s.strip()]
        binds = []       # per read: (kind, var)
        alias = {}       # var -> read var it is a plain conversion of
        for s in stmts:
            n = len(re.findall(r"reader\.read_\w+::<BE>\(\)", s))
            if n > 1:
                raise Err(f"c17: {rel} load(): more than one read in statement {s!r}")
            if n == 1:
                m = re.match(r"let (\w+) = .*reader\.read_", s)
                if m:
                    binds.append(("bind", m.group(1)))
                elif re.match(r"assert!\((\d+) == reader\.read_", s):
                    binds.append(("assert", re.match(r"assert!\((\d+) ==", s).group(1)))
                elif re.match(r"reader\.read_\w+::<BE>\(\)\.expect\(\"[^\"]*\"\)$", s):
                    binds.append(("skip", ""))
                else:
                    raise Err(f"c17: {rel} load(): unrecognised read statement {s!r}")
            else:
                m = re.match(r"let (\w+) = \w+::from\((\w+)\)$", s)
                if m:
                    alias[m.group(1)] = m.group(2)
        reads_total = len(re.findall(r"reader\.read_\w+::<BE>\(\)", body))
        if reads_total != len(binds):
            raise Err(f"c17: {rel} load(): {reads_total} reads but {len(binds)} classified")

        def root(v):
            seen = 0
            while v in alias and seen < 8:
                v = alias[v]; seen += 1
            return v

        def vars_in(expr):
            # identifiers used as values: not a path segment (`X::`, `::from`), not a method or call name
            return [root(w) for w in re.findall(r"(?<![\w:.])[A-Za-z_]\w*(?!\w|\s*\(|::)", expr)]

        sinks = {}

        def put(var, sink):
            if var in sinks and sinks[var] != sink:
                raise Err(f"c17: {rel} load(): variable {var} flows into both {sinks[var]} and {sink}")
            sinks[var] = sink

        bound = {v for k, v in binds if k == "bind"}
        for a in calls(row, r"Bucket::from\("):
            parts = split_args(a)
            for i, p in enumerate(parts):
                for v in vars_in(p):
                    if v in bound:
                        put(v, f"bucket.{i}")
        for name, arg in re.findall(r"\.set_(\w+)\((\w+)\)", row):
            if root(arg) in bound:
                put(root(arg), f"memory.{name}")
        for i, a in enumerate(calls(row, r"\.entry")):
            for v in vars_in(a):
                if v in bound:
                    put(v, f"entry.{i}")
        for a in calls(row, r"\.insert"):
            for i, p in enumerate(split_args(a)):
                for v in vars_in(p):
                    if v in bound:
                        put(v, f"insert.{i}")
        for a in calls(row, r"\.set"):
            for i, p in enumerate(split_args(a)):
                for v in vars_in(p):
                    if v in bound:
                        put(v, f"set.{i}")
        out = []
        for k, v in binds:
            if k == "bind":
                if v not in sinks:
                    raise Err(f"c17: {rel} load(): value read into `{v}` is not stored in the table")
                out.append(("bind", sinks[v]))
            else:
                out.append((k, v))
        weight = ""
        m = re.search(r"\.set\(\s*[^,]*,\s*(.*?)\)\s*;", row, re.S)
        if m:
            weight = re.sub(r"\s+", " ", m.group(1).strip())
        sk = need(r"reader\.seek\(SeekFrom::Start\((\d+)\)\)", body, f"{rel} load() seek past header")
        return dict(creates=creates, loops=loops, binds=out, weight=weight, seek=int(sk.group(1)), depths=depths)

    L = ["-- GENERATED by tools/extractors/c17.py from /repo/src — do not edit", "namespace RP.Gen.C17", ""]
    for rel, tag in [("mccfr/profile.rs", "blueprint"), ("clustering/metric.rs", "metric"),
                     ("clustering/lookup.rs", "lookup"), ("clustering/transitions.rs", "transitions")]:
        d = table(rel, tag)
        L.append(f"def {tag}_creates : List (String × String) := " + lean_list(f"({q(a)}, {q(b)})" for a, b in d["creates"]))
        L.append(f"def {tag}_loops : List String := " + lean_list(q(x) for x in d["loops"]))
        L.append(f"def {tag}_binds : List (String × String) := " + lean_list(f"({q(a)}, {q(b)})" for a, b in d["binds"]))
        L.append(f"def {tag}_depths : List Nat := " + lean_list(d["depths"]))
        L.append(f"def {tag}_seek : Nat := {d['seek']}")
        if tag == "transitions":
            L.append(f"def transitions_weight : String := {q(d['weight'])}")
        L.append("")
    L.append("end RP.Gen.C17")
    return {"C17.lean": "\n".join(L) + "\n"}
