#!/usr/bin/env python3
"""regenerate MANIFEST.json from props/*.json (one file per claimed property)"""
import json, os, glob
ROOT = os.path.join(os.path.dirname(os.path.abspath(__file__)), "..")
props = [json.loads(l) for l in open(os.path.join(ROOT, "properties.jsonl"))]
checks, na = [], []
hooks_commits = json.load(open(os.path.join(ROOT, "tools", "hooks.json")))
for p in props:
    pid = p["id"]
    f = os.path.join(ROOT, "props", pid + ".json")
    cfg = json.load(open(f)) if os.path.exists(f) else None
    if not cfg or not cfg.get("claimed", False):
        na.append(dict(property_id=pid, reason=(cfg or {}).get("na_reason", "check not built yet in this round (work in progress; see DESIGN.md section 6 for the plan)")))
        continue
    checks.append(dict(
        property_id=pid,
        quick_cmd=f"./check {pid} --tier quick",
        thorough_cmd=f"./check {pid} --tier thorough",
        evidence_file=f"evidence/{pid}.json",
        replay_cmd_template=f"./check {pid} --replay {{path}}",
        engine="lean4-proof+correspondence",
        level_claimed=dict(category="proof", text=cfg["level_text"], design_ref=cfg.get("design_ref", f"DESIGN.md section 6, {pid}")),
        level_note=cfg["level_note"],
        technique=cfg.get("technique", "Lean 4 theorems over an executable model; model tied to the code by generated constants and a differential correspondence run"),
    ))
m = dict(
    version=1,
    setup_cmd="./setup.sh",
    hooks=dict(guard="--cfg robopoker_verif", enable='RUSTFLAGS="--cfg robopoker_verif" cargo build (harness crate /verif/harness, path dependency on /repo)',
               baseline_off_cmd="cd /repo && cargo test --workspace --no-fail-fast --offline",
               source_commits=hooks_commits, add_only=True),
    engines=[dict(name="lean4-proof+correspondence", path="check", serves_properties=[c["property_id"] for c in checks],
                  kind_free_text="Lean 4 kernel-checked theorems about an executable model (lean/RP), constants/tables regenerated from /repo/src by tools/extract.py, model driven against the real code by the Rust harness (harness/) on a line protocol; search oracle = implementation vs executable specification")],
    checks=checks,
    notes="See DESIGN.md. known_findings.json lists recorded findings and fixed defects.",
    not_applicable=na,
)
json.dump(m, open(os.path.join(ROOT, "MANIFEST.json"), "w"), indent=1)
print("manifest:", len(checks), "claimed,", len(na), "not claimed")
