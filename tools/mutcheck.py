#!/usr/bin/env python3
"""tools/mutcheck.py <patch.diff> <Cxx> [<Cyy> …] [--tier quick]

Run checks against a *mutated scratch copy* of /repo without touching /repo or /verif:
  /tmp/mut/repo   = copy of /repo's working tree (no target/) + the patch
  /tmp/mut/verif  = copy of /verif (no .build/cargo*, no replays) whose harness depends on /tmp/mut/repo
The scratch copies keep their build output between runs (incremental); `--clean` removes them.
Prints one line per property: DETECTED (check exited 1 with a VIOLATION line) / MISSED (exit 0) / ERROR.
This is lead-side tooling for the seeded-change experiments; registered checks never use it.
"""
import os, subprocess, sys, json, shutil, time

MUT = os.environ.get("MUT_DIR", "/tmp/mut")


def sh(cmd, **kw):
    return subprocess.run(cmd, shell=isinstance(cmd, str), stdout=subprocess.PIPE, stderr=subprocess.STDOUT, **kw)


def main():
    args = sys.argv[1:]
    if "--clean" in args:
        shutil.rmtree(MUT, ignore_errors=True)
        print("removed", MUT)
        return
    tier = "quick"
    if "--tier" in args:
        i = args.index("--tier"); tier = args[i + 1]; del args[i:i + 2]
    patch = os.path.abspath(args[0]) if args[0] != "-" else None
    ids = args[1:]
    os.makedirs(MUT, exist_ok=True)
    import fcntl
    lock = open(os.path.join(MUT, ".lock"), "w")
    fcntl.flock(lock, fcntl.LOCK_EX)
    sh(f"rsync -a --delete --exclude target --exclude .git /repo/ {MUT}/repo/")
    if patch:
        p = sh(["git", "apply", "--unsafe-paths", "--directory", f"{MUT}/repo", patch], cwd="/")
        if p.returncode != 0:
            # fall back to plain patch
            p = sh(f"patch -p1 -d {MUT}/repo < {patch}")
            if p.returncode != 0:
                print("ERROR: patch does not apply:", p.stdout.decode()[-400:]); sys.exit(2)
    sh(f"rsync -a --delete --exclude .build --exclude replays --exclude lean/.lake --exclude .git /verif/ {MUT}/verif/")
    # reuse compiled Lean outputs of /verif on first use
    if not os.path.exists(f"{MUT}/verif/lean/.lake"):
        sh(f"cp -a /verif/lean/.lake {MUT}/verif/lean/.lake")
    else:
        sh(f"rsync -a /verif/lean/.lake/ {MUT}/verif/lean/.lake/")
    ct = f"{MUT}/verif/harness/Cargo.toml"
    s = open(ct).read().replace('path = "/repo"', f'path = "{MUT}/repo"')
    open(ct, "w").write(s)
    shutil.copy(f"{MUT}/repo/Cargo.lock", f"{MUT}/verif/harness/Cargo.lock") if not os.path.exists(f"{MUT}/verif/harness/Cargo.lock") else None
    env = dict(os.environ, VERIF_REPO=f"{MUT}/repo", VERIF_TIER=tier)
    results = {}
    for pid in ids:
        t = time.time()
        p = subprocess.run(["./check", pid, "--tier", tier], cwd=f"{MUT}/verif", env=env, stdout=subprocess.PIPE, stderr=subprocess.STDOUT)
        out = p.stdout.decode("utf-8", "replace")
        viol = [l for l in out.split("\n") if l.startswith("VIOLATION")]
        if p.returncode == 1 and viol:
            verdict = "DETECTED(no-failing-input)" if viol[0].rstrip().endswith("no-failing-input-found") else "DETECTED(failing-input)"
        elif p.returncode == 0:
            verdict = "MISSED"
        else:
            verdict = "ERROR"
        results[pid] = verdict
        print(f"{pid}: {verdict} ({time.time() - t:.0f}s)")
        for l in out.strip().split("\n")[-6:]:
            print("    " + l[:300])
    print(json.dumps(results))


if __name__ == "__main__":
    main()
