#!/bin/bash
# tools/confirm_seed.sh <worktree> <n> : confirm a sub-agent's seeded change in its scratch worktree:
# builds, passes the pinned suite (91), demo fails with the change and passes without it.
W=$1; N=$2; S=$W/seed/$N
cd $W || exit 2
git checkout -q -- src 2>/dev/null
rm -f tests/verif_demo.rs examples/verif_demo.rs
DEMO=$(python3 -c "import json;print(json.load(open('$S/meta.json'))['demo'])")
DCMD=$(python3 -c "import json;print(json.load(open('$S/meta.json')).get('demo_cmd',''))")
FEAT=""; if echo "$DCMD" | grep -q "features shortdeck"; then FEAT="--features shortdeck"; fi
REL=""; if echo "$DCMD" | grep -q -- "--release"; then REL="--release"; fi
if [[ "$DEMO" == *main* ]]; then mkdir -p examples; cp $S/$DEMO examples/verif_demo.rs; RUN="cargo run --offline $REL $FEAT --example verif_demo"; else mkdir -p tests; cp $S/$DEMO tests/verif_demo.rs; RUN="cargo test --offline $REL $FEAT --test verif_demo"; fi
echo "== clean tree: demo must pass"
$RUN > $W/.confirm_clean.log 2>&1; C=$?
git apply $S/patch.diff || { echo "PATCH DOES NOT APPLY"; exit 2; }
echo "== patched: build (+shortdeck), suite, demo must fail"
cargo build --offline > $W/.confirm_build.log 2>&1; B=$?
cargo build --offline --features shortdeck > $W/.confirm_build_s.log 2>&1; BS=$?
cargo test --workspace --no-fail-fast --offline --lib > $W/.confirm_suite.log 2>&1
SUITE=$(grep -E "^test result" $W/.confirm_suite.log | head -1)
$RUN > $W/.confirm_patched.log 2>&1; P=$?
git checkout -q -- src
rm -f tests/verif_demo.rs examples/verif_demo.rs
rmdir tests examples 2>/dev/null
echo "clean_demo_exit=$C build=$B build_short=$BS suite=[$SUITE] patched_demo_exit=$P"
if [ $C -eq 0 ] && [ $B -eq 0 ] && [ $BS -eq 0 ] && [ $P -ne 0 ] && echo "$SUITE" | grep -q "91 passed; 0 failed"; then echo CONFIRMED; else echo NOT-CONFIRMED; grep -E "panicked|FAILED|error" $W/.confirm_patched.log | head -5; fi
