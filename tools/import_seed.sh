#!/bin/bash
# tools/import_seed.sh <Cxx> <n> : confirm and copy /tmp/seed/Cxx/seed/n into /verif/seeded/Cxx-sn/
P=$1; N=$2; W=/tmp/seed/$P; TAG=s; [ -d $W/seed_r1 ] && TAG=r2s; [ -d $W/seed_r2 ] && TAG=r3s; [ -d $W/seed_r3 ] && TAG=r4s; [ -d $W/seed_r4 ] && TAG=r5s; TAG=${SEEDTAG:-$TAG}; D=/verif/seeded/$P-$TAG$N
OUT=$(/verif/tools/confirm_seed.sh $W $N 2>&1 | tail -2)
echo "$OUT"
if echo "$OUT" | grep -q "^CONFIRMED"; then
  mkdir -p $D; cp $W/seed/$N/* $D/
  python3 - "$D" "$OUT" <<'PY'
import json,sys
d,out=sys.argv[1],sys.argv[2]
m=json.load(open(d+'/meta.json'))
m['origin']='fresh sub-agent given only the property text and a scratch worktree'
m['confirmed_by_lead']=out.split('\n')[0]
json.dump(m,open(d+'/meta.json','w'),indent=1)
PY
  echo imported $D
fi
