#!/usr/bin/env python3
"""tools/harmless_run.py <dir with i/patch.diff> : run, for every semantics-preserving refactoring,
the checks of all properties anchored in the files it touches (via tools/mutcheck.py on a scratch
copy) and record the verdicts in seeded/HARMLESS.tsv.  Expected: OK (MISSED in mutcheck terms), or
DETECTED(no-failing-input) where the translator tie pins the rewritten text; a failing input would
be a false alarm."""
import json, os, re, subprocess, sys, glob
ROOT = os.path.join(os.path.dirname(os.path.abspath(__file__)), "..")
props = [json.loads(l) for l in open(os.path.join(ROOT, "properties.jsonl"))]
base = sys.argv[1]
out = open(os.path.join(ROOT, "seeded", os.environ.get("HARMLESS_TSV", "HARMLESS.tsv")), "a")
for d in sorted(glob.glob(os.path.join(base, "*", "patch.diff")), key=lambda p: int(os.path.basename(os.path.dirname(p)))):
    files = set(re.findall(r"^\+\+\+ b/(\S+)", open(d).read(), re.M))
    ids = [p["id"] for p in props if any(f in p["anchors"]["files"] for f in files)]
    if not ids:
        continue
    r = subprocess.run([sys.executable, os.path.join(ROOT, "tools", "mutcheck.py"), d] + ids, stdout=subprocess.PIPE, stderr=subprocess.STDOUT, env=dict(os.environ))
    last = r.stdout.decode().strip().split("\n")[-1]
    title = json.load(open(os.path.join(os.path.dirname(d), "meta.json"))).get("title", "")
    line = f"{os.path.basename(os.path.dirname(d))}\t{title}\t{sorted(files)}\t{last}"
    print(line); out.write(line + "\n"); out.flush()
