#!/bin/sh
# Build the framework from files on disk only (offline): generated constants, all Lean
# property modules and model drivers, and every harness binary in both deck configurations.
set -e
cd "$(dirname "$0")"
export CARGO_NET_OFFLINE=true
python3 tools/extract.py
IDS=$(python3 -c "import json;print(' '.join(c['property_id'] for c in json.load(open('MANIFEST.json'))['checks']))")
MODS=""; DRVS=""; BINS=""; SBINS=""
for id in $IDS; do
  MODS="$MODS $(python3 -c "import json;print(' '.join(json.load(open('props/$id.json')).get('lean_modules',['RP.Props.$id'])))")"
  low=$(echo $id | tr 'A-Z' 'a-z')
  DRVS="$DRVS drv_$low"; BINS="$BINS --bin $low"
  if python3 -c "import json,sys;sys.exit(0 if 'short' in json.load(open('props/$id.json')).get('streams',['std']) else 1)"; then SBINS="$SBINS --bin $low"; fi
done
(cd lean && lake build $MODS $DRVS)
(cd harness && CARGO_TARGET_DIR=../.build/cargo RUSTFLAGS="--cfg robopoker_verif" cargo build --release $BINS)
NBINS=""
for id in $IDS; do
  low=$(echo $id | tr 'A-Z' 'a-z')
  if python3 -c "import json,sys;sys.exit(0 if 'nodebug' in json.load(open('props/$id.json')).get('streams',['std']) else 1)"; then NBINS="$NBINS --bin $low"; fi
done
if [ -n "$NBINS" ]; then
  (cd harness && CARGO_TARGET_DIR=../.build/cargo-nodebug RUSTFLAGS="--cfg robopoker_verif" cargo build --profile release-nodebug $NBINS)
fi
if [ -n "$SBINS" ]; then
  (cd harness && CARGO_TARGET_DIR=../.build/cargo-short RUSTFLAGS="--cfg robopoker_verif" cargo build --release --features shortdeck $SBINS)
fi
echo setup: ok
