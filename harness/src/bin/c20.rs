// C20 — seeded sampling: the real explore_one / explore_any / Layer::init, asked repeatedly and
// from many threads, vs the bit-exact Lean model (SipHash-1-3 + Xoshiro256++ + rand 0.8.5
// gen_range / WeightedIndex<f32>) which *predicts* the branch. Search oracle: identical answers per
// (epoch, bucket) on every thread / repetition / tree, chi-square across epochs, init twice equal.
use robopoker::cards::street::Street;
use robopoker::clustering::abstraction::Abstraction;
use robopoker::clustering::histogram::Histogram;
use robopoker::clustering::layer::Layer;
use robopoker::clustering::metric::Metric;
use robopoker::gameplay::action::Action;
use robopoker::mccfr::blueprint::Blueprint;
use robopoker::mccfr::bucket::Bucket;
use robopoker::mccfr::data::Data;
use robopoker::mccfr::edge::Edge;
use robopoker::mccfr::encoder::Encoder;
use robopoker::mccfr::info::Info;
use robopoker::mccfr::node::Node;
use robopoker::mccfr::partition::Partition;
use robopoker::mccfr::player::Player;
use robopoker::mccfr::profile::Profile;
use robopoker::mccfr::tree::Branch;
use rpharness::*;
use std::collections::BTreeMap;

fn disc(a: &Abstraction) -> u64 {
    match a {
        Abstraction::Percent(_) => 0,
        Abstraction::Learned(_) => 1,
        Abstraction::Preflop(_) => 2,
    }
}
fn key(b: &Bucket) -> String {
    format!("{} {} {} {}", u64::from(b.0), disc(&b.1), u64::from(b.1), u64::from(b.2))
}

fn train(bp: &Blueprint, epochs: usize, batch: usize) {
    let profile = bp.verif_profile();
    for _ in 0..epochs {
        let mut cfs = vec![];
        for _ in 0..batch {
            let tree = bp.verif_tree();
            for info in Vec::<Info>::from(Partition::from(tree)) {
                cfs.push(profile.read().unwrap().counterfactual(info));
            }
        }
        let mut p = profile.write().unwrap();
        for cf in cfs {
            let bucket = cf.info().node().bucket().clone();
            p.add_regret(&bucket, cf.regret());
            p.add_policy(&bucket, cf.policy());
        }
        p.next();
    }
}

/// index of the branch the real explore_one takes at `node`
fn one(profile: &Profile, enc: &Encoder, node: &Node) -> Option<usize> {
    let branches = enc.branches(node);
    let edges: Vec<Edge> = branches.iter().map(|b| *b.edge()).collect();
    let chosen = profile.explore_one(branches, node);
    edges.iter().position(|e| e == chosen[0].edge())
}


/// deterministic scenario shared by the parent and a re-executed child process: forced deal, root
/// information set witnessed and skewed, opponent choice at the root for a range of epochs
fn root_scenario(epochs: &[usize], floor_regrets: bool) -> (String, Vec<f32>, Vec<Option<usize>>) {
    use robopoker::mccfr::tree::Tree;
    let enc = Encoder::default();
    robopoker::verif::set_draw_index(Some(7));
    let seed = enc.seed();
    robopoker::verif::set_draw_index(None);
    let mut tree = Tree::empty(Player::default());
    let root_index = tree.plant(seed).index();
    let root = tree.at(root_index);
    let mut profile = Profile::default();
    let branches = enc.branches(&root);
    profile.witness(&root, &branches);
    let bucket = root.bucket().clone();
    let edges: Vec<Edge> = Vec::<Edge>::from(bucket.2.clone());
    for (k, e) in edges.iter().enumerate() {
        let w = 0.5f32.powi(k as i32) + 0.01;
        let r = if floor_regrets && (k == 0 || k == 2) { -4.0e5 } else { 1.0 };
        profile.verif_set_memory(&bucket, e, r, w);
    }
    let weights: Vec<f32> = edges.iter().map(|e| profile.weight(&bucket, e)).collect();
    let mut out = vec![];
    for &e in epochs {
        profile.verif_set_epochs(e);
        out.push(catch(std::panic::AssertUnwindSafe(|| one(&profile, &enc, &root))).flatten());
    }
    (key(&bucket), weights, out)
}

/// many stored policies at the (13-edge) root information set: for each candidate the weights the
/// real `Profile::weight` hands out, and on demand the choices over a range of epochs
struct RootLab {
    enc: Encoder,
    tree: robopoker::mccfr::tree::Tree,
    root_index: petgraph::graph::NodeIndex,
    profile: Profile,
    bucket: Bucket,
    edges: Vec<Edge>,
    expected: Vec<f64>,
}
impl RootLab {
    fn new() -> Self {
        use robopoker::mccfr::tree::Tree;
        let enc = Encoder::default();
        robopoker::verif::set_draw_index(Some(11));
        let seed = enc.seed();
        robopoker::verif::set_draw_index(None);
        let mut tree = Tree::empty(Player::default());
        let root_index = tree.plant(seed).index();
        let mut profile = Profile::default();
        let (bucket, edges) = {
            let root = tree.at(root_index);
            let branches = enc.branches(&root);
            profile.witness(&root, &branches);
            let bucket = root.bucket().clone();
            let edges = Vec::<Edge>::from(bucket.2.clone());
            (bucket, edges)
        };
        Self { enc, tree, root_index, profile, bucket, edges, expected: vec![] }
    }
    /// store `policy` as the accumulated policy of the root information set (with stored REGRETS that
    /// are deliberately not proportional to it: the policy reversed) and return the weights the real
    /// `Profile::weight` hands out; `self.expected` holds policy / sum(policy) computed here
    fn set(&mut self, policy: &[f32]) -> Vec<f32> {
        let m = policy.len();
        for (i, (e, w)) in self.edges.iter().zip(policy).enumerate() {
            self.profile.verif_set_memory(&self.bucket, e, policy[m - 1 - i] * 3.0 + 0.25, *w);
        }
        let total: f64 = policy.iter().map(|w| *w as f64).sum();
        self.expected = policy.iter().map(|w| *w as f64 / total).collect();
        self.edges.iter().map(|e| self.profile.weight(&self.bucket, e)).collect()
    }
    /// `Profile::weight` must be the normalised stored policy (the probability "the current profile gives")
    fn weights_as_specified(&self, weights: &[f32]) -> Option<(usize, f64, f32)> {
        weights.iter().enumerate().find_map(|(i, w)| {
            let x = self.expected[i];
            if ((*w as f64) - x).abs() > 1e-5 * x + 1e-37 { Some((i, x, *w)) } else { None }
        })
    }
    /// the same question on the calling thread and on a fresh thread
    fn ask_both(&mut self, epoch: usize) -> (Option<usize>, Option<usize>) {
        self.profile.verif_set_epochs(epoch);
        let root = self.tree.at(self.root_index);
        let here = catch(std::panic::AssertUnwindSafe(|| one(&self.profile, &self.enc, &root))).flatten();
        let profile = &self.profile;
        let enc = &self.enc;
        let root = &root;
        let there = std::thread::scope(|s| {
            s.spawn(move || catch(std::panic::AssertUnwindSafe(|| one(profile, enc, root))).flatten()).join().unwrap_or(None)
        });
        (here, there)
    }
    fn ask(&mut self, epochs: std::ops::Range<usize>) -> Vec<Option<usize>> {
        let mut out = vec![];
        for e in epochs {
            self.profile.verif_set_epochs(e);
            let root = self.tree.at(self.root_index);
            out.push(catch(std::panic::AssertUnwindSafe(|| one(&self.profile, &self.enc, &root))).flatten());
        }
        out
    }
}

fn main() {
    if std::env::var("RP_C20_CHILD").is_ok() {
        // child mode: print the root scenario's answers and exit
        let epochs: Vec<usize> = (0..300).collect();
        let (_, _, ans) = root_scenario(&epochs, false);
        println!("{}", ans.iter().map(|a| a.map(|i| i.to_string()).unwrap_or("panic".into())).collect::<Vec<_>>().join(","));
        return;
    }
    let a = args();
    let mut rng = Rng::new(a.seed);
    let mut run = Run::new(&a.out);
    quiet_panics();
    let enc = Encoder::default();
    let bp = Blueprint::verif_new(Profile::default(), Encoder::default());
    let trained = catch(std::panic::AssertUnwindSafe(|| train(&bp, 6, 24))).is_some();
    if !trained {
        run.fail("solver-sampling-aborts", "Blueprint training: 6 epochs x 24 sampled trees from a fresh profile", "trees are sampled and the profile updated", "panic inside the real tree sampling / update (run with VERIF_LOUD=1 to see it)");
    }
    let profile = bp.verif_profile();
    let ntrees = if a.thorough() { 400 } else { 60 };
    let nthreads = if a.thorough() { 8 } else { 3 };
    run.rule = format!("profile trained 6 epochs x 24 trees; {ntrees} sampled trees, every opponent decision node: real explore_one asked 3x on the main thread and once on each of {nthreads} fresh threads, compared with each other and with the model's predicted index; nodes of different trees sharing (epoch, bucket) must agree; epochs swept 0..N at fixed buckets for the chi-square test; synthetic chance branch lists of size 2..40 for explore_any; Layer::init on random river-histogram point sets, twice, on fresh threads and under rayon pools of 1/3/8 threads; a case is non-trivial when the node offers >= 2 branches; distinct by (epoch, bucket)");
    let with_bp = std::panic::catch_unwind(std::panic::AssertUnwindSafe(|| {
    if !trained { return; }
    // ---- 1. explore_one at real opponent nodes, many threads, many trees
    let mut seen: BTreeMap<(usize, String), usize> = BTreeMap::new();
    let mut sweep: Vec<(Bucket, Vec<f32>)> = vec![];
    for t in 0..ntrees {
        if t % 7 == 3 {
            train(&bp, 1, 4); // move to the next epoch (alternates the walker)
        }
        let tree = bp.verif_tree();
        let p = profile.read().unwrap();
        let epoch = p.epochs();
        let walker = p.walker();
        for node in tree.all() {
            let player = node.player();
            if node.children().is_empty() || player == walker || player == Player::chance() {
                continue;
            }
            let bucket = node.bucket().clone();
            let edges: Vec<Edge> = Vec::<Edge>::from(bucket.2.clone());
            let weights: Vec<f32> = edges.iter().map(|e| p.weight(&bucket, e)).collect();
            run.evaluations += 1;
            let first = catch(std::panic::AssertUnwindSafe(|| one(&p, &enc, &node))).flatten();
            let mut answers = vec![first];
            for _ in 0..2 {
                answers.push(catch(std::panic::AssertUnwindSafe(|| one(&p, &enc, &node))).flatten());
            }
            std::thread::scope(|s| {
                let hs: Vec<_> = (0..nthreads)
                    .map(|_| s.spawn(|| catch(std::panic::AssertUnwindSafe(|| one(&p, &enc, &node))).flatten()))
                    .collect();
                for h in hs {
                    answers.push(h.join().unwrap_or(None));
                }
            });
            let op = format!("one {} {} {}", epoch, key(&bucket), weights.iter().map(|w| w.to_bits().to_string()).collect::<Vec<_>>().join(" "));
            let ans = match first { Some(i) => i.to_string(), None => "panic".into() };
            run.line(&op, &ans);
            run.spec_checked += 1;
            if answers.iter().any(|x| *x != first) {
                run.fail("choice-not-reproducible", &op, &format!("{:?} on every thread and repetition", first), &format!("{:?}", answers));
            }
            let k = (epoch, key(&bucket));
            if let Some(prev) = seen.get(&k) {
                if Some(*prev) != first {
                    run.fail("choice-not-reproducible", &format!("{op} (same epoch and bucket in another tree)"), &format!("{prev}"), &format!("{:?}", first));
                }
                run.count("same-key-in-two-trees");
            } else if let Some(i) = first {
                seen.insert(k.clone(), i);
            }
            if edges.len() >= 2 {
                run.distinct(&k);
            }
            run.count(&format!("menu-size={:02}", edges.len()));
            if edges.len() >= 2 && sweep.len() < 4000 && !sweep.iter().any(|(b, _)| *b == bucket) {
                sweep.push((bucket.clone(), weights.clone()));
            }
        }
    }
    // ---- 2. epochs swept at fixed buckets: unbiased draw + model prediction per epoch
    let nsweep: usize = if a.thorough() { 100_000 } else { 12_000 };
    // find a node for each sweep bucket in a fresh tree is not needed: rebuild nodes by sampling trees until found
    // prefer large, non-uniform menus; root-level (empty history) buckets are found again quickly
    let spread = |w: &Vec<f32>| -> f32 { w.iter().cloned().fold(0.0f32, f32::max) - w.iter().cloned().fold(1.0f32, f32::min) };
    sweep.sort_by(|a, b| {
        let ka = (u64::from(a.0 .0) != 0, -(a.1.len() as i64), -(spread(&a.1) * 1000.0) as i64);
        let kb = (u64::from(b.0 .0) != 0, -(b.1.len() as i64), -(spread(&b.1) * 1000.0) as i64);
        ka.cmp(&kb)
    });
    let mut found = 0;
    let mut guard = 0;
    while found < sweep.len().min(3) && guard < 4000 {
        guard += 1;
        let tree = bp.verif_tree();
        let epoch0 = profile.read().unwrap().epochs();
        let target = sweep[found].0.clone();
        let node = tree.all().into_iter().find(|n| !n.children().is_empty() && *n.bucket() == target);
        let node = match node { Some(n) => n, None => { if guard % 200 == 199 { sweep.remove(found); } continue } };
        let weights: Vec<f32> = {
            let p = profile.read().unwrap();
            Vec::<Edge>::from(target.2.clone()).iter().map(|e| p.weight(&target, e)).collect()
        };
        let mut hist = vec![0u64; weights.len()];
        // persistent workers with their own sampling history + fresh threads + trace-level logging:
        // the model predicts every answer, whoever asks and whatever the logging level is
        let (qtx, qrx): (Vec<_>, Vec<_>) = (0..3).map(|_| std::sync::mpsc::channel::<bool>()).unzip();
        let (atx, arx) = std::sync::mpsc::channel::<(usize, Option<usize>)>();
        std::thread::scope(|s| {
            for (w, rx) in qrx.into_iter().enumerate() {
                let atx = atx.clone();
                let profile = profile.clone();
                let enc = &enc;
                let node = &node;
                s.spawn(move || {
                    while let Ok(go) = rx.recv() {
                        if !go { break; }
                        let p = profile.read().unwrap();
                        let r = catch(std::panic::AssertUnwindSafe(|| one(&p, enc, node))).flatten();
                        drop(p);
                        atx.send((w, r)).unwrap();
                    }
                });
            }
            for e in 0..nsweep {
                profile.write().unwrap().verif_set_epochs(e);
                let tracing = e % 5 == 2;
                if tracing { log::set_max_level(log::LevelFilter::Trace); }
                let got = { let p = profile.read().unwrap(); catch(std::panic::AssertUnwindSafe(|| one(&p, &enc, &node))).flatten() };
                run.evaluations += 1;
                let op = format!("one {} {} {}", e, key(&target), weights.iter().map(|w| w.to_bits().to_string()).collect::<Vec<_>>().join(" "));
                let show = |g: Option<usize>| match g { Some(i) => i.to_string(), None => "panic".into() };
                if e < 3000 { run.line(&op, &show(got)); }
                if e < 48 || e % 101 == 0 {
                    // a long-lived worker (history: whatever epochs it was asked before) and a fresh thread
                    let w = (e / 3) % 3;
                    qtx[w].send(true).unwrap();
                    let (_, ans) = arx.recv().unwrap();
                    let fresh = std::thread::scope(|s2| s2.spawn(|| { let p = profile.read().unwrap(); catch(std::panic::AssertUnwindSafe(|| one(&p, &enc, &node))).flatten() }).join().unwrap_or(None));
                    run.line(&op, &show(ans));
                    run.line(&op, &show(fresh));
                    run.evaluations += 2;
                    run.spec_checked += 1;
                    if ans != got || fresh != got {
                        run.fail("choice-not-reproducible", &format!("{op} (main thread / long-lived worker {w} / fresh thread{})", if tracing { ", trace logging on" } else { "" }), &format!("{:?}", got), &format!("worker {:?}, fresh {:?}", ans, fresh));
                    }
                    run.count("asked-on-worker-and-fresh-thread");
                }
                if tracing {
                    log::set_max_level(log::LevelFilter::Off);
                    run.count("asked-with-trace-logging");
                    let quiet = { let p = profile.read().unwrap(); catch(std::panic::AssertUnwindSafe(|| one(&p, &enc, &node))).flatten() };
                    run.spec_checked += 1;
                    if quiet != got {
                        run.fail("choice-not-reproducible", &format!("{op} (asked with trace-level logging enabled, then disabled)"), &format!("{:?}", quiet), &format!("{:?}", got));
                    }
                }
                if let Some(i) = got { hist[i] += 1; }
            }
            for tx in &qtx { let _ = tx.send(false); }
        });
        profile.write().unwrap().verif_set_epochs(epoch0);
        run.spec_checked += 1;
        let total: f64 = weights.iter().map(|w| *w as f64).sum();
        for (i, w) in weights.iter().enumerate() {
            let p = *w as f64 / total;
            let mean = nsweep as f64 * p;
            let sigma = (nsweep as f64 * p * (1.0 - p)).sqrt().max(1.0);
            if (hist[i] as f64 - mean).abs() > 6.0 * sigma {
                run.fail("choice-biased", &format!("bucket {} weights {:?} epochs 0..{}", key(&target), weights, nsweep), &format!("edge {i} about {mean:.0} times"), &format!("{} times", hist[i]));
            }
        }
        run.count("epoch-sweeps");
        found += 1;
    }
    if found == 0 { run.fail("harness-could-not-run-epoch-sweep", "epoch sweep", "at least one bucket re-found in a fresh tree", "none"); }
    // ---- 3. explore_any on synthetic chance branch lists
    {
        let tree = bp.verif_tree();
        let p = profile.read().unwrap();
        let epoch = p.epochs();
        let nodes = tree.all();
        let chance: Vec<&Node> = nodes.iter().filter(|n| n.player() == Player::chance()).collect();
        for node in chance.iter().take(if a.thorough() { 200 } else { 40 }) {
            let game = *node.data().game();
            for n in [2usize, 3, 5, 17, 40] {
                let mk = || -> Vec<Branch> {
                    (0..n).map(|_| {
                        let mut deck = game.deck();
                        let cards = deck.deal(game.street());
                        let g = game.apply(Action::Draw(cards));
                        Branch(Data::from((g, enc.abstraction(&g))), Edge::Draw, node.index())
                    }).collect()
                };
                // the dealt cards differ per call (thread_rng); identify the chosen index by position:
                // build once, remember boards, ask repeatedly with rebuilt lists of the same boards
                let proto = mk();
                let boards: Vec<u64> = proto.iter().map(|b| u64::from(robopoker::cards::hand::Hand::from(b.0.game().board()))).collect();
                let rebuild = || -> Vec<Branch> {
                    boards.iter().map(|bd| {
                        let old = u64::from(robopoker::cards::hand::Hand::from(game.board()));
                        let g = game.apply(Action::Draw(robopoker::cards::hand::Hand::from(bd & !old)));
                        Branch(Data::from((g, enc.abstraction(&g))), Edge::Draw, node.index())
                    }).collect()
                };
                let ask = || -> Option<usize> {
                    let chosen = p.explore_any(rebuild(), node);
                    let bd = u64::from(robopoker::cards::hand::Hand::from(chosen[0].0.game().board()));
                    boards.iter().position(|b| *b == bd)
                };
                if boards.iter().collect::<std::collections::BTreeSet<_>>().len() != n { continue; }
                let first = catch(std::panic::AssertUnwindSafe(&ask)).flatten();
                let mut answers = vec![first];
                std::thread::scope(|s| {
                    let hs: Vec<_> = (0..4).map(|_| s.spawn(|| catch(std::panic::AssertUnwindSafe(&ask)).flatten())).collect();
                    for h in hs { answers.push(h.join().unwrap_or(None)); }
                });
                run.evaluations += 1;
                run.spec_checked += 1;
                let op = format!("any {} {} {}", epoch, key(node.bucket()), n);
                run.line(&op, &match first { Some(i) => i.to_string(), None => "panic".into() });
                if answers.iter().any(|x| *x != first) {
                    run.fail("choice-not-reproducible", &op, &format!("{:?}", first), &format!("{:?}", answers));
                }
                run.distinct(&(epoch, key(node.bucket()), n));
                run.count("explore_any");
            }
        }
    }
    // ---- 3b. explore_any over epochs: every chance branch equally likely, for branch counts that are
    // and are not powers of two (the model line predicts each answer; the oracle tests the frequencies)
    {
        let tree = bp.verif_tree();
        let nodes = tree.all();
        let chance: Vec<&Node> = nodes.iter().filter(|n| n.player() == Player::chance()).collect();
        let nep: usize = if a.thorough() { 12000 } else { 2500 };
        if let Some(node) = chance.first() {
            let game = *node.data().game();
            let mut prof = Profile::default();
            for n in [2usize, 3, 5, 6, 7, 9, 12, 16, 17, 40] {
                // n distinct boards
                let mut boards: Vec<u64> = vec![];
                let mut guard = 0;
                while boards.len() < n && guard < 10_000 {
                    guard += 1;
                    let mut deck = game.deck();
                    let cards = deck.deal(game.street());
                    let g = game.apply(Action::Draw(cards));
                    let bd = u64::from(robopoker::cards::hand::Hand::from(g.board()));
                    if !boards.contains(&bd) { boards.push(bd); }
                }
                if boards.len() < n { continue; }
                let old = u64::from(robopoker::cards::hand::Hand::from(game.board()));
                let mut hist = vec![0u64; n];
                let mut bad = 0u64;
                for e in 0..nep {
                    prof.verif_set_epochs(e);
                    let choices: Vec<Branch> = boards.iter().map(|bd| {
                        let g = game.apply(Action::Draw(robopoker::cards::hand::Hand::from(bd & !old)));
                        Branch(Data::from((g, enc.abstraction(&g))), Edge::Draw, node.index())
                    }).collect();
                    let got = catch(std::panic::AssertUnwindSafe(|| {
                        let chosen = prof.explore_any(choices, node);
                        if chosen.len() != 1 { return None; }
                        let bd = u64::from(robopoker::cards::hand::Hand::from(chosen[0].0.game().board()));
                        boards.iter().position(|b| *b == bd)
                    })).flatten();
                    match got { Some(i) => hist[i] += 1, None => bad += 1 }
                    if e < 3 {
                        run.line(&format!("any {} {} {}", e, key(node.bucket()), n), &match got { Some(i) => i.to_string(), None => "panic".into() });
                    }
                }
                run.evaluations += nep as u64;
                run.spec_checked += 1;
                let pr = 1.0 / n as f64;
                let mean = nep as f64 * pr;
                let sigma = (nep as f64 * pr * (1.0 - pr)).sqrt().max(1.0);
                let worst = (0..n).max_by(|x, y| ((hist[*x] as f64 - mean).abs()).partial_cmp(&(hist[*y] as f64 - mean).abs()).unwrap()).unwrap();
                if bad > 0 || (hist[worst] as f64 - mean).abs() > 6.0 * sigma {
                    run.fail("chance-branch-not-uniform", &format!("explore_any at {} with {n} chance branches, epochs 0..{nep}", key(node.bucket())),
                        &format!("each branch about {mean:.0} times, exactly one branch returned every time"), &format!("branch {worst} {} times, {bad} malformed answers (all: {:?})", hist[worst], hist));
                }
                run.count(&format!("explore_any-frequency n={n:02}"));
            }
        }
    }
    }));
    if with_bp.is_err() {
        run.fail("solver-sampling-aborts", "sections that sample trees through Blueprint::tree with the trained profile", "no abort", "panic inside the real code (run with VERIF_LOUD=1 to see it)");
    }
    // ---- 3c. consecutive epochs are independent draws: at many different chance information sets with
    // 40 branches each, the branch taken at epoch e and at epoch e+1 coincides about once in 40 —
    // in particular for the first epochs (0,1), (1,2) of a fresh profile
    {
        let tree = bp.verif_tree();
        let nodes = tree.all();
        let mut seenb = std::collections::BTreeSet::new();
        let chance: Vec<&Node> = nodes.iter().filter(|n| n.player() == Player::chance() && seenb.insert(key(n.bucket()))).collect();
        let n = 40usize;
        let mut prof = Profile::default();
        let pairs = [(0usize, 1usize), (1, 2), (2, 3), (7, 8), (390, 391), (1000, 1001)];
        let mut agree = vec![0u64; pairs.len()];
        let mut used = 0u64;
        for node in chance.iter().take(if a.thorough() { 400 } else { 120 }) {
            let game = *node.data().game();
            let mut boards: Vec<u64> = vec![];
            let mut guard = 0;
            while boards.len() < n && guard < 4000 {
                guard += 1;
                let mut deck = game.deck();
                let cards = deck.deal(game.street());
                let g = game.apply(Action::Draw(cards));
                let bd = u64::from(robopoker::cards::hand::Hand::from(g.board()));
                if !boards.contains(&bd) { boards.push(bd); }
            }
            if boards.len() < n { continue; }
            let old = u64::from(robopoker::cards::hand::Hand::from(game.board()));
            let mut pick = |prof: &mut Profile, e: usize| -> Option<usize> {
                prof.verif_set_epochs(e);
                let choices: Vec<Branch> = boards.iter().map(|bd| {
                    let g = game.apply(Action::Draw(robopoker::cards::hand::Hand::from(bd & !old)));
                    Branch(Data::from((g, enc.abstraction(&g))), Edge::Draw, node.index())
                }).collect();
                catch(std::panic::AssertUnwindSafe(|| {
                    let chosen = prof.explore_any(choices, node);
                    let bd = u64::from(robopoker::cards::hand::Hand::from(chosen[0].0.game().board()));
                    boards.iter().position(|b| *b == bd)
                })).flatten()
            };
            used += 1;
            for (k, (e0, e1)) in pairs.iter().enumerate() {
                let x = pick(&mut prof, *e0);
                let y = pick(&mut prof, *e1);
                if x.is_some() && x == y { agree[k] += 1; }
            }
            run.evaluations += 2 * pairs.len() as u64;
        }
        run.spec_checked += 1;
        let mean = used as f64 / n as f64;
        let sigma = (used as f64 * (1.0 / n as f64) * (1.0 - 1.0 / n as f64)).sqrt().max(1.0);
        for (k, (e0, e1)) in pairs.iter().enumerate() {
            run.count(&format!("consecutive-epoch agreement ({e0},{e1}) = {} of {used}", agree[k]));
            if used >= 30 && agree[k] as f64 > mean + 6.0 * sigma + 2.0 {
                run.fail("epochs-not-independent-draws", &format!("explore_any at {used} different chance information sets with {n} branches, epochs {e0} and {e1} of a fresh profile"),
                    &format!("the same branch at both epochs about {mean:.1} times"), &format!("{} times", agree[k]));
            }
        }
    }
    // ---- 5. another run of the program must make the same choices (no per-process random keys)
    {
        quiet_panics();
        let epochs: Vec<usize> = (0..300).collect();
        let (k, weights, mine) = root_scenario(&epochs, false);
        let wbits = weights.iter().map(|w| w.to_bits().to_string()).collect::<Vec<_>>().join(" ");
        for (e, ans) in epochs.iter().zip(mine.iter()) {
            run.line(&format!("one {} {} {}", e, k, wbits), &ans.map(|i| i.to_string()).unwrap_or("panic".into()));
        }
        let mine_s = mine.iter().map(|a| a.map(|i| i.to_string()).unwrap_or("panic".into())).collect::<Vec<_>>().join(",");
        for round in 0..2 {
            let child = std::process::Command::new(std::env::current_exe().unwrap()).env("RP_C20_CHILD", "1").output();
            run.evaluations += epochs.len() as u64;
            run.spec_checked += 1;
            match child {
                Ok(o) if o.status.success() => {
                    let theirs = String::from_utf8_lossy(&o.stdout).trim().to_string();
                    if theirs != mine_s {
                        let first = mine_s.split(',').zip(theirs.split(',')).position(|(x, y)| x != y).unwrap_or(0);
                        run.fail("choice-differs-between-processes", &format!("forced deal, root bucket {k}, weights [{wbits}], epoch {first} (run {round})"),
                            &format!("the same choices in every run of the program: {}", &mine_s[..mine_s.len().min(60)]), &theirs[..theirs.len().min(60)]);
                    }
                }
                other => run.notes.push(format!("could not re-execute the harness as a child process: {:?}", other.map(|o| o.status))),
            }
            run.count("re-executed-child-process");
        }
    }
    // ---- 6. late-training profile states: Prune phase, some regrets below the floor
    {
        let prune = robopoker::verif::CFR_PRUNNING_PHASE;
        let epochs: Vec<usize> = (0..40).map(|i| prune + i).collect();
        let (k, weights, first) = root_scenario(&epochs, true);
        let wbits = weights.iter().map(|w| w.to_bits().to_string()).collect::<Vec<_>>().join(" ");
        for (e, ans) in epochs.iter().zip(first.iter()) {
            run.line(&format!("one {} {} {}", e, k, wbits), &ans.map(|i| i.to_string()).unwrap_or("panic".into()));
        }
        let mut all = vec![first.clone()];
        for _ in 0..5 { all.push(root_scenario(&epochs, true).2); }
        let h = std::thread::spawn(move || root_scenario(&epochs, true).2);
        if let Ok(v) = h.join() { all.push(v); }
        run.evaluations += 40 * all.len() as u64;
        run.spec_checked += 1;
        if let Some(bad) = all.iter().find(|v| **v != first) {
            let i = bad.iter().zip(first.iter()).position(|(x, y)| x != y).unwrap_or(0);
            run.fail("choice-not-reproducible", &format!("prune phase: epoch {} root bucket {k}, regrets of edges 0 and 2 at -4e5, weights [{wbits}], asked 7 times", prune + i),
                &format!("{:?} every time", first[i]), &format!("{:?}", bad[i]));
        }
        run.count("late-epoch-prune-phase-asks");
    }
    // ---- 7. epochs far apart (2^32, 2^16 apart) must not repeat the whole schedule
    {
        for shift in [1usize << 32, 1usize << 16, 1usize << 31] {
            let ea: Vec<usize> = (0..200).collect();
            let eb: Vec<usize> = ea.iter().map(|e| e + shift).collect();
            let (k, weights, xa) = root_scenario(&ea, false);
            let (_, _, xb) = root_scenario(&eb, false);
            let wbits = weights.iter().map(|w| w.to_bits().to_string()).collect::<Vec<_>>().join(" ");
            for (e, ans) in eb.iter().zip(xb.iter()).take(50) {
                run.line(&format!("one {} {} {}", e, k, wbits), &ans.map(|i| i.to_string()).unwrap_or("panic".into()));
            }
            run.evaluations += 400;
            run.spec_checked += 1;
            let same = xa.iter().zip(xb.iter()).filter(|(x, y)| x == y).count();
            run.count(&format!("epoch-shift-{shift}-repeats={same}/200"));
            if same == 200 {
                run.fail("draws-repeat-across-epochs", &format!("root bucket {k}, weights [{wbits}], epochs 0..200 vs the same + {shift}"),
                    "independent draws (about sum p_i^2 of them equal)", "all 200 choices identical: the schedule repeats with this period");
            }
        }
    }
    // ---- 8. unbiased draw at a strongly skewed information set (per-EDGE frequencies vs weights)
    {
        let n = if a.thorough() { 40000 } else { 6000 };
        let epochs: Vec<usize> = (0..n).collect();
        let (k, weights, ans) = root_scenario(&epochs, false);
        let mut hist = vec![0u64; weights.len()];
        for x in ans.iter().flatten() { if *x < hist.len() { hist[*x] += 1; } }
        run.evaluations += n as u64;
        run.spec_checked += 1;
        let total: f64 = weights.iter().map(|w| *w as f64).sum();
        for (i, w) in weights.iter().enumerate() {
            let p = *w as f64 / total;
            let mean = n as f64 * p;
            let sigma = (n as f64 * p * (1.0 - p)).sqrt().max(1.0);
            if (hist[i] as f64 - mean).abs() > 6.0 * sigma {
                run.fail("choice-biased", &format!("skewed root bucket {k}, weights {:?}, epochs 0..{n}", weights),
                    &format!("edge {i} (weight {:.4}) chosen about {mean:.0} times", p), &format!("{} times (all edges: {:?})", hist[i], hist));
                break;
            }
        }
        run.count("skewed-root-frequency-test");
    }
    // ---- 9. unbiased draw for MANY trained-looking policies at a wide menu, chosen for their f32
    // rounding: the weights handed out by Profile::weight rarely sum to exactly 1.0f32; candidates
    // whose f32 sum is farthest from 1 (in either direction), the ones that sum exactly to 1, and
    // random ones are each swept over epochs and tested edge by edge (6 sigma) against the weights;
    // the model line `one` predicts every single answer as well
    {
        let mut lab = RootLab::new();
        let m = lab.edges.len();
        let ncand = if a.thorough() { 20_000 } else { 3_000 };
        let mut cands: Vec<(f32, Vec<f32>, u64)> = vec![];
        for c in 0..ncand as u64 {
            let cat = c % 6;
            let mut policy: Vec<f32> = (0..m).map(|_| match cat {
                0 | 5 => (rng.below(1_000_000) as f32 + 1.0) / 1.0e6,                  // uniform magnitudes
                1 => -((rng.below(1_000_000) as f32 + 1.0) / 1.0e6).ln() + 1e-3,      // exponential
                2 => 10f32.powf(-(rng.below(4000) as f32) / 1000.0),                   // four decades
                3 => (rng.below(50) as f32 + 1.0) * if rng.below(3) == 0 { 40.0 } else { 1.0 }, // accumulated counts
                _ => 0.0,
            }).collect();
            if cat == 4 {
                // one dominant action (what regret matching converges to), the rest small
                let d = [0.9f32, 0.97, 0.999, 0.99999][rng.below(4) as usize];
                let j = rng.below(m as u64) as usize;
                for (i, w) in policy.iter_mut().enumerate() {
                    *w = if i == j { d } else { (1.0 - d) / (m as f32 - 1.0) * (0.5 + rng.below(1000) as f32 / 1000.0) };
                }
            }
            if cat == 5 {
                // some actions with negligible accumulated weight (below f32 epsilon relative to the rest)
                for _ in 0..1 + rng.below(4) {
                    let j = rng.below(m as u64) as usize;
                    policy[j] = [1e-9f32, 1e-12, 1e-20, f32::MIN_POSITIVE, 0.0, 0.0][rng.below(6) as usize]; // incl. exactly zero (a loaded or fully decayed row)
                }
            }
            let w = lab.set(&policy);
            let sum: f32 = w.iter().sum();
            cands.push((sum - 1.0, policy, cat));
        }
        cands.sort_by(|x, y| x.0.partial_cmp(&y.0).unwrap());
        let nsel = if a.thorough() { 60 } else { 14 };
        let mut chosen: Vec<Vec<f32>> = vec![];
        for i in 0..nsel { chosen.push(cands[i].1.clone()); chosen.push(cands[cands.len() - 1 - i].1.clone()); }
        let exact: Vec<&(f32, Vec<f32>, u64)> = cands.iter().filter(|c| c.0 == 0.0).collect();
        for i in 0..nsel.min(exact.len()) { chosen.push(exact[i * exact.len() / nsel.min(exact.len())].1.clone()); }
        for i in 0..nsel { chosen.push(cands[(i * 7919 + 13) % cands.len()].1.clone()); }
        for cat in [4u64, 5] {
            let of: Vec<&(f32, Vec<f32>, u64)> = cands.iter().filter(|c| c.2 == cat).collect();
            for i in 0..nsel.min(of.len()) { chosen.push(of[i * of.len() / nsel.min(of.len())].1.clone()); }
        }
        let offsimplex = cands.iter().filter(|c| c.0.abs() > f32::EPSILON).count();
        run.count(&format!("wide-menu candidates whose f32 weight sum is off 1 by more than one ulp: {offsimplex} of {ncand}"));
        let n: usize = if a.thorough() { 6000 } else { 1500 };
        for policy in chosen {
            let weights = lab.set(&policy);
            let base = rng.below(1 << 20) as usize;
            let ans = lab.ask(base..base + n);
            let mut hist = vec![0u64; m];
            for (i, x) in ans.iter().enumerate() {
                match x {
                    Some(x) if *x < m => hist[*x] += 1,
                    _ => run.fail("choice-out-of-range-or-panic", &format!("wide root bucket, weights {:?}, epoch {}", weights, base + i), "an index below the menu size", &format!("{:?}", x)),
                }
                if i < 4 {
                    let op = format!("one {} {} {}", base + i, key(&lab.bucket), weights.iter().map(|w| w.to_bits().to_string()).collect::<Vec<_>>().join(" "));
                    run.line(&op, &match x { Some(i) => i.to_string(), None => "panic".into() });
                }
            }
            run.evaluations += n as u64;
            run.spec_checked += 1;
            if let Some((i, want, got)) = lab.weights_as_specified(&weights) {
                run.fail("weight-not-the-normalised-stored-policy", &format!("wide root bucket {}, stored policy {:?}", key(&lab.bucket), policy), &format!("Profile::weight of edge {i} = {want:e}"), &format!("{got:e}"));
            }
            let fsum: f32 = weights.iter().sum();
            for i in 0..weights.len() {
                let p = lab.expected[i];
                let mean = n as f64 * p;
                let sigma = (n as f64 * p * (1.0 - p)).sqrt().max(1.0);
                if (hist[i] as f64 - mean).abs() > 6.0 * sigma {
                    run.fail("choice-biased", &format!("wide root bucket {}, weights {:?} (f32 sum {:e} away from 1), epochs {base}..{}", key(&lab.bucket), weights, fsum - 1.0, base + n),
                        &format!("edge {i} (weight {:.4}) chosen about {mean:.0} times", p), &format!("{} times (all edges: {:?})", hist[i], hist));
                    break;
                }
            }
            run.count("wide-menu-frequency-test");
            run.distinct(&("wide", weights.iter().map(|w| w.to_bits()).collect::<Vec<_>>()));
        }
    }
    // ---- 10. the profile changes WITHIN an epoch (as it does between a batch's tree sampling and
    // `Profile::next`): ask, update the information set's stored policy, ask again at the same
    // epoch on the same thread and on a fresh thread. The answer is a function of (epoch,
    // information set, current weights): both threads must agree, and the model line predicts it.
    {
        let mut lab = RootLab::new();
        let m = lab.edges.len();
        let nrep = if a.thorough() { 4000 } else { 600 };
        let mut disagreements = 0u64;
        for j in 0..nrep {
            let epoch = (j * 37 + 5) as usize;
            let heavy_a = rng.below(m as u64) as usize;
            let mut heavy_b = rng.below(m as u64) as usize;
            if heavy_b == heavy_a { heavy_b = (heavy_b + 1) % m; }
            for (k, heavy) in [heavy_a, heavy_b].into_iter().enumerate() {
                let policy: Vec<f32> = (0..m).map(|i| if i == heavy { 1.0 } else { 1.0e-4 * (1.0 + rng.below(100) as f32 / 100.0) }).collect();
                let weights = lab.set(&policy);
                let (here, there) = lab.ask_both(epoch);
                run.evaluations += 2;
                run.spec_checked += 1;
                let op = format!("one {} {} {}", epoch, key(&lab.bucket), weights.iter().map(|w| w.to_bits().to_string()).collect::<Vec<_>>().join(" "));
                run.line(&op, &match here { Some(i) => i.to_string(), None => "panic".into() });
                if here != there {
                    disagreements += 1;
                    run.fail("choice-not-reproducible", &format!("{op} ({} update of this information set within epoch {epoch}: asked on the updating thread and on a fresh thread)", if k == 0 { "before the" } else { "after an" }),
                        &format!("the same branch on both threads (fresh thread: {:?})", there), &format!("{:?} on the thread that asked before the update", here));
                }
                run.distinct(&("within-epoch", epoch, k));
            }
            run.count("within-epoch-update");
        }
        run.count(&format!("within-epoch-update disagreements={disagreements}"));
    }
    // ---- 4. Layer::init twice / threads / rayon pools
    let npoints = if a.thorough() { 400 } else { 180 };
    for rep in 0..(if a.thorough() { 6 } else { 2 }) {
        let street = Street::Turn;
        let k = street.k();
        let mut points: Vec<Histogram> = vec![];
        let mut dense: Vec<Vec<usize>> = vec![];
        let mut uniq = std::collections::BTreeSet::new();
        while points.len() < npoints.max(k + 5) {
            let m = 20 + rng.below(40) as usize;
            let center = rng.below(101) as i64;
            let spread = 1 + rng.below(30) as i64;
            let mut counts = vec![0usize; 101];
            for _ in 0..m {
                let x = (center + rng.range(-spread, spread)).clamp(0, 100) as usize;
                counts[x] += 1;
            }
            if !uniq.insert(counts.clone()) { continue; }
            let v: Vec<Abstraction> = counts.iter().enumerate().flat_map(|(i, c)| std::iter::repeat(Abstraction::from((Street::Rive, i))).take(*c)).collect();
            points.push(Histogram::from(v));
            dense.push(counts);
        }
        let layer = Layer::verif_new(street, Metric::default(), points.clone(), vec![]);
        let idx = |hs: Vec<Histogram>| -> Vec<usize> {
            hs.iter().map(|h| {
                let mut c = vec![0usize; 101];
                for (a, n) in h.verif_counts() { c[a.index()] = n; }
                dense.iter().position(|d| *d == c).unwrap_or(usize::MAX)
            }).collect()
        };
        let first = catch(std::panic::AssertUnwindSafe(|| idx(layer.verif_init())));
        let mut answers = vec![catch(std::panic::AssertUnwindSafe(|| idx(layer.verif_init())))];
        std::thread::scope(|s| {
            let h = s.spawn(|| catch(std::panic::AssertUnwindSafe(|| idx(layer.verif_init()))));
            answers.push(h.join().unwrap_or(None));
        });
        for nt in [1usize, 3, 8] {
            let pool = rayon::ThreadPoolBuilder::new().num_threads(nt).build().unwrap();
            answers.push(pool.install(|| catch(std::panic::AssertUnwindSafe(|| idx(layer.verif_init())))));
        }
        run.evaluations += 6;
        run.spec_checked += 1;
        let op = format!("init {} {} {}", street as usize, k, dense.iter().map(|c| c.iter().enumerate().filter(|(_, n)| **n > 0).map(|(i, n)| format!("{i}={n}")).collect::<Vec<_>>().join(",")).collect::<Vec<_>>().join(";"));
        let ans = match &first { Some(v) => v.iter().map(|i| i.to_string()).collect::<Vec<_>>().join(","), None => "panic".into() };
        run.line(&op, &ans);
        if answers.iter().any(|x| *x != first) {
            run.fail("init-not-reproducible", &format!("Layer::init street turn, {} points (rep {rep})", dense.len()), "identical centroids in identical order on every invocation", "different centroid sequences");
        }
        run.distinct(&(rep, dense.len()));
        run.count("kmeans-init");
    }
    // ---- 4b. Layer::init on the preflop street: no clustering, the points themselves (n == k), else an abort
    for extra in [0usize, 1] {
        let street = Street::Pref;
        let k = street.k();
        let mut points: Vec<Histogram> = vec![];
        let mut dense: Vec<Vec<usize>> = vec![];
        let mut uniq = std::collections::BTreeSet::new();
        while points.len() < k + extra {
            let m = 5 + rng.below(20) as usize;
            let center = rng.below(101) as i64;
            let spread = 1 + rng.below(30) as i64;
            let mut counts = vec![0usize; 101];
            for _ in 0..m {
                let x = (center + rng.range(-spread, spread)).clamp(0, 100) as usize;
                counts[x] += 1;
            }
            if !uniq.insert(counts.clone()) { continue; }
            let v: Vec<Abstraction> = counts.iter().enumerate().flat_map(|(i, c)| std::iter::repeat(Abstraction::from((Street::Rive, i))).take(*c)).collect();
            points.push(Histogram::from(v));
            dense.push(counts);
        }
        let layer = Layer::verif_new(street, Metric::default(), points.clone(), vec![]);
        let idx = |hs: Vec<Histogram>| -> Vec<usize> {
            hs.iter().map(|h| {
                let mut c = vec![0usize; 101];
                for (a, n) in h.verif_counts() { c[a.index()] = n; }
                dense.iter().position(|d| *d == c).unwrap_or(usize::MAX)
            }).collect()
        };
        let first = catch(std::panic::AssertUnwindSafe(|| idx(layer.verif_init())));
        let second = catch(std::panic::AssertUnwindSafe(|| idx(layer.verif_init())));
        run.evaluations += 2;
        run.spec_checked += 1;
        let op = format!("init {} {} {}", street as usize, k, dense.iter().map(|c| c.iter().enumerate().filter(|(_, n)| **n > 0).map(|(i, n)| format!("{i}={n}")).collect::<Vec<_>>().join(",")).collect::<Vec<_>>().join(";"));
        let ans = match &first { Some(v) => v.iter().map(|i| i.to_string()).collect::<Vec<_>>().join(","), None => "panic".into() };
        run.line(&op, &ans);
        // oracle, independent of the model: exactly the points in their order when n == k; never a silent subset otherwise
        let want: Option<Vec<usize>> = if extra == 0 { Some((0..k).collect()) } else { None };
        if first != second || (extra == 0 && first != want) || (extra != 0 && first.as_ref().map(|v| v.len()) == Some(k + extra)) {
            run.fail("init-preflop", &format!("Layer::init street preflop, {} points, k = {k}", k + extra), "the points themselves in order when n == k (an abort otherwise), the same on every invocation", &format!("{:?}", first.as_ref().map(|v| v.iter().take(6).collect::<Vec<_>>())));
        }
        run.distinct(&("init-pref", extra));
        run.count("kmeans-init-preflop");
    }
    run.finish();
}
