// C06 — HandIterator / ObservationIterator / IsomorphismIterator / Observation::children:
// the real iterators (both deck builds) vs the Lean model (line stream) and vs the search
// oracle: brute-force subset enumeration in increasing order, binomial counts, orbit counting
// under the 24 suit relabelings and the Burnside polynomial — all written here from the
// property statement, none of it uses the model or the iterators under test.
use robopoker::cards::hand::Hand;
use robopoker::cards::hands::HandIterator;
use robopoker::cards::isomorphisms::IsomorphismIterator;
use robopoker::cards::observation::Observation;
use robopoker::cards::observations::ObservationIterator;
use robopoker::cards::street::Street;
use rpharness::*;
use std::collections::HashSet;

const CK_MOD: u64 = 1099511627689;
const CK_MUL: u64 = 1000003;
fn mix(h: u64, x: u64) -> u64 {
    ((h as u128 * CK_MUL as u128 + x as u128) % CK_MOD as u128) as u64
}

fn deck_name() -> &'static str {
    if is_shortdeck() { "short" } else { "std" }
}
fn full_deck() -> u64 {
    Hand::mask()
}
fn binom(n: u64, k: u64) -> u128 {
    if k > n {
        return 0;
    }
    let mut r: u128 = 1;
    for i in 0..k {
        r = r * (n - i) as u128 / (i + 1) as u128;
    }
    r
}
fn cards_of(set: u64) -> Vec<u8> {
    (0..64u8).filter(|c| set >> c & 1 == 1).collect()
}

/// all k-subsets of `free`, as bit masks, in increasing numeric order (brute force + sort)
fn brute_subsets(free: u64, k: usize) -> Vec<u64> {
    fn rec(cards: &[u8], k: usize, from: usize, acc: u64, out: &mut Vec<u64>) {
        if k == 0 {
            out.push(acc);
            return;
        }
        if cards.len() < from + k {
            return; // not enough cards left
        }
        for i in from..=cards.len() - k {
            rec(cards, k - 1, i + 1, acc | 1u64 << cards[i], out);
        }
    }
    let cards = cards_of(free);
    let mut out = vec![];
    rec(&cards, k, 0, 0, &mut out);
    out.sort();
    out
}

fn street_of(i: usize) -> Street {
    [Street::Pref, Street::Flop, Street::Turn, Street::Rive][i]
}
fn n_board(i: usize) -> usize {
    [0, 3, 4, 5][i]
}
fn n_reveal(i: usize) -> usize {
    [3, 1, 1, 0][i]
}

// ---- suit relabelings, written from the card layout card = 4*rank + suit
const SUIT0: u64 = 0x1111111111111;
fn perms4() -> Vec<[u32; 4]> {
    let mut v = vec![];
    for a in 0..4u32 {
        for b in 0..4u32 {
            for c in 0..4u32 {
                for d in 0..4u32 {
                    if a != b && a != c && a != d && b != c && b != d && c != d {
                        v.push([a, b, c, d]);
                    }
                }
            }
        }
    }
    v
}
fn relabel(h: u64, p: &[u32; 4]) -> u64 {
    let mut o = 0u64;
    for s in 0..4 {
        o |= ((h >> s) & SUIT0) << p[s];
    }
    o
}
fn orbit_min(pocket: u64, public: u64, perms: &[[u32; 4]]) -> (u64, u64) {
    perms.iter().map(|p| (relabel(pocket, p), relabel(public, p))).min().unwrap()
}

/// number of suit-orbits of (pocket, k-card board) pairs of the configured deck, by enumerating
/// every pair with own loops and counting the orbit-minimal ones; sharded over threads by pocket
fn brute_orbit_count(k: usize) -> u64 {
    let deck = cards_of(full_deck());
    let perms = perms4();
    let mut pockets = vec![];
    for i in 0..deck.len() {
        for j in i + 1..deck.len() {
            pockets.push(1u64 << deck[i] | 1u64 << deck[j]);
        }
    }
    let nthreads = std::thread::available_parallelism().map(|n| n.get()).unwrap_or(4).min(16);
    let chunks: Vec<Vec<u64>> = (0..nthreads).map(|t| pockets.iter().cloned().skip(t).step_by(nthreads).collect()).collect();
    let mut total = 0u64;
    std::thread::scope(|sc| {
        let hs: Vec<_> = chunks
            .iter()
            .map(|ch| {
                let perms = &perms;
                let deck = &deck;
                sc.spawn(move || {
                    fn rec(cards: &[u8], k: usize, from: usize, acc: u64, pocket: u64, perms: &[[u32; 4]], n: &mut u64) {
                        if k == 0 {
                            let me = (pocket, acc);
                            if perms.iter().all(|p| (relabel(pocket, p), relabel(acc, p)) >= me) {
                                *n += 1;
                            }
                            return;
                        }
                        if cards.len() < from + k {
                            return;
                        }
                        for i in from..=cards.len() - k {
                            rec(cards, k - 1, i + 1, acc | 1u64 << cards[i], pocket, perms, n);
                        }
                    }
                    let mut n = 0u64;
                    for &p in ch {
                        let rest: Vec<u8> = deck.iter().cloned().filter(|c| p >> c & 1 == 0).collect();
                        rec(&rest, k, 0, 0, p, perms, &mut n);
                    }
                    n
                })
            })
            .collect();
        for h in hs {
            total += h.join().unwrap();
        }
    });
    total
}

/// Burnside: (1/24) sum over the 24 suit permutations of the number of fixed (2-card pocket,
/// k-card board) pairs = [x^2 y^k] prod over cycles (1 + x^l + y^l)^ranks
fn burnside(ranks: usize, k: usize) -> u128 {
    type Poly = [[u128; 6]; 3];
    fn mul(a: &Poly, b: &Poly) -> Poly {
        let mut o = [[0u128; 6]; 3];
        for i in 0..3 {
            for j in 0..6 {
                if a[i][j] == 0 {
                    continue;
                }
                for u in 0..3 - i {
                    for v in 0..6 - j {
                        o[i + u][j + v] += a[i][j] * b[u][v];
                    }
                }
            }
        }
        o
    }
    let mut sum = 0u128;
    for p in perms4() {
        let mut seen = [false; 4];
        let mut poly: Poly = [[0; 6]; 3];
        poly[0][0] = 1;
        for s in 0..4 {
            if seen[s] {
                continue;
            }
            let mut l = 0;
            let mut t = s;
            while !seen[t] {
                seen[t] = true;
                t = p[t] as usize;
                l += 1;
            }
            let mut f: Poly = [[0; 6]; 3];
            f[0][0] = 1;
            if l < 3 {
                f[l][0] += 1;
            }
            if l < 6 {
                f[0][l] += 1;
            }
            for _ in 0..ranks {
                poly = mul(&poly, &f);
            }
        }
        sum += poly[2][k];
    }
    assert!(sum % 24 == 0);
    sum / 24
}

struct HandsOut {
    count: u64,
    ck: u64,
    list: Vec<u64>,
    sorted: bool,
    bad_size: Option<u64>,
    bad_mask: Option<u64>,
    bad_range: Option<u64>,
}

static WATCH: std::sync::OnceLock<Watch> = std::sync::OnceLock::new();

fn run_hands(k: usize, mask: u64, keep: bool) -> Option<HandsOut> {
    if let Some(w) = WATCH.get() {
        w.enter(&format!("hands {} {k} {mask} (HandIterator::from(({k}, Hand::from({mask:#x}))) consumed to the end)", deck_name()));
    }
    let r = run_hands_inner(k, mask, keep);
    if let Some(w) = WATCH.get() {
        w.leave();
    }
    r
}

fn run_hands_inner(k: usize, mask: u64, keep: bool) -> Option<HandsOut> {
    catch(move || {
        let mut o = HandsOut { count: 0, ck: 0, list: vec![], sorted: true, bad_size: None, bad_mask: None, bad_range: None };
        let blocked = (mask & full_deck()) | !full_deck();
        let mut last: Option<u64> = None;
        for h in HandIterator::from((k, Hand::from(mask))) {
            let x = u64::from(h);
            o.count += 1;
            o.ck = mix(o.ck, x);
            if keep {
                o.list.push(x);
            }
            if let Some(l) = last {
                if l >= x {
                    o.sorted = false;
                }
            }
            last = Some(x);
            if x.count_ones() as usize != k {
                o.bad_size.get_or_insert(x);
            }
            if x & blocked != 0 {
                o.bad_mask.get_or_insert(x);
            }
            if x >> 52 != 0 {
                o.bad_range.get_or_insert(x);
            }
        }
        o
    })
}

/// one (k, mask) case: correspondence line + oracle
fn hands_case(run: &mut Run, k: usize, mask: u64, full_list: bool) {
    let deck = deck_name();
    let free = full_deck() & !mask;
    let n = free.count_ones() as u64;
    let op = format!("hands {deck} {k} {mask} {}", if full_list { "list" } else { "sum" });
    run.evaluations += 1;
    run.count(&format!("hands k={k} free={:02}", n));
    let out = run_hands(k, mask, full_list || binom(n, k as u64) <= 400_000);
    let Some(o) = out else {
        run.line(&op, "panic");
        run.fail("hands-panics", &op, "an iteration", "panic");
        return;
    };
    if full_list {
        run.line(&op, &format!("n={} [{}]", o.count, o.list.iter().map(|x| x.to_string()).collect::<Vec<_>>().join(" ")));
    } else {
        run.line(&op, &format!("n={} ck={}", o.count, o.ck));
    }
    if k >= 1 && n >= k as u64 {
        run.distinct(&(k, mask & full_deck()));
    }
    // ---- search oracle
    run.spec_checked += 1;
    let want = binom(n, k as u64);
    if k == 0 {
        // C(n, 0) = 1: the one empty hand
        if !(o.count == 1 && o.ck == 0) {
            run.fail("hands-k0-yields-nothing", &op, "one hand: the empty hand (C(n,0) = 1)", &format!("{} hands", o.count));
        }
        return;
    }
    if o.count as u128 != want {
        run.fail("hands-count-not-binomial", &op, &format!("C({n},{k}) = {want} hands"), &format!("{} hands", o.count));
    }
    if !o.sorted {
        run.fail("hands-not-increasing", &op, "strictly increasing hands", "a hand not above its predecessor");
    }
    if let Some(x) = o.bad_size {
        run.fail("hands-wrong-size", &op, &format!("{k} cards in every hand"), &format!("hand {x}"));
    }
    if let Some(x) = o.bad_mask {
        run.fail("hands-blocked-card", &op, "no blocked card (and no card outside the deck)", &format!("hand {x}"));
    }
    if let Some(x) = o.bad_range {
        run.fail("hands-beyond-52-bits", &op, "cards 0..51 only", &format!("hand {x}"));
    }
    if !o.list.is_empty() || want == 0 {
        if want <= 400_000 {
            let brute = brute_subsets(free, k);
            if brute != o.list {
                let i = brute.iter().zip(o.list.iter()).position(|(a, b)| a != b).unwrap_or(brute.len().min(o.list.len()));
                run.fail("hands-list-differs-from-brute-force", &op,
                    &format!("{} subsets, item {i} = {:?}", brute.len(), brute.get(i)),
                    &format!("{} hands, item {i} = {:?}", o.list.len(), o.list.get(i)));
            }
        }
    }
}

struct ObsOut {
    count: u64,
    ck: u64,
    sorted: bool,
    bad: Option<(u64, u64)>,
}
fn run_obs(street: usize) -> Option<ObsOut> {
    catch(move || {
        let mut o = ObsOut { count: 0, ck: 0, sorted: true, bad: None };
        let mut last: Option<(u64, u64)> = None;
        let nb = n_board(street) as u32;
        for ob in ObservationIterator::from(street_of(street)) {
            let p = u64::from(*ob.pocket());
            let b = u64::from(*ob.public());
            o.count += 1;
            o.ck = mix(mix(o.ck, p), b);
            if let Some(l) = last {
                if l >= (p, b) {
                    o.sorted = false;
                }
            }
            last = Some((p, b));
            if p.count_ones() != 2 || b.count_ones() != nb || p & b != 0 || (p | b) & !full_deck() != 0 {
                o.bad.get_or_insert((p, b));
            }
        }
        o
    })
}

fn obs_case(run: &mut Run, street: usize) {
    let deck = deck_name();
    let op = format!("obs {deck} {street}");
    run.evaluations += 1;
    run.count(&format!("obs street={street}"));
    let Some(o) = run_obs(street) else {
        run.line(&op, "panic");
        run.fail("observations-panic", &op, "an iteration", "panic");
        return;
    };
    run.line(&op, &format!("n={} ck={}", o.count, o.ck));
    run.distinct(&("obs", street));
    run.spec_checked += 1;
    let n = full_deck().count_ones() as u64;
    let want = binom(n, 2) * binom(n - 2, n_board(street) as u64);
    if o.count as u128 != want {
        run.fail("observations-count", &op, &format!("C({n},2)*C({},{}) = {want}", n - 2, n_board(street)), &format!("{}", o.count));
    }
    if street_of(street).n_observations() as u128 != want {
        run.fail("n_observations-constant", &op, &format!("{want}"), &format!("{}", street_of(street).n_observations()));
    }
    if !o.sorted {
        run.fail("observations-not-increasing", &op, "strictly increasing (pocket, board) pairs, hence no duplicate", "a pair not above its predecessor");
    }
    if let Some((p, b)) = o.bad {
        run.fail("observations-illegal", &op, "2 pocket cards, the street's board cards, disjoint, inside the deck", &format!("pocket {p} board {b}"));
    }
}

// ---- independent canonical form, written from the property / the documented sort criteria:
// per suit (pocket cards, board cards, weakest pocket card, weakest board card, strongest pocket
// card, strongest board card, suit), missing < any rank; suits sorted ascending, the i-th becomes suit i
fn spec_perm(pocket: u64, public: u64) -> [u32; 4] {
    fn opt_lo(h: u64) -> u32 { if h == 0 { 0 } else { h.trailing_zeros() / 4 + 1 } }
    fn opt_hi(h: u64) -> u32 { if h == 0 { 0 } else { (63 - h.leading_zeros()) / 4 + 1 } }
    let mut keys: Vec<(u32, u32, u32, u32, u32, u32, u32)> = (0..4u32)
        .map(|s| {
            let p = pocket & (SUIT0 << s);
            let b = public & (SUIT0 << s);
            (p.count_ones(), b.count_ones(), opt_lo(p), opt_lo(b), opt_hi(p), opt_hi(b), s)
        })
        .collect();
    keys.sort();
    let mut perm = [0u32; 4];
    for (i, k) in keys.iter().enumerate() {
        perm[k.6 as usize] = i as u32;
    }
    perm
}
fn spec_canon(pocket: u64, public: u64) -> (u64, u64) {
    let p = spec_perm(pocket, public);
    (relabel(pocket, &p), relabel(public, &p))
}
fn spec_is_canonical(pocket: u64, public: u64) -> bool {
    spec_perm(pocket, public) == [0, 1, 2, 3]
}

/// k-subsets of `cards` (ascending card list) as bit masks in increasing numeric order, without sorting
struct Colex {
    cards: Vec<u8>,
    idx: Vec<usize>,
    done: bool,
}
impl Colex {
    fn new(set: u64, k: usize) -> Self {
        let cards = cards_of(set);
        let done = k > cards.len();
        Colex { cards, idx: (0..k).collect(), done }
    }
}
impl Iterator for Colex {
    type Item = u64;
    fn next(&mut self) -> Option<u64> {
        if self.done {
            return None;
        }
        let k = self.idx.len();
        let out = self.idx.iter().fold(0u64, |a, &i| a | 1u64 << self.cards[i]);
        // successor in increasing numeric order: bump the lowest index that can move, reset those below
        let mut i = 0;
        loop {
            if i == k {
                self.done = true;
                break;
            }
            let limit = if i + 1 < k { self.idx[i + 1] } else { self.cards.len() };
            if self.idx[i] + 1 < limit {
                self.idx[i] += 1;
                for j in 0..i {
                    self.idx[j] = j;
                }
                break;
            }
            i += 1;
        }
        Some(out)
    }
}

// ---- consumption through the other Iterator entry points (nth / skip / step_by / by_ref + take /
// last / count): every one must behave like the same operation on the independently enumerated list
fn unrank_colex(set: u64, k: usize, mut idx: u128) -> Option<u64> {
    let cards = cards_of(set);
    if idx >= binom(cards.len() as u64, k as u64) {
        return None;
    }
    let mut out = 0u64;
    let mut hi = cards.len();
    for i in (1..=k).rev() {
        // largest c < hi with C(c, i) <= idx
        let mut c = hi - 1;
        while binom(c as u64, i as u64) > idx {
            c -= 1;
        }
        out |= 1u64 << cards[c];
        idx -= binom(c as u64, i as u64);
        hi = c;
    }
    Some(out)
}

fn entry_points<T, I>(
    run: &mut Run, rng: &mut Rng, name: &str, mk: &dyn Fn() -> I, conv: &dyn Fn(I::Item) -> T, e: &dyn Fn(u128) -> Option<T>, n: u128, period: u64, jmax: u64, full: bool,
) where
    T: PartialEq + std::fmt::Debug,
    I: Iterator,
{
    // NB: the iterator under test is never wrapped in an adapter before the entry point is called
    // (`Map` does not forward `nth`); items are converted afterwards
    use std::panic::{catch_unwind, AssertUnwindSafe};
    let mut check = |run: &mut Run, op: String, f: &mut dyn FnMut() -> Vec<Option<T>>, want: Vec<Option<T>>| {
        run.evaluations += 1;
        run.spec_checked += 1;
        run.count(&format!("entry-point {}", op.split(' ').next().unwrap_or("")));
        match catch_unwind(AssertUnwindSafe(|| f())) {
            Err(_) => run.fail("iterator-entry-point-panics", &format!("{name}: {op}"), &format!("{want:?}"), "panic"),
            Ok(got) => {
                if got != want {
                    run.fail("iterator-entry-point-differs-from-list", &format!("{name}: {op}"), &format!("{want:?} (same operation on the enumerated list)"), &format!("{got:?}"));
                }
            }
        }
    };
    let b = period.max(1);
    let mut ks: Vec<u64> = vec![0, 1, 2, b - 1, b, b + 1, 2 * b + 3, 3 * b + b / 2];
    ks.push(rng.below(4 * b + 2));
    ks.sort();
    ks.dedup();
    let mut js: Vec<u64> = vec![0, 1, b / 2 + 1, b + b / 3 + 1, 2 * b + 2];
    js.push(rng.below(jmax.max(1)));
    js.retain(|&j| j <= jmax);
    js.sort();
    js.dedup();
    for &j in &js {
        for &k in &ks {
            // nth(k) after j items, then the item after it
            check(run, format!("nth j={j} k={k}"), &mut || {
                let mut it = mk();
                for _ in 0..j { it.next(); }
                let a = it.nth(k as usize).map(conv);
                let b2 = it.next().map(conv);
                vec![a, b2]
            }, vec![e((j + k) as u128), e((j + k) as u128 + 1)]);
        }
        // take(j) through by_ref, then continue
        check(run, format!("by_ref-take j={j}"), &mut || {
            let mut it = mk();
            let c = it.by_ref().take(j as usize).count();
            let x = it.next().map(conv);
            let y = it.next().map(conv);
            let _ = c;
            vec![x, y]
        }, vec![e(j as u128), e(j as u128 + 1)]);
        // step_by on the partially consumed iterator
        for &s in &[1u64, 2, b.max(2), b + 1, 2 * b + 1] {
            check(run, format!("step_by j={j} step={s}"), &mut || {
                let mut it = mk();
                for _ in 0..j { it.next(); }
                it.by_ref().step_by(s as usize).take(4).map(|x| Some(conv(x))).collect()
            }, (0..4u128).map(|i| e(j as u128 + i * s as u128)).filter(|x| x.is_some()).collect());
        }
        if full {
            check(run, format!("count j={j}"), &mut || {
                let mut it = mk();
                for _ in 0..j { it.next(); }
                let c = it.count() as u128;
                vec![e(c + (j as u128).min(n)).or(None), e((c + (j as u128).min(n)).wrapping_sub(1))]
            }, vec![None, e(n.wrapping_sub(1))]);
            check(run, format!("last j={j}"), &mut || {
                let mut it = mk();
                for _ in 0..j { it.next(); }
                vec![it.last().map(conv)]
            }, vec![if (j as u128) < n { e(n - 1) } else { None }]);
        }
    }
    for &k in &ks {
        check(run, format!("skip k={k}"), &mut || {
            let mut it = mk().skip(k as usize);
            vec![it.next().map(conv), it.next().map(conv)]
        }, vec![e(k as u128), e(k as u128 + 1)]);
    }
    // sharded workers: worker a of w takes items a, a+w, a+2w, ...; and chunking by nth
    for &w in &[2u64, 3, 16, b.max(2), b + 1] {
        let a = rng.below(w);
        check(run, format!("skip-step_by a={a} w={w}"), &mut || {
            mk().skip(a as usize).step_by(w as usize).take(5).map(|x| Some(conv(x))).collect()
        }, (0..5u128).map(|i| e(a as u128 + i * w as u128)).filter(|x| x.is_some()).collect());
        check(run, format!("chunk-nth w={w}"), &mut || {
            let mut it = mk();
            (0..4).map(|_| it.nth(w as usize - 1).map(conv)).collect()
        }, (1..=4u128).map(|i| e(i * w as u128 - 1)).collect());
    }
    // size_hint is not part of the property; deviations are recorded as notes
    if let Ok((lo, hi)) = catch_unwind(AssertUnwindSafe(|| mk().size_hint())) {
        if n <= usize::MAX as u128 && (lo as u128 > n || hi.map(|h| (h as u128) < n).unwrap_or(false)) {
            if run.notes.len() < 12 {
                run.notes.push(format!("size_hint of a fresh {name} is ({lo}, {hi:?}) but it yields {n} items"));
            }
        }
    }
}

fn entry_point_cases(run: &mut Run, rng: &mut Rng, thorough: bool) {
    let deck = full_deck();
    let all52: u64 = (1u64 << 52) - 1;
    // HandIterator
    for (k, free_n) in [(1usize, 9usize), (2, 7), (3, 9), (2, 52), (5, 12), (4, 30)] {
        let free = rng.cards(free_n, deck);
        let mask = all52 & !free;
        let list = brute_subsets(free & deck, k);
        let n = list.len() as u128;
        entry_points(run, rng, &format!("HandIterator k={k} mask={mask}"),
            &|| HandIterator::from((k, Hand::from(mask))), &|h| u64::from(h),
            &|i| list.get(i as usize).cloned(), n, 1, (n as u64).min(40), true);
    }
    // ObservationIterator: the list is indexable (pocket = index / boards, board = index % boards)
    let ncards = deck.count_ones() as u64;
    for st in 0..(if thorough { 4usize } else { 3 }) {
        let nb = n_board(st);
        let boards = binom(ncards - 2, nb as u64);
        let n = binom(ncards, 2) * boards;
        let e = move |i: u128| -> Option<(u64, u64)> {
            if i >= n { return None; }
            let p = unrank_colex(deck, 2, i / boards)?;
            let b = unrank_colex(deck & !p, nb, i % boards)?;
            Some((p, b))
        };
        entry_points(run, rng, &format!("ObservationIterator street {st}"),
            &|| ObservationIterator::from(street_of(st)), &|o: Observation| (u64::from(*o.pocket()), u64::from(*o.public())),
            &e, n, boards as u64, (3 * boards as u64).min(700_000), st <= 1);
    }
    // IsomorphismIterator: pre-flop completely, flop against the own enumeration of the first classes
    for st in 0..2usize {
        let nb = n_board(st);
        let limit = if st == 0 { usize::MAX } else { 60_000 };
        let mut list: Vec<(u64, u64)> = vec![];
        'outer: for p in Colex::new(deck, 2) {
            for b in Colex::new(deck & !p, nb) {
                if spec_is_canonical(p, b) {
                    list.push((p, b));
                    if list.len() >= limit { break 'outer; }
                }
            }
        }
        let n = if st == 0 { list.len() as u128 } else { u128::MAX };
        let len = list.len() as u128;
        // boards per pocket as the period: jumps that cross pockets of the underlying observation iterator
        entry_points(run, rng, &format!("IsomorphismIterator street {st}"),
            &|| IsomorphismIterator::from(street_of(st)), &|i| { let o = Observation::from(i); (u64::from(*o.pocket()), u64::from(*o.public())) },
            &|i| if i < len { Some(list[i as usize]) } else { None }, n, if st == 0 { 7 } else { 3_000 }, if st == 0 { 100 } else { 9_000 }, st == 0);
    }
    // children()
    for st in 0..3usize {
        let pocket = rng.cards(2, deck);
        let public = rng.cards(n_board(st), deck & !pocket);
        let list: Vec<(u64, u64)> = brute_subsets(deck & !(pocket | public), n_reveal(st)).into_iter().map(|r| (pocket, public | r)).collect();
        let n = list.len() as u128;
        entry_points(run, rng, &format!("children of pocket {pocket} board {public}"),
            &|| {
                let ob = Observation::from((Hand::from(pocket), Hand::from(public)));
                ob.children().collect::<Vec<_>>().into_iter()
            }, &|c: Observation| (u64::from(*c.pocket()), u64::from(*c.public())),
            &|i| list.get(i as usize).cloned(), n, 5, (n as u64).min(60), true);
        // and directly on the borrowed iterator (no collect): nth / skip / step_by / last / count
        run.evaluations += 1;
        run.spec_checked += 1;
        let got = catch(move || {
            let ob = Observation::from((Hand::from(pocket), Hand::from(public)));
            let f = |c: Observation| (u64::from(*c.pocket()), u64::from(*c.public()));
            let a = { let mut it = ob.children(); it.next(); it.nth(3).map(f) };
            let b = ob.children().skip(7).step_by(5).take(3).map(f).collect::<Vec<_>>();
            let c = ob.children().last().map(f);
            let d = { let mut it = ob.children(); it.by_ref().take(4).count(); it.count() };
            (a, b, c, d)
        });
        let want = (list.get(4).cloned(), (0..3).filter_map(|i| list.get(7 + 5 * i).cloned()).collect::<Vec<_>>(), list.last().cloned(), list.len().saturating_sub(4));
        if got.as_ref() != Some(&want) {
            run.fail("iterator-entry-point-differs-from-list", &format!("children of pocket {pocket} board {public}: nth/skip/step_by/last/count"), &format!("{want:?}"), &format!("{got:?}"));
        }
    }
}

/// the first `n` items of the real IsomorphismIterator against an enumeration written here
/// (own pocket and board loops in increasing order, own canonical-form test): item by item the
/// yielded value must be the next canonical observation of that enumeration; additionally every
/// item must be a fixed point of the real `Isomorphism::from`, be accepted by the real
/// `is_canonical`, and no two items of the prefix may lie in the same suit-orbit.
fn iso_oracle_case(run: &mut Run, street: usize, n: usize) {
    let op = format!("isomorphism-prefix {} street {street} first {n}", deck_name());
    run.evaluations += 1;
    run.count(&format!("iso-oracle street={street}"));
    let got = catch(move || {
        IsomorphismIterator::from(street_of(street))
            .take(n)
            .map(|iso| {
                let ob = Observation::from(iso);
                let again = Observation::from(robopoker::cards::isomorphism::Isomorphism::from(ob));
                let accepted = robopoker::cards::isomorphism::Isomorphism::is_canonical(&ob);
                ((u64::from(*ob.pocket()), u64::from(*ob.public())), (u64::from(*again.pocket()), u64::from(*again.public())), accepted)
            })
            .collect::<Vec<_>>()
    });
    let Some(got) = got else {
        run.fail("isomorphisms-panic", &op, "an iteration", "panic");
        return;
    };
    run.spec_checked += 1;
    run.distinct(&("iso-oracle", street, n));
    // expected sequence
    let deck = full_deck();
    let mut want: Vec<(u64, u64)> = Vec::with_capacity(got.len());
    'outer: for p in Colex::new(deck, 2) {
        for b in Colex::new(deck & !p, n_board(street)) {
            if spec_is_canonical(p, b) {
                want.push((p, b));
                if want.len() >= n {
                    break 'outer;
                }
            }
        }
    }
    let perms = perms4();
    let mut keys: HashSet<(u64, u64)> = HashSet::new();
    let mut last: Option<(u64, u64)> = None;
    for (i, (x, again, accepted)) in got.iter().enumerate() {
        if want.get(i) != Some(x) {
            run.fail("isomorphisms-item-differs-from-enumeration", &format!("{op} item {i}"),
                &format!("{:?} (next canonical observation in iteration order)", want.get(i)), &format!("{x:?}"));
            break;
        }
        if again != x {
            run.fail("isomorphisms-item-not-canonical", &format!("{op} item {i}"),
                &format!("a fixed point of Isomorphism::from, i.e. {again:?}"), &format!("{x:?}"));
            break;
        }
        if !accepted || spec_canon(x.0, x.1) != *x {
            run.fail("isomorphisms-item-not-canonical", &format!("{op} item {i}"), "a canonical observation", &format!("{x:?}"));
            break;
        }
        if !keys.insert(orbit_min(x.0, x.1, &perms)) {
            run.fail("isomorphisms-two-representatives-in-one-class", &format!("{op} item {i}"), "a class not yielded before", &format!("{x:?}"));
            break;
        }
        if let Some(l) = last {
            if l >= *x {
                run.fail("isomorphisms-not-increasing", &format!("{op} item {i}"), &format!("above {l:?}"), &format!("{x:?}"));
                break;
            }
        }
        last = Some(*x);
    }
    if got.len() != want.len() {
        run.fail("isomorphisms-prefix-length", &op, &format!("{} items", want.len()), &format!("{} items", got.len()));
    }
}

/// `is_canonical` / `Isomorphism::from` on observations the iterator reaches mid-stream (it cannot be
/// positioned, but these two calls are all it does per observation): random observations, their
/// canonical forms, and every suit transposition of the canonical form, against the independent
/// canonical form; plus observations built to have two suits tied on everything but one criterion
fn canonicity_samples(run: &mut Run, rng: &mut Rng, street: usize, n: usize) {
    use robopoker::cards::isomorphism::Isomorphism;
    let deck = full_deck();
    let nb = n_board(street);
    let transpositions: Vec<[u32; 4]> = perms4().into_iter().filter(|p| (0..4).filter(|&s| p[s] as usize != s).count() == 2).collect();
    for i in 0..n {
        let (p0, b0) = if i % 2 == 0 || nb < 4 {
            let p = rng.cards(2, deck);
            (p, rng.cards(nb, deck & !p))
        } else {
            // two suits with the same two ranks on the board but for one card, pocket in the other suits
            let ranks: Vec<u64> = cards_of(deck & SUIT0).iter().map(|c| (*c / 4) as u64).collect();
            let r = |rng: &mut Rng| ranks[rng.below(ranks.len() as u64) as usize];
            let (lo, h1, h2) = (r(rng), r(rng), r(rng));
            let b = 1u64 << (4 * lo) | 1u64 << (4 * lo + 1) | 1u64 << (4 * h1) | 1u64 << (4 * h2 + 1);
            let p = rng.cards(2, deck & (SUIT0 << 2 | SUIT0 << 3));
            let extra = rng.cards(nb.saturating_sub(b.count_ones() as usize), deck & !p & !b);
            (p, b | extra)
        };
        if p0.count_ones() != 2 || b0.count_ones() as usize != nb || p0 & b0 != 0 {
            continue;
        }
        let c = spec_canon(p0, b0);
        let mut cases = vec![(p0, b0), c];
        for t in &transpositions {
            cases.push((relabel(c.0, t), relabel(c.1, t)));
        }
        for (p, b) in cases {
            run.evaluations += 1;
            run.spec_checked += 1;
            let res = catch(move || {
                let ob = Observation::from((Hand::from(p), Hand::from(b)));
                let can = Observation::from(Isomorphism::from(ob));
                (Isomorphism::is_canonical(&ob), (u64::from(*can.pocket()), u64::from(*can.public())))
            });
            let input = format!("{} observation pocket {p} board {b}", deck_name());
            match res {
                None => run.fail("canonicalisation-panics", &input, "a canonical form", "panic"),
                Some((acc, can)) => {
                    if acc != spec_is_canonical(p, b) {
                        run.fail("is_canonical-differs-from-specification", &input, &format!("{}", spec_is_canonical(p, b)), &format!("{acc}"));
                    }
                    if can != spec_canon(p, b) {
                        run.fail("canonical-form-differs-from-specification", &input, &format!("{:?}", spec_canon(p, b)), &format!("{can:?}"));
                    }
                }
            }
        }
        run.count(&format!("canonicity-sample street={street}"));
    }
}

/// card-by-card suit relabeling (card = 4*rank + suit), written without the lane trick of `relabel`
fn relabel_cards(h: u64, p: &[u32; 4]) -> u64 {
    cards_of(h).iter().fold(0u64, |acc, &c| acc | 1u64 << (4 * (c as u64 / 4) + p[(c % 4) as usize] as u64))
}

/// Orbit oracle, independent of any canonical-form specification: for sampled and structured
/// observations the orbit under the 24 suit relabelings is enumerated here; EXACTLY ONE distinct
/// member must be accepted by the real `Isomorphism::is_canonical`, and the real `Isomorphism::from`
/// of every member must be that member.
/// Structured shapes: (A) pocket pair in suits a,b above a board with two cards in each of a and b that
/// share the low card and differ in the high card; (B) 3+2 boards; (C) nested ranks with an offsuit
/// pocket in a,b; (D) boards tied in a,b with the pocket elsewhere; plus random observations.
fn orbit_oracle(run: &mut Run, rng: &mut Rng, street: usize, n: usize) {
    use robopoker::cards::isomorphism::Isomorphism;
    let deck = full_deck();
    let nb = n_board(street);
    let perms = perms4();
    let ranks: Vec<u64> = cards_of(deck & SUIT0).iter().map(|c| (*c / 4) as u64).collect();
    let card = |r: u64, s: u64| 1u64 << (4 * r + s);
    for i in 0..n {
        let mut sorted = {
            // four distinct ranks in increasing order
            let mut v: Vec<u64> = vec![];
            while v.len() < 4 {
                let r = ranks[rng.below(ranks.len() as u64) as usize];
                if !v.contains(&r) { v.push(r); }
            }
            v.sort();
            v
        };
        let a = rng.below(4);
        let b = (a + 1 + rng.below(3)) % 4;
        let (lo, h1, h2, top) = (sorted[0], sorted[1], sorted[2], sorted[3]);
        let shape = if nb < 4 { 0 } else { i % 5 };
        let (p, mut bd) = match shape {
            1 => (card(top, a) | card(top, b), card(lo, a) | card(lo, b) | card(h1, a) | card(h2, b)),
            2 => (card(top, a) | card(top, b), card(lo, a) | card(h1, a) | card(h2, a) | card(lo, b) | card(h1, b)),
            3 => (card(top, a) | card(h2, b), card(lo, a) | card(lo, b) | card(h1, a) | card(h2, a)),
            4 => {
                let others: Vec<u64> = (0..4).filter(|s| *s != a && *s != b).collect();
                (card(top, others[0]) | card(top, others[1]), card(lo, a) | card(lo, b) | card(h1, a) | card(h2, b))
            }
            _ => {
                let p = rng.cards(2, deck);
                (p, rng.cards(nb, deck & !p))
            }
        };
        sorted.clear();
        if (bd.count_ones() as usize) > nb {
            // too many cards for this street (shape 2 on the turn): drop the highest board card
            bd &= !(1u64 << (63 - bd.leading_zeros()));
        }
        if (bd.count_ones() as usize) < nb {
            bd |= rng.cards(nb - bd.count_ones() as usize, deck & !p & !bd);
        }
        if p.count_ones() != 2 || bd.count_ones() as usize != nb || p & bd != 0 || (p | bd) & !deck != 0 {
            continue;
        }
        let mut members: Vec<(u64, u64)> = perms.iter().map(|q| (relabel_cards(p, q), relabel_cards(bd, q))).collect();
        members.sort();
        members.dedup();
        run.evaluations += 1;
        run.spec_checked += 1;
        run.count(&format!("orbit-oracle street={street} shape={shape}"));
        let ms = members.clone();
        let res = catch(move || {
            ms.iter()
                .map(|&(mp, mb)| {
                    let ob = Observation::from((Hand::from(mp), Hand::from(mb)));
                    let can = Observation::from(Isomorphism::from(ob));
                    (Isomorphism::is_canonical(&ob), (u64::from(*can.pocket()), u64::from(*can.public())))
                })
                .collect::<Vec<_>>()
        });
        let input = format!("{} orbit of pocket {p} board {bd} ({} members)", deck_name(), members.len());
        let Some(res) = res else {
            run.fail("canonicalisation-panics", &input, "a canonical form", "panic");
            continue;
        };
        let accepted: Vec<(u64, u64)> = members.iter().zip(res.iter()).filter(|(_, r)| r.0).map(|(m, _)| *m).collect();
        if accepted.len() != 1 {
            run.fail("orbit-not-exactly-one-canonical-member", &input, "exactly one member accepted by is_canonical", &format!("{} accepted: {:?}", accepted.len(), accepted));
            continue;
        }
        if let Some((m, r)) = members.iter().zip(res.iter()).find(|(_, r)| r.1 != accepted[0]) {
            run.fail("canonical-form-not-the-orbit-representative", &format!("{input}, member {m:?}"), &format!("{:?}", accepted[0]), &format!("{:?}", r.1));
        }
    }
}

/// One pocket's complete segment of the class list without walking the iterator up to it: the boards
/// of `pocket` accepted by the real `is_canonical` (real HandIterator) must be exactly the boards the
/// enumeration written here accepts, and no two of them may lie in one suit-orbit.
fn pocket_segment_oracle(run: &mut Run, street: usize, pocket: u64) {
    use robopoker::cards::isomorphism::Isomorphism;
    let op = format!("{} class segment of pocket {pocket} on street {street}", deck_name());
    run.evaluations += 1;
    run.spec_checked += 1;
    run.count(&format!("pocket-segment street={street}"));
    let got = catch(move || {
        HandIterator::from((n_board(street), Hand::from(pocket)))
            .filter(|b| Isomorphism::is_canonical(&Observation::from((Hand::from(pocket), *b))))
            .map(u64::from)
            .collect::<Vec<u64>>()
    });
    let Some(got) = got else {
        run.fail("isomorphisms-panic", &op, "an iteration", "panic");
        return;
    };
    let perms = perms4();
    let mut keys: std::collections::HashMap<(u64, u64), u64> = Default::default();
    for &b in &got {
        if let Some(prev) = keys.insert(orbit_min(pocket, b, &perms), b) {
            run.fail("isomorphisms-two-representatives-in-one-class", &op, "every class of the pocket once", &format!("boards {prev} and {b} are relabelings of each other and both accepted"));
            break;
        }
    }
    let want: Vec<u64> = Colex::new(full_deck() & !pocket, n_board(street)).filter(|&b| spec_is_canonical(pocket, b)).collect();
    if want != got {
        let i = want.iter().zip(got.iter()).position(|(x, y)| x != y).unwrap_or(want.len().min(got.len()));
        run.fail("isomorphisms-item-differs-from-enumeration", &format!("{op} item {i}"),
            &format!("{} classes, item {i} = {:?}", want.len(), want.get(i)), &format!("{} classes, item {i} = {:?}", got.len(), got.get(i)));
    }
}

/// one pocket's segment of the class list: the canonical boards for `pocket`, first `n` (real
/// HandIterator + real is_canonical + real Isomorphism::from vs the model `isopocket` op)
fn iso_pocket_case(run: &mut Run, street: usize, pocket: u64, n: usize) {
    use robopoker::cards::isomorphism::Isomorphism;
    let deck = deck_name();
    let op = format!("isopocket {deck} {street} {pocket} {n}");
    run.evaluations += 1;
    run.count(&format!("iso-pocket street={street}"));
    let res = catch(move || {
        let mut count = 0u64;
        let mut ck = 0u64;
        for board in HandIterator::from((n_board(street), Hand::from(pocket))) {
            let ob = Observation::from((Hand::from(pocket), board));
            if Isomorphism::is_canonical(&ob) {
                let c = Observation::from(Isomorphism::from(ob));
                count += 1;
                ck = mix(mix(ck, u64::from(*c.pocket())), u64::from(*c.public()));
                if count as usize >= n {
                    break;
                }
            }
        }
        (count, ck)
    });
    match res {
        None => {
            run.line(&op, "panic");
            run.fail("isomorphisms-panic", &op, "an iteration", "panic");
        }
        Some((count, ck)) => {
            run.line(&op, &format!("n={count} ck={ck}"));
            run.distinct(&("iso-pocket", street, pocket, n));
        }
    }
}

/// the first `n` items of the real IsomorphismIterator (count + order checksum): the model side runs
/// the observation-iterator model filtered by the C05 model of `is_canonical`
fn iso_prefix_case(run: &mut Run, street: usize, n: usize) {
    let deck = deck_name();
    let op = format!("iso {deck} {street} {n}");
    run.evaluations += 1;
    run.count(&format!("iso-prefix street={street}"));
    let res = catch(move || {
        let mut count = 0u64;
        let mut ck = 0u64;
        for iso in IsomorphismIterator::from(street_of(street)).take(n) {
            let ob = Observation::from(iso);
            count += 1;
            ck = mix(mix(ck, u64::from(*ob.pocket())), u64::from(*ob.public()));
        }
        (count, ck)
    });
    match res {
        None => {
            run.line(&op, "panic");
            run.fail("isomorphisms-panic", &op, "an iteration", "panic");
        }
        Some((count, ck)) => {
            run.line(&op, &format!("n={count} ck={ck}"));
            run.distinct(&("iso-prefix", street, n));
        }
    }
}

fn iso_case(run: &mut Run, street: usize, brute_orbits: bool) {
    let deck = deck_name();
    let op = format!("niso {deck} {street}");
    run.evaluations += 1;
    run.count(&format!("iso street={street}"));
    let perms = perms4();
    let res = catch(move || {
        let mut count = 0u64;
        let mut keys: HashSet<(u64, u64)> = HashSet::new();
        let mut not_member = None;
        let keep = street <= 1;
        for iso in IsomorphismIterator::from(street_of(street)) {
            let ob = Observation::from(iso);
            let (p, b) = (u64::from(*ob.pocket()), u64::from(*ob.public()));
            count += 1;
            if keep {
                keys.insert(orbit_min(p, b, &perms));
            }
            if p.count_ones() != 2 || b.count_ones() as usize != n_board(street) || p & b != 0 || (p | b) & !full_deck() != 0 {
                not_member.get_or_insert((p, b));
            }
        }
        (count, keys.len() as u64, keep, not_member)
    });
    let Some((count, classes, keep, bad)) = res else {
        run.line(&op, "panic");
        run.fail("isomorphisms-panic", &op, "an iteration", "panic");
        return;
    };
    run.line(&op, &count.to_string());
    run.distinct(&("iso", street));
    run.spec_checked += 1;
    let ranks = (full_deck().count_ones() / 4) as usize;
    let bs = burnside(ranks, n_board(street));
    if count as u128 != bs {
        run.fail("isomorphisms-count-vs-burnside", &op, &format!("{bs} classes (Burnside)"), &format!("{count} yielded"));
    }
    if street_of(street).n_isomorphisms() as u128 != bs {
        run.fail("n_isomorphisms-constant-vs-burnside", &op, &format!("{bs}"), &format!("{}", street_of(street).n_isomorphisms()));
    }
    if let Some((p, b)) = bad {
        run.fail("isomorphisms-illegal", &op, "a legal observation of the street", &format!("pocket {p} board {b}"));
    }
    if keep && classes != count {
        run.fail("isomorphisms-two-representatives-in-one-class", &op, &format!("{count} distinct classes among {count} representatives"), &format!("{classes} distinct classes"));
    }
    if brute_orbits {
        run.spec_checked += 1;
        let orbits = brute_orbit_count(n_board(street));
        if orbits != count {
            run.fail("isomorphisms-count-vs-orbit-enumeration", &op, &format!("{orbits} orbits by enumeration"), &format!("{count} yielded"));
        }
    }
}

fn children_case(run: &mut Run, pocket: u64, public: u64) {
    let deck = deck_name();
    let op = format!("children {deck} {pocket} {public}");
    run.evaluations += 1;
    let nb = public.count_ones() as usize;
    run.count(&format!("children board={nb}"));
    let res = catch(move || {
        let ob = Observation::from((Hand::from(pocket), Hand::from(public)));
        let mut v = vec![];
        for c in ob.children() {
            v.push((u64::from(*c.pocket()), u64::from(*c.public())));
        }
        v
    });
    let street = [0usize, 9, 9, 1, 2, 3][nb.min(5)];
    let Some(v) = res else {
        run.line(&op, "panic");
        if street != 3 {
            run.fail("children-panic", &op, "the successors", "panic");
        }
        return;
    };
    let mut ck = 0;
    for &(p, b) in &v {
        ck = mix(mix(ck, p), b);
    }
    run.line(&op, &format!("n={} ck={ck}", v.len()));
    run.distinct(&(pocket, public));
    run.spec_checked += 1;
    if street == 3 {
        run.fail("children-of-river", &op, "panic (terminal street)", &format!("{} children", v.len()));
        return;
    }
    let free = full_deck() & !(pocket | public);
    let want: Vec<(u64, u64)> = brute_subsets(free, n_reveal(street)).into_iter().map(|r| (pocket, public | r)).collect();
    if want != v {
        run.fail("children-differ-from-brute-force", &op, &format!("{} successors in increasing order of the revealed cards", want.len()), &format!("{} successors", v.len()));
    }
    if street_of(street).n_children() != want.len() {
        run.fail("n_children-constant", &op, &format!("{}", want.len()), &format!("{}", street_of(street).n_children()));
    }
}

fn main() {
    let a = args();
    let mut rng = Rng::new(a.seed);
    let mut run = Run::new(&a.out);
    quiet_panics();
    let _ = WATCH.set(Watch::start(&a.out, if a.thorough() { 1800 } else { 120 }));
    let deck = deck_name();
    let full = full_deck();
    let all52: u64 = (1u64 << 52) - 1;
    let thorough = a.thorough();

    // ---- published tables (ties the extractor's tables to the values the code returns)
    for st in 0..4 {
        run.line(&format!("nobs {deck} {st}"), &street_of(st).n_observations().to_string());
        let ch = catch(move || street_of(st).n_children());
        run.line(&format!("nchildren {deck} {st}"), &ch.map(|c| c.to_string()).unwrap_or("panic".into()));
    }

    // ---- 1. dense masks: 0..=12 free cards, k = 0..=7, full lists
    let per = if thorough { 60 } else { 12 };
    let mut masks: Vec<u64> = vec![];
    for f in 0..=12usize {
        for _ in 0..per {
            // free cards among the 52 positions (in the short deck some of them are blocked anyway)
            let pool = if rng.chance(1, 2) { full } else { all52 };
            let free = rng.cards(f, pool);
            let mut m = all52 & !free;
            if rng.chance(1, 8) {
                m |= rng.next() << 52; // junk above bit 51 must be ignored by Hand::from
            }
            masks.push(m);
        }
        // structured: free cards packed against the 52-bit boundary, and at the bottom of the deck
        let top = if f == 0 { 0 } else { ((1u64 << f) - 1) << (52 - f) };
        masks.push(all52 & !top);
        let low = full.trailing_zeros();
        let bot = if f == 0 { 0 } else { ((1u64 << f) - 1) << low };
        masks.push(all52 & !bot);
        // alternating
        let alt = (0..f).fold(0u64, |acc, i| acc | 1u64 << (51 - 2 * i as u64).min(51));
        masks.push(all52 & !alt);
    }
    {
        let mut seen = HashSet::new();
        masks.retain(|m| seen.insert(*m));
    }
    // The iterator walks through every k-bit pattern below 2^52 whatever the mask is, so one case
    // costs about C(52,k) steps on both sides: every mask gets k = 0..=4, and k = 5, 6, 7 are
    // given to a spread of masks sized by the tier.
    let (n5, n6, n7) = if thorough { (masks.len(), 80, 24) } else { (12, 3, 1) };
    let pick = |n: usize, total: usize| -> Vec<usize> { (0..n.min(total)).map(|i| total - 1 - i * total / n.min(total).max(1)).collect() };
    let (p5, p6, p7) = (pick(n5, masks.len()), pick(n6, masks.len()), pick(n7, masks.len()));
    for (i, &m) in masks.iter().enumerate() {
        for k in 0..=7usize {
            let take = match k { 5 => p5.contains(&i), 6 => p6.contains(&i), 7 => p7.contains(&i), _ => true };
            if take {
                hands_case(&mut run, k, m, true);
            }
        }
    }
    // ---- 2. sparser masks: counts + order checksums (+ brute force while it is small)
    let ncases = if thorough { 400 } else { 120 };
    let (mut left6, mut left7) = if thorough { (40, 12) } else { (1, 0) };
    for i in 0..ncases {
        let f = 13 + rng.below(40) as usize; // 13..=52 free cards
        let mut k = rng.below(8) as usize;
        if k == 6 { if left6 == 0 { k = 4 } else { left6 -= 1 } }
        if k == 7 { if left7 == 0 { k = 5 } else { left7 -= 1 } }
        let free = rng.cards(f, if i % 3 == 0 { all52 } else { full });
        hands_case(&mut run, k, all52 & !free, false);
    }
    // no mask at all
    for k in 0..=(if thorough { 7usize } else { 5 }) {
        hands_case(&mut run, k, 0, false);
    }
    // hand sizes beyond the property's 0..=7 whose walk is short: the initial pattern 2^k - 1 sits
    // against the 52-bit boundary
    for k in [47usize, 48, 49, 50, 51, 52, 53, 63] {
        hands_case(&mut run, k, 0, false);
        let extra = rng.below(3) as usize;
        let free = rng.cards(k + extra, full);
        hands_case(&mut run, k, all52 & !free, false);
    }

    // ---- 3. observations and isomorphism classes
    let streets: &[usize] = if thorough { &[0, 1, 2, 3] } else { &[0, 1] };
    // the long thorough iterations run on their own threads while the rest proceeds
    let mut heavy = vec![];
    if thorough {
        for st in [2usize, 3] {
            heavy.push((st, std::thread::spawn(move || {
                catch(move || IsomorphismIterator::from(street_of(st)).count() as u64)
            })));
        }
    }
    for &st in streets {
        obs_case(&mut run, st);
    }
    for st in [0usize, 1] {
        iso_case(&mut run, st, true);
    }
    // model-side class lists (C05's is_canonical model inside the iterator model): complete pre-flop,
    // a prefix of the later streets (the model's canonicity test costs ~60 us per observation)
    iso_prefix_case(&mut run, 0, 1_000_000);
    if thorough {
        iso_prefix_case(&mut run, 1, if is_shortdeck() { 1_000_000 } else { 200_000 });
        iso_prefix_case(&mut run, 2, 300);
        if is_shortdeck() {
            iso_prefix_case(&mut run, 3, 100);
        }
    } else {
        // later streets: before the first canonical pocket the model has to test every board of the
        // non-canonical pockets (230,300 turn boards per pocket), so the quick tier stops at the flop
        iso_prefix_case(&mut run, 1, 2_000);
    }
    // per-item oracle on prefixes of every street (pairs come first in the iteration), canonicity of
    // sampled and tie-constructed observations, and model-side class segments of single pockets
    let npre = if thorough { 400_000 } else { 40_000 };
    for st in 0..4usize {
        iso_oracle_case(&mut run, st, npre);
        canonicity_samples(&mut run, &mut rng, st, if thorough { 40_000 } else { 6_000 });
        orbit_oracle(&mut run, &mut rng, st, if thorough { 200_000 } else { 20_000 });
    }
    {
        let low = full.trailing_zeros() as u64;
        let pair_hs = 0b1100u64 << low; // the lowest pair in hearts and spades: the first canonical pocket
        let suited = (1u64 << 3 | 1u64 << 7) << low; // two spades
        let offsuit = (1u64 << 2 | 1u64 << 7) << low; // heart + higher spade
        for st in 1..4usize {
            for &pk in &[pair_hs, suited, offsuit] {
                iso_pocket_case(&mut run, st, pk, if thorough { 5_000 } else { 400 });
            }
        }
        // complete class segments of pocket pairs in hearts and spades (a mid rank and the top rank),
        // far into the iteration: every board of the pocket, turn (and river for the top pair)
        let mid = 0b1100u64 << (low + 12);
        let top_pair = 0b1100u64 << 48;
        for &pk in &[mid, top_pair] {
            pocket_segment_oracle(&mut run, 2, pk);
        }
        pocket_segment_oracle(&mut run, 3, top_pair);
        if thorough {
            pocket_segment_oracle(&mut run, 3, mid);
            pocket_segment_oracle(&mut run, 3, offsuit);
            pocket_segment_oracle(&mut run, 2, suited);
        }
    }
    entry_point_cases(&mut run, &mut rng, thorough);
    // model lines: nth(k) after j consumed items = item j + k of the model list
    {
        let ncards = full.count_ones() as u64;
        for st in 0..3usize {
            let b = binom(ncards - 2, n_board(st) as u64) as u64;
            for (j, k) in [(0u64, 0u64), (b / 2 + 1, b), (b + 7, 2 * b + 3), (3, b - 1), (rng.below(2 * b + 1), rng.below(3 * b + 1))] {
                let op = format!("obsnth {deck} {st} {j} {k}");
                run.evaluations += 1;
                let res = catch(move || {
                    let mut it = ObservationIterator::from(street_of(st));
                    for _ in 0..j { it.next(); }
                    it.nth(k as usize).map(|o| (u64::from(*o.pocket()), u64::from(*o.public())))
                });
                match res {
                    None => { run.line(&op, "panic"); run.fail("iterator-entry-point-panics", &op, "an observation", "panic"); }
                    Some(Some((p, bd))) => run.line(&op, &format!("{p} {bd}")),
                    Some(None) => run.line(&op, "none"),
                }
            }
        }
    }
    for (st, h) in heavy {
        let op = format!("niso {deck} {st}");
        run.evaluations += 1;
        run.count(&format!("iso street={st}"));
        match h.join().ok().flatten() {
            None => {
                run.line(&op, "panic");
                run.fail("isomorphisms-panic", &op, "an iteration", "panic");
            }
            Some(count) => {
                run.line(&op, &count.to_string());
                run.spec_checked += 1;
                let bs = burnside((full.count_ones() / 4) as usize, n_board(st));
                if count as u128 != bs {
                    run.fail("isomorphisms-count-vs-burnside", &op, &format!("{bs} classes (Burnside)"), &format!("{count} yielded"));
                }
                if street_of(st).n_isomorphisms() as u128 != bs {
                    run.fail("n_isomorphisms-constant-vs-burnside", &op, &format!("{bs}"), &format!("{}", street_of(st).n_isomorphisms()));
                }
            }
        }
    }
    if !thorough {
        // the constants of the two streets not iterated in this tier are still compared with Burnside
        for st in [2usize, 3] {
            run.spec_checked += 1;
            let bs = burnside((full.count_ones() / 4) as usize, n_board(st));
            if street_of(st).n_isomorphisms() as u128 != bs {
                run.fail("n_isomorphisms-constant-vs-burnside", &format!("street {st}"), &format!("{bs}"), &format!("{}", street_of(st).n_isomorphisms()));
            }
        }
    }

    // ---- 4. children of sampled observations (river: the code panics, by design)
    let nchild = if thorough { 2000 } else { 250 };
    for st in 0..4usize {
        for _ in 0..(if st == 3 { 20 } else { nchild }) {
            let pocket = rng.cards(2, full);
            let public = rng.cards(n_board(st), full & !pocket);
            children_case(&mut run, pocket, public);
        }
    }

    run.exhaustive = false;
    run.rule = format!(
        "deck={deck}. hands: {} masks leaving 0..12 free cards (random, packed against bit 51, packed at the bottom, alternating, some with junk above bit 51) x k=0..4 as full lists, k=5/6/7 for {n5}/{n6}/{n7} of them (a case costs ~C(52,k) steps whatever the mask); {ncases} random masks leaving 13..52 free cards x random k<=7 and the unmasked deck as count+order checksum; k in {{47..53,63}} (short walks against the 52-bit boundary) as counts. observations: streets {:?} complete (count, order checksum, every item legal and above its predecessor). isomorphism classes: model-side lists (iso ops: all pre-flop classes, a prefix of the later streets) and counts; pre-flop and flop by the real IsomorphismIterator (+ turn and river in the thorough tier) against the Burnside polynomial, the published constants, an own orbit enumeration, and pairwise-distinct orbit keys. children: {nchild} random observations per street. entry points: nth after j consumed items (j mid-pocket, k up to 3.5 pockets), skip, step_by, skip+step_by sharding, chunking by nth, by_ref+take, last, count on HandIterator / ObservationIterator / IsomorphismIterator / children against the indexable enumerated list; obsnth model lines. distinct = (k, mask) with k >= 1 and at least k free cards, streets, observations.",
        masks.len(), streets);
    run.finish();
}
