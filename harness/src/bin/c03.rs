// C03 — the betting state machine permits exactly the No-Limit Hold'em moves.
//
// Correspondence: at every visited state of the real `Game` the harness asks `is_allowed` for
// every action kind x every amount -1..=stack+1 x well-/ill-formed deals (`allowed …` lines) and
// writes the state/turn/legal() after every action (`game …` lines, some ending in a rejected
// action: `apply` must panic, the model's `step?` must be `none`). The Lean driver answers the
// same lines with `RP.Game.isAllowed` / `step?`.
//
// Search oracle: `Nl`, a No-Limit Hold'em rules machine written from the rules (per-street
// "has acted" flags, current bet, last raise size taken from the history, live / all-in / folded,
// next to act) and not from the engine's ticker/memoryless formulas. It runs in lockstep with
// the engine: same turn, same permitted set for every candidate, accepted actions do not panic and
// lead to the oracle's next state, rejected actions panic.
// Thorough tier: breadth-first search over the whole reachable betting state space.
#[path = "../gamewalk.rs"]
mod gamewalk;
use gamewalk::*;
use robopoker::cards::hand::Hand;
use robopoker::gameplay::action::Action;
use robopoker::gameplay::game::Game;
use robopoker::gameplay::ply::Turn;
use robopoker::gameplay::seat::State;
use rpharness::*;
use std::collections::{HashMap, HashSet, VecDeque};

const STACK: i32 = robopoker::verif::STACK as i32;
const BB: i32 = robopoker::verif::B_BLIND as i32;
const SB: i32 = robopoker::verif::S_BLIND as i32;
const N: usize = 2;
const DEALER: usize = 0;

/// ---------------------------------------------------------------- the rules machine
#[derive(Clone, Debug, PartialEq, Eq, Hash)]
struct Nl {
    stack: [i32; N],
    bet: [i32; N],   // this street
    total: [i32; N], // this hand
    folded: [bool; N],
    allin: [bool; N],
    acted: [bool; N], // has acted on this street
    street: u8,       // 0..=3
    cur_bet: i32,
    last_raise: i32, // size of the last full raise on this street (0: none yet)
    to_act: usize,
    board: u64,
    holes: [u64; N],
}
#[derive(Clone, Copy, Debug, PartialEq, Eq)]
enum NlTurn {
    Over,
    Deal,
    Player(usize),
}

impl Nl {
    fn new(h0: u64, h1: u64) -> Nl {
        // ring order: small blind = seat after the button, big blind = next seat;
        // first to act pre-flop = seat after the big blind, post-flop = first live seat after the button
        let sb = (DEALER + 1) % N;
        let bb = (DEALER + 2) % N;
        let mut s = Nl {
            stack: [STACK; N], bet: [0; N], total: [0; N], folded: [false; N], allin: [false; N], acted: [false; N],
            street: 0, cur_bet: 0, last_raise: 0, to_act: 0, board: 0, holes: [h0, h1],
        };
        s.put(sb, SB.min(STACK));
        s.put(bb, BB.min(STACK));
        s.cur_bet = s.bet[bb].max(s.bet[sb]);
        s.to_act = s.next_actor_from((bb + 1) % N);
        s
    }
    fn put(&mut self, p: usize, x: i32) {
        self.stack[p] -= x;
        self.bet[p] += x;
        self.total[p] += x;
        if self.stack[p] == 0 {
            self.allin[p] = true;
        }
    }
    fn live(&self) -> usize {
        (0..N).filter(|&p| !self.folded[p]).count()
    }
    fn can_act(&self, p: usize) -> bool {
        !self.folded[p] && !self.allin[p]
    }
    fn next_actor_from(&self, start: usize) -> usize {
        for k in 0..N {
            let p = (start + k) % N;
            if self.can_act(p) {
                return p;
            }
        }
        start
    }
    /// every player who can still act has acted and matched the current bet
    fn closed(&self) -> bool {
        let actors: Vec<usize> = (0..N).filter(|&p| self.can_act(p)).collect();
        if actors.iter().all(|&p| self.acted[p] && self.bet[p] == self.cur_bet) {
            return true;
        }
        // a single player left to act who has already covered every all-in has nothing to answer
        actors.len() == 1 && self.bet[actors[0]] >= self.cur_bet && (0..N).all(|p| p == actors[0] || self.folded[p] || self.allin[p])
    }
    fn turn(&self) -> NlTurn {
        if self.live() <= 1 {
            return NlTurn::Over;
        }
        if self.closed() {
            return if self.street == 3 { NlTurn::Over } else { NlTurn::Deal };
        }
        NlTurn::Player(self.to_act)
    }
    fn n_revealed(&self) -> u32 {
        if self.street == 0 { 3 } else { 1 }
    }
    fn permitted(&self, a: &Action, deck_mask: u64) -> bool {
        match self.turn() {
            NlTurn::Over => false,
            NlTurn::Deal => match a {
                Action::Draw(h) => {
                    let c = bits(*h);
                    let in_play = self.board | self.holes[0] | self.holes[1];
                    c & in_play == 0 && c & !deck_mask == 0 && c.count_ones() == self.n_revealed()
                }
                _ => false,
            },
            NlTurn::Player(p) => {
                let outstanding = self.cur_bet - self.bet[p];
                let stack = self.stack[p];
                match a {
                    Action::Fold => outstanding > 0,
                    Action::Check => outstanding == 0,
                    Action::Call(x) => *x as i32 == outstanding && outstanding > 0 && outstanding < stack,
                    Action::Shove(x) => *x as i32 == stack && stack > 0,
                    Action::Raise(x) => {
                        let x = *x as i32;
                        x >= outstanding + self.last_raise.max(BB) && x <= stack - 1
                    }
                    Action::Blind(_) | Action::Draw(_) => false,
                }
            }
        }
    }
    /// apply a permitted action
    fn apply(&self, a: &Action) -> Nl {
        let mut s = self.clone();
        match a {
            Action::Draw(h) => {
                s.board |= bits(*h);
                s.street += 1;
                s.bet = [0; N];
                s.acted = [false; N];
                s.cur_bet = 0;
                s.last_raise = 0;
                s.to_act = s.next_actor_from((DEALER + 1) % N);
                return s;
            }
            _ => {}
        }
        let p = self.to_act;
        s.acted[p] = true;
        match a {
            Action::Fold => s.folded[p] = true,
            Action::Check => {}
            Action::Call(x) => s.put(p, *x as i32),
            Action::Raise(x) | Action::Shove(x) => {
                s.put(p, *x as i32);
                if s.bet[p] > s.cur_bet {
                    let by = s.bet[p] - s.cur_bet;
                    if by >= s.last_raise.max(BB) || matches!(a, Action::Raise(_)) {
                        s.last_raise = by;
                    }
                    s.cur_bet = s.bet[p];
                }
            }
            _ => unreachable!(),
        }
        s.to_act = s.next_actor_from((p + 1) % N);
        s
    }
    /// does the engine state show the same chips / statuses / street?
    fn same_as(&self, g: &Game) -> bool {
        let seats = g.verif_seats();
        (0..N).all(|p| {
            seats[p].1 as i32 == self.stack[p]
                && seats[p].2 as i32 == self.bet[p]
                && seats[p].3 as i32 == self.total[p]
                && (seats[p].0 == State::Folding) == self.folded[p]
                && (self.folded[p] || (seats[p].0 == State::Shoving) == self.allin[p])
        }) && g.pot() as i32 == self.total.iter().sum::<i32>()
            && { let gg = *g; catch(move || gg.street() as isize as u8) } == Some(self.street)
            && board_bits(g) == self.board
    }
    fn same_turn(&self, g: &Game) -> bool {
        match (self.turn(), try_turn(g)) {
            (NlTurn::Over, Some(Turn::Terminal)) | (NlTurn::Deal, Some(Turn::Chance)) => true,
            (NlTurn::Player(p), Some(Turn::Choice(q))) => p == q,
            _ => false,
        }
    }
}

/// ---------------------------------------------------------------- candidates
fn candidates(g: &Game, deal: &Deal, rng: &mut Rng, all_amounts: bool) -> Vec<Action> {
    let seats = g.verif_seats();
    let top = match try_turn(g) {
        Some(Turn::Choice(p)) => seats[p.min(1)].1,
        _ => seats[0].1.max(seats[1].1).max(3),
    };
    let mut v = vec![Action::Fold, Action::Check];
    let amounts: Vec<i16> = if all_amounts {
        (-1..=top + 1).collect()
    } else {
        // boundaries of every rule
        let mut a: Vec<i16> = vec![-1, 0, 1, 2, 3, top - 1, top, top + 1];
        let tc = seats[0].2.max(seats[1].2) - seats[0].2.min(seats[1].2);
        for d in -1..=1 {
            a.push(tc + d);
            a.push(2 * tc + d);
            a.push(tc + BB as i16 + d);
        }
        a.push(rng.range(0, top as i64 + 1) as i16);
        a.sort();
        a.dedup();
        a
    };
    for &x in &amounts {
        v.push(Action::Call(x));
        v.push(Action::Raise(x));
        v.push(Action::Shove(x));
        v.push(Action::Blind(x));
    }
    // deals
    let full = bits(hand(Hand::mask()));
    let board = board_bits(g);
    let in_play = board | deal.h0 | deal.h1;
    let st = { let gg = *g; catch(move || gg.street() as isize as usize).unwrap_or(0).min(2) };
    let want = if st == 0 { 3 } else { 1 };
    let fresh = rng.cards(want, full & !in_play);
    v.push(Action::Draw(hand(fresh))); // well-formed
    if deal.streets[st] & in_play == 0 {
        v.push(Action::Draw(hand(deal.streets[st]))); // the forced street cards
    }
    v.push(Action::Draw(hand(rng.cards(want + 1, full & !in_play)))); // one card too many
    v.push(Action::Draw(hand(rng.cards(want - 1, full & !in_play)))); // one too few (possibly none)
    v.push(Action::Draw(hand(0)));
    let lowest = |m: u64| m & m.wrapping_neg();
    v.push(Action::Draw(hand(rng.cards(want - 1, full & !in_play) | lowest(deal.h0)))); // a hole card of seat 0
    v.push(Action::Draw(hand(rng.cards(want - 1, full & !in_play) | (1u64 << (63 - deal.h1.leading_zeros()))))); // a hole card of seat 1
    if board != 0 {
        v.push(Action::Draw(hand(rng.cards(want - 1, full & !in_play) | lowest(board)))); // a board card again
    }
    // the other card of each hole, and the highest board card (each card in play separately matters:
    // a membership test against only one seat's cards would let the other seat's cards through)
    let highest = |m: u64| 1u64 << (63 - m.leading_zeros());
    v.push(Action::Draw(hand(rng.cards(want - 1, full & !in_play) | highest(deal.h0))));
    v.push(Action::Draw(hand(rng.cards(want - 1, full & !in_play) | lowest(deal.h1))));
    if board != 0 {
        v.push(Action::Draw(hand(rng.cards(want - 1, full & !in_play) | highest(board))));
    }
    // right-sized deals containing a card that is not a card of the 52-card deck at all (raw
    // `Card::from(52..=63)`; `Hand::from(u64)` would mask it away, `Hand::from(Card)` does not)
    for n in [52u8, 55, 63, 52 + rng.below(12) as u8] {
        v.push(Action::Draw(hand_with_raw_card(rng.cards(want - 1, full & !in_play), n)));
    }
    v
}

/// deals that are well-formed for the 52-card deck but contain a card the *configured* deck does
/// not have (short-deck build: ranks 2..5, card indices 0..15). The 52-card Lean model cannot
/// answer these, so they go to the rules machine only.
fn off_deck_deals(g: &Game, deal: &Deal, rng: &mut Rng) -> Vec<Action> {
    let full = bits(hand(Hand::mask()));
    let all52 = (1u64 << 52) - 1;
    let missing = all52 & !full;
    let mut v = vec![];
    if missing == 0 {
        return v;
    }
    let in_play = board_bits(g) | deal.h0 | deal.h1;
    let st = { let gg = *g; catch(move || gg.street() as isize as usize).unwrap_or(0).min(2) };
    let want = if st == 0 { 3 } else { 1 };
    for k in 0..4 {
        let c = if k == 0 { 0u8 } else { rng.cards(1, missing).trailing_zeros() as u8 };
        v.push(Action::Draw(hand_with_raw_card(rng.cards(want - 1, full & !in_play), c)));
    }
    v
}

struct Ctx {
    run: Run,
    probed: HashSet<(u64, (i16, [(u8, i16, i16, i16); 2], usize, u8))>,
}

/// probe one state: is_allowed on every candidate vs the oracle; apply under catch
fn probe(cx: &mut Ctx, rng: &mut Rng, deal: &Deal, deal_id: u64, hist: &[Action], g: &Game, nl: &Nl, all_amounts: bool) {
    let full = bits(hand(Hand::mask()));
    let key = (if try_turn(g) == Some(Turn::Chance) { deal_id } else { 0 }, betting_key(g));
    if !cx.probed.insert(key) {
        return;
    }
    let name = format!("{} {} | {}", deal.h0, deal.h1, hist_tok(hist));
    cx.run.spec_checked += 1;
    if !nl.same_turn(g) {
        cx.run.fail("turn", &format!("game {name}"), &format!("{:?}", nl.turn()), &try_turn(g).map_or("panic".to_string(), turn_tok));
    }
    let cands = candidates(g, deal, rng, all_amounts);
    let extra = off_deck_deals(g, deal, rng);
    let mut answer = String::with_capacity(cands.len());
    let before = state_line(g);
    for (ci, c) in cands.iter().chain(extra.iter()).enumerate() {
        cx.run.evaluations += 1;
        let gg = *g;
        let cc = *c;
        let got = catch(move || gg.is_allowed(&cc));
        let want = nl.permitted(c, full);
        cx.run.spec_checked += 1;
        let on_line = ci < cands.len();
        match got {
            None => {
                if on_line { answer.push('P'); }
                cx.run.fail("is_allowed-panics", &format!("allowed {name} | {}", act_tok(c)), &format!("{want}"), "panic");
            }
            Some(b) => {
                if on_line { answer.push(if b { '1' } else { '0' }); }
                if b != want {
                    cx.run.fail("permitted-set", &format!("allowed {name} | {}", act_tok(c)), &format!("{}", want as u8), &format!("{}", b as u8));
                }
                cx.run.count(&format!("{}:{}:{}:{}", street_name(g), turn_kind(g), kind_name(c), if b { "accept" } else { "reject" }));
            }
        }
        // apply, judged by the rules machine (not by the engine's own is_allowed): a permitted
        // action must succeed and land in the machine's next state; EVERY rejected candidate must
        // panic and leave the state we hold untouched
        let r = catch(move || gg.apply(cc));
        cx.run.spec_checked += 1;
        if want {
            match r {
                None => cx.run.fail("accepted-action-panics", &format!("game {name} {}", act_tok(c)), "a state", "panic"),
                Some(child) => {
                    if let Action::Draw(_) = c {
                        let ch = child;
                        let ok = catch(move || { let s = ch.verif_seats(); let (a, b, d) = (bits(Hand::from(s[0].4)), bits(Hand::from(s[1].4)), board_bits(&ch)); a & b == 0 && a & d == 0 && b & d == 0 }).unwrap_or(false);
                        if !ok {
                            cx.run.fail("cards-overlap-after-accepted-draw", &format!("game {name} {}", act_tok(c)), "holes and board pairwise disjoint", &safe_state_line(&child));
                        }
                    }
                    let n2 = nl.apply(c);
                    let n3 = n2.clone();
                    let same = catch(move || n3.same_as(&child) && n3.same_turn(&child)).unwrap_or(false);
                    if !same {
                        cx.run.fail("transition", &format!("game {name} {}", act_tok(c)), &format!("{n2:?} turn {:?}", n2.turn()), &safe_state_line(&child));
                    }
                }
            }
        } else {
            if let Some(child) = r {
                cx.run.fail("rejected-action-applied", &format!("game {name} {}", act_tok(c)), "panic (the rules reject this action here)", &safe_state_line(&child));
            }
            cx.run.count(&format!("apply-rejected:{}:{}", turn_kind(g), kind_name(c)));
        }
    }
    if state_line(g) != before {
        cx.run.fail("rejected-action-mutates", &format!("game {name}"), &before, &state_line(g));
    }
    cx.run.line(&format!("allowed {name} | {}", cands.iter().map(act_tok).collect::<Vec<_>>().join(" ")), &answer);
    cx.run.distinct(&key);
    // the same questions with TRACE logging on (every state) and from a fresh thread (1 in 16)
    let gg = *g;
    let cs = cands.clone();
    let ask = move || cs.iter().map(|c| { let (g2, c2) = (gg, *c); match catch(move || g2.is_allowed(&c2)) { None => 'P', Some(true) => '1', Some(false) => '0' } }).collect::<String>();
    let traced = ambient::with_trace(ask.clone());
    cx.run.spec_checked += 1;
    if traced != answer {
        let i = traced.chars().zip(answer.chars()).position(|(a, b)| a != b).unwrap_or(0);
        cx.run.fail("is-allowed-depends-on-logging", &format!("allowed {name} | {}", act_tok(&cands[i])), &answer[i..=i], &traced[i..=i]);
    }
    if cx.probed.len() % 16 == 0 {
        let threaded = ambient::in_thread(move || ambient::with_trace(ask)).unwrap_or_default();
        cx.run.spec_checked += 1;
        if threaded != answer {
            let i = threaded.chars().zip(answer.chars()).position(|(a, b)| a != b).unwrap_or(0);
            cx.run.fail("is-allowed-depends-on-thread", &format!("allowed {name} | {}", act_tok(&cands[i.min(cands.len() - 1)])), &answer, &threaded);
        }
        cx.run.count("ambient:thread");
    }
}

/// one history: lockstep with the rules machine, probes at every state, correspondence lines
fn one_history(cx: &mut Ctx, rng: &mut Rng, deals: &[Deal], h: usize) {
        let deal_id = (h % deals.len()) as u64;
        let deal = &deals[deal_id as usize];
        let style = (h / deals.len()) as u64 % 5;
        let (hist, states, issues) = random_history_checked(rng, deal, style);
        for (class, input, expected, got) in &issues {
            cx.run.fail(class, input, expected, got);
        }
        // lockstep with the rules machine
        let mut nl = Nl::new(deal.h0, deal.h1);
        for i in 0..=hist.len() {
            if i > 0 {
                nl = nl.apply(&hist[i - 1]);
            }
            cx.run.spec_checked += 1;
            if !nl.same_as(&states[i]) {
                cx.run.fail("lockstep-state", &format!("game {} {} | {}", deal.h0, deal.h1, hist_tok(&hist[..i])), &format!("{nl:?}"), &state_line(&states[i]));
                break;
            }
            probe(cx, rng, deal, deal_id, &hist[..i], &states[i], &nl, true);
        }
        // the history itself (turn and legal() after every action), one in three with a rejected action appended
        let mut line = states.iter().map(state_line).collect::<Vec<_>>().join(" ; ");
        let mut hh = hist.clone();
        if h % 3 == 0 {
            let k = rng.below(states.len() as u64) as usize;
            let g = states[k];
            let cands = candidates(&g, deal, rng, false);
            let bad: Vec<&Action> = cands.iter().filter(|c| try_allowed(&g, c) == Some(false)).collect();
            if !bad.is_empty() {
                let c = *bad[rng.below(bad.len() as u64) as usize];
                hh.truncate(k);
                hh.push(c);
                let r = catch(move || g.apply(c));
                line = states[..=k].iter().map(state_line).collect::<Vec<_>>().join(" ; ")
                    + " ; " + &match r { None => "panic".to_string(), Some(x) => safe_state_line(&x) };
                cx.run.count("history-with-rejected-tail");
            }
        }
        cx.run.line(&format!("game {} {} | {}", deal.h0, deal.h1, hist_tok(&hh)), &line);
}

fn main() {
    let a = args();
    let mut rng = Rng::new(a.seed);
    quiet_panics();
    ambient::install();
    let mut cx = Ctx { run: Run::new(&a.out), probed: HashSet::new() };
    let deals = make_deals(&mut rng, 24);
    let n_hist: usize = if a.thorough() { 60_000 } else { 12_000 };
    cx.run.rule = format!(
        "{n_hist} random histories of the real Game (5 play styles x legal() ∪ every raise size, {} forced deals); every distinct visited betting state is probed once with every action kind x every amount -1..=stack+1 x 7-8 well-/ill-formed deals (is_allowed vs the NLHE rules machine; accepted actions applied and compared with the machine's next state; every candidate the machine rejects applied under catch_unwind and required to panic; is_allowed re-asked with TRACE logging on and from fresh threads; deals with cards outside the configured deck (raw cards 52..63; in the short-deck build also ranks 2..5, oracle only)); thorough adds a breadth-first search over all reachable betting states; a case = one distinct (betting state [, deal at chance nodes]); non-trivial always",
        deals.len()
    );
    for h in 0..n_hist {
        // back-stop: whatever escapes the per-call `catch`es is reported, the run goes on
        let r = std::panic::catch_unwind(std::panic::AssertUnwindSafe(|| one_history(&mut cx, &mut rng, &deals, h)));
        if r.is_err() {
            log::set_max_level(log::LevelFilter::Off);
            cx.run.fail("engine-panics-outside-catch", &format!("history #{h} of seed {} (deal {} {})", a.seed, deals[h % deals.len()].h0, deals[h % deals.len()].h1), "no panic", "panic");
        }
    }
    cx.run.exhaustive = false;
    if a.thorough() {
        bfs(&mut cx, &mut rng, &deals[0]);
    }
    cx.run.finish();
}

/// breadth-first search over every reachable betting state (one forced deal; cards do not
/// influence betting). Every state: turn + full candidate sweep against the rules machine;
/// every accepted action is a transition. The model sees every state with the boundary candidates.
fn bfs(cx: &mut Ctx, rng: &mut Rng, deal: &Deal) {
    let full = bits(hand(Hand::mask()));
    let root = root_with(deal.h0, deal.h1);
    let nl0 = Nl::new(deal.h0, deal.h1);
    // node store: (game, machine, parent, action)
    let mut nodes: Vec<(Game, Nl, u32, Option<Action>)> = vec![(root, nl0, u32::MAX, None)];
    let mut seen: HashMap<(i16, [(u8, i16, i16, i16); 2], usize, u8), u32> = HashMap::new();
    seen.insert(betting_key(&root), 0);
    let mut queue: VecDeque<u32> = VecDeque::from([0]);
    let mut transitions = 0u64;
    while let Some(id) = queue.pop_front() {
        let (g, nl, _, _) = nodes[id as usize].clone();
        cx.run.spec_checked += 1;
        if !nl.same_turn(&g) || !nl.same_as(&g) {
            cx.run.fail("bfs-turn-or-state", &format!("betting state {:?}", betting_key(&g)), &format!("{nl:?} {:?}", nl.turn()), &state_line(&g));
            continue;
        }
        let seats = g.verif_seats();
        let top = seats[0].1.max(seats[1].1) + 1;
        let mut cands = vec![Action::Fold, Action::Check];
        for x in -1..=top {
            cands.push(Action::Call(x));
            cands.push(Action::Raise(x));
            cands.push(Action::Shove(x));
            cands.push(Action::Blind(x));
        }
        let st = { let gg = g; catch(move || gg.street() as isize as usize).unwrap_or(0).min(2) };
        cands.push(Action::Draw(hand(deal.streets[st])));
        cands.push(Action::Draw(hand(deal.streets[st] | deal.h0 & deal.h0.wrapping_neg())));
        cands.push(Action::Draw(hand(0)));
        cands.push(Action::Draw(hand_with_raw_card(0, 60)));
        for c in &cands {
            cx.run.evaluations += 1;
            cx.run.spec_checked += 1;
            let got = try_allowed(&g, c).unwrap_or(!nl.permitted(c, full));
            let want = nl.permitted(c, full);
            if !want && (matches!(c, Action::Draw(_) | Action::Fold | Action::Check) || cx.run.evaluations % 64 == 0) {
                let (g2, c2) = (g, *c);
                if let Some(child) = catch(move || g2.apply(c2)) {
                    let path = path_of(&nodes, id);
                    cx.run.fail("rejected-action-applied", &format!("game {} {} | {} {}", deal.h0, deal.h1, hist_tok(&path), act_tok(c)), "panic", &safe_state_line(&child));
                }
            }
            if got != want {
                let path = path_of(&nodes, id);
                cx.run.fail("permitted-set", &format!("allowed {} {} | {} | {}", deal.h0, deal.h1, hist_tok(&path), act_tok(c)), &format!("{}", want as u8), &format!("{}", got as u8));
            }
            if got && want {
                transitions += 1;
                let child = match try_apply(&g, *c) {
                    Some(ch) => ch,
                    None => {
                        let path = path_of(&nodes, id);
                        cx.run.fail("accepted-action-panics", &format!("game {} {} | {} {}", deal.h0, deal.h1, hist_tok(&path), act_tok(c)), "a state", "panic");
                        continue;
                    }
                };
                let n2 = nl.apply(c);
                let k = betting_key(&child);
                if !seen.contains_key(&k) {
                    let nid = nodes.len() as u32;
                    seen.insert(k, nid);
                    nodes.push((child, n2, id, Some(*c)));
                    queue.push_back(nid);
                }
            }
        }
        // correspondence line for the model: boundary candidates at every 12th state (and all
        // shallow ones); the rules machine above has seen every state with every amount
        let path = path_of(&nodes, id);
        cx.run.distinct(&(u64::MAX, betting_key(&g)));
        if id % 12 != 0 && path.len() > 4 {
            continue;
        }
        let name = format!("{} {} | {}", deal.h0, deal.h1, hist_tok(&path));
        let cs = candidates(&g, deal, rng, false);
        let ans: String = cs.iter().map(|c| match try_allowed(&g, c) { Some(true) => '1', Some(false) => '0', None => 'P' }).collect();
        cx.run.line(&format!("allowed {name} | {}", cs.iter().map(act_tok).collect::<Vec<_>>().join(" ")), &ans);
    }
    cx.run.exhaustive = true;
    cx.run.count_n("bfs:states", nodes.len() as u64);
    cx.run.count_n("bfs:transitions", transitions);
    cx.run.notes.push(format!("breadth-first search visited all {} reachable betting states and {} accepted transitions of the configured game (exhaustive in the betting dimension; cards fixed to one forced deal)", nodes.len(), transitions));
}

fn path_of(nodes: &[(Game, Nl, u32, Option<Action>)], mut id: u32) -> Vec<Action> {
    let mut p = vec![];
    while let Some(a) = nodes[id as usize].3 {
        p.push(a);
        id = nodes[id as usize].2;
    }
    p.reverse();
    p
}
