// C08 — regret updates are the external-sampling counterfactual regret estimator.
//
// The harness trains a real Profile exactly as Blueprint::solve does (tree -> Partition ->
// counterfactual -> add_regret/add_policy -> next), with the stand-in abstraction (hooks H4/H5),
// and for sampled trees dumps
//   tree <n> <m> <n node tokens parent,edge,kind,bucket,payoffbits> <m sigma tokens bucket,edge,bits>
//   regret <roots csv> <edge:scalebits csv>
// The Lean driver recomputes Profile::regret_vector with the model of profile.rs in exact
// rational arithmetic from the dumped f32 bit patterns; both sides print regret / scale where
// scale = Σ|terms| of the estimator (f64, computed here, verified by the driver), so the
// check's absolute tolerance 1e-4 is a tolerance of 1e-4·Σ|terms|.
//
// Search oracle (independent of the Lean model): the textbook estimator
//   v(n) = payoff at a childless node; Σ_c σ(n,c) v(c) at a traverser node; Σ_c v(c) elsewhere
//   r(I,a) = Σ_{h∈I} ( v(h·a) − Σ_b σ(h,b) v(h·b) )
// computed bottom-up in f64 straight from the children lists, compared with the real
// regret_vector on EVERY information set of EVERY sampled tree.
use robopoker::gameplay::ply::Turn;
use robopoker::mccfr::blueprint::Blueprint;
use robopoker::mccfr::bucket::Bucket;
use robopoker::mccfr::counterfactual::Counterfactual;
use robopoker::mccfr::edge::Edge;
use robopoker::mccfr::encoder::Encoder;
use robopoker::mccfr::info::Info;
use robopoker::mccfr::partition::Partition;
use robopoker::mccfr::player::Player;
use robopoker::mccfr::profile::Profile;
use robopoker::mccfr::tree::Tree;
use rpharness::*;
use std::collections::{BTreeMap, HashMap};

const TOL: f64 = 1e-4;
const UNDERFLOW_ZONE: f64 = 1e-30;
const SCALE_FLOOR: f64 = 9.094947017729282e-13; // 2^-40

struct Dump {
    parent: Vec<Option<usize>>,
    edge: Vec<u8>,
    kind: Vec<char>,
    bucket: Vec<usize>,
    payoff: Vec<f32>,
    kids: Vec<Vec<usize>>,
    sigma: BTreeMap<(usize, u8), f32>,
    depth: Vec<usize>,
    /// external reach of each node (product of the opponent's weights on the path from the root), f64
    ext: Vec<f64>,
    /// smallest external reach among the leaves below each node
    minext: Vec<f64>,
    /// number of childless nodes (sampled terminals) below each node
    nleaf: Vec<usize>,
    /// Profile::weight disagreeing with the normalised stored policy
    weight_bad: Vec<String>,
}

fn dump(tree: &Tree, profile: &Profile) -> Dump {
    let walker = tree.walker();
    let nodes = tree.all();
    let n = nodes.len();
    let mut ids: HashMap<Bucket, usize> = HashMap::new();
    let mut d = Dump {
        parent: vec![None; n],
        edge: vec![0; n],
        kind: vec!['t'; n],
        bucket: vec![0; n],
        payoff: vec![0.0; n],
        kids: vec![vec![]; n],
        sigma: BTreeMap::new(),
        depth: vec![0; n],
        ext: vec![1.0; n],
        minext: vec![1.0; n],
        nleaf: vec![0; n],
        weight_bad: vec![],
    };
    for (i, node) in nodes.iter().enumerate() {
        assert!(node.index().index() == i);
        d.parent[i] = node.parent().map(|p| p.index().index());
        d.edge[i] = node.incoming().map(|e| u8::from(*e)).unwrap_or(0);
        d.kids[i] = node.children().iter().map(|c| c.index().index()).collect();
        d.kind[i] = match node.player() {
            p if p == walker => 'w',
            Player(Turn::Chance) => 'c',
            Player(Turn::Terminal) => 't',
            _ => 'o',
        };
        let next = ids.len();
        d.bucket[i] = *ids.entry(node.bucket().clone()).or_insert(next);
        d.depth[i] = d.parent[i].map(|p| d.depth[p] + 1).unwrap_or(0);
        if d.kids[i].is_empty() {
            d.payoff[i] = node.payoff(&walker);
        } else if d.kind[i] == 'w' || d.kind[i] == 'o' {
            // sigma = stored policy normalised over the whole menu of the bucket, computed here (f64,
            // rounded to f32) and not read from Profile::weight, which is only cross-checked
            let menu: Vec<Edge> = Vec::<Edge>::from(node.bucket().2.clone());
            let denom: f64 = menu.iter().map(|e| profile.verif_memory(node.bucket(), e).map(|m| m.1 as f64).unwrap_or(0.0)).sum();
            for e in node.outgoing() {
                let pol = profile.verif_memory(node.bucket(), e).map(|m| m.1 as f64).unwrap_or(f64::NAN);
                let sigma = (pol / denom) as f32;
                let w = profile.weight(node.bucket(), e);
                if !((w as f64 - sigma as f64).abs() <= 1e-6 * (sigma as f64).abs().max(1e-30)) && d.weight_bad.len() < 3 {
                    d.weight_bad.push(format!("node {i} edge {e}: policy {pol:e} / {denom:e} = {sigma:e}, Profile::weight {w:e}"));
                }
                d.sigma.insert((d.bucket[i], u8::from(*e)), sigma);
            }
        }
    }
    for i in 0..n {
        if let Some(p) = d.parent[i] {
            d.ext[i] = d.ext[p] * if d.kind[p] == 'o' { d.sig(p, i) } else { 1.0 };
        }
    }
    for i in (0..n).rev() {
        d.minext[i] = if d.kids[i].is_empty() { d.ext[i] } else { d.kids[i].iter().map(|&c| d.minext[c]).fold(f64::INFINITY, f64::min) };
        d.nleaf[i] = if d.kids[i].is_empty() { 1 } else { d.kids[i].iter().map(|&c| d.nleaf[c]).sum() };
    }
    d
}

impl Dump {
    fn line(&self) -> String {
        let mut s = format!("tree {} {}", self.parent.len(), self.sigma.len());
        for i in 0..self.parent.len() {
            let p = self.parent[i].map(|p| p.to_string()).unwrap_or("-".into());
            s.push_str(&format!(" {},{},{},{},{}", p, self.edge[i], self.kind[i], self.bucket[i], self.payoff[i].to_bits()));
        }
        for ((b, e), w) in &self.sigma {
            s.push_str(&format!(" {},{},{}", b, e, w.to_bits()));
        }
        s
    }
    fn sig(&self, n: usize, c: usize) -> f64 {
        *self.sigma.get(&(self.bucket[n], self.edge[c])).expect("sigma dumped") as f64
    }
    /// textbook sampled counterfactual values, and the same with |payoff| (Σ|terms|)
    fn values(&self) -> (Vec<f64>, Vec<f64>) {
        let n = self.parent.len();
        let mut v = vec![0f64; n];
        let mut a = vec![0f64; n];
        for i in (0..n).rev() {
            if self.kids[i].is_empty() {
                v[i] = self.payoff[i] as f64;
                a[i] = (self.payoff[i] as f64).abs();
            } else {
                for &c in &self.kids[i] {
                    assert!(c > i);
                    let w = if self.kind[i] == 'w' { self.sig(i, c) } else { 1.0 };
                    v[i] += w * v[c];
                    a[i] += w * a[c];
                }
            }
        }
        (v, a)
    }
}

fn clamp(x: f64) -> f64 {
    x.max(robopoker::verif::REGRET_MIN as f64).min(robopoker::verif::REGRET_MAX as f64)
}

/// search oracle + (optionally) correspondence line for one set of traverser nodes
fn check_set(run: &mut Run, d: &Dump, v: &[f64], va: &[f64], roots: &[usize], real: Option<BTreeMap<u8, f32>>, label: &str, emit: bool, synthetic: bool) {
    run.evaluations += 1;
    let h0 = roots[0];
    let mut edges: Vec<u8> = d.kids[h0].iter().map(|&c| d.edge[c]).collect();
    edges.sort();
    let suffix = if synthetic { "-on-synthetic-set" } else { "" };
    let real = match real {
        Some(r) => r,
        None => {
            run.fail(&format!("regret-vector-panics{suffix}"), &format!("{label} roots {roots:?}"), "a regret vector", "panic");
            if emit {
                run.line(&format!("regret {} {}", roots.iter().map(|r| r.to_string()).collect::<Vec<_>>().join(","), edges.iter().map(|e| format!("{}:{}", e, 1f64.to_bits())).collect::<Vec<_>>().join(",")), "panic");
            }
            return;
        }
    };
    // histogram of the opponents' (external) reach of the checked heads
    let he = roots.iter().map(|&h| d.ext[h]).fold(f64::INFINITY, f64::min);
    let le = roots.iter().map(|&h| d.minext[h]).fold(f64::INFINITY, f64::min);
    let bin = |x: f64| if x >= 1e-3 { ">=1e-3" } else if x >= 1e-6 { "1e-6..1e-3" } else if x >= 1e-9 { "1e-9..1e-6" } else if x >= 1e-12 { "1e-12..1e-9" } else if x >= 1e-20 { "1e-20..1e-12" } else if x >= 1e-30 { "1e-30..1e-20" } else if x > 0.0 { "<1e-30" } else { "=0" };
    // f32 cannot represent the external reach of the leaves (the divisor of every terminal value)
    // below ~1e-38, and loses precision below 1e-38 x 2^23: such sets are outside what the f32 code
    // can compute at all (original code included); they are counted with what the real code
    // returned, not compared. In training a head's external reach is the probability with which the
    // line was sampled, so these states are reached with probability < 1e-30.
    let lbin = |x: usize| if x <= 2048 { "<=2048" } else if x <= 4096 { "2049..4096" } else if x <= 8192 { "4097..8192" } else if x <= 16384 { "8193..16384" } else { ">16384" };
    let below: usize = roots.iter().map(|&h| d.nleaf[h]).max().unwrap_or(0);
    let widest: usize = roots.iter().flat_map(|&h| d.kids[h].iter().map(|&c| d.nleaf[c])).max().unwrap_or(0);
    run.count(&format!("terminals-below-head {}", lbin(below)));
    run.count(&format!("terminals-below-widest-action {}", lbin(widest)));
    let underflow = le < UNDERFLOW_ZONE;
    run.count(&format!("head-external-reach {}{}", bin(he), if underflow { " (leaf reach < 1e-30: f32 underflow zone, not compared)" } else { "" }));
    if underflow {
        let floor = robopoker::verif::REGRET_MIN;
        let kind = if real.values().any(|r| *r == floor) { "records REGRET_MIN (NaN or -inf clamped)" } else if real.values().all(|r| *r == 0.0) { "records 0" } else { "records finite values" };
        run.count(&format!("underflow-zone: real regret_vector {kind}"));
        return;
    }
    let mut scales: Vec<f64> = vec![];
    let mut flat = true;
    let mut centered = 0f64;
    let mut centered_scale = 0f64;
    let mut clamped = false;
    for &e in &edges {
        let mut r = 0f64;
        let mut t = 0f64;
        for &h in roots {
            let c = d.kids[h].iter().copied().find(|&c| d.edge[c] == e);
            let ev: f64 = d.kids[h].iter().map(|&b| d.sig(h, b) * v[b]).sum();
            let ea: f64 = d.kids[h].iter().map(|&b| d.sig(h, b) * va[b]).sum();
            match c {
                Some(c) => {
                    r += v[c] - ev;
                    t += va[c] + ea;
                    if (v[c] - ev).abs() > 1e-9 * (va[c] + ea) {
                        flat = false;
                    }
                }
                None => {
                    run.fail(&format!("infoset-node-lacks-edge{suffix}"), &format!("{label} roots {roots:?} edge {e}"), "every node of the set has every action", "missing child");
                }
            }
        }
        let want = clamp(r);
        if want != r {
            clamped = true;
        }
        let t = t.max(SCALE_FLOOR);
        scales.push(t);
        run.spec_checked += 1;
        match real.get(&e) {
            None => run.fail(&format!("regret-vector-lacks-action{suffix}"), &format!("{label} roots {roots:?} edge {e}"), "an entry", "none"),
            Some(&got) => {
                if !((got as f64 - want).abs() <= TOL * t) {
                    run.fail(
                        &format!("regret-not-textbook{suffix}"),
                        &format!("{label} (after ops line {}) roots {roots:?} edge {e} sum|terms| {t:e}", run.lines),
                        &format!("{want:e}"),
                        &format!("{got:e}"),
                    );
                }
                let s = d.sig(h0, d.kids[h0].iter().copied().find(|&c| d.edge[c] == e).unwrap());
                centered += s * got as f64;
                centered_scale += s * t;
            }
        }
    }
    if real.len() != edges.len() {
        run.fail(&format!("regret-vector-wrong-actions{suffix}"), &format!("{label} roots {roots:?}"), &format!("{edges:?}"), &format!("{:?}", real.keys().collect::<Vec<_>>()));
    }
    // in-particular clauses, numerically on the real output
    run.spec_checked += 1;
    if flat {
        run.count("infoset-all-actions-worth-the-same");
        let t = scales.iter().cloned().fold(0f64, f64::max);
        for (&e, &got) in &real {
            if !((got as f64).abs() <= TOL * t) {
                run.fail(&format!("regret-nonzero-when-actions-equal{suffix}"), &format!("{label} roots {roots:?} edge {e}"), "0", &format!("{got:e}"));
            }
        }
    }
    // σ-weighted sum of the regrets of a single-node set vanishes (normalised σ): the pre-fix
    // formula, which is not invariant under adding a constant to the payoffs, violates it
    if roots.len() == 1 && !clamped && !(centered.abs() <= TOL * centered_scale) {
        run.fail(&format!("regret-not-centered{suffix}"), &format!("{label} roots {roots:?}"), "sum_a sigma(a) r(a) = 0", &format!("{centered:e}"));
    }
    if scales.iter().any(|&t| t > SCALE_FLOOR) && edges.len() >= 2 {
        run.distinct(&(label, roots));
    }
    let size = match roots.len() { 1 => "1", 2 => "2", 3..=4 => "3-4", _ => "5+" };
    run.count(&format!("{}infoset-nodes={}", if synthetic { "synthetic-" } else { "" }, size));
    run.count(&format!("infoset-actions={}", edges.len()));
    if emit {
        let op = format!(
            "regret {} {}",
            roots.iter().map(|r| r.to_string()).collect::<Vec<_>>().join(","),
            edges.iter().zip(&scales).map(|(e, t)| format!("{}:{}", e, t.to_bits())).collect::<Vec<_>>().join(",")
        );
        let mut ans = String::from("scale-ok textbook-eq");
        for (e, t) in edges.iter().zip(&scales) {
            let got = real.get(e).copied().unwrap_or(f32::NAN) as f64;
            ans.push_str(&format!(" {} ~{:e}", e, got / t));
        }
        run.line(&op, &ans);
        run.count(&format!("dumped-{}infoset-nodes={}", if synthetic { "synthetic-" } else { "" }, size));
    }
}

/// replica of Blueprint::tree / Blueprint::sample on the real tree primitives (Tree::plant / fork,
/// Node::realize, Encoder::branches, Profile::witness / explore_all / explore_any), with the
/// opponent's branch chosen by a script instead of explore_one, so that long hands (lines deeper
/// than the 16-edge window) are built deliberately.
fn directed_tree(profile: &mut Profile, encoder: &Encoder, style: u64, rng: &mut Rng) -> Tree {
    fn pick(node: &robopoker::mccfr::node::Node, branches: &Vec<robopoker::mccfr::tree::Branch>, style: u64, depth: usize, rng: &mut Rng) -> usize {
        let edges: Vec<Edge> = branches.iter().map(|b| *b.edge()).collect();
        if style == 9 {
            // small raises before the turn, check the turn, jam the river: the traverser's different
            // river lines then end in nodes deeper than 16 edges that share a bucket
            use robopoker::cards::street::Street;
            let passive = edges.iter().position(|e| matches!(e, Edge::Check)).or(edges.iter().position(|e| matches!(e, Edge::Call)));
            let choice = match node.data().game().street() {
                Street::Pref | Street::Flop => edges.iter().position(|e| matches!(e, Edge::Raise(_))).or(passive),
                Street::Turn => passive,
                Street::Rive => edges.iter().position(|e| matches!(e, Edge::Shove)),
            };
            return choice.unwrap_or(0);
        }
        let raises: Vec<usize> = (0..edges.len()).filter(|&i| matches!(edges[i], Edge::Raise(_))).collect();
        let passive = edges.iter().position(|e| matches!(e, Edge::Call)).or(edges.iter().position(|e| matches!(e, Edge::Check)));
        let smallest = raises.iter().copied().min_by(|&a, &b| {
            let (x, y) = match (edges[a], edges[b]) { (Edge::Raise(x), Edge::Raise(y)) => (x, y), _ => unreachable!() };
            (x.0 as i32 * y.1 as i32).cmp(&(y.0 as i32 * x.1 as i32))
        });
        let want_raise = match style {
            0 => true,                       // always the smallest raise while one is offered
            1 => rng.chance(7, 10),          // mostly raising
            2 => false,                      // always call / check: the traverser does the raising
            3 => depth % 2 == 0,             // alternate
            _ => rng.chance(1, 2),
        };
        match (want_raise, smallest, passive) {
            (true, Some(i), _) => i,
            (_, _, Some(i)) => i,
            (_, Some(i), None) => i,
            _ => 0,
        }
    }
    fn sample(profile: &mut Profile, encoder: &Encoder, node: &robopoker::mccfr::node::Node, style: u64, depth: usize, rng: &mut Rng) -> Vec<robopoker::mccfr::tree::Branch> {
        let walker = profile.walker();
        let mut branches = encoder.branches(node);
        match (branches.len(), node.player()) {
            (0, _) => vec![],
            (_, p) if p == Player::chance() => profile.explore_any(branches, node),
            (_, p) if p != walker => {
                profile.witness(node, &branches);
                let i = pick(node, &branches, style, depth, rng);
                vec![branches.remove(i)]
            }
            _ => {
                profile.witness(node, &branches);
                profile.explore_all(branches, node)
            }
        }
    }
    let mut tree = Tree::empty(profile.walker());
    let mut todo: Vec<(robopoker::mccfr::tree::Branch, usize)> = {
        let ref node = tree.plant(encoder.seed());
        sample(profile, encoder, node, style, 0, rng).into_iter().map(|b| (b, 1)).collect()
    };
    while let Some((branch, depth)) = todo.pop() {
        let ref node = tree.fork(branch);
        let kids = sample(profile, encoder, node, style, depth, rng);
        todo.extend(kids.into_iter().map(|b| (b, depth + 1)));
    }
    tree
}

fn main() {
    let a = args();
    let mut rng = Rng::new(a.seed);
    let mut run = Run::new(&a.out);
    quiet_panics();
    let (epochs, batch, per_tree, synthetic_per_tree, converged, directed, stored, skewed, own_zero) = if a.thorough() { (60usize, 8usize, 40usize, 12usize, 12usize, 12usize, 8usize, 16usize, 12usize) } else { (14, 3, 8, 6, 4, 4, 2, 8, 4) };
    run.rule = format!(
        "{epochs} training epochs x {batch} trees sampled by the real Blueprint::tree from an initially empty Profile with the stand-in abstraction, traverser alternating; profile updated as Blueprint::solve does; then one tree at each side of the Discount/Explore and Explore/Prune phase boundaries (epoch counter set by the hook); then {directed} directed long-hand trees (scripted opponent; the first two are the steered long hand for each traverser: limp, small raises, call / flop bet-raise-reraise-call / turn checked / river jam — the P1-traverser tree has ~73,600 nodes and > 23,000 sampled terminals below its root, > 10,000 below the root's Call; every information set with more than 2048 terminals below it is evaluated, histogram `terminals-below-head` / `terminals-below-widest-action`) through the real Partition::from, checked against an independent grouping by bucket; {stored} trees with extreme STORED regrets (metamorphic: regret_vector unchanged bit for bit); then {skewed} trees (long steered hands and sampled trees, both traversers) evaluated against SKEWED OPPONENT strategies set after the tree was built (weights 1/1e-2/1e-4/1e-6 or 1 vs 1e-12 per action), so that the external reach of the heads spans 1..1e-30 (histogram head-external-reach; sets whose leaf reach is below 1e-30 are in the f32 underflow zone and only counted); then {own_zero} trees whose TRAVERSER'S OWN stored policies are exactly 0 / subnormal (1e-36..1e-44) / 1e-20 on some actions (sigma for the oracle and the driver = stored policy normalised here, Profile::weight only cross-checked); then {converged} trees in 'converged strategy' profile states (every traverser bucket of the tree: one action ~1, the others 1e-10..1e-12 via verif_set_memory, both traversers). Search oracle: textbook estimator in f64 on every information set of every tree (tolerance {TOL}·Σ|terms|). Correspondence: every tree dumped, with its multi-node information sets, its largest information set and a random sample (up to {per_tree} per tree). An information set is non-trivial when Σ|terms| > 0 and it has >= 2 actions; distinct by (epoch, tree, bucket id). Deals come from the code's own thread_rng (every third tree uses the forced draw index from VERIF_SEED); each dumped tree is self-contained in ops.txt"
    );
    let bp = Blueprint::verif_new(Profile::default(), Encoder::default());
    let profile = bp.verif_profile();
    let mut tree_no = 0u64;
    // the training epochs, then one tree at each side of every phase boundary (Discount / Explore /
    // Prune: the update step's discount and any phase-keyed code run there), both traversers
    let (dph, pph) = (robopoker::verif::CFR_DISCOUNT_PHASE, robopoker::verif::CFR_PRUNNING_PHASE);
    let mut schedule: Vec<(usize, usize, u8)> = (0..epochs).map(|e| (e, batch, 0)).collect();
    for e in [dph - 1, dph, dph + 1, pph - 1, pph, pph + 1] {
        schedule.push((e, 1, 0));
    }
    // "converged strategy" profile states (late training: abandoned actions keep an average-strategy
    // weight of ~1e-10 .. 1e-12): the traverser's stored policies of every bucket of the tree are
    // overwritten with one action ~ 1 and the others 1e-10 / 1e-11 / 1e-12, so that the products of
    // the traverser's own probabilities along deep lines fall below the f32 normal range
    // (1e-40 .. 1e-60). The exact model and the f64 oracle do not underflow. In the real f32
    // computation such a product only ever multiplies a leaf's payoff inside a sum whose other terms
    // are O(payoff), so flushing it to 0 costs an absolute error far below the 1e-4 x sum|terms|
    // tolerance: the clean code stays within it.
    // directed long hands (scripted opponent, as in c10.rs): the real Partition::from gets trees in
    // which several traverser nodes share a bucket (histories beyond the 16-edge window)
    for k in 0..directed {
        schedule.push((1000 + k, 1, 3));
    }
    // profile states whose STORED regrets are near / below REGRET_MIN or huge while the policy
    // column stays as trained: the recorded regret must not depend on them
    for k in 0..stored {
        schedule.push((2000 + k, 1, 2));
    }
    // skewed OPPONENT strategies: trees are sampled (or steered along long hands) first, then the
    // opponent's stored policies at the buckets of the tree are overwritten with weights spread over
    // many orders of magnitude (1 / 1e-2 / 1e-4 / 1e-6 per action in a random rotation, or 1 against
    // 1e-12) and the tree is evaluated against that profile: the external reach of the heads then
    // spans 1 .. 1e-30 (histogram `head-external-reach` in the statistics)
    for k in 0..skewed {
        schedule.push((3000 + k, 1, 4));
    }
    // the TRAVERSER'S OWN stored policies at the checked information sets: exactly 0.0 on one or
    // several actions (others positive), subnormal (1e-36 .. 1e-44), 1e-20, and mixtures
    for k in 0..own_zero {
        schedule.push((4000 + k, 1, 5));
    }
    for k in 0..converged {
        schedule.push((16000 + k, 1, 1));
    }
    for (epoch, batch, mode) in schedule {
        let converged = mode == 1;
        if epoch >= epochs {
            profile.write().unwrap().verif_set_epochs(epoch);
            if mode == 0 {
                run.count(&format!("phase-boundary-epoch={epoch}"));
            }
        }
        let mut cfs: Vec<Counterfactual> = vec![];
        for _ in 0..batch {
            tree_no += 1;
            if tree_no % 3 == 0 {
                robopoker::verif::set_draw_index(Some(rng.below(52) as u8));
            }
            let mut tree = bp.verif_tree();
            robopoker::verif::set_draw_index(None);
            if mode == 3 {
                // the first two (one per traverser): small raises, checked turn, river jam — the line on
                // which different river actions of the traverser end in nodes sharing a bucket
                let style = if epoch < 1002 { 9 } else { [0u64, 2][epoch % 2] };
                for _ in 0..5 {
                    tree = directed_tree(&mut profile.write().unwrap(), &Encoder::default(), style, &mut rng);
                    if style == 9 || tree.all().len() <= 9000 {
                        break;
                    }
                }
                run.count("directed-deep-tree");
            }
            if mode == 4 {
                // long steered hands for the first half, sampled trees for the second
                if (epoch - 3000) % 4 < 2 {
                    tree = directed_tree(&mut profile.write().unwrap(), &Encoder::default(), [9u64, 0][((epoch - 3000) / 4) % 2], &mut rng);
                } else {
                    for _ in 0..6 {
                        if (300..=9000).contains(&tree.all().len()) {
                            break;
                        }
                        tree = bp.verif_tree();
                    }
                }
                let walker = tree.walker();
                let mut p = profile.write().unwrap();
                let mut seen: std::collections::HashSet<Bucket> = Default::default();
                for node in tree.all() {
                    let opp = matches!(node.player(), Player(Turn::Choice(_))) && node.player() != walker;
                    if opp && !node.children().is_empty() && seen.insert(node.bucket().clone()) {
                        let menu: Vec<Edge> = Vec::<Edge>::from(node.bucket().2.clone());
                        let rot = rng.below(4) as usize;
                        let pattern = rng.below(10);
                        for (j, e) in menu.iter().enumerate() {
                            let (r, _) = p.verif_memory(node.bucket(), e).expect("witnessed");
                            let pol = match pattern {
                                0 => if j == rot % menu.len() { 1e-12 } else { 1.0 },        // the sampled edge may be the tiny one
                                1..=2 => 1.0,                                                 // left uniform
                                3..=5 => [1.0f32, 1e-1, 1e-2, 1e-3][(j + rot) % 4],
                                _ => [1.0f32, 1e-2, 1e-4, 1e-6][(j + rot) % 4],
                            };
                            p.verif_set_memory(node.bucket(), e, r, pol);
                        }
                    }
                }
                run.count("skewed-opponent-tree");
            }
            if mode == 5 {
                for _ in 0..6 {
                    if (300..=6000).contains(&tree.all().len()) {
                        break;
                    }
                    tree = bp.verif_tree();
                }
                let walker = tree.walker();
                let mut p = profile.write().unwrap();
                let mut seen: std::collections::HashSet<Bucket> = Default::default();
                for node in tree.all() {
                    if node.player() == walker && !node.children().is_empty() && seen.insert(node.bucket().clone()) {
                        let edges: Vec<Edge> = node.outgoing().into_iter().copied().collect();
                        let m = edges.len();
                        let pick = rng.below(m as u64) as usize;
                        let pattern = rng.below(6);
                        for (j, e) in edges.iter().enumerate() {
                            let (r, old) = p.verif_memory(node.bucket(), e).expect("witnessed");
                            let pol: f32 = match pattern {
                                0 => if j == pick && m >= 2 { 0.0 } else { 1.0 },
                                1 => if j % 2 == 1 { 0.0 } else { [1.0f32, 0.5][(j / 2) % 2] },
                                2 => if j == pick && m >= 2 { [1e-36f32, 1e-38, 1e-40, 1e-44][(j + m) % 4] } else { 1.0 },
                                3 => if j == pick && m >= 2 { 1e-20 } else { 0.7 },
                                4 => if j == 0 { 1.0 } else { [0.0f32, 1e-40, 1e-20, 0.3][j % 4] },
                                _ => old,
                            };
                            p.verif_set_memory(node.bucket(), e, r, pol);
                        }
                    }
                }
                run.count("own-weights-zero-or-subnormal-tree");
            }
            if converged {
                for _ in 0..6 {
                    let n = tree.all().len();
                    if (300..=6000).contains(&n) {
                        break;
                    }
                    tree = bp.verif_tree();
                }
                let walker = tree.walker();
                let mut p = profile.write().unwrap();
                let mut seen: std::collections::HashSet<Bucket> = Default::default();
                for node in tree.all() {
                    if node.player() == walker && !node.children().is_empty() && seen.insert(node.bucket().clone()) {
                        let edges: Vec<robopoker::mccfr::edge::Edge> = node.outgoing().into_iter().copied().collect();
                        let fav = rng.below(edges.len() as u64) as usize;
                        for (j, e) in edges.iter().enumerate() {
                            let (r, _) = p.verif_memory(node.bucket(), e).expect("witnessed");
                            let pol = if j == fav { 1.0 } else { [1e-10f32, 1e-11, 1e-12][j % 3] };
                            p.verif_set_memory(node.bucket(), e, r, pol);
                        }
                    }
                }
                run.count("converged-strategy-tree");
            }
            let d = { dump(&tree, &profile.read().unwrap()) };
            for m in &d.weight_bad {
                run.fail("weight-not-normalised-policy", &format!("epoch {epoch} tree {tree_no} {m}"), "policy / sum of policies", "different");
            }
            let (v, va) = d.values();
            let n = d.parent.len();
            let nleaves = d.kids.iter().filter(|k| k.is_empty()).count();
            let maxdepth = d.depth.iter().copied().max().unwrap_or(0);
            run.count(&format!("tree-nodes<={}", match n { 0..=99 => 99, 100..=999 => 999, 1000..=2999 => 2999, _ => 99999 }));
            run.count(&format!("tree-depth<={}", match maxdepth { 0..=8 => 8, 9..=16 => 16, 17..=24 => 24, _ => 99 }));
            run.count(&format!("walker=P{}", epoch % 2));
            run.line(&d.line(), &format!("tree {} {} wf external-shape", n, nleaves));
            let infos: Vec<Info> = Partition::from(tree).into();
            // ---- the real partition against an independent grouping of the traverser's nodes by bucket
            let mut groups: BTreeMap<usize, Vec<usize>> = BTreeMap::new();
            for i in 0..n {
                if d.kind[i] == 'w' && !d.kids[i].is_empty() {
                    groups.entry(d.bucket[i]).or_default().push(i);
                }
            }
            run.spec_checked += 1;
            {
                let mut got: Vec<Vec<usize>> = infos.iter().map(|i| { let mut r: Vec<usize> = i.roots().iter().map(|x| x.index().index()).collect(); r.sort(); r }).collect();
                got.sort();
                let mut want: Vec<Vec<usize>> = groups.values().cloned().collect();
                want.sort();
                if got != want {
                    let bad = want.iter().find(|g| !got.contains(g)).cloned().unwrap_or_default();
                    let near = got.iter().find(|g| g.iter().any(|x| bad.contains(x))).cloned().unwrap_or_default();
                    run.fail("information-set-not-all-nodes-of-bucket", &format!("epoch {epoch} tree {tree_no} (ops line {})", run.lines), &format!("{bad:?}"), &format!("{near:?}"));
                }
            }
            // metamorphic: the recorded regret must not depend on the regrets already stored
            let before: Vec<BTreeMap<u8, f32>> = if mode == 2 {
                let p = profile.read().unwrap();
                infos.iter().map(|i| p.regret_vector(i).iter().map(|(e, r)| (u8::from(*e), *r)).collect()).collect()
            } else {
                vec![]
            };
            if mode == 2 {
                let mut p = profile.write().unwrap();
                let mut k = 0usize;
                for info in &infos {
                    let node = info.node();
                    let bucket = node.bucket().clone();
                    for e in node.outgoing() {
                        let (_, pol) = p.verif_memory(&bucket, e).expect("witnessed");
                        let stored = [-2.999e5f32, -3.0e5, -3.0001e5, -3.5e5, -1.0e6, 3.0e5, 1.0e30, -1.0e30][k % 8];
                        p.verif_set_memory(&bucket, e, stored, pol);
                        k += 1;
                    }
                }
                run.count("stored-regrets-extreme-tree");
            }
            // which information sets go to the model driver
            let mut chosen: Vec<usize> = vec![];
            let sizes: Vec<usize> = infos.iter().map(|i| groups.get(&d.bucket[i.roots()[0].index().index()]).map(|g| g.len()).unwrap_or(1)).collect();
            let mut multi: Vec<usize> = (0..infos.len()).filter(|&i| sizes[i] > 1).collect();
            multi.truncate(if mode == 3 { 12 } else { per_tree / 2 });
            chosen.extend(multi);
            if let Some(big) = (0..infos.len()).min_by_key(|&i| infos[i].roots()[0].index().index()) {
                if mode != 3 && !(mode == 4 && n > 9000) && !chosen.contains(&big) {
                    chosen.push(big);
                }
            }
            if mode == 3 {
                // very large subtrees: the two cheapest heads with more than 8192 terminals below them and
                // the cheapest head one of whose actions covers more than 4096 go to the exact driver
                let head = |i: usize| infos[i].roots()[0].index().index();
                let cost = |i: usize| d.nleaf[head(i)] * (d.kids[head(i)].len() + 1);
                let mut wide: Vec<usize> = (0..infos.len()).filter(|&i| d.nleaf[head(i)] > 8192).collect();
                wide.sort_by_key(|&i| cost(i));
                let mut act: Vec<usize> = (0..infos.len()).filter(|&i| d.kids[head(i)].iter().any(|&c| d.nleaf[c] > 4096)).collect();
                act.sort_by_key(|&i| cost(i));
                for &i in wide.iter().take(2).chain(act.iter().take(1)) {
                    if !chosen.contains(&i) {
                        chosen.push(i);
                        run.count("dumped-head-with-more-than-4096-terminals-under-one-action-or-8192-below");
                    }
                }
            }
            if mode == 5 {
                // heads where one of the traverser's own actions has weight exactly 0 / subnormal / tiny
                let tiny = |i: usize| { let h = infos[i].roots()[0].index().index(); d.kids[h].iter().map(|&c| d.sig(h, c)).fold(f64::INFINITY, f64::min) };
                let zero: Vec<usize> = (0..infos.len()).filter(|&i| tiny(i) == 0.0).collect();
                let sub: Vec<usize> = (0..infos.len()).filter(|&i| tiny(i) > 0.0 && tiny(i) < 1e-30).collect();
                let small: Vec<usize> = (0..infos.len()).filter(|&i| tiny(i) >= 1e-30 && tiny(i) < 1e-10).collect();
                run.count_n("head-with-own-action-weight =0", zero.len() as u64);
                run.count_n("head-with-own-action-weight subnormal(<1e-30)", sub.len() as u64);
                run.count_n("head-with-own-action-weight 1e-30..1e-10", small.len() as u64);
                for &i in zero.iter().take(4).chain(sub.iter().take(3)).chain(small.iter().take(2)) {
                    if !chosen.contains(&i) {
                        chosen.push(i);
                    }
                }
            }
            if mode == 4 {
                // the heads with the smallest external reach that the f32 code can still represent
                let mut by_ext: Vec<usize> = (0..infos.len()).filter(|&i| d.minext[infos[i].roots()[0].index().index()] >= UNDERFLOW_ZONE).collect();
                by_ext.sort_by(|&a, &b| d.ext[infos[a].roots()[0].index().index()].partial_cmp(&d.ext[infos[b].roots()[0].index().index()]).unwrap());
                for &i in by_ext.iter().take(8) {
                    if !chosen.contains(&i) {
                        chosen.push(i);
                    }
                }
            }
            if converged {
                // the deepest heads: they sit below the most abandoned actions
                let mut by_depth: Vec<usize> = (0..infos.len()).collect();
                by_depth.sort_by_key(|&i| std::cmp::Reverse(d.depth[infos[i].roots()[0].index().index()]));
                for &i in by_depth.iter().take(4) {
                    if !chosen.contains(&i) {
                        chosen.push(i);
                    }
                }
            }
            while chosen.len() < per_tree.min(infos.len()) {
                let i = rng.below(infos.len() as u64) as usize;
                if !chosen.contains(&i) {
                    chosen.push(i);
                }
            }
            // on the (large) directed trees only the multi-node sets and a random sample are evaluated
            let large = mode == 3 || (mode == 4 && n > 9000);
            let selected: Vec<bool> = (0..infos.len()).map(|i| !large || d.nleaf[infos[i].roots()[0].index().index()] > 2048 || d.ext[infos[i].roots()[0].index().index()] < 1e-9 || sizes[i] > 1 || chosen.contains(&i) || rng.chance(150, infos.len().max(150) as u64)).collect();
            for (ix, info) in infos.into_iter().enumerate() {
                if !selected[ix] {
                    continue;
                }
                // the set as it should be: every traverser node of the tree with this bucket
                let first = info.roots()[0].index().index();
                let roots: Vec<usize> = groups.get(&d.bucket[first]).cloned().unwrap_or_else(|| vec![first]);
                let cf = {
                    let p = profile.read().unwrap();
                    match catch(std::panic::AssertUnwindSafe(|| p.counterfactual(info))) {
                        Some(cf) => cf,
                        None => {
                            check_set(&mut run, &d, &v, &va, &roots, None, &format!("epoch {epoch} tree {tree_no}"), chosen.contains(&ix), false);
                            continue;
                        }
                    }
                };
                let real: BTreeMap<u8, f32> = cf.regret().inner().iter().map(|(e, r)| (u8::from(*e), *r)).collect();
                if mode == 2 {
                    run.spec_checked += 1;
                    let same = before[ix].len() == real.len() && before[ix].iter().all(|(e, r)| real.get(e).map(|x| x.to_bits()) == Some(r.to_bits()));
                    if !same {
                        run.fail("regret-depends-on-stored-regret", &format!("epoch {epoch} tree {tree_no} roots {roots:?}"), &format!("{:?}", before[ix]), &format!("{real:?}"));
                    }
                }
                check_set(&mut run, &d, &v, &va, &roots, Some(real), &format!("epoch {epoch} tree {tree_no}"), chosen.contains(&ix), false);
                cfs.push(cf);
            }
        }
        // one extra tree per epoch (not used for training): the real regret_vector on synthetic
        // multi-node sets (walker nodes sharing an action menu), because real multi-node
        // information sets only arise below depth 16 and are rare
        {
            let mut tree = std::sync::Arc::new(bp.verif_tree());
            for _ in 0..5 {
                if tree.all().len() <= 4000 {
                    break;
                }
                tree = std::sync::Arc::new(bp.verif_tree());
            }
            let d = { dump(&tree, &profile.read().unwrap()) };
            let (v, va) = d.values();
            let n = d.parent.len();
            let nleaves = d.kids.iter().filter(|k| k.is_empty()).count();
            let mut groups: BTreeMap<Vec<u8>, Vec<usize>> = BTreeMap::new();
            for i in 0..n {
                if d.kind[i] == 'w' && !d.kids[i].is_empty() {
                    let mut es: Vec<u8> = d.kids[i].iter().map(|&c| d.edge[c]).collect();
                    es.sort();
                    groups.entry(es).or_default().push(i);
                }
            }
            let groups: Vec<Vec<usize>> = groups.into_values().filter(|g| g.len() >= 2).collect();
            if n <= 4000 && !groups.is_empty() {
                run.line(&d.line(), &format!("tree {} {} wf external-shape", n, nleaves));
                for _ in 0..synthetic_per_tree {
                    let g = &groups[rng.below(groups.len() as u64) as usize];
                    let k = 2 + rng.below(3.min(g.len() as u64 - 1)) as usize;
                    let mut roots: Vec<usize> = vec![];
                    while roots.len() < k {
                        let r = g[rng.below(g.len() as u64) as usize];
                        if !roots.contains(&r) {
                            roots.push(r);
                        }
                    }
                    roots.sort();
                    let mut info = Info::from(tree.clone());
                    for &r in &roots {
                        info.add(petgraph::graph::NodeIndex::new(r));
                    }
                    let p = profile.read().unwrap();
                    let real = catch(std::panic::AssertUnwindSafe(|| p.regret_vector(&info)))
                        .map(|m| m.iter().map(|(e, r)| (u8::from(*e), *r)).collect::<BTreeMap<u8, f32>>());
                    drop(p);
                    check_set(&mut run, &d, &v, &va, &roots, real, &format!("epoch {epoch} extra tree"), true, true);
                }
            }
        }
        {
        // the update step of Blueprint::solve
        let mut p = profile.write().unwrap();
        for cf in cfs {
            let bucket = cf.info().node().bucket().clone();
            p.add_regret(&bucket, cf.regret());
            p.add_policy(&bucket, cf.policy());
        }
        p.next();
        }
    }
    run.notes.push("f32 rounding of the real sums is compared with tolerance 1e-4·Σ|terms| (both in the oracle and, through the printed quotient regret/Σ|terms|, in the correspondence)".into());
    // truncate long samples (tree dumps) so that the evidence stays readable
    for s in run.samples.iter_mut() {
        if s.len() > 400 {
            let cut = (0..=400).rev().find(|&i| s.is_char_boundary(i)).unwrap_or(0);
            let tail = s[s.len().saturating_sub(60)..].to_string();
            s.truncate(cut);
            s.push_str(" … ");
            s.push_str(&tail);
        }
    }
    run.finish();
}
