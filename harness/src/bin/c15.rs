// C15 — compact numeric encodings are lossless.
// Correspondence: every `From` impl named in the property is run on the real types and printed as
// `enc-<type> <value>` / `dec-<type> <code>` lines for the Lean model (RP.Codec).
// Search oracle (independent of the model): decode(encode v) == v, codes pairwise distinct
// (sort + dedup), street recovered from the observation / bucket code equals the street the
// value was built for, pair keys pairwise distinct over flop ∪ turn ∪ river.
use robopoker::cards::card::Card;
use robopoker::cards::hand::Hand;
use robopoker::cards::observation::Observation;
use robopoker::cards::street::Street;
use robopoker::clustering::abstraction::Abstraction;
use robopoker::clustering::pair::Pair;
use robopoker::gameplay::action::Action;
use robopoker::mccfr::bucket::Bucket;
use robopoker::mccfr::edge::Edge;
use robopoker::mccfr::odds::Odds;
use robopoker::mccfr::path::Path;
use rpharness::*;

fn show_action(a: &Action) -> String {
    match a {
        Action::Fold => "fold".into(),
        Action::Check => "check".into(),
        Action::Call(x) => format!("call:{x}"),
        Action::Raise(x) => format!("raise:{x}"),
        Action::Shove(x) => format!("shove:{x}"),
        Action::Blind(x) => format!("blind:{x}"),
        Action::Draw(h) => { let h = *h; format!("draw:{}", word(move || u64::from(h))) }
    }
}
/// a real accessor / conversion used only to PRINT a value: its panic is printed as the word `panic`
/// (and so differs from the model line), it never takes the harness down
fn word(f: impl FnOnce() -> u64 + std::panic::UnwindSafe) -> String {
    catch(f).map(|x| x.to_string()).unwrap_or_else(|| "panic".into())
}
fn show_obs(o: &Observation) -> String {
    let o = *o;
    format!("{} {}", word(move || u64::from(*o.pocket())), word(move || u64::from(*o.public())))
}
fn show_edge(e: &Edge) -> String {
    match e {
        Edge::Draw => "draw".into(),
        Edge::Fold => "fold".into(),
        Edge::Check => "check".into(),
        Edge::Call => "call".into(),
        Edge::Shove => "shove".into(),
        Edge::Raise(Odds(n, d)) => format!("raise:{n}:{d}"),
    }
}
fn show_edges(es: &[Edge]) -> String {
    if es.is_empty() { "-".into() } else { es.iter().map(show_edge).collect::<Vec<_>>().join(",") }
}
fn variant(a: &Abstraction) -> u8 {
    match a {
        Abstraction::Percent(_) => 0,
        Abstraction::Learned(_) => 1,
        Abstraction::Preflop(_) => 2,
    }
}
fn show_abs(a: &Abstraction) -> String {
    let x = *a;
    format!("{}:{}", variant(a), word(move || u64::from(x)))
}
fn street_no(s: Street) -> usize {
    s as isize as usize
}
fn street_of(n: usize) -> Street {
    [Street::Pref, Street::Flop, Street::Turn, Street::Rive][n]
}
fn opt(x: Option<String>) -> String {
    x.unwrap_or_else(|| "panic".into())
}
/// expected street number from the number of board cards (poker rules, not the code's table)
fn street_by_board(n: u32) -> Option<usize> {
    match n { 0 => Some(0), 3 => Some(1), 4 => Some(2), 5 => Some(3), _ => None }
}

/// a real conversion applied to a VALID value (one the property covers): a panic is an oracle failure
/// of class `conversion-panics`; the caller then prints `panic` as the answer of the line
fn cv<T>(run: &mut Run, what: &dyn Fn() -> String, f: impl FnOnce() -> T) -> Option<T> {
    let r = catch(std::panic::AssertUnwindSafe(f));
    if r.is_none() {
        run.spec_checked += 1;
        run.fail("conversion-panics", &what(), "a code / the value back", "panic");
    }
    r
}

struct Distinct {
    name: &'static str,
    codes: Vec<i128>,
    values: u64,
}
impl Distinct {
    fn new(name: &'static str) -> Self { Distinct { name, codes: vec![], values: 0 } }
    fn push(&mut self, c: i128) { self.codes.push(c); self.values += 1; }
    fn check(mut self, run: &mut Run) {
        self.codes.sort_unstable();
        let n = self.codes.len();
        let mut dup = None;
        for w in self.codes.windows(2) {
            if w[0] == w[1] { dup = Some(w[0]); break; }
        }
        run.spec_checked += 1;
        run.count_n(&format!("distinct-codes:{}", self.name), n as u64);
        if let Some(d) = dup {
            run.fail(&format!("{}-codes-collide", self.name), &format!("{} distinct values", self.values), "pairwise distinct codes", &format!("code {d} produced twice"));
        }
    }
}

fn obs_case(run: &mut Run, pocket: u64, public: u64, lines: bool, dist: &mut Distinct) {
    run.evaluations += 1;
    let o = match cv(run, &|| format!("Observation::from((Hand::from({pocket}), Hand::from({public})))"), || Observation::from((Hand::from(pocket), Hand::from(public)))) {
        Some(o) => o,
        None => { run.line(&format!("enc-obs {pocket} {public}"), "panic"); return; }
    };
    let code = match cv(run, &|| format!("i64::from(Observation pocket={pocket} public={public})"), || i64::from(o)) {
        Some(c) => c,
        None => { run.line(&format!("enc-obs {pocket} {public}"), "panic"); return; }
    };
    dist.push(code as i128);
    let back = catch(move || Observation::from(code));
    let st = catch(move || Street::from(code));
    run.spec_checked += 2;
    let input = format!("obs pocket={pocket} public={public}");
    match back {
        Some(b) if b == o => {}
        Some(b) => run.fail("observation-roundtrip", &input, &format!("{pocket} {public}"), &show_obs(&b)),
        None => run.fail("observation-roundtrip", &input, &format!("{pocket} {public}"), "panic"),
    }
    let want = street_by_board(public.count_ones());
    match (st, want) {
        (Some(s), Some(w)) if street_no(s) == w && catch(move || street_no(o.street())) == Some(w) => {}
        (s, w) => run.fail("street-from-observation-code", &input, &format!("{w:?}"), &format!("{:?}", s.map(street_no))),
    }
    if lines {
        run.line(&format!("enc-obs {pocket} {public}"), &format!("{code}"));
        run.line(&format!("dec-obs {code}"), &opt(back.map(|b| show_obs(&b))));
        run.line(&format!("street-obs {code}"), &opt(st.map(|s| street_no(s).to_string())));
        run.distinct(&("obs", pocket, public));
    }
}


// ---------------------------------------------------------------------------------------------
// decode SEQUENCES: the decoders are asked in adversarial orders (parent then every child, children
// before parents, values differing in one byte only, the same code twice, interleaved with the other
// codecs), on the main thread and on several threads at once.  Every answer is predicted by the pure
// model (one line each) and judged by the round-trip oracle on its own: a decoder that remembers
// anything about an earlier call shows up here.
#[derive(Clone)]
enum Step {
    Obs(u64, u64),          // Observation::from(i64::from(obs)) == obs
    ObsIso(u64, u64),       // the same through Isomorphism::from(i64)
    ObsStreet(u64, u64),    // Street::from(code) == street by board size
    Act(Action),
    PathE(Vec<Edge>),
    PathI(Vec<Edge>),       // through the i64 form
    Abs(usize, usize),
    AbsI(usize, usize),
    Edge8(Edge),
    Edge64(Edge),
}
struct Outcome {
    op: String,
    answer: String,
    fail: Option<(String, String, String, String)>,
}
fn exec(step: &Step) -> Outcome {
    let bad = |class: &str, input: String, exp: String, got: String| Some((class.to_string(), input, exp, got));
    // encoding side of a step: a panic on a valid value ends the step with the `enc` line answered `panic`
    macro_rules! enc {
        ($op:expr, $what:expr, $e:expr) => {
            match catch(std::panic::AssertUnwindSafe(|| $e)) {
                Some(v) => v,
                None => return Outcome { op: $op, answer: "panic".into(), fail: bad("conversion-panics", $what, "a code / the value back".into(), "panic".into()) },
            }
        };
    }
    match step.clone() {
        Step::Obs(p, b) | Step::ObsIso(p, b) => {
            let o = enc!(format!("enc-obs {p} {b}"), format!("Observation::from((Hand::from({p}), Hand::from({b})))"), Observation::from((Hand::from(p), Hand::from(b))));
            let code = enc!(format!("enc-obs {p} {b}"), format!("i64::from(Observation pocket={p} public={b})"), i64::from(o));
            let iso = matches!(step, Step::ObsIso(..));
            let back = if iso {
                catch(move || Observation::from(robopoker::cards::isomorphism::Isomorphism::from(code)))
            } else {
                catch(move || Observation::from(code))
            };
            let answer = opt(back.map(|x| show_obs(&x)));
            let fail = if back == Some(o) { None } else { bad("observation-roundtrip-in-sequence", format!("obs pocket={p} public={b} code={code}{}", if iso { " (via Isomorphism::from(i64))" } else { "" }), format!("{p} {b}"), answer.clone()) };
            Outcome { op: format!("dec-obs {code}"), answer, fail }
        }
        Step::ObsStreet(p, b) => {
            let o = enc!(format!("enc-obs {p} {b}"), format!("Observation::from((Hand::from({p}), Hand::from({b})))"), Observation::from((Hand::from(p), Hand::from(b))));
            let code = enc!(format!("enc-obs {p} {b}"), format!("i64::from(Observation pocket={p} public={b})"), i64::from(o));
            let st = catch(move || street_no(Street::from(code)));
            let want = street_by_board(b.count_ones());
            let answer = opt(st.map(|x| x.to_string()));
            let fail = if st.is_some() && st == want { None } else { bad("street-from-observation-code", format!("obs pocket={p} public={b}"), format!("{want:?}"), answer.clone()) };
            Outcome { op: format!("street-obs {code}"), answer, fail }
        }
        Step::Act(a) => {
            let code = enc!(format!("enc-action {}", show_action(&a)), format!("u32::from({})", show_action(&a)), u32::from(a));
            let back = catch(move || Action::from(code));
            let answer = opt(back.map(|x| show_action(&x)));
            let fail = if back == Some(a) { None } else { bad("action-roundtrip-in-sequence", show_action(&a), show_action(&a), answer.clone()) };
            Outcome { op: format!("dec-action {code}"), answer, fail }
        }
        Step::PathE(l) => {
            let code = enc!(format!("enc-path {}", show_edges(&l)), format!("u64::from(Path::from([{}]))", show_edges(&l)), u64::from(Path::from(l.clone())));
            let back = catch(move || Vec::<Edge>::from(Path::from(code)));
            let answer = opt(back.clone().map(|x| show_edges(&x)));
            let fail = if back.as_ref() == Some(&l) { None } else { bad("path-roundtrip-in-sequence", show_edges(&l), show_edges(&l), answer.clone()) };
            Outcome { op: format!("dec-path {code}"), answer, fail }
        }
        Step::PathI(l) => {
            let code = enc!(format!("enc-path {}", show_edges(&l)), format!("u64::from(Path::from([{}]))", show_edges(&l)), u64::from(Path::from(l.clone())));
            let i = enc!(format!("path-i64 {code}"), format!("i64::from(Path [{}] = {code})", show_edges(&l)), i64::from(Path::from(code)));
            let back = catch(move || u64::from(Path::from(i)));
            let answer = opt(back.map(|x| x.to_string()));
            let fail = if back == Some(code) { None } else { bad("path-i64-roundtrip-in-sequence", show_edges(&l), code.to_string(), answer.clone()) };
            Outcome { op: format!("path-of-i64 {i}"), answer, fail }
        }
        Step::Abs(s, i) | Step::AbsI(s, i) => {
            let ab = enc!(format!("abs {s} {i}"), format!("Abstraction::from((street {s}, {i}))"), Abstraction::from((street_of(s), i)));
            let via_i = matches!(step, Step::AbsI(..));
            let n = enc!(format!("abs {s} {i}"), format!("u64::from(Abstraction (street {s}, {i}))"), u64::from(ab));
            let iv = enc!(format!("abs-i64 {n}"), format!("i64::from(Abstraction (street {s}, {i}))"), i64::from(ab));
            let back = if via_i { catch(move || Abstraction::from(iv)) } else { catch(move || Abstraction::from(n)) };
            let st = back.and_then(|b| catch(move || street_no(b.street())));
            let answer = if via_i {
                opt(back.map(|b| format!("{} {}", show_abs(&b), opt(st.map(|x| x.to_string())))))
            } else {
                opt(back.map(|b| format!("{} {} {}", show_abs(&b), opt(st.map(|x| x.to_string())), b.index())))
            };
            let fail = if back == Some(ab) && st == Some(s) { None } else { bad("abstraction-roundtrip-in-sequence", format!("abs {s} {i}"), show_abs(&ab), answer.clone()) };
            Outcome { op: if via_i { format!("abs-of-i64 {iv}") } else { format!("dec-abs {n}") }, answer, fail }
        }
        Step::Edge8(e) => {
            let c = enc!(format!("enc-edge8 {}", show_edge(&e)), format!("u8::from({})", show_edge(&e)), u8::from(e));
            let back = catch(move || Edge::from(c));
            let answer = opt(back.map(|x| show_edge(&x)));
            let fail = if back == Some(e) { None } else { bad("edge-u8-roundtrip-in-sequence", show_edge(&e), show_edge(&e), answer.clone()) };
            Outcome { op: format!("dec-edge8 {c}"), answer, fail }
        }
        Step::Edge64(e) => {
            let c = enc!(format!("enc-edge64 {}", show_edge(&e)), format!("u64::from({})", show_edge(&e)), u64::from(e));
            let back = catch(move || Edge::from(c));
            let answer = opt(back.map(|x| show_edge(&x)));
            let fail = if back == Some(e) { None } else { bad("edge-u64-roundtrip-in-sequence", show_edge(&e), show_edge(&e), answer.clone()) };
            Outcome { op: format!("dec-edge64 {c}"), answer, fail }
        }
    }
}

/// observation families around one (pocket, 4-card board): the turn, its river children in every
/// order that matters, its flop parents, rivers that differ in the lowest board card only
fn obs_family(rng: &mut Rng, full: u64, out: &mut Vec<Step>) {
    let p = rng.cards(2, full);
    // keep room below the board now and then, so that many river cards are lower than all turn cards
    let cut = 8 + rng.below(30);
    let b4 = if rng.chance(1, 2) { rng.cards(4, full & !p & !((1u64 << cut) - 1)) } else { rng.cards(4, full & !p) };
    if b4.count_ones() != 4 { return; }
    let free: Vec<u64> = (0..52).filter(|c| (p | b4) >> c & 1 == 0 && full >> c & 1 == 1).map(|c| 1u64 << c).collect();
    let extra = |rng: &mut Rng, out: &mut Vec<Step>, pp: u64, bb: u64| {
        match rng.below(6) { 0 => out.push(Step::ObsStreet(pp, bb)), 1 => out.push(Step::ObsIso(pp, bb)), _ => {} }
    };
    // parent, then every child (lowest new card first)
    out.push(Step::Obs(p, b4));
    for c in &free { out.push(Step::Obs(p, b4 | c)); extra(rng, out, p, b4 | c); }
    // children before the parent, alternating; every code twice
    for c in free.iter().rev() { out.push(Step::Obs(p, b4 | c)); out.push(Step::Obs(p, b4)); out.push(Step::Obs(p, b4 | c)); out.push(Step::Obs(p, b4 | c)); }
    // river after river sharing the four highest board cards (only the lowest differs)
    let lowest_board = b4.trailing_zeros();
    let lows: Vec<u64> = free.iter().copied().filter(|c| c.trailing_zeros() < lowest_board).collect();
    for c in &lows { out.push(Step::Obs(p, b4 | c)); }
    for c in lows.iter().rev() { out.push(Step::ObsIso(p, b4 | c)); out.push(Step::ObsStreet(p, b4 | c)); }
    // flop parents and their turn children; other pockets on the same board
    for drop in 0..52u64 {
        if b4 >> drop & 1 == 1 {
            let f = b4 & !(1 << drop);
            out.push(Step::Obs(p, f));
            out.push(Step::Obs(p, b4));
            out.push(Step::Obs(p, f));
        }
    }
    for _ in 0..3 {
        let q = rng.cards(2, full & !b4);
        out.push(Step::Obs(q, b4));
        out.push(Step::Obs(q, 0));
        if let Some(c) = free.iter().find(|c| q & **c == 0) { out.push(Step::Obs(q, b4 | c)); }
    }
}

fn other_families(rng: &mut Rng, full: u64, edges: &[Edge], counts: &[usize; 4], out: &mut Vec<Step>) {
    // actions: same amount under every kind, neighbours, draws sharing their two highest cards
    let x = rng.range(i16::MIN as i64, i16::MAX as i64) as i16;
    for d in [0i16, 1, -1, 256, -256] {
        let y = x.wrapping_add(d);
        for a in [Action::Call(y), Action::Raise(y), Action::Shove(y), Action::Blind(y), Action::Call(y)] { out.push(Step::Act(a)); }
    }
    let hi = rng.cards(2, full & !0xFFFF);
    let hand = |raw: u64| catch(move || Hand::from(raw));
    for c in 0..16u64 { if full >> c & 1 == 1 { if let (Some(h1), Some(h2)) = (hand(hi | 1 << c), hand(hi)) { out.push(Step::Act(Action::Draw(h1))); out.push(Step::Act(Action::Draw(h2))); } } }
    out.push(Step::Act(Action::Fold)); out.push(Step::Act(Action::Check)); if let Some(h) = hand(0) { out.push(Step::Act(Action::Draw(h))); }
    // paths: a path, its extensions, its prefixes, one edge changed at either end; twice; through i64
    let n = rng.below(16) as usize;
    let base: Vec<Edge> = (0..n).map(|_| edges[rng.below(15) as usize]).collect();
    let mut fam: Vec<Vec<Edge>> = vec![base.clone()];
    for e in edges { let mut l = base.clone(); l.push(*e); fam.push(l); }
    for k in 0..=n { fam.push(base[..k].to_vec()); }
    if n > 0 { for e in edges { let mut l = base.clone(); l[0] = *e; fam.push(l); let mut l = base.clone(); l[n - 1] = *e; fam.push(l); } }
    for l in &fam { out.push(Step::PathE(l.clone())); out.push(Step::PathE(base.clone())); if rng.chance(1, 3) { out.push(Step::PathI(l.clone())); } }
    for l in fam.iter().rev() { out.push(Step::PathE(l.clone())); out.push(Step::PathE(l.clone())); }
    // abstractions: the same index on every street, neighbouring indices, both integer forms
    let i = rng.below(101) as usize;
    for s in 0..4usize { for j in [i, i + 1, i, (i + 64) % counts[s], i] { let j = j % counts[s]; out.push(Step::Abs(s, j)); out.push(Step::AbsI(s, j)); } }
    // edges in a random order, repeated
    for _ in 0..20 { let e = edges[rng.below(15) as usize]; out.push(Step::Edge8(e)); out.push(Step::Edge64(e)); out.push(Step::Edge8(e)); }
}

fn sequences(seed: u64, nfam: usize, full: u64, edges: &[Edge], counts: &[usize; 4], shuffle_blocks: bool) -> Vec<Step> {
    let mut rng = Rng::new(seed);
    let mut blocks: Vec<Vec<Step>> = vec![];
    for _ in 0..nfam {
        let mut b = vec![];
        obs_family(&mut rng, full, &mut b);
        blocks.push(b);
        let mut b = vec![];
        other_families(&mut rng, full, edges, counts, &mut b);
        blocks.push(b);
    }
    if shuffle_blocks {
        // interleave: cut the blocks into short runs and deal them round-robin
        let mut out = vec![];
        let mut cursors = vec![0usize; blocks.len()];
        let mut live: Vec<usize> = (0..blocks.len()).collect();
        while !live.is_empty() {
            let k = rng.below(live.len() as u64) as usize;
            let b = live[k];
            let run = 1 + rng.below(4) as usize;
            for _ in 0..run {
                if cursors[b] < blocks[b].len() { out.push(blocks[b][cursors[b]].clone()); cursors[b] += 1; }
            }
            if cursors[b] >= blocks[b].len() { live.swap_remove(k); }
        }
        out
    } else {
        blocks.into_iter().flatten().collect()
    }
}

fn absorb(run: &mut Run, outs: Vec<Outcome>, tag: &str) {
    for o in outs {
        run.evaluations += 1;
        run.spec_checked += 1;
        run.line(&o.op, &o.answer);
        if let Some((class, input, exp, got)) = o.fail { run.fail(&class, &format!("{input} [{tag}]"), &exp, &got); }
        run.count(&format!("sequence:{tag}"));
    }
}

fn main() {
    let a = args();
    let mut rng = Rng::new(a.seed);
    let mut run = Run::new(&a.out);
    quiet_panics();
    let deep = a.thorough();
    let full: u64 = (1u64 << 52) - 1;

    // ------------------------------------------------------------ cards
    let mut d8 = Distinct::new("card-u8");
    let mut d32 = Distinct::new("card-u32");
    for c in 0u8..52 {
        run.evaluations += 1;
        let card = match cv(&mut run, &|| format!("Card::from({c}u8)"), || Card::from(c)) { Some(x) => x, None => { run.line(&format!("enc-card8 {c}"), "panic"); continue; } };
        let n8 = match cv(&mut run, &|| format!("u8::from(card {c})"), || u8::from(card)) { Some(x) => x, None => { run.line(&format!("enc-card8 {c}"), "panic"); continue; } };
        d8.push(n8 as i128);
        run.line(&format!("enc-card8 {c}"), &format!("{n8}"));
        let back8 = cv(&mut run, &|| format!("Card::from({n8}u8) (code of card {c})"), || u8::from(Card::from(n8)));
        run.line(&format!("dec-card8 {n8}"), &opt(back8.map(|x| x.to_string())));
        let n32 = match cv(&mut run, &|| format!("u32::from(card {c})"), || u32::from(card)) { Some(x) => x, None => { run.line(&format!("enc-card32 {c}"), "panic"); continue; } };
        d32.push(n32 as i128);
        run.line(&format!("enc-card32 {c}"), &format!("{n32}"));
        let back = catch(move || u8::from(Card::from(n32)));
        run.line(&format!("dec-card32 {n32}"), &opt(back.map(|x| x.to_string())));
        run.spec_checked += 2;
        if back8 != Some(c) { run.fail("card-u8-roundtrip", &format!("card {c}"), &format!("{c}"), &format!("{back8:?}")); }
        if back != Some(c) { run.fail("card-u32-roundtrip", &format!("card {c}"), &format!("{c}"), &format!("{back:?}")); }
        // rank/suit split
        let rs = cv(&mut run, &|| format!("Card::from((rank, suit)) of card {c}"), || u8::from(Card::from((card.rank(), card.suit()))));
        if rs.is_some() && rs != Some(c) { run.fail("card-rank-suit-roundtrip", &format!("card {c}"), &format!("{c}"), &format!("{rs:?}")); }
        run.distinct(&("card", c));
        run.count("card");
    }
    d8.check(&mut run);
    d32.check(&mut run);
    // codes outside the image: model fidelity of the panics
    for i in 0..400u32 {
        let n: u32 = match i { 0 => 0, 1 => 1, 2 => 1 << 13, 3 => 1 << 17, 4 => 0x1FFF, 5 => u32::MAX, _ => (rng.next() as u32) >> (rng.below(20) as u32) };
        let back = catch(move || u8::from(Card::from(n)));
        run.line(&format!("dec-card32 {n}"), &opt(back.map(|x| x.to_string())));
        run.count(if back.is_some() { "card32-garbage-decodes" } else { "card32-garbage-panics" });
    }

    // ------------------------------------------------------------ hands
    let nh = if deep { 200_000 } else { 20_000 };
    for i in 0..nh {
        run.evaluations += 1;
        let raw = match i { 0 => 0, 1 => u64::MAX, 2 => full, _ => if i % 3 == 0 { let k = rng.below(8) as usize; rng.cards(k, full) } else { rng.next() } };
        let (h, n) = match cv(&mut run, &|| format!("u64::from(Hand::from({raw}u64))"), || { let h = Hand::from(raw); (h, u64::from(h)) }) {
            Some(x) => x,
            None => { run.line(&format!("dec-hand {raw}"), "panic"); continue; }
        };
        run.line(&format!("dec-hand {raw}"), &format!("{n}"));
        let again = cv(&mut run, &|| format!("Hand::from(u64::from(hand {n}))"), || u64::from(Hand::from(n)));
        run.line(&format!("enc-hand {n}"), &opt(again.map(|x| x.to_string())));
        let lists = cv(&mut run, &|| format!("Vec::<Card>::from(hand {n}) / hand.into_iter()"), || {
            let cards: Vec<u8> = Vec::<Card>::from(h).into_iter().map(u8::from).collect();
            let iter: Vec<u8> = h.into_iter().map(u8::from).collect();
            let round = u64::from(Hand::from(Vec::<Card>::from(h)));
            (cards, iter, round)
        });
        run.line(&format!("cards-hand {n}"), &match &lists { None => "panic".into(), Some((cards, _, _)) => if cards.is_empty() { "-".into() } else { cards.iter().map(|c| c.to_string()).collect::<Vec<_>>().join(",") } });
        run.spec_checked += 3;
        if again.is_some() && again != Some(n) { run.fail("hand-u64-roundtrip", &format!("hand {n}"), &format!("{n}"), &format!("{again:?}")); }
        let want: Vec<u8> = (0..64).filter(|b| n >> b & 1 == 1).collect();
        if let Some((cards, iter, round)) = lists {
            if cards != want || iter != want { run.fail("hand-cards", &format!("hand {n}"), &format!("{want:?}"), &format!("{cards:?} / {iter:?}")); }
            if round != n { run.fail("hand-vec-roundtrip", &format!("hand {n}"), &format!("{n}"), &format!("{round}")); }
        }
        run.distinct(&("hand", n));
        run.count("hand");
    }

    // ------------------------------------------------------------ observations
    {
        let mut dist = Distinct::new("observation-i64");
        // all 1326 pre-flop observations
        for i in 0..52u64 {
            for j in (i + 1)..52 {
                obs_case(&mut run, 1 << i | 1 << j, 0, true, &mut dist);
                run.count("obs-preflop(all 1326)");
            }
        }
        if deep {
            // all 25,989,600 flop observations through the oracle; every 16th also as a model line
            let mut k = 0u64;
            for i in 0..52u64 {
                for j in (i + 1)..52 {
                    let pocket = 1u64 << i | 1 << j;
                    for x in 0..52u64 {
                        if pocket >> x & 1 == 1 { continue; }
                        for y in (x + 1)..52 {
                            if pocket >> y & 1 == 1 { continue; }
                            for z in (y + 1)..52 {
                                if pocket >> z & 1 == 1 { continue; }
                                k += 1;
                                obs_case(&mut run, pocket, 1 << x | 1 << y | 1 << z, k % 16 == 0, &mut dist);
                            }
                        }
                    }
                }
            }
            run.count_n("obs-flop(all 25,989,600)", k);
            run.notes.push(format!("flop observations enumerated completely: {k}"));
        }
        let ns = if deep { 300_000 } else { 40_000 };
        let mut seen = std::collections::HashSet::new();
        for (name, nb) in [("obs-flop(sampled)", 3usize), ("obs-turn(sampled)", 4), ("obs-river(sampled)", 5)] {
            if deep && nb == 3 { continue; }
            for _ in 0..ns {
                let pocket = rng.cards(2, full);
                let public = rng.cards(nb, full & !pocket);
                if seen.insert((pocket, public)) {
                    obs_case(&mut run, pocket, public, true, &mut dist);
                    run.count(name);
                }
            }
        }
        // boundary cards: lowest / highest cards in every position
        for (pocket, public) in [(0b11u64, 0b11100u64), (3 << 50, 7 << 47), (1 | 1 << 51, 0b1110), (1 | 1 << 51, 0b11111 << 1), (3 << 50, 0b11111), (0b11, 0b11111 << 47), (0b11, 0)] {
            // (in the thorough tier every flop observation has already been enumerated above)
            if seen.insert((pocket, public)) && !(public == 0) && !(deep && public.count_ones() == 3) {
                obs_case(&mut run, pocket, public, true, &mut dist);
                run.count("obs-boundary");
            }
        }
        dist.check(&mut run);
        // codes outside the image (model fidelity of the panics)
        for i in 0..600u64 {
            let code: i64 = match i {
                0 => 0, 1 => -1, 2 => i64::MIN, 3 => i64::MAX, 4 => 0x0100, 5 => 0x0101, 6 => 0x010203, 7 => 0x35, 8 => 0x3536,
                9 => 0x0102030405060708, 10 => 0x4142, 11 => 0x0102000304,
                _ => {
                    let nb = 1 + rng.below(8);
                    let mut v = 0i64;
                    for _ in 0..nb { v = (v << 8) | (if rng.chance(1, 12) { rng.below(256) } else { 1 + rng.below(53) }) as i64; }
                    v
                }
            };
            let back = catch(move || Observation::from(code));
            let st = catch(move || Street::from(code));
            run.line(&format!("dec-obs {code}"), &opt(back.map(|b| show_obs(&b))));
            run.line(&format!("street-obs {code}"), &opt(st.map(|s| street_no(s).to_string())));
            run.count(if back.is_some() { "obs-garbage-decodes" } else { "obs-garbage-panics" });
        }
    }

    // ------------------------------------------------------------ actions
    {
        let mut dist = Distinct::new("action-u32");
        let mut acts: Vec<(Action, &'static str)> = vec![(Action::Fold, "action-fold"), (Action::Check, "action-check")];
        for x in i16::MIN..=i16::MAX {
            let tag = if x >= 0 { "action-chips(0..=32767)" } else { "action-chips(negative)" };
            acts.push((Action::Call(x), tag));
            acts.push((Action::Raise(x), tag));
            acts.push((Action::Shove(x), tag));
            acts.push((Action::Blind(x), tag));
        }
        let mut draw = |run: &mut Run, acts: &mut Vec<(Action, &'static str)>, raw: u64, tag: &'static str| {
            if let Some(h) = cv(run, &|| format!("Hand::from({raw}u64)"), || Hand::from(raw)) { acts.push((Action::Draw(h), tag)); }
        };
        draw(&mut run, &mut acts, 0, "action-draw-0");
        for x in 0..52u64 {
            draw(&mut run, &mut acts, 1u64 << x, "action-draw-1(all 52)");
            for y in (x + 1)..52 {
                draw(&mut run, &mut acts, 1u64 << x | 1 << y, "action-draw-2(all 1326)");
                for z in (y + 1)..52 {
                    draw(&mut run, &mut acts, 1u64 << x | 1 << y | 1 << z, "action-draw-3(all 22100)");
                }
            }
        }
        for (act, tag) in acts {
            run.evaluations += 1;
            let code = match cv(&mut run, &|| format!("u32::from({})", show_action(&act)), || u32::from(act)) {
                Some(c) => c,
                None => { run.line(&format!("enc-action {}", show_action(&act)), "panic"); continue; }
            };
            dist.push(code as i128);
            let back = catch(move || Action::from(code));
            run.line(&format!("enc-action {}", show_action(&act)), &format!("{code}"));
            run.line(&format!("dec-action {code}"), &opt(back.map(|b| show_action(&b))));
            run.spec_checked += 1;
            if back != Some(act) { run.fail("action-roundtrip", &show_action(&act), &show_action(&act), &opt(back.map(|b| show_action(&b)))); }
            run.distinct(&("action", code));
            run.count(tag);
        }
        dist.check(&mut run);
        for i in 0..3000u32 {
            let code: u32 = match i { 0 => 7, 1 => 255, 2 => 6 | 1 << 8 | 1 << 16, 3 => 6 | 200 << 8, 4 => 6 | 53 << 8, 5 => 6 | 65 << 8, 6 => u32::MAX, _ => if i % 2 == 0 { (rng.next() as u32 & !0xFF) | rng.below(8) as u32 } else { 6 | ((1 + rng.below(70)) as u32) << 8 | (rng.below(70) as u32) << 16 | (rng.below(70) as u32) << 24 } };
            let back = catch(move || Action::from(code));
            run.line(&format!("dec-action {code}"), &opt(back.map(|b| show_action(&b))));
            run.count(if back.is_some() { "action-garbage-decodes" } else { "action-garbage-panics" });
        }
    }

    // ------------------------------------------------------------ edges
    let mut edges: Vec<Edge> = vec![Edge::Draw, Edge::Fold, Edge::Check, Edge::Call, Edge::Shove];
    edges.extend(Odds::GRID.iter().map(|o| Edge::Raise(*o)));
    {
        let mut dist8 = Distinct::new("edge-u8");
        let mut dist64 = Distinct::new("edge-u64");
        for e in &edges {
            let e = *e;
            run.evaluations += 1;
            let c8 = match cv(&mut run, &|| format!("u8::from({})", show_edge(&e)), || u8::from(e)) { Some(c) => c, None => { run.line(&format!("enc-edge8 {}", show_edge(&e)), "panic"); continue; } };
            let c64 = match cv(&mut run, &|| format!("u64::from({})", show_edge(&e)), || u64::from(e)) { Some(c) => c, None => { run.line(&format!("enc-edge64 {}", show_edge(&e)), "panic"); continue; } };
            dist8.push(c8 as i128);
            dist64.push(c64 as i128);
            let b8 = catch(move || Edge::from(c8));
            let b64 = catch(move || Edge::from(c64));
            run.line(&format!("enc-edge8 {}", show_edge(&e)), &format!("{c8}"));
            run.line(&format!("dec-edge8 {c8}"), &opt(b8.map(|x| show_edge(&x))));
            run.line(&format!("enc-edge64 {}", show_edge(&e)), &format!("{c64}"));
            run.line(&format!("dec-edge64 {c64}"), &opt(b64.map(|x| show_edge(&x))));
            run.spec_checked += 3;
            if b8 != Some(e) { run.fail("edge-u8-roundtrip", &show_edge(&e), &show_edge(&e), &format!("{b8:?}")); }
            if b64 != Some(e) { run.fail("edge-u64-roundtrip", &show_edge(&e), &show_edge(&e), &format!("{b64:?}")); }
            if c8 == 0 || c8 > 15 { run.fail("edge-u8-not-a-nibble", &show_edge(&e), "1..=15", &format!("{c8}")); }
            run.distinct(&("edge", c64));
            run.count("edge(all 15)");
        }
        dist8.check(&mut run);
        dist64.check(&mut run);
        for v in 0u16..=255 {
            let v = v as u8;
            let b = catch(move || Edge::from(v));
            run.line(&format!("dec-edge8 {v}"), &opt(b.map(|x| show_edge(&x))));
            run.count("edge-u8-all-256-codes");
        }
        // every raise with 8-bit odds through the u64 form; off-grid odds through the u8 form panic
        let mut d = Distinct::new("edge-u64-all-8bit-odds");
        for n in 0i16..=255 {
            for dn in 0i16..=255 {
                run.evaluations += 1;
                let e = Edge::Raise(Odds(n, dn));
                let c = match cv(&mut run, &|| format!("u64::from({})", show_edge(&e)), || u64::from(e)) { Some(c) => c, None => { run.line(&format!("enc-edge64 {}", show_edge(&e)), "panic"); continue; } };
                d.push(c as i128);
                let b = catch(move || Edge::from(c));
                run.spec_checked += 1;
                if b != Some(e) { run.fail("edge-u64-roundtrip", &show_edge(&e), &show_edge(&e), &format!("{b:?}")); }
                if (n * 7 + dn) % 5 == 0 || n < 6 || dn < 6 {
                    run.line(&format!("enc-edge64 {}", show_edge(&e)), &format!("{c}"));
                    run.line(&format!("dec-edge64 {c}"), &opt(b.map(|x| show_edge(&x))));
                }
                run.count("edge-u64-raise-8bit-odds(all 65536)");
            }
        }
        d.check(&mut run);
        for (n, dn) in [(5i16, 7i16), (0, 0), (-1, 2), (1, -4), (256, 1), (300, 511), (i16::MIN, i16::MAX)] {
            let e = Edge::Raise(Odds(n, dn));
            let c8 = catch(move || u8::from(e));
            run.line(&format!("enc-edge8 {}", show_edge(&e)), &opt(c8.map(|x| x.to_string())));
            // odds outside the grid / outside 8 bits are not values the property covers: panics are only compared with the model
            match catch(move || u64::from(e)) {
                Some(c) => {
                    let b = catch(move || Edge::from(c));
                    run.line(&format!("enc-edge64 {}", show_edge(&e)), &format!("{c}"));
                    run.line(&format!("dec-edge64 {c}"), &opt(b.map(|x| show_edge(&x))));
                }
                None => run.line(&format!("enc-edge64 {}", show_edge(&e)), "panic"),
            }
            run.count("edge-off-grid");
        }
        for i in 0..2000u64 {
            let v = if i < 64 { i } else { rng.next() >> rng.below(50) };
            let b = catch(move || Edge::from(v));
            run.line(&format!("dec-edge64 {v}"), &opt(b.map(|x| show_edge(&x))));
            run.count(if b.is_some() { "edge64-garbage-decodes" } else { "edge64-garbage-panics" });
        }
    }

    // ------------------------------------------------------------ paths
    {
        let mut dist = Distinct::new("path-u64");
        let mut lists: Vec<Vec<Edge>> = vec![vec![]];
        for x in &edges {
            lists.push(vec![*x]);
            for y in &edges {
                lists.push(vec![*x, *y]);
            }
        }
        for e in &edges { lists.push(vec![*e; 16]); }
        let np = if deep { 300_000 } else { 50_000 };
        let mut seen = std::collections::HashSet::new();
        // (dedup key: the position of each edge in `edges`, no real conversion involved)
        let key = |l: &Vec<Edge>| l.iter().map(|e| edges.iter().position(|x| x == e).unwrap() as u8).collect::<Vec<u8>>();
        for l in &lists { seen.insert(key(l)); }
        while lists.len() < np {
            let n = if rng.chance(1, 4) { 16 } else { rng.below(17) as usize };
            let l: Vec<Edge> = (0..n).map(|_| edges[rng.below(15) as usize]).collect();
            if seen.insert(key(&l)) { lists.push(l); }
        }
        for l in lists {
            run.evaluations += 1;
            let l2 = l.clone();
            let p = match cv(&mut run, &|| format!("u64::from(Path::from([{}]))", show_edges(&l)), || u64::from(Path::from(l2))) {
                Some(p) => p,
                None => { run.line(&format!("enc-path {}", show_edges(&l)), "panic"); continue; }
            };
            dist.push(p as i128);
            let back = catch(move || Vec::<Edge>::from(Path::from(p)));
            run.line(&format!("enc-path {}", show_edges(&l)), &format!("{p}"));
            run.line(&format!("dec-path {p}"), &opt(back.clone().map(|b| show_edges(&b))));
            run.spec_checked += 2;
            if back.as_ref() != Some(&l) { run.fail("path-roundtrip", &show_edges(&l), &show_edges(&l), &opt(back.map(|b| show_edges(&b)))); }
            run.distinct(&("path", p));
            run.count(&format!("path-len={:02}", l.len()));
            // the stored (BIGINT) form and back
            match cv(&mut run, &|| format!("i64::from(Path [{}] = {p})", show_edges(&l)), || i64::from(Path::from(p))) {
                None => run.line(&format!("path-i64 {p}"), "panic"),
                Some(i) => {
                    run.line(&format!("path-i64 {p}"), &format!("{i}"));
                    let pb = cv(&mut run, &|| format!("Path::from({i}i64) (stored form of path [{}])", show_edges(&l)), || u64::from(Path::from(i)));
                    run.line(&format!("path-of-i64 {i}"), &opt(pb.map(|x| x.to_string())));
                    if pb.is_some() && pb != Some(p) { run.fail("path-i64-roundtrip", &format!("{p}"), &format!("{p}"), &format!("{pb:?}")); }
                }
            }
        }
        dist.check(&mut run);
        // 17 edges: the length assertion
        let long = vec![Edge::Fold; 17];
        let r = catch(move || u64::from(Path::from(long)));
        run.line(&format!("enc-path {}", show_edges(&vec![Edge::Fold; 17])), &opt(r.map(|x| x.to_string())));
        run.count("path-too-long");
        for i in 0..3000u64 {
            let p = if i == 0 { 0 } else if i == 1 { u64::MAX } else { rng.next() >> rng.below(60) };
            let back = catch(move || Vec::<Edge>::from(Path::from(p)));
            run.line(&format!("dec-path {p}"), &opt(back.map(|b| show_edges(&b))));
            run.count("path-garbage-decodes");
        }
    }

    // ------------------------------------------------------------ abstractions (all 542 buckets), pairs
    let mut all_abs: Vec<Vec<Abstraction>> = vec![];
    {
        let mut dist = Distinct::new("abstraction-u64");
        let counts = [169usize, robopoker::verif::KMEANS_FLOP_CLUSTER_COUNT, robopoker::verif::KMEANS_TURN_CLUSTER_COUNT, robopoker::verif::KMEANS_EQTY_CLUSTER_COUNT];
        for s in 0..4usize {
            let street = street_of(s);
            let listed = cv(&mut run, &|| format!("Abstraction::all(street {s})"), || Abstraction::all(street)).unwrap_or_default();
            run.spec_checked += 1;
            if listed.len() != counts[s] { run.fail("abstraction-count", &format!("street {s}"), &format!("{}", counts[s]), &format!("{}", listed.len())); }
            let mut v = vec![];
            for i in 0..counts[s] {
                run.evaluations += 1;
                let enc = cv(&mut run, &|| format!("Abstraction::from((street {s}, {i})) and its u64 / i64 forms"), || { let ab = Abstraction::from((street, i)); (ab, u64::from(ab), i64::from(ab)) });
                let (ab, n, i64v) = match enc { Some(x) => x, None => { run.line(&format!("abs {s} {i}"), "panic"); continue; } };
                v.push(ab);
                dist.push(n as i128);
                run.line(&format!("abs {s} {i}"), &show_abs(&ab));
                let back = catch(move || Abstraction::from(n));
                let st = back.and_then(|b| catch(move || street_no(b.street())));
                run.line(&format!("dec-abs {n}"), &opt(back.map(|b| format!("{} {} {}", show_abs(&b), opt(st.map(|x| x.to_string())), b.index()))));
                run.line(&format!("abs-i64 {n}"), &format!("{i64v}"));
                let back2 = catch(move || Abstraction::from(i64v));
                let st2 = back2.and_then(|b| catch(move || street_no(b.street())));
                run.line(&format!("abs-of-i64 {i64v}"), &opt(back2.map(|b| format!("{} {}", show_abs(&b), opt(st2.map(|x| x.to_string()))))));
                run.spec_checked += 4;
                if back != Some(ab) { run.fail("abstraction-u64-roundtrip", &format!("abs {s} {i}"), &show_abs(&ab), &format!("{back:?}")); }
                if back2 != Some(ab) { run.fail("abstraction-i64-roundtrip", &format!("abs {s} {i}"), &show_abs(&ab), &format!("{back2:?}")); }
                let direct = cv(&mut run, &|| format!("street() / index() of Abstraction (street {s}, {i})"), || (street_no(ab.street()), ab.index()));
                if st2 != Some(s) || direct.map(|d| d.0) != Some(s) { run.fail("street-from-bucket-code", &format!("abs {s} {i}"), &format!("{s}"), &format!("{st2:?}")); }
                if direct.is_some() && direct.map(|d| d.1) != Some(i) { run.fail("abstraction-index", &format!("abs {s} {i}"), &format!("{i}"), &format!("{direct:?}")); }
                if listed.get(i) != Some(&ab) { run.fail("abstraction-all-list", &format!("abs {s} {i}"), &show_abs(&ab), "other"); }
                run.distinct(&("abs", n));
                run.count(&format!("abstraction-street={s}"));
            }
            all_abs.push(v);
        }
        dist.check(&mut run);
        // large / random indices (the index is truncated to 12 bits by the constructor)
        for k in 0..2000u64 {
            let s = (k % 4) as usize;
            let i = match k { 0..=3 => 4095, 4..=7 => 4096, 8..=11 => usize::MAX, _ => (rng.next() >> rng.below(60)) as usize };
            let ab = cv(&mut run, &|| format!("Abstraction::from((street {s}, {i}))"), || Abstraction::from((street_of(s), i)));
            run.line(&format!("abs {s} {i}"), &opt(ab.map(|x| show_abs(&x))));
            run.count("abstraction-random-index");
        }
        for k in 0..2000u64 {
            let n = match k { 0 => 0, 1 => u64::MAX, 2 => 4 << 56, 3 => (3 << 56) | 0xFFF, _ => (rng.next() & ((1 << 56) - 1)) | (rng.below(6) << 56) };
            let back = catch(move || Abstraction::from(n));
            let st = back.and_then(|b| catch(move || street_no(b.street())));
            run.line(&format!("dec-abs {n}"), &opt(back.map(|b| format!("{} {} {}", show_abs(&b), opt(st.map(|x| x.to_string())), b.index()))));
            run.count(if back.is_some() { "abstraction-garbage-decodes" } else { "abstraction-garbage-panics" });
        }
    }
    {
        // pair keys: all unordered pairs within flop, turn, river; distinct over the union
        let mut dist = Distinct::new("pair-key(flop+turn+river)");
        let mut total = 0u64;
        for s in 1..4usize {
            let v = &all_abs[s];
            for i in 0..v.len() {
                for j in (i + 1)..v.len() {
                    run.evaluations += 1;
                    let (va, vb) = (v[i], v[j]);
                    let (na, nb) = match catch(move || (u64::from(va), u64::from(vb))) { Some(x) => x, None => continue }; // (already reported above)
                    let enc = cv(&mut run, &|| format!("i64::from(Pair::from(({na}, {nb}))) in both orders and Pair::from(i64)"), || {
                        let key = i64::from(Pair::from((&va, &vb)));
                        (key, i64::from(Pair::from((&vb, &va))), i64::from(Pair::from(key)))
                    });
                    let (key, key2, keyback) = match enc { Some(x) => x, None => { run.line(&format!("pair {na} {nb}"), "panic"); continue; } };
                    dist.push(key as i128);
                    total += 1;
                    run.line(&format!("pair {na} {nb}"), &format!("{} {} {}", key as u64, key, keyback as u64));
                    run.spec_checked += 1;
                    if key != key2 { run.fail("pair-key-not-symmetric", &format!("pair {na} {nb}"), &format!("{key}"), &format!("{key2}")); }
                    run.distinct(&("pair", key));
                    run.count(&format!("pair-street={s}"));
                }
            }
        }
        run.notes.push(format!("pair keys over flop, turn, river: {total}"));
        dist.check(&mut run);
        // the preflop layer keeps its 169 classes as centroids and Layer::metric stores their pairwise
        // distances under the same keys: every pair goes through the model too (within-street clause)
        {
            let v = &all_abs[0];
            let mut n0 = 0u64;
            for i in 0..v.len() {
                for j in (i + 1)..v.len() {
                    run.evaluations += 1;
                    let (va, vb) = (v[i], v[j]);
                    let (na, nb) = match catch(move || (u64::from(va), u64::from(vb))) { Some(x) => x, None => continue };
                    let enc = cv(&mut run, &|| format!("i64::from(Pair::from(({na}, {nb}))) in both orders and Pair::from(i64)"), || {
                        let key = i64::from(Pair::from((&va, &vb)));
                        (key, i64::from(Pair::from((&vb, &va))), i64::from(Pair::from(key)))
                    });
                    let (key, key2, keyback) = match enc { Some(x) => x, None => { run.line(&format!("pair {na} {nb}"), "panic"); continue; } };
                    n0 += 1;
                    run.line(&format!("pair {na} {nb}"), &format!("{} {} {}", key as u64, key, keyback as u64));
                    run.spec_checked += 1;
                    if key != key2 { run.fail("pair-key-not-symmetric", &format!("pair {na} {nb}"), &format!("{key}"), &format!("{key2}")); }
                    run.distinct(&("pair0", key));
                    run.count("pair-street=0");
                }
            }
            run.notes.push(format!("pair keys inside the preflop layer: {n0}"));
        }
        // all four streets together (Metric::sources uploads the four files into one table keyed by xor):
        // the list of keys shared by more than one pair, from the real Pair::from, against the model's list.
        // Outside the property's text ("across the three learned streets"): reported as a note, never a failure.
        {
            let mut by_key: std::collections::BTreeMap<u64, Vec<(usize, usize, usize)>> = Default::default();
            for s in 0..4usize {
                let v = &all_abs[s];
                for i in 0..v.len() { for j in (i + 1)..v.len() {
                    let (x, y) = (v[i], v[j]);
                    if let Some(k) = catch(move || i64::from(Pair::from((&x, &y)))) { by_key.entry(k as u64).or_default().push((s, i, j)); }
                } }
            }
            let mut parts = vec![];
            for (k, v) in by_key.iter() {
                if v.len() > 1 {
                    let mut v = v.clone(); v.sort();
                    parts.push(format!("{k}={}", v.iter().map(|(s, i, j)| format!("{s}.{i}.{j}")).collect::<Vec<_>>().join(",")));
                }
            }
            let out = if parts.is_empty() { "none".to_string() } else { parts.join(";") };
            run.line("paircross", &out);
            run.notes.push(format!("pair keys shared by two pairs over all FOUR streets (outside the property; preflop vs turn/river): {out}"));
        }
        for s in 0..4usize {
            let mut d = Distinct::new(["pair-key(preflop)", "pair-key(flop)", "pair-key(turn)", "pair-key(river)"][s]);
            let v = &all_abs[s];
            for i in 0..v.len() { for j in (i + 1)..v.len() { let (x, y) = (v[i], v[j]); if let Some(k) = catch(move || i64::from(Pair::from((&x, &y)))) { d.push(k as i128); } } }
            d.check(&mut run);
        }
    }

    // ------------------------------------------------------------ decode sequences (one thread, then several)
    {
        let counts = [169usize, robopoker::verif::KMEANS_FLOP_CLUSTER_COUNT, robopoker::verif::KMEANS_TURN_CLUSTER_COUNT, robopoker::verif::KMEANS_EQTY_CLUSTER_COUNT];
        let nfam = if deep { 1500 } else { 120 };
        let ordered = sequences(a.seed ^ 0xA5A5, nfam, full, &edges, &counts, false);
        let outs: Vec<Outcome> = ordered.iter().map(exec).collect();
        absorb(&mut run, outs, "one-thread,family-order");
        let mixed = sequences(a.seed ^ 0x5A5A, nfam, full, &edges, &counts, true);
        let outs: Vec<Outcome> = mixed.iter().map(exec).collect();
        absorb(&mut run, outs, "one-thread,interleaved");
        let nthreads = 6u64;
        let handles: Vec<std::thread::JoinHandle<Vec<Outcome>>> = (0..nthreads).map(|t| {
            let edges = edges.clone();
            let seed = a.seed;
            std::thread::spawn(move || {
                // threads 0 and 1 run the SAME sequence, the others their own
                let sq = sequences(seed ^ (0x7000 + if t < 2 { 0 } else { t }), nfam / 3 + 1, full, &edges, &counts, t % 2 == 1);
                sq.iter().map(exec).collect()
            })
        }).collect();
        for (t, h) in handles.into_iter().enumerate() {
            match h.join() {
                Ok(outs) => absorb(&mut run, outs, &format!("thread-{t}-of-{nthreads}")),
                Err(_) => run.fail("sequence-thread-died", &format!("thread {t}"), "joins", "panicked outside catch"),
            }
        }
    }

    // ------------------------------------------------------------ buckets (Path, Abstraction, Path)
    {
        let nb = if deep { 100_000 } else { 20_000 };
        let mut dist = Distinct::new("bucket-codes");
        let mut seen = std::collections::HashSet::new();
        for _ in 0..nb {
            let s = rng.below(4) as usize;
            let ab = all_abs[s][rng.below(all_abs[s].len() as u64) as usize];
            let mut mk = |rng: &mut Rng, run: &mut Run| -> Option<u64> {
                let n = rng.below(17) as usize;
                let l = (0..n).map(|_| edges[rng.below(15) as usize]).collect::<Vec<Edge>>();
                let shown = show_edges(&l);
                cv(run, &|| format!("u64::from(Path::from([{shown}]))"), || u64::from(Path::from(l)))
            };
            let (p, f) = match (mk(&mut rng, &mut run), mk(&mut rng, &mut run)) { (Some(p), Some(f)) => (p, f), _ => continue };
            let nab = match catch(move || u64::from(ab)) { Some(x) => x, None => continue };
            if !seen.insert((p, nab, f)) { continue; }
            run.evaluations += 1;
            let enc = cv(&mut run, &|| format!("Bucket::from((Path::from({p}), abstraction {nab}, Path::from({f}))) and its three i64 columns"), || {
                let b = Bucket::from((Path::from(p), ab, Path::from(f)));
                (b, (i64::from(b.0), i64::from(b.1), i64::from(b.2)))
            });
            let (b, codes) = match enc { Some(x) => x, None => { run.line(&format!("enc-bucket {p} {nab} {f}"), "panic"); continue; } };
            dist.push(((codes.0 as i128) << 64) ^ ((codes.1 as i128).wrapping_mul(0x9E3779B97F4A7C15)) ^ (codes.2 as i128).rotate_left(32));
            run.line(&format!("enc-bucket {p} {} {f}", nab), &format!("{} {} {}", codes.0, codes.1, codes.2));
            let back = catch(move || Bucket::from((Path::from(codes.0), Abstraction::from(codes.1), Path::from(codes.2))));
            let st = back.and_then(|x| catch(move || street_no(x.1.street())));
            run.line(&format!("dec-bucket {} {} {}", codes.0, codes.1, codes.2),
                &opt(back.map(|x| format!("{} {} {} {}", word(move || u64::from(x.0)), show_abs(&x.1), word(move || u64::from(x.2)), opt(st.map(|v| v.to_string()))))));
            run.spec_checked += 2;
            if back != Some(b) { run.fail("bucket-roundtrip", &format!("bucket {p} {nab} {f}"), "the same bucket", &format!("{back:?}")); }
            if st != Some(s) { run.fail("street-from-bucket-code", &format!("bucket {p} {nab} {f}"), &format!("{s}"), &format!("{st:?}")); }
            run.distinct(&("bucket", p, nab, f));
            run.count("bucket(sampled paths x all 542 abstractions)");
        }
        let _ = dist; // triples are distinct iff components are; component distinctness is checked above
    }

    run.exhaustive = deep;
    run.rule = format!(
        "exhaustive: 52 cards (u8, u32); 1,326 pre-flop observations{}; fold, check, 4 x 65,536 chip actions (all i16), all draws of 0..3 cards (1+52+1,326+22,100); 15 edges and all 256 u8 codes, all 65,536 raises with 8-bit odds through u64; all paths of <= 2 edges; all 542 abstractions; all 23,474 within-street pairs of flop, turn, river and all 14,196 pairs inside the preflop layer. sampled: {} flop/turn/river observations each, {} paths of <= 16 edges, {} hands, {} buckets, plus decode of codes outside the image (panic fidelity); decode SEQUENCES on one thread and on 6 threads ({} families each of: a turn then every river child, children before parents, rivers differing in the lowest board card only, flop parents, other pockets on the same board, every code twice, interleaved with Street::from(i64) / Isomorphism::from(i64) and with action, path, abstraction and edge decodes in neighbouring-value order). distinct = distinct (type, value) cases that went through the model line-diff",
        if deep { "; all 25,989,600 flop observations (oracle; every 16th as a model line)" } else { "" },
        if deep { 300_000 } else { 40_000 }, if deep { 300_000 } else { 50_000 }, nh, if deep { 100_000 } else { 20_000 }, if deep { 1500 } else { 120 });
    run.finish();
}
