// C11 — every abstract action on a menu maps to a permitted concrete action; monotone snapping;
// menus and histories of at most sixteen edges survive the 64-bit packing.
//
// Correspondence (lines answered by lean/RP/Driver/C11.lean with the model definitions):
//   menu <h0> <h1> | <history> | 0 1 2 3 4 5   real Game::choices(n), u8::from(edge), Game::actionize(&edge),
//                                              u64::from(Path::from(menu)), to_raise, to_shove, pot, turn
//   pack <u8 codes>                            Path::from(Vec<Edge>) / Vec<Edge>::from(Path) (17 edges: panic)
//   path64 <u8 codes>                          u64::from(Path), i64::from(Path), Path::from(i64) (the signed database form)
//   edge <u8 code>                             u64::from(Edge), Edge::from(u64)
//   f32 <num> <den> 0 <2*STACK>                (pot as f32 * f32::from(odds)) as i16, exactly as game.rs computes it
//
// Search oracle (independent of the Lean model and of the engine's formulas; written from the
// property text and the rules of No-Limit Hold'em): `Rules` follows the *action history*
// (stacks, street bets, last raise size of the round, who has acted). At every decision and every
// raise count 0..=5: menu non-empty, no duplicates, at most 13 entries, every kind on it permitted
// by the rules, every entry's concrete action accepted by the engine (`is_allowed`, and `apply`
// does not panic) AND by the rules (fold iff facing a bet, check iff not, call = outstanding <
// stack, all-in = stack, outstanding + max(last raise, BB) <= raise <= stack - 1), raise entries
// monotone in their odds (all-in counts as the stack), snapping: exact pot fraction >= stack =>
// all-in, <= minimum raise => minimum raise, otherwise the pot fraction truncated to whole chips
// (clamped); the menu packs and unpacks unchanged. Edges: u8 / u64 round trips over all 15 symbols,
// distinct codes; random sequences of length 0..=16 round-trip and distinct sequences get distinct
// words; length 17..=20 must be rejected. Odds tables: lowest terms, strictly sorted, every
// per-street odds has a u8 code (no `expect("invalid odds value")`). Float: the product of
// `actionize` equals floor(pot*num/den) for every pot 0..=2*STACK x every grid odds.
//
// Batches (the translation must be a function of the state and the edge alone): the decisions
// collected above are grouped by equal pot (and by pot + street), and for each group ALL menus are
// computed first and ALL entries translated afterwards — in collection order, in reverse order,
// interleaved across two hands with equal pots, over the whole pool at once, and from several
// threads (each thread: its groups, menus first). Every (state, edge) answer is judged on its own
// against the action the rules determine (`expected_action`), the engine's is_allowed and the
// rules' permitted set, and is sent to the model as an ordinary `menu` line.
//
// States: random walks of the real engine (5 styles, every raise size) + every state reachable
// under the abstraction (breadth-first from the root, following actionize of every menu entry with
// the raise count of the current round; forced deals) ; thorough adds the breadth-first search over
// all reachable betting states with every raise size.
#[path = "../gamewalk.rs"]
mod gamewalk;
use gamewalk::*;
use robopoker::gameplay::action::Action;
use robopoker::gameplay::game::Game;
use robopoker::gameplay::ply::Turn;
use robopoker::mccfr::edge::Edge;
use robopoker::mccfr::odds::Odds;
use robopoker::mccfr::path::Path;
use rpharness::*;
use std::collections::{HashMap, HashSet, VecDeque};

const STACK: i32 = robopoker::verif::STACK as i32;
const BB: i32 = robopoker::verif::B_BLIND as i32;
const SB: i32 = robopoker::verif::S_BLIND as i32;
const MAX_RAISE_REPEATS: usize = robopoker::verif::MAX_RAISE_REPEATS;

/// ---------------------------------------------------------------- rules of the game, from the history
#[derive(Clone, Debug)]
struct Rules {
    stack: [i32; 2],
    bet: [i32; 2],   // chips put in on this street
    total: [i32; 2], // chips put in this hand
    folded: [bool; 2],
    acted: [bool; 2],
    street: u8,
    cur_bet: i32,
    last_raise: i32, // size of the last full raise of this round (0: none)
}
impl Rules {
    /// heads-up: seat 1 posts the small blind, seat 0 the big blind
    fn new() -> Rules {
        let mut r = Rules { stack: [STACK; 2], bet: [0; 2], total: [0; 2], folded: [false; 2], acted: [false; 2], street: 0, cur_bet: 0, last_raise: 0 };
        r.put(1, SB);
        r.put(0, BB);
        r.cur_bet = BB;
        r
    }
    fn put(&mut self, p: usize, x: i32) {
        self.stack[p] -= x;
        self.bet[p] += x;
        self.total[p] += x;
    }
    fn pot(&self) -> i32 {
        self.total[0] + self.total[1]
    }
    fn allin(&self, p: usize) -> bool {
        self.stack[p] == 0
    }
    fn can_act(&self, p: usize) -> bool {
        !self.folded[p] && !self.allin(p)
    }
    /// a player has to make a decision: nobody folded, and somebody who can act has not acted or
    /// has not matched the bet (a lone player who has covered every all-in has nothing to answer)
    fn is_decision(&self) -> bool {
        if self.folded[0] || self.folded[1] {
            return false;
        }
        let actors: Vec<usize> = (0..2).filter(|&p| self.can_act(p)).collect();
        if actors.iter().all(|&p| self.acted[p] && self.bet[p] == self.cur_bet) {
            return false;
        }
        !(actors.len() == 1 && self.bet[actors[0]] >= self.cur_bet)
    }
    fn outstanding(&self, p: usize) -> i32 {
        self.cur_bet - self.bet[p]
    }
    fn min_raise(&self, p: usize) -> i32 {
        self.outstanding(p) + self.last_raise.max(BB)
    }
    /// kind: 0 raise 1 shove 2 call 3 fold 4 check
    fn kind_permitted(&self, p: usize, kind: u8) -> bool {
        let o = self.outstanding(p);
        let s = self.stack[p];
        match kind {
            0 => self.min_raise(p) <= s - 1,
            1 => s > 0,
            2 => o > 0 && o < s,
            3 => o > 0,
            4 => o == 0,
            _ => false,
        }
    }
    fn permitted(&self, p: usize, a: &Action) -> bool {
        let o = self.outstanding(p);
        let s = self.stack[p];
        match a {
            Action::Fold => o > 0,
            Action::Check => o == 0,
            Action::Call(x) => *x as i32 == o && o > 0 && o < s,
            Action::Shove(x) => *x as i32 == s && s > 0,
            Action::Raise(x) => (*x as i32) >= self.min_raise(p) && (*x as i32) <= s - 1,
            _ => false,
        }
    }
    fn apply(&self, p: usize, a: &Action) -> Rules {
        let mut r = self.clone();
        match a {
            Action::Draw(_) => {
                r.street += 1;
                r.bet = [0; 2];
                r.acted = [false; 2];
                r.cur_bet = 0;
                r.last_raise = 0;
                return r;
            }
            Action::Fold => r.folded[p] = true,
            Action::Check => {}
            Action::Call(x) => r.put(p, *x as i32),
            Action::Raise(x) | Action::Shove(x) => {
                r.put(p, *x as i32);
                if r.bet[p] > r.cur_bet {
                    let by = r.bet[p] - r.cur_bet;
                    if by >= r.last_raise.max(BB) || matches!(a, Action::Raise(_)) {
                        r.last_raise = by;
                    }
                    r.cur_bet = r.bet[p];
                }
            }
            Action::Blind(_) => unreachable!(),
        }
        r.acted[p] = true;
        r
    }
}

fn edge_kind(e: &Edge) -> u8 {
    match e {
        Edge::Raise(_) => 0,
        Edge::Shove => 1,
        Edge::Call => 2,
        Edge::Fold => 3,
        Edge::Check => 4,
        Edge::Draw => 5,
    }
}
fn action_kind(a: &Action) -> u8 {
    match a {
        Action::Raise(_) => 0,
        Action::Shove(_) => 1,
        Action::Call(_) => 2,
        Action::Fold => 3,
        Action::Check => 4,
        Action::Draw(_) => 5,
        Action::Blind(_) => 6,
    }
}
fn code(e: &Edge) -> String {
    let e = *e;
    match catch(move || u8::from(e)) {
        Some(c) => c.to_string(),
        None => "panic".into(),
    }
}
fn all_edges() -> Vec<Edge> {
    let mut v = vec![Edge::Draw, Edge::Fold, Edge::Check, Edge::Call, Edge::Shove];
    v.extend(Odds::GRID.iter().map(|o| Edge::Raise(*o)));
    v
}
fn pack(es: &[Edge]) -> Option<u64> {
    let v = es.to_vec();
    catch(move || u64::from(Path::from(v)))
}
fn unpack(w: u64) -> Option<Vec<Edge>> {
    catch(move || Vec::<Edge>::from(Path::from(w)))
}
/// the two 64-bit forms of a packed path, each taken there and back: (u64 form, Path from it as
/// u64, i64 form (the database column), Path from it as u64, the edges read back from that Path)
fn forms(w: u64) -> Option<(u64, u64, i64, u64, Vec<Edge>)> {
    catch(move || {
        let p = Path::from(w);
        let u = u64::from(p);
        let pu = u64::from(Path::from(u));
        let i = i64::from(p);
        let back = Path::from(i);
        (u, pu, i, u64::from(back), Vec::<Edge>::from(back))
    })
}
/// every packed menu / history must survive Path -> u64 -> Path and Path -> i64 -> Path unchanged
fn check_forms(run: &mut Run, name: &str, es: &[Edge], w: u64) -> Option<(i64, u64)> {
    run.spec_checked += 1;
    match forms(w) {
        None => {
            run.fail("pack-panics", &format!("{name} [Path({w}) -> u64 / i64 -> Path]"), "the same path", "panic");
            None
        }
        Some((u, pu, i, pi, back)) => {
            if u != w || pu != w {
                run.fail("pack-u64-form-roundtrip", name, &w.to_string(), &format!("u64 form {u}, back {pu}"));
            }
            if pi != w || back != es {
                run.fail("pack-i64-form-roundtrip", name, &format!("Path({w}) = {es:?}"), &format!("i64 form {i}, back Path({pi}) = {back:?}"));
            }
            Some((i, pi))
        }
    }
}
fn div_floor(a: i64, b: i64) -> i64 {
    a.div_euclid(b)
}

/// a decision kept for the batch phase
#[derive(Clone)]
struct Item {
    h0: u64,
    h1: u64,
    hist: Vec<Action>,
    g: Game,
    rules: Rules,
    p: usize,
}
struct Ctx {
    run: Run,
    seen: HashSet<(i16, [(u8, i16, i16, i16); 2], usize, u8)>,
    lines_menu: u64,
    pool: Vec<Item>,
    pool_cap: usize,
}

/// the model-facing line of one state: all raise counts 0..=5
fn menu_line(g: &Game) -> String {
    let mut sections = vec![];
    for n in 0..=5usize {
        let gg = *g;
        let menu = match catch(move || gg.choices(n)) {
            Some(m) => m,
            None => {
                sections.push("panic".to_string());
                continue;
            }
        };
        let path = pack(&menu).map(|w| w.to_string()).unwrap_or("panic".into());
        let mut toks = vec![path];
        for e in &menu {
            let (gg, ee) = (*g, *e);
            let a = catch(move || gg.actionize(&ee));
            toks.push(format!("{}:{}", code(e), a.map(|a| legal_tok(&a)).unwrap_or("panic".into())));
        }
        sections.push(toks.join(" "));
    }
    format!("{} {} {} {} | {}", turn_tok(g.turn()), g.pot(), g.to_raise(), g.to_shove(), sections.join(" ; "))
}

/// the search oracle at one state of the real engine, `rules` = the same history seen by the rules
fn check_state(cx: &mut Ctx, name: &str, g: &Game, rules: &Rules) {
    cx.run.spec_checked += 1;
    let decision = matches!(g.turn(), Turn::Choice(_));
    if decision != rules.is_decision() {
        cx.run.fail("decision-node", name, &format!("decision={}", rules.is_decision()), &turn_tok(g.turn()));
        return;
    }
    let p = match g.turn() {
        Turn::Choice(p) => p,
        Turn::Chance => {
            // not a decision: the menu is the single chance edge
            for n in [0usize, 5] {
                let gg = *g;
                let m = catch(move || gg.choices(n)).unwrap_or_default();
                cx.run.evaluations += 1;
                if m != vec![Edge::Draw] {
                    cx.run.fail("chance-menu", name, "[Draw]", &format!("{m:?}"));
                }
            }
            cx.run.count("state:chance");
            return;
        }
        Turn::Terminal => {
            let gg = *g;
            let m = catch(move || gg.choices(0));
            cx.run.evaluations += 1;
            if m != Some(vec![]) {
                cx.run.fail("terminal-menu", name, "[]", &format!("{m:?}"));
            }
            cx.run.count("state:terminal");
            return;
        }
    };
    let stack = rules.stack[p];
    let minr = rules.min_raise(p);
    let pot = rules.pot() as i64;
    if pot != g.pot() as i64 {
        cx.run.fail("pot", name, &pot.to_string(), &g.pot().to_string());
    }
    let street = g.street() as isize as usize;
    for n in 0..=5usize {
        let at = format!("{name} | n={n}");
        let gg = *g;
        let menu = match catch(move || gg.choices(n)) {
            Some(m) => m,
            None => {
                cx.run.fail("choices-panics", &at, "a menu", "panic");
                continue;
            }
        };
        cx.run.evaluations += 1;
        cx.run.spec_checked += 1;
        cx.run.distinct(&(betting_key(g), n));
        cx.run.count(&format!("menu:{}:n{}:size{}", ["pref", "flop", "turn", "rive"][street.min(3)], n, menu.len()));
        if menu.is_empty() {
            cx.run.fail("menu-empty-at-decision", &at, "non-empty", "[]");
        }
        let set: HashSet<Edge> = menu.iter().copied().collect();
        if set.len() != menu.len() {
            cx.run.fail("menu-duplicates", &at, "no duplicates", &format!("{menu:?}"));
        }
        if menu.len() > 13 {
            cx.run.fail("menu-longer-than-13", &at, "<= 13", &menu.len().to_string());
        }
        // which permitted kinds are missing (not required by the property: recorded only)
        for k in 0..5u8 {
            if rules.kind_permitted(p, k) && !menu.iter().any(|e| edge_kind(e) == k) {
                cx.run.count(&format!("permitted-kind-not-offered:{}:{}", ["raise", "shove", "call", "fold", "check"][k as usize], if n > MAX_RAISE_REPEATS { "past-cap" } else { "within-cap" }));
            }
        }
        // packing of the menu
        match pack(&menu) {
            None => cx.run.fail("menu-pack-panics", &at, "a path", "panic"),
            Some(w) => {
                if unpack(w).as_ref() != Some(&menu) {
                    cx.run.fail("menu-pack-roundtrip", &at, &format!("{menu:?}"), &format!("{:?}", unpack(w)));
                }
                check_forms(&mut cx.run, &at, &menu, w);
            }
        }
        let mut raises: Vec<(Odds, i32)> = vec![];
        for e in &menu {
            cx.run.evaluations += 1;
            cx.run.spec_checked += 1;
            let k = edge_kind(e);
            if k > 4 || !rules.kind_permitted(p, k) {
                cx.run.fail("kind-not-permitted", &at, &format!("kinds permitted by the rules (outstanding {} stack {} min raise {})", rules.outstanding(p), stack, minr), &format!("{e:?}"));
            }
            let (gg, ee) = (*g, *e);
            let a = match catch(move || gg.actionize(&ee)) {
                Some(a) => a,
                None => {
                    cx.run.fail("actionize-panics", &format!("{at} | {e:?}"), "an action", "panic");
                    continue;
                }
            };
            let ak = action_kind(&a);
            let kind_ok = if k == 0 { ak == 0 || ak == 1 } else { ak == k };
            if !kind_ok {
                cx.run.fail("entry-kind-mismatch", &format!("{at} | {e:?}"), "same kind (raise edge: raise or all-in)", &act_tok(&a));
            }
            if !g.is_allowed(&a) {
                cx.run.fail("entry-rejected-by-engine", &format!("{at} | {e:?}"), "is_allowed", &act_tok(&a));
            }
            if !rules.permitted(p, &a) {
                cx.run.fail("entry-rejected-by-rules", &format!("{at} | {e:?}"), &format!("permitted (outstanding {} stack {} min raise {})", rules.outstanding(p), stack, minr), &act_tok(&a));
            }
            let gg = *g;
            if catch(move || gg.apply(a)).is_none() {
                cx.run.fail("entry-apply-panics", &format!("{at} | {e:?}"), "a state", &format!("panic on {}", act_tok(&a)));
            }
            if let Edge::Raise(o) = e {
                let chips = match a {
                    Action::Raise(x) => x as i32,
                    Action::Shove(x) => x as i32,
                    _ => -1,
                };
                raises.push((*o, chips));
                // snapping against the exact pot fraction pot*num/den
                let (num, den) = (o.0 as i64, o.1 as i64);
                let clamp = |c: i64| -> Action {
                    if c >= stack as i64 { Action::Shove(stack as i16) } else if c <= minr as i64 { Action::Raise(minr as i16) } else { Action::Raise(c as i16) }
                };
                let lo = div_floor(pot * num, den);
                let (class, ok) = if pot * num >= stack as i64 * den {
                    ("allin", a == Action::Shove(stack as i16))
                } else if pot * num <= minr as i64 * den {
                    ("min", a == Action::Raise(minr as i16))
                } else {
                    // in range: the pot fraction truncated to whole chips ("float-to-chip truncation")
                    ("range", a == clamp(lo))
                };
                cx.run.count(&format!("raise-entry:snap-{class}"));
                if !ok {
                    cx.run.fail(&format!("snap-{class}"), &format!("{at} | {e:?} pot {pot} stack {stack} min raise {minr}"),
                        &match class { "allin" => format!("s{stack}"), "min" => format!("r{minr}"), _ => act_tok(&clamp(lo)) }, &act_tok(&a));
                }
            }
        }
        // monotone in the odds (as rationals), whatever the order on the menu
        raises.sort_by(|a, b| ((a.0 .0 as i64) * (b.0 .1 as i64)).cmp(&((b.0 .0 as i64) * (a.0 .1 as i64))));
        for w in raises.windows(2) {
            cx.run.spec_checked += 1;
            if w[0].1 > w[1].1 {
                cx.run.fail("not-monotone", &at, &format!("chips({:?}) <= chips({:?})", w[0].0, w[1].0), &format!("{} > {}", w[0].1, w[1].1));
            }
        }
    }
    cx.run.count("state:decision");
}

/// replay a history on the rules (the engine says who acts; positions are not part of C11)
fn rules_after(states: &[Game], hist: &[Action]) -> Vec<Rules> {
    let mut out = vec![Rules::new()];
    for (i, a) in hist.iter().enumerate() {
        let p = match states[i].turn() {
            Turn::Choice(p) => p,
            _ => 0,
        };
        let r = out[i].apply(p, a);
        out.push(r);
    }
    out
}

fn visit(cx: &mut Ctx, deal: &Deal, hist: &[Action], g: &Game, rules: &Rules, line_every: u64) {
    let key = betting_key(g);
    if !cx.seen.insert(key) {
        return;
    }
    let name = format!("menu {} {} | {}", deal.h0, deal.h1, hist_tok(hist));
    check_state(cx, &name, g, rules);
    if let Turn::Choice(p) = g.turn() {
        if cx.pool.len() < cx.pool_cap {
            cx.pool.push(Item { h0: deal.h0, h1: deal.h1, hist: hist.to_vec(), g: *g, rules: rules.clone(), p });
        }
    }
    cx.lines_menu += 1;
    if cx.lines_menu % line_every == 0 || hist.len() <= 3 {
        cx.run.line(&format!("{name} | 0 1 2 3 4 5"), &menu_line(g));
    }
}

/// the concrete action the rules determine for an abstract edge at a decision of seat `p`:
/// fold / check as they are, call = the outstanding amount, all-in = the stack, a raise edge = the
/// pot fraction truncated to chips and clamped: >= stack => all-in, <= minimum raise => minimum raise
fn expected_action(rules: &Rules, p: usize, e: &Edge) -> Option<Action> {
    let stack = rules.stack[p] as i64;
    let minr = rules.min_raise(p) as i64;
    let pot = rules.pot() as i64;
    match e {
        Edge::Fold => Some(Action::Fold),
        Edge::Check => Some(Action::Check),
        Edge::Call => Some(Action::Call(rules.outstanding(p) as i16)),
        Edge::Shove => Some(Action::Shove(stack as i16)),
        Edge::Draw => None,
        Edge::Raise(o) => {
            let (num, den) = (o.0 as i64, o.1 as i64);
            let c = div_floor(pot * num, den);
            Some(if pot * num >= stack * den || c >= stack {
                Action::Shove(stack as i16)
            } else if c <= minr {
                Action::Raise(minr as i16)
            } else {
                Action::Raise(c as i16)
            })
        }
    }
}

/// one batch: the menus of all its states first, then the translation of every entry, in `order`
/// (indices into `items`; `interleave`: round-robin over the states' entries instead of state by state)
fn run_batch(items: &[&Item], n: usize, reverse: bool, interleave: bool) -> Vec<(Vec<Edge>, Vec<Option<Action>>)> {
    // phase 1: every menu
    let menus: Vec<Vec<Edge>> = items.iter().map(|it| {
        let g = it.g;
        catch(move || g.choices(n)).unwrap_or_default()
    }).collect();
    // phase 2: every translation
    let mut out: Vec<Vec<Option<Action>>> = menus.iter().map(|m| vec![None; m.len()]).collect();
    let mut order: Vec<(usize, usize)> = vec![];
    if interleave {
        let longest = menus.iter().map(|m| m.len()).max().unwrap_or(0);
        for j in 0..longest {
            for i in 0..items.len() {
                if j < menus[i].len() {
                    order.push((i, j));
                }
            }
        }
    } else {
        for i in 0..items.len() {
            for j in 0..menus[i].len() {
                order.push((i, j));
            }
        }
    }
    if reverse {
        order.reverse();
    }
    for (i, j) in order {
        let (g, e) = (items[i].g, menus[i][j]);
        out[i][j] = catch(move || g.actionize(&e));
    }
    menus.into_iter().zip(out).collect()
}

/// judge the answers of one batch, state by state and edge by edge, and send them to the model
fn judge_batch(cx: &mut Ctx, mode: &str, items: &[&Item], n: usize, res: &[(Vec<Edge>, Vec<Option<Action>>)], emit_lines: bool) {
    for (it, (menu, acts)) in items.iter().zip(res.iter()) {
        let name = format!("menu {} {} | {} | {n}", it.h0, it.h1, hist_tok(&it.hist));
        let mut toks = vec![pack(menu).map(|w| w.to_string()).unwrap_or("panic".into())];
        for (e, a) in menu.iter().zip(acts.iter()) {
            cx.run.evaluations += 1;
            cx.run.spec_checked += 1;
            toks.push(format!("{}:{}", code(e), a.map(|a| legal_tok(&a)).unwrap_or("panic".into())));
            let at = format!("{name} | {e:?} [{mode}: menus of {} states with equal pot {} computed first, translations afterwards]", items.len(), it.g.pot());
            let want = expected_action(&it.rules, it.p, e);
            match a {
                None => cx.run.fail("batch-actionize-panics", &at, &want.map(|w| act_tok(&w)).unwrap_or_default(), "panic"),
                Some(a) => {
                    if want.is_some() && Some(*a) != want {
                        cx.run.fail("translation-depends-on-other-states", &at, &act_tok(&want.unwrap()), &act_tok(a));
                    }
                    if !it.rules.permitted(it.p, a) {
                        cx.run.fail("batch-entry-rejected-by-rules", &at, &format!("permitted (outstanding {} stack {} min raise {})", it.rules.outstanding(it.p), it.rules.stack[it.p], it.rules.min_raise(it.p)), &act_tok(a));
                    }
                    if !it.g.is_allowed(a) {
                        cx.run.fail("batch-entry-rejected-by-engine", &at, "is_allowed", &act_tok(a));
                    }
                }
            }
        }
        cx.run.count(&format!("batch:{mode}:states"));
        if emit_lines {
            let g = &it.g;
            cx.run.line(&name, &format!("{} {} {} {} | {}", turn_tok(g.turn()), g.pot(), g.to_raise(), g.to_shove(), toks.join(" ")));
        }
    }
}

/// batch / interleaved use of choices() and actionize(): see the file header
fn batch_phase(cx: &mut Ctx, rng: &mut Rng, thorough: bool) {
    let pool = std::mem::take(&mut cx.pool);
    // groups of equal pot, and of equal (pot, street); inside a group different bounds are what matters
    let mut by_pot: HashMap<i16, Vec<usize>> = HashMap::new();
    let mut by_pot_street: HashMap<(i16, u8), Vec<usize>> = HashMap::new();
    for (i, it) in pool.iter().enumerate() {
        by_pot.entry(it.g.pot()).or_default().push(i);
        by_pot_street.entry((it.g.pot(), it.g.street() as isize as u8)).or_default().push(i);
    }
    let mut groups: Vec<Vec<usize>> = by_pot.into_values().chain(by_pot_street.into_values()).filter(|g| g.len() >= 2).collect();
    groups.sort();
    let cap = if thorough { 400 } else { 60 };
    let mut colliding = 0u64;
    let mut line_budget: i64 = if thorough { 120_000 } else { 30_000 };
    for grp in &groups {
        // keep the group small but varied in bounds: a random sample
        let mut idx = grp.clone();
        while idx.len() > cap {
            let k = rng.below(idx.len() as u64) as usize;
            idx.swap_remove(k);
        }
        let items: Vec<&Item> = idx.iter().map(|&i| &pool[i]).collect();
        let bounds: HashSet<(i16, i16)> = items.iter().map(|it| (it.g.to_raise(), it.g.to_shove())).collect();
        if bounds.len() >= 2 {
            colliding += 1;
        }
        for n in [0usize, 1] {
            for (mode, reverse, interleave) in [("forward", false, false), ("reverse", true, false), ("interleaved", false, true), ("interleaved-reverse", true, true)] {
                let res = run_batch(&items, n, reverse, interleave);
                let emit = line_budget > 0 && n == 0;
                if emit {
                    line_budget -= items.len() as i64;
                }
                judge_batch(cx, mode, &items, n, &res, emit);
            }
        }
        // two hands in play at once: pairs of states with equal pot, entries translated alternately
        for _ in 0..items.len().min(if thorough { 40 } else { 8 }) {
            let a = items[rng.below(items.len() as u64) as usize];
            let b = items[rng.below(items.len() as u64) as usize];
            let pair = [a, b];
            let res = run_batch(&pair, 0, false, true);
            judge_batch(cx, "two-hands", &pair, 0, &res, false);
        }
    }
    // the whole pool at once (menus of every state, then every translation), forward and reverse
    let all: Vec<&Item> = pool.iter().take(if thorough { 60_000 } else { 12_000 }).collect();
    for (mode, reverse) in [("pool-forward", false), ("pool-reverse", true)] {
        let res = run_batch(&all, 0, reverse, false);
        judge_batch(cx, mode, &all, 0, &res, false);
    }
    // several threads, each with its own groups: menus first, translations afterwards
    let n_threads = 4;
    let results: Vec<Vec<(Vec<usize>, Vec<(Vec<Edge>, Vec<Option<Action>>)>)>> = std::thread::scope(|sc| {
        let handles: Vec<_> = (0..n_threads).map(|t| {
            let (groups, pool) = (&groups, &pool);
            sc.spawn(move || {
                let mut out = vec![];
                for (k, grp) in groups.iter().enumerate() {
                    if k % n_threads != t {
                        continue;
                    }
                    let idx: Vec<usize> = grp.iter().copied().take(cap).collect();
                    let items: Vec<&Item> = idx.iter().map(|&i| &pool[i]).collect();
                    let res = run_batch(&items, 0, k % 2 == 1, k % 3 == 0);
                    out.push((idx, res));
                }
                out
            })
        }).collect();
        handles.into_iter().map(|h| h.join().unwrap_or_default()).collect()
    });
    for per_thread in &results {
        for (idx, res) in per_thread {
            let items: Vec<&Item> = idx.iter().map(|&i| &pool[i]).collect();
            judge_batch(cx, "threads", &items, 0, res, false);
        }
    }
    cx.run.count_n("batch:groups(equal pot | equal pot+street)", groups.len() as u64);
    cx.run.count_n("batch:groups-with-different-bounds", colliding);
    cx.run.count_n("batch:pool-decisions", pool.len() as u64);
    cx.run.notes.push(format!(
        "batch phase: {} decisions pooled, {} groups of equal pot / equal pot+street ({} of them contain states with different (min raise, all-in)); per group: all menus first, then all translations forward / reverse / interleaved / interleaved-reverse for n = 0, 1; random pairs as two hands in play; the whole pool at once; {} threads over disjoint groups",
        pool.len(), groups.len(), colliding, n_threads));
}

/// every state reachable under the abstraction: from the root, follow actionize of every entry of
/// choices(n) with n = aggressive edges of the current betting round; chance nodes deal the forced cards
fn abstraction_bfs(cx: &mut Ctx, deal: &Deal, line_every: u64, pinned_counter: bool) {
    struct Node {
        g: Game,
        rules: Rules,
        n: usize,
        parent: u32,
        action: Option<Action>,
    }
    let root = root_with(deal.h0, deal.h1);
    let mut nodes = vec![Node { g: root, rules: Rules::new(), n: 0, parent: u32::MAX, action: None }];
    let mut seen: HashSet<((i16, [(u8, i16, i16, i16); 2], usize, u8), usize)> = HashSet::new();
    let mut games: HashSet<(i16, [(u8, i16, i16, i16); 2], usize, u8)> = HashSet::new();
    seen.insert((betting_key(&root), 0));
    games.insert(betting_key(&root));
    let mut queue: VecDeque<u32> = VecDeque::from([0]);
    let (mut decisions, mut chances, mut terminals, mut transitions) = (0u64, 0u64, 0u64, 0u64);
    while let Some(id) = queue.pop_front() {
        let (g, rules, n) = (nodes[id as usize].g, nodes[id as usize].rules.clone(), nodes[id as usize].n);
        let mut path = vec![];
        let mut k = id;
        while let Some(a) = nodes[k as usize].action {
            path.push(a);
            k = nodes[k as usize].parent;
        }
        path.reverse();
        visit(cx, deal, &path, &g, &rules, line_every);
        let mut kids: Vec<(Action, usize)> = vec![];
        match g.turn() {
            Turn::Terminal => terminals += 1,
            Turn::Chance => {
                chances += 1;
                // the counter restarts with the betting round (pinned tree: it kept the pre-flop count for ever)
                kids.push((Action::Draw(hand(deal.streets[g.street() as isize as usize])), if pinned_counter { n } else { 0 }));
            }
            Turn::Choice(_) => {
                decisions += 1;
                let gg = g;
                for e in catch(move || gg.choices(n)).unwrap_or_default() {
                    let aggro = matches!(e, Edge::Raise(_) | Edge::Shove) && !(pinned_counter && g.street() as isize != 0);
                    let (gg, ee) = (g, e);
                    if let Some(a) = catch(move || gg.actionize(&ee)) {
                        kids.push((a, n + aggro as usize));
                    }
                }
            }
        }
        let p = match g.turn() {
            Turn::Choice(p) => p,
            _ => 0,
        };
        for (a, n2) in kids {
            let gg = g;
            let child = match catch(move || gg.apply(a)) {
                Some(c) => c,
                None => {
                    cx.run.fail("abstraction-step-panics", &format!("menu {} {} | {} then {}", deal.h0, deal.h1, hist_tok(&path), act_tok(&a)), "a state", "panic");
                    continue;
                }
            };
            transitions += 1;
            // past the cap every raise count gives the same menus
            let n2 = n2.min(MAX_RAISE_REPEATS + 1);
            let key = (betting_key(&child), n2);
            if seen.insert(key) {
                games.insert(key.0);
                nodes.push(Node { g: child, rules: rules.apply(p, &a), n: n2, parent: id, action: Some(a) });
                queue.push_back(nodes.len() as u32 - 1);
            }
        }
    }
    if pinned_counter {
        cx.run.notes.push(format!(
            "for comparison only: with the raise counter of the tree pinned before the C10 repair (pre-flop aggressive edges counted on every street) the same search gives {} (betting state, raise count) nodes = {} distinct betting states",
            nodes.len(), games.len()));
        return;
    }
    cx.run.count_n("abstraction:nodes(state,raise-count)", nodes.len() as u64);
    cx.run.count_n("abstraction:distinct-betting-states", games.len() as u64);
    cx.run.count_n("abstraction:decisions", decisions);
    cx.run.count_n("abstraction:chance-nodes", chances);
    cx.run.count_n("abstraction:terminal-nodes", terminals);
    cx.run.count_n("abstraction:transitions", transitions);
    cx.run.notes.push(format!(
        "states reachable under the abstraction (root, then actionize of every entry of choices(n), n = aggressive edges of the current round, forced deals): {} (betting state, raise count) nodes = {} distinct betting states ({} decisions, {} chance, {} terminal nodes visited), {} transitions; every one checked by the oracle for n = 0..=5",
        nodes.len(), games.len(), decisions, chances, terminals, transitions));
}

/// thorough: breadth-first search over every reachable betting state (every raise size)
fn full_bfs(cx: &mut Ctx, deal: &Deal) {
    let root = root_with(deal.h0, deal.h1);
    let mut parents: Vec<(u32, Option<Action>)> = vec![(u32::MAX, None)];
    let mut seen: HashSet<(i16, [(u8, i16, i16, i16); 2], usize, u8)> = HashSet::new();
    seen.insert(betting_key(&root));
    let mut queue: VecDeque<(u32, Game, Rules)> = VecDeque::from([(0, root, Rules::new())]);
    let mut decisions = 0u64;
    while let Some((id, g, rules)) = queue.pop_front() {
        let path_of = |parents: &Vec<(u32, Option<Action>)>| {
            let mut path = vec![];
            let mut k = id;
            while let Some(a) = parents[k as usize].1 {
                path.push(a);
                k = parents[k as usize].0;
            }
            path.reverse();
            path
        };
        let before = cx.run.failure_count;
        if matches!(g.turn(), Turn::Choice(_)) {
            decisions += 1;
        }
        if cx.seen.insert(betting_key(&g)) {
            check_state(cx, &format!("bfs#{id}"), &g, &rules);
            if cx.run.failure_count > before {
                let name = format!("menu {} {} | {}", deal.h0, deal.h1, hist_tok(&path_of(&parents)));
                cx.run.notes.push(format!("bfs#{id} = {name}"));
            }
            if id % 4096 == 0 {
                let name = format!("menu {} {} | {}", deal.h0, deal.h1, hist_tok(&path_of(&parents)));
                cx.run.line(&format!("{name} | 0 1 2 3 4 5"), &menu_line(&g));
            }
        }
        let (p, kids): (usize, Vec<Action>) = match g.turn() {
            Turn::Terminal => (0, vec![]),
            Turn::Chance => (0, vec![Action::Draw(hand(deal.streets[g.street() as isize as usize]))]),
            Turn::Choice(p) => (p, menu(&g)),
        };
        for a in kids {
            let gg = g;
            let child = match catch(move || gg.apply(a)) {
                Some(c) => c,
                None => {
                    cx.run.fail("legal-action-panics", &format!("bfs#{id} then {}", act_tok(&a)), "a state", "panic");
                    continue;
                }
            };
            if seen.insert(betting_key(&child)) {
                parents.push((id, Some(a)));
                queue.push_back((parents.len() as u32 - 1, child, rules.apply(p, &a)));
            }
        }
    }
    cx.run.count_n("bfs:states", parents.len() as u64);
    cx.run.count_n("bfs:decisions", decisions);
    cx.run.notes.push(format!("breadth-first search over all {} reachable betting states of the configured game ({} decisions; every raise size; one forced deal): menu oracle at every decision for n = 0..=5", parents.len(), decisions));
}

fn main() {
    let a = args();
    let mut rng = Rng::new(a.seed);
    quiet_panics();
    let mut cx = Ctx { run: Run::new(&a.out), seen: HashSet::new(), lines_menu: 0, pool: vec![], pool_cap: if a.thorough() { 150_000 } else { 40_000 } };
    let deals = make_deals(&mut rng, 12);
    let n_hist: usize = if a.thorough() { 100_000 } else { 20_000 };
    cx.run.rule = format!(
        "every state reachable under the abstraction (breadth-first, counted in the notes) + {n_hist} random histories of the real Game (5 styles x legal() ∪ every raise size, {} forced deals){}; each distinct betting state once, x raise counts 0..=5 x every menu entry, against the history-based NLHE rules (see file header); then batches (groups of decisions with equal pot: all menus first, all translations afterwards, forward / reverse / interleaved / two hands / whole pool / 4 threads), each (state, edge) judged on its own; all {} pots x {} grid odds for the f32 product; all 15 single edges; random edge sequences of length 0..=16 and structured 14/15/16-edge histories ending in each of the 15 codes (round trip through Vec<Edge>, the u64 form and the signed i64 form; injectivity) and 17..=20 (rejected). a case = one (betting state, raise count); non-trivial always",
        deals.len(), if a.thorough() { " + breadth-first search over all reachable betting states" } else { "" }, 2 * STACK + 1, Odds::GRID.len()
    );

    // ---- odds tables
    let rat_lt = |a: &Odds, b: &Odds| (a.0 as i64) * (b.1 as i64) < (b.0 as i64) * (a.1 as i64);
    fn gcd(a: i64, b: i64) -> i64 { if b == 0 { a } else { gcd(b, a % b) } }
    let tables: Vec<(&str, Vec<Odds>)> = vec![
        ("GRID", Odds::GRID.to_vec()), ("PREF_RAISES", Odds::PREF_RAISES.to_vec()), ("FLOP_RAISES", Odds::FLOP_RAISES.to_vec()),
        ("LATE_RAISES", Odds::LATE_RAISES.to_vec()), ("LAST_RAISES", Odds::LAST_RAISES.to_vec()),
    ];
    for (name, t) in &tables {
        for o in t {
            cx.run.spec_checked += 1;
            if o.0 <= 0 || o.1 <= 0 || gcd(o.0 as i64, o.1 as i64) != 1 {
                cx.run.fail("odds-not-lowest-terms", &format!("{name} {o:?}"), "positive, gcd 1", &format!("{o:?}"));
            }
            let oo = *o;
            match catch(move || u8::from(Edge::Raise(oo))) {
                Some(c) if (6..=15).contains(&c) && Edge::from(c) == Edge::Raise(*o) => {}
                got => cx.run.fail("street-odds-without-u8-code", &format!("{name} {o:?}"), "a code 6..=15 that decodes back", &format!("{got:?}")),
            }
        }
        for w in t.windows(2) {
            cx.run.spec_checked += 1;
            if !rat_lt(&w[0], &w[1]) {
                cx.run.fail("odds-not-sorted", &format!("{name}"), "strictly increasing", &format!("{:?} {:?}", w[0], w[1]));
            }
        }
        cx.run.count(&format!("odds-table:{name}:{}", t.len()));
    }

    // ---- states: reachable under the abstraction, then random walks
    abstraction_bfs(&mut cx, &deals[0], 1, false);
    abstraction_bfs(&mut cx, &deals[0], 1, true);
    for h in 0..n_hist {
        let deal = &deals[h % deals.len()];
        let style = (h / deals.len()) as u64 % 5;
        // the walk applies the engine's own legal() actions; a panic there is an engine defect
        let walked = {
            let mut r2 = rng.fork();
            std::panic::catch_unwind(std::panic::AssertUnwindSafe(|| random_history(&mut r2, deal, style))).ok()
        };
        let (hist, states) = match walked {
            Some(w) => w,
            None => {
                cx.run.fail("walk-panics", &format!("random history #{h} (style {style}) over legal() of the real engine"), "no panic", "panic");
                continue;
            }
        };
        let rules = rules_after(&states, &hist);
        for i in 0..=hist.len() {
            visit(&mut cx, deal, &hist[..i], &states[i], &rules[i], if a.thorough() { 4 } else { 1 });
        }
    }

    // ---- batches: all menus first, translations afterwards (order must not matter)
    batch_phase(&mut cx, &mut rng, a.thorough());

    // ---- the f32 product of actionize: every pot x every grid odds (exhaustive)
    for o in Odds::GRID.iter() {
        let mut vals = vec![];
        for pot in 0..=(2 * STACK) as i16 {
            let odd = f32::from(*o); // Utility::from(*odds)
            let bet = (pot as f32 * odd) as i16; // (pot * odd) as Chips
            vals.push(bet.to_string());
            cx.run.evaluations += 1;
            cx.run.spec_checked += 1;
            let want = (pot as i64 * o.0 as i64) / o.1 as i64;
            if bet as i64 != want {
                cx.run.fail("f32-product-not-floor", &format!("pot {pot} odds {}:{}", o.0, o.1), &want.to_string(), &bet.to_string());
            }
        }
        cx.run.line(&format!("f32 {} {} 0 {}", o.0, o.1, 2 * STACK), &vals.join(" "));
        cx.run.count("f32-rows");
    }

    // ---- single edges (exhaustive) and edge sequences
    let edges = all_edges();
    let mut codes8 = HashSet::new();
    let mut codes64 = HashSet::new();
    for e in &edges {
        cx.run.evaluations += 1;
        cx.run.spec_checked += 1;
        let c = u8::from(*e);
        let w = u64::from(*e);
        if !(1..=15).contains(&c) || Edge::from(c) != *e || !codes8.insert(c) {
            cx.run.fail("edge-u8", &format!("{e:?}"), "a distinct code 1..=15 that decodes back", &format!("{c}"));
        }
        let back = catch(move || Edge::from(w));
        if back != Some(*e) || !codes64.insert(w) {
            cx.run.fail("edge-u64", &format!("{e:?}"), "a distinct code that decodes back", &format!("{w} -> {back:?}"));
        }
        cx.run.line(&format!("edge {c}"), &format!("{w} {}", back.map(|b| code(&b)).unwrap_or("panic".into())));
        cx.run.distinct(&("edge", c));
    }
    let mut words: HashMap<u64, Vec<u8>> = HashMap::new();
    let mut signed: HashMap<i64, Vec<u8>> = HashMap::new();
    let n_seq = if a.thorough() { 200_000 } else { 20_000 };
    for i in 0..n_seq {
        let len = match i % 10 {
            0 => 16,
            1 => 15,
            2 => rng.below(3) as usize,
            _ => rng.below(17) as usize,
        };
        let style = rng.below(4);
        let es: Vec<Edge> = (0..len).map(|_| match style {
            0 => edges[14 - rng.below(3) as usize], // high codes
            1 => edges[rng.below(5) as usize],      // plain edges
            _ => edges[rng.below(15) as usize],
        }).collect();
        cx.run.evaluations += 1;
        cx.run.spec_checked += 1;
        let cs: Vec<u8> = es.iter().map(|e| u8::from(*e)).collect();
        let name = format!("pack {}", cs.iter().map(|c| c.to_string()).collect::<Vec<_>>().join(" "));
        match pack(&es) {
            None => {
                cx.run.fail("pack-panics", &name, "a path", "panic");
                cx.run.line(&name, "panic");
            }
            Some(w) => {
                let back = unpack(w);
                if back.as_ref() != Some(&es) {
                    cx.run.fail("pack-roundtrip", &name, &format!("{es:?}"), &format!("{back:?}"));
                }
                if let Some((i, _)) = check_forms(&mut cx.run, &name, &es, w) {
                    if let Some(prev) = signed.insert(i, cs.clone()) {
                        if prev != cs {
                            cx.run.fail("pack-i64-collision", &name, "distinct i64 forms for distinct sequences", &format!("{i} also encodes {prev:?}"));
                        }
                    }
                }
                if let Some(prev) = words.get(&w) {
                    if *prev != cs {
                        cx.run.fail("pack-collision", &name, "distinct words for distinct sequences", &format!("{w} also encodes {prev:?}"));
                    }
                } else {
                    words.insert(w, cs.clone());
                }
                if i % 8 == 0 || len >= 15 {
                    cx.run.line(&name, &format!("{w} {}", back.unwrap_or_default().iter().map(code).collect::<Vec<_>>().join(" ")).trim_end().to_string());
                }
            }
        }
        cx.run.count(&format!("sequence-length:{len:02}"));
        cx.run.distinct(&("seq", cs));
    }
    // structured histories: 14, 15 and 16 edges ending in each of the 15 edge codes (a 16th code >= 8
    // sets bit 63: the signed form is negative), over several fillings; both 64-bit forms there and back
    for len in [14usize, 15, 16] {
        for last in &edges {
            for fill in 0..6u64 {
                let mut es: Vec<Edge> = (0..len - 1).map(|k| match fill {
                    0 => Edge::Fold,
                    1 => edges[14],
                    2 => edges[k % 15],
                    3 => edges[14 - k % 15],
                    _ => edges[rng.below(15) as usize],
                }).collect();
                es.push(*last);
                cx.run.evaluations += 1;
                cx.run.spec_checked += 1;
                let cs: Vec<u8> = es.iter().map(|e| u8::from(*e)).collect();
                let name = format!("path64 {}", cs.iter().map(|c| c.to_string()).collect::<Vec<_>>().join(" "));
                match pack(&es) {
                    None => {
                        cx.run.fail("pack-panics", &name, "a path", "panic");
                        cx.run.line(&name, "panic");
                    }
                    Some(w) => {
                        if unpack(w).as_ref() != Some(&es) {
                            cx.run.fail("pack-roundtrip", &name, &format!("{es:?}"), &format!("{:?}", unpack(w)));
                        }
                        let ans = match check_forms(&mut cx.run, &name, &es, w) {
                            Some((i, pi)) => {
                                if let Some(prev) = signed.insert(i, cs.clone()) {
                                    if prev != cs {
                                        cx.run.fail("pack-i64-collision", &name, "distinct i64 forms for distinct sequences", &format!("{i} also encodes {prev:?}"));
                                    }
                                }
                                format!("{w} {i} {pi}")
                            }
                            None => format!("{w} panic"),
                        };
                        cx.run.line(&name, &ans);
                    }
                }
                cx.run.count(&format!("structured-history:len{len}:last-code-{}", if u8::from(*last) >= 8 { "ge8" } else { "lt8" }));
                cx.run.distinct(&("seq", cs));
            }
        }
    }
    for len in 17..=20usize {
        for _ in 0..8 {
            let es: Vec<Edge> = (0..len).map(|_| edges[rng.below(15) as usize]).collect();
            cx.run.evaluations += 1;
            cx.run.spec_checked += 1;
            let name = format!("pack {}", es.iter().map(code).collect::<Vec<_>>().join(" "));
            let got = pack(&es);
            if got.is_some() {
                cx.run.fail("pack-accepts-more-than-16", &name, "panic (assert!(edges.len() <= 16))", &format!("{got:?}"));
            }
            cx.run.line(&name, &got.map(|w| w.to_string()).unwrap_or("panic".into()));
            cx.run.count(&format!("sequence-length:{len:02}"));
        }
    }

    cx.run.exhaustive = false;
    if a.thorough() {
        full_bfs(&mut cx, &deals[0]);
        cx.run.exhaustive = true;
    }
    cx.run.count_n("distinct-betting-states-checked", cx.seen.len() as u64);
    cx.run.finish();
}
