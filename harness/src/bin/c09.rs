// C09 — regret matching: the real `Profile::policy_vector` / `Profile::regret_vector` on
// information sets of really sampled trees (hooks H4/H5/H6), against
//   (a) the Lean model (lines `policy32` = binary32 instantiation, `policyq` = exact-rational
//       instantiation the theorems are about, `clamp`, `walker`), and
//   (b) the search oracle written from the property statement: the result is a probability
//       distribution over exactly the menu, proportional to the positive part of the stored
//       regrets (uniform when none is positive) up to the floor POLICY_MIN, and nothing aborts;
//       recorded regrets lie inside the clamp and are finite.
use robopoker::gameplay::ply::Turn;
use robopoker::mccfr::blueprint::Blueprint;
use robopoker::mccfr::bucket::Bucket;
use robopoker::mccfr::edge::Edge;
use robopoker::mccfr::encoder::Encoder;
use robopoker::mccfr::info::Info;
use robopoker::mccfr::partition::Partition;
use robopoker::mccfr::profile::Profile;
use robopoker::verif::{CFR_DISCOUNT_PHASE, REGRET_MAX, REGRET_MIN};

/// the floor of the specification (DESIGN §6 C09: eps = f32::MIN_POSITIVE = 2^-126). The oracle
/// uses this constant, never the crate's POLICY_MIN: a changed POLICY_MIN must disagree with it.
const POLICY_MIN: f32 = f32::MIN_POSITIVE;
/// the exponents of the discount specification (C19), for the ledger of accumulated regret
const ALPHA: f64 = 1.5;
const OMEGA: f64 = 0.5;
use rpharness::*;
use std::collections::{BTreeMap, BTreeSet};
use std::panic::AssertUnwindSafe;

/// exact decimal text of an f32 (through f64, which holds every f32 exactly)
fn tok(x: f32) -> String {
    format!("~{:e}", x as f64)
}

struct Site {
    info: Info,
    bucket: Bucket,
    /// the menu of the information set (`Vec<Edge>::from(bucket.2)`) in the order of the BTreeMap
    /// the code builds (derived `Ord` of `Edge`)
    edges: Vec<Edge>,
    player: usize,
}

fn sites_of(bp: &Blueprint, want: usize) -> Vec<Site> {
    let mut out = vec![];
    while out.len() < want {
        let tree = bp.verif_tree();
        for info in Vec::<Info>::from(Partition::from(tree)) {
            let node = info.node();
            let player = match node.player().0 {
                Turn::Choice(k) => k,
                _ => continue,
            };
            let bucket = node.bucket().clone();
            // the actions AVAILABLE at the information set = its menu (third component of the
            // bucket, `Node::choices`), not the children that happen to be in the sampled tree
            let edges: Vec<Edge> = Vec::<Edge>::from(bucket.2.clone()).into_iter().collect::<BTreeSet<_>>().into_iter().collect();
            out.push(Site { info, bucket, edges, player });
        }
    }
    out
}

fn magnitude(rng: &mut Rng) -> f32 {
    // log-uniform over the whole positive f32 range, denormals included
    let bits = rng.below(0x7F80_0000) as u32;
    f32::from_bits(bits)
}

fn regrets(rng: &mut Rng, n: usize, kind: u64) -> Vec<f32> {
    let specials = [
        0.0f32, -0.0, 1.0, -1.0, REGRET_MIN, REGRET_MAX, -REGRET_MAX, POLICY_MIN, -POLICY_MIN, f32::from_bits(1), -f32::from_bits(1),
        f32::from_bits(0x007F_FFFF), REGRET_MAX / 2.0, REGRET_MAX / 4.0, REGRET_MAX / 13.0, 1e30, -1e30, 3e5, 100.0, -100.0, 0.5,
    ];
    (0..n)
        .map(|i| match kind {
            0 => 0.0,
            1 => -magnitude(rng),
            2 => {
                let m = magnitude(rng);
                if rng.chance(1, 2) { m } else { -m }
            }
            3 => if i == 0 { magnitude(rng) } else { -magnitude(rng) },
            4 => 7.25,
            5 => f32::from_bits(rng.below(0x0080_0000) as u32) * if rng.chance(1, 2) { 1.0 } else { -1.0 },
            6 => specials[rng.below(specials.len() as u64) as usize],
            7 => (rng.range(-400, 400) as f32) * 0.25,
            8 => {
                // training-like magnitudes
                let m = (rng.unit() * 2e4) as f32;
                if rng.chance(1, 2) { m } else { -m * 15.0 }
            }
            9 => REGRET_MAX / (1 + rng.below(2 * n as u64 + 2)) as f32,
            _ => if rng.chance(1, 3) { 0.0 } else if rng.chance(1, 2) { specials[rng.below(specials.len() as u64) as usize] } else { magnitude(rng) },
        })
        .collect()
}

fn epoch(rng: &mut Rng) -> usize {
    match rng.below(8) {
        0 => 0,
        1 => 1,
        2 => 2,
        3 => rng.below(16) as usize,
        4 => rng.below(1 << 20) as usize,
        5 => rng.below(1 << 40) as usize,
        6 => (1usize << rng.below(63)) + rng.below(3) as usize,
        _ => usize::MAX - rng.below(4) as usize,
    }
}

/// the specification of regret matching, from the property text (f64; inputs finite)
fn oracle(run: &mut Run, op: &str, site: &Site, t: usize, r: &[f32], got: &Option<BTreeMap<Edge, f32>>) {
    run.spec_checked += 1;
    let n = r.len();
    let d = (t.max(1)) as f64;
    let eps = POLICY_MIN as f64;
    // does the code's own f32 sum leave the finite range?  (classification only)
    let sum32: f32 = r.iter().map(|x| (x / (t.max(1) as f32)).max(POLICY_MIN)).sum();
    let class_of = |c: &str| if !sum32.is_finite() { "policy-sum-overflows-f32".to_string() } else { c.to_string() };
    let shown = |m: &BTreeMap<Edge, f32>| m.values().map(|v| format!("{v:e}")).collect::<Vec<_>>().join(" ");
    let input = format!("{op} (regrets {})", r.iter().map(|v| format!("{v:e}")).collect::<Vec<_>>().join(" "));
    let m = match got {
        None => {
            run.fail(&class_of("policy-panics"), &input, "a probability distribution", "panic");
            return;
        }
        Some(m) => m,
    };
    let keys: Vec<Edge> = m.keys().cloned().collect();
    if keys != site.edges {
        run.fail("policy-keys-differ-from-menu", &input, &format!("{:?}", site.edges), &format!("{keys:?}"));
        return;
    }
    let p: Vec<f64> = m.values().map(|v| *v as f64).collect();
    let total: f64 = p.iter().sum();
    if p.iter().any(|x| !(x.is_finite() && *x >= 0.0 && *x <= 1.0)) || (total - 1.0).abs() > 1e-5 {
        run.fail(&class_of("policy-not-a-distribution"), &input, "each p in [0,1], sum 1", &format!("{} (sum {total:e})", shown(m)));
        return;
    }
    // proportional to the positive part; uniform when no regret is positive
    let pos: Vec<f64> = r.iter().map(|x| (*x as f64).max(0.0)).collect();
    let psum: f64 = pos.iter().sum();
    let floor_all = r.iter().all(|x| (*x as f64) / d <= eps);
    if psum == 0.0 || floor_all {
        if p.iter().any(|x| (x - 1.0 / n as f64).abs() > 1e-6) {
            run.fail("policy-not-uniform", &input, &format!("1/{n} each"), &shown(m));
        }
    } else {
        // |p_a - R_a^+ / sum R^+| <= n eps t / sum R^+   (theorem prob_near_regret_matching)
        let slack = n as f64 * eps * d / psum;
        for a in 0..n {
            let want = pos[a] / psum;
            if (p[a] - want).abs() > slack + 1e-5 * want.max(1e-30) + 3e-45 {
                run.fail("policy-not-proportional-to-positive-regret", &input, &format!("p[{a}] = {want:e} +- {slack:e}"), &shown(m));
                return;
            }
        }
    }
    // the exact floored formula p_a = max(R_a/t, eps) / S
    let fl: Vec<f64> = r.iter().map(|x| ((*x as f64) / d).max(eps)).collect();
    let s: f64 = fl.iter().sum();
    for a in 0..n {
        let want = fl[a] / s;
        if (p[a] - want).abs() > 1e-5 * want + 3e-45 {
            run.fail("policy-differs-from-floored-formula", &input, &format!("p[{a}] = {want:e}"), &shown(m));
            return;
        }
    }
    // any two actions above the floor get probabilities in the ratio of their regrets
    // (cross-multiplied; the absolute term is the quantum of the subnormal f32 range)
    for a in 0..n {
        for b in 0..n {
            if fl[a] > eps && fl[b] > eps {
                let (ra, rb) = (r[a] as f64, r[b] as f64);
                let (lhs, rhs) = (p[a] * rb, p[b] * ra);
                if (lhs - rhs).abs() > 1e-4 * rhs.abs() + 3e-45 * (ra.abs() + rb.abs()) {
                    run.fail("policy-ratio-differs-from-regret-ratio", &input, &format!("p[{a}]*R[{b}] = p[{b}]*R[{a}] = {rhs:e}"), &format!("{lhs:e}"));
                    return;
                }
            }
        }
    }
}

fn main() {
    let a = args();
    let mut rng = Rng::new(a.seed);
    let mut run = Run::new(&a.out);
    quiet_panics();
    let clock = std::time::Instant::now();
    let mut marks: Vec<String> = vec![];
    let cases = if a.thorough() { 400_000 } else { 20_000 };
    let clamp_cases = if a.thorough() { 400_000 } else { 20_000 };
    let tree_rounds = if a.thorough() { 40 } else { 6 };

    marks.push(format!("{:.1}s information sets of really sampled trees", clock.elapsed().as_secs_f64()));
    // ---- information sets of really sampled trees, for both traversers
    let mut sites: Vec<Site> = vec![];
    let mut blueprints = vec![];
    for parity in 0..2usize {
        let mut profile = Profile::default();
        profile.verif_set_epochs(parity);
        let bp = Blueprint::verif_new(profile, Encoder::default());
        sites.extend(sites_of(&bp, if a.thorough() { 6000 } else { 1500 }));
        blueprints.push(bp);
    }
    let mut by_size: BTreeMap<usize, Vec<usize>> = BTreeMap::new();
    for (i, s) in sites.iter().enumerate() {
        by_size.entry(s.edges.len()).or_default().push(i);
    }
    let sizes: Vec<usize> = by_size.keys().cloned().collect();
    run.notes.push(format!("information sets sampled: {} (menu sizes {:?})", sites.len(), by_size.iter().map(|(k, v)| (*k, v.len())).collect::<Vec<_>>()));

    marks.push(format!("{:.1}s policy_vector", clock.elapsed().as_secs_f64()));
    // ---- policy_vector
    let mut profile = Profile::default();
    for case in 0..cases {
        let size = sizes[rng.below(sizes.len() as u64) as usize];
        let pool = &by_size[&size];
        let site = &sites[pool[rng.below(pool.len() as u64) as usize]];
        let kind = if case < 11 * 40 { (case / 40) as u64 } else { rng.below(11) };
        let mut r = regrets(&mut rng, size, kind);
        // a few inputs outside the property's quantifier (stored NaN / inf): correspondence only
        let outside = rng.chance(1, 60);
        if outside {
            let i = rng.below(size as u64) as usize;
            r[i] = [f32::NAN, f32::INFINITY, f32::NEG_INFINITY][rng.below(3) as usize];
        }
        let mut t = epoch(&mut rng);
        let mismatch = rng.chance(1, 25);
        if (t % 2 == site.player) == mismatch {
            t = if t == usize::MAX { t - 1 } else { t + 1 };
        }
        for (e, x) in site.edges.iter().zip(r.iter()) {
            // the stored average-strategy column varies independently of the regrets: the matched
            // strategy must not depend on it
            let w = match case % 4 { 0 => 0.5, 1 => rng.unit() as f32, 2 => magnitude(&mut rng).min(1e6), _ => if rng.chance(1, 2) { 0.0 } else { (rng.unit() * 50.0) as f32 } };
            profile.verif_set_memory(&site.bucket, e, *x, w);
        }
        profile.verif_set_epochs(t);
        run.evaluations += 1;
        let got = catch(AssertUnwindSafe(|| profile.policy_vector(&site.info)));
        let bits = r.iter().map(|x| x.to_bits().to_string()).collect::<Vec<_>>().join(" ");
        let answer = match &got {
            None => "panic".to_string(),
            Some(m) => m.values().map(|v| tok(*v)).collect::<Vec<_>>().join(" "),
        };
        let op = format!("policy32 {} {} {}", site.player, t, bits);
        run.line(&op, &answer);
        run.distinct(&(site.player, t, bits.clone()));
        run.count(&format!("menu={:02}", size));
        run.count(&format!("kind={:02}", kind));
        run.count(match t { 0 => "t=0", 1 => "t=1", 2..=15 => "t=2..15", 16..=1048575 => "t<2^20", _ => "t>=2^20" });
        if mismatch {
            run.count("walker-mismatch");
            run.spec_checked += 1;
            if got.is_some() {
                run.fail("policy-vector-for-non-traverser", &op, "panic (walker assertion)", &answer);
            }
            continue;
        }
        if outside {
            run.count("outside-quantifier(NaN/inf stored)");
            continue;
        }
        let sum32: f32 = r.iter().map(|x| (x / (t.max(1) as f32)).max(POLICY_MIN)).sum();
        if sum32.is_finite() {
            // the exact-rational instantiation must agree too (tolerance of the property file)
            run.line(&format!("policyq {} {} {}", site.player, t, bits), &answer);
        } else {
            run.count("f32-sum-overflows");
        }
        oracle(&mut run, &op, site, t, &r, &got);
    }

    marks.push(format!("{:.1}s the crate's floor is the specified one", clock.elapsed().as_secs_f64()));
    // ---- the crate's floor is the specified one
    run.spec_checked += 1;
    if robopoker::verif::POLICY_MIN.to_bits() != POLICY_MIN.to_bits() {
        run.fail("policy-floor-constant-differs-from-spec", "robopoker::POLICY_MIN", &format!("{POLICY_MIN:e}"), &format!("{:e}", robopoker::verif::POLICY_MIN));
    }

    marks.push(format!("{:.1}s small positive-regret mass per epoch: st", clock.elapsed().as_secs_f64()));
    // ---- small positive-regret mass per epoch: stored regrets 1e-6..1e-2 (mixed signs, zeros) at
    //      epochs 1e2..1e6, so that R+/t spans 1e-12..1e-4: the strategy is still the share of the
    //      positive part (the specified floor 2^-126 is far below)
    {
        let small = if a.thorough() { 40_000 } else { 3_000 };
        let mut profile = Profile::default();
        for k in 0..small {
            let size = sizes[rng.below(sizes.len() as u64) as usize];
            let pool = &by_size[&size];
            let site = &sites[pool[rng.below(pool.len() as u64) as usize]];
            let mut r: Vec<f32> = (0..size)
                .map(|_| {
                    let m = (10f64.powf(-6.0 + 4.0 * rng.unit())) as f32;
                    match rng.below(5) { 0 => 0.0, 1 | 2 => -m, _ => m }
                })
                .collect();
            if k % 3 == 0 {
                r[0] = r[0].abs().max(1e-6); // at least one positive regret
            }
            let mut t = (10f64.powf(2.0 + 4.0 * rng.unit())) as usize;
            if t % 2 != site.player {
                t += 1;
            }
            for (e, x) in site.edges.iter().zip(r.iter()) {
                profile.verif_set_memory(&site.bucket, e, *x, rng.unit() as f32);
            }
            profile.verif_set_epochs(t);
            run.evaluations += 1;
            let got = catch(AssertUnwindSafe(|| profile.policy_vector(&site.info)));
            let bits = r.iter().map(|x| x.to_bits().to_string()).collect::<Vec<_>>().join(" ");
            let answer = match &got {
                None => "panic".to_string(),
                Some(m) => m.values().map(|v| tok(*v)).collect::<Vec<_>>().join(" "),
            };
            let op = format!("policy32 {} {} {}", site.player, t, bits);
            run.line(&op, &answer);
            run.line(&format!("policyq {} {} {}", site.player, t, bits), &answer);
            run.distinct(&(site.player, t, bits));
            let mass: f64 = r.iter().map(|x| (*x as f64).max(0.0)).sum::<f64>() / t as f64;
            run.count(if mass == 0.0 { "small: no positive regret" } else if mass < 1e-9 { "small: R+/t < 1e-9" } else if mass < 1e-7 { "small: R+/t in 1e-9..1e-7" } else { "small: R+/t >= 1e-7" });
            oracle(&mut run, &format!("{op} [small positive-regret mass per epoch R+/t = {mass:e}]"), site, t, &r, &got);
        }
    }

    marks.push(format!("{:.1}s accumulated regret = the harness's own L", clock.elapsed().as_secs_f64()));
    // ---- accumulated regret = the harness's own LEDGER of what it fed through the real
    //      `Profile::add_regret` over several epochs (weights of the discount specification: 1 from
    //      CFR_DISCOUNT_PHASE on, t^a/(t^a+1) with a = 1.5 / 0.5 for an added regret > 0 / < 0 before);
    //      the strategy must be proportional to the positive part of the LEDGER, and the stored value
    //      read back through the hook must equal it
    {
        let seqs = if a.thorough() { 20_000 } else { 1_500 };
        let mut p = Profile::default();
        for k in 0..seqs {
            let size = sizes[rng.below(sizes.len() as u64) as usize];
            let pool = &by_size[&size];
            let site = &sites[pool[rng.below(pool.len() as u64) as usize]];
            let n = site.edges.len();
            for e in site.edges.iter() {
                p.verif_set_memory(&site.bucket, e, 0.0, 1.0 / n as f32); // what `witness` stores
            }
            let discounted = k % 4 == 0;
            let t0 = if discounted { 1 + rng.below(CFR_DISCOUNT_PHASE as u64 - 10) as usize } else { CFR_DISCOUNT_PHASE + rng.below(100_000) as usize };
            p.verif_set_epochs(t0);
            let updates = 2 + rng.below(5) as usize;
            let mut ledger = vec![0f64; n];
            // inside the discount phase every action keeps one sign (no cancellation of inexact factors)
            let sign: Vec<f32> = (0..n).map(|_| if rng.chance(1, 2) { 1.0 } else { -1.0 }).collect();
            let mut fed: Vec<Vec<f32>> = vec![];
            for _ in 0..updates {
                let t = p.epochs();
                let v: Vec<f32> = (0..n)
                    .map(|i| {
                        let q = rng.range(0, 80) as f32 * 0.25;
                        if discounted { q * sign[i] } else if rng.chance(1, 2) { q } else { -q }
                    })
                    .collect();
                for i in 0..n {
                    let x = v[i] as f64;
                    let d = if t >= CFR_DISCOUNT_PHASE || x == 0.0 { 1.0 } else { let y = (t as f64).powf(if x > 0.0 { ALPHA } else { OMEGA }); y / (y + 1.0) };
                    ledger[i] = ledger[i] * d + x;
                }
                let m: BTreeMap<Edge, f32> = site.edges.iter().cloned().zip(v.iter().cloned()).collect();
                p.add_regret(&site.bucket, &robopoker::mccfr::regret::Regret::from(m));
                p.next();
                fed.push(v);
            }
            if p.epochs() % 2 != site.player {
                p.next();
            }
            let t = p.epochs();
            let r: Vec<f32> = ledger.iter().map(|x| *x as f32).collect();
            let stored: Vec<f32> = site.edges.iter().map(|e| p.verif_memory(&site.bucket, e).unwrap().0).collect();
            let got = catch(AssertUnwindSafe(|| p.policy_vector(&site.info)));
            run.evaluations += 1;
            let bits = r.iter().map(|x| x.to_bits().to_string()).collect::<Vec<_>>().join(" ");
            let answer = match &got {
                None => "panic".to_string(),
                Some(m) => m.values().map(|v| tok(*v)).collect::<Vec<_>>().join(" "),
            };
            let op = format!("policy32 {} {} {}", site.player, t, bits);
            run.line(&op, &answer);
            run.line(&format!("policyq {} {} {}", site.player, t, bits), &answer);
            run.distinct(&(site.player, t, bits));
            run.count(if discounted { "ledger: updates inside the discount phase" } else { "ledger: updates after the discount phase" });
            let what = format!("{op} [accumulated regret = ledger of {updates} add_regret updates from epoch {t0}: {fed:?}]");
            run.spec_checked += 1;
            for i in 0..n {
                if (stored[i] as f64 - ledger[i]).abs() > 1e-5 * ledger[i].abs() + 1e-6 {
                    run.fail("accumulated-regret-differs-from-ledger", &what, &format!("action {i}: {:e}", ledger[i]), &format!("{:e}", stored[i]));
                    break;
                }
            }
            oracle(&mut run, &what, site, t, &r, &got);
        }
    }

    marks.push(format!("{:.1}s profile states that real training epochs", clock.elapsed().as_secs_f64()));
    // ---- profile states that real training epochs produce: the loop of `Blueprint::solve`
    //      restated with the public calls (tree -> partition -> regret_vector + policy_vector ->
    //      add_regret + add_policy -> next), every information set checked on the way; then the
    //      counter is reset to 0 with the stored values kept (what `Profile::load` yields).
    {
        let epochs = if a.thorough() { 400 } else { 12 };
        let batch = if a.thorough() { 4 } else { 3 };
        let bp = Blueprint::verif_new(Profile::default(), Encoder::default());
        let arc = bp.verif_profile();
        let mut visited = 0u64;
        for ep in 0..=epochs {
            let resumed = ep == epochs; // last round: the loaded profile
            if resumed {
                arc.write().unwrap().verif_set_epochs(0);
            }
            let mut updates = vec![];
            for _ in 0..batch {
                let fresh = sites_of(&bp, 1);
                let p = arc.read().unwrap();
                let t = p.epochs();
                for site in fresh.iter() {
                    let r: Vec<f32> = site.edges.iter().map(|e| p.verif_memory(&site.bucket, e).expect("witnessed").0).collect();
                    run.evaluations += 1;
                    visited += 1;
                    let got = catch(AssertUnwindSafe(|| p.policy_vector(&site.info)));
                    let bits = r.iter().map(|x| x.to_bits().to_string()).collect::<Vec<_>>().join(" ");
                    let answer = match &got {
                        None => "panic".to_string(),
                        Some(m) => m.values().map(|v| tok(*v)).collect::<Vec<_>>().join(" "),
                    };
                    let op = format!("policy32 {} {} {}", site.player, t, bits);
                    run.line(&op, &answer);
                    if r.iter().all(|x| x.is_finite()) {
                        run.line(&format!("policyq {} {} {}", site.player, t, bits), &answer);
                        oracle(&mut run, &op, site, t, &r, &got);
                    } else {
                        run.fail("stored-regret-not-finite", &op, "finite stored regrets", &format!("{r:?}"));
                    }
                    run.count(if resumed { "trained-state:resumed(t=0)" } else { "trained-state" });
                    if r.iter().any(|x| *x != 0.0) {
                        run.distinct(&(site.player, t, bits));
                    }
                    run.spec_checked += 1;
                    let rv = catch(AssertUnwindSafe(|| p.regret_vector(&site.info)));
                    match (&rv, &got) {
                        (Some(rv), Some(pv)) => {
                            for v in rv.values() {
                                if !(v.is_finite() && *v >= REGRET_MIN && *v <= REGRET_MAX) {
                                    run.fail("recorded-regret-outside-clamp", &op, &format!("[{REGRET_MIN:e}, {REGRET_MAX:e}]"), &format!("{v:e}"));
                                }
                                run.line(&format!("clamp {}", v.to_bits()), &tok(*v));
                            }
                            updates.push((site.bucket.clone(), rv.clone(), pv.clone()));
                        }
                        (None, _) => run.fail("regret-vector-panics", &op, "a clamped finite vector", "panic"),
                        _ => {}
                    }
                }
            }
            let mut p = arc.write().unwrap();
            for (b, r, q) in updates {
                p.add_regret(&b, &robopoker::mccfr::regret::Regret::from(r));
                p.add_policy(&b, &robopoker::mccfr::policy::Policy::from(q));
            }
            p.next();
        }
        marks.push(format!("{:.1}s ask / update / ask again inside ONE epoc", clock.elapsed().as_secs_f64()));
        // ---- ask / update / ask again inside ONE epoch, then next() twice, ask again: the entry
        //      point the trainer uses (`Profile::counterfactual`) must answer from the regrets stored
        //      NOW, whatever was asked before (half of the sequences run on a fresh thread)
        {
            let asks = if a.thorough() { 3000 } else { 300 };
            let mut done = 0u64;
            for parity in 0..2usize {
                {
                    let mut p = arc.write().unwrap();
                    let t = p.epochs();
                    p.verif_set_epochs(if t % 2 == parity { t } else { t + 1 });
                }
                let fresh = sites_of(&bp, 1);
                for (k, site) in fresh.iter().enumerate() {
                    if done >= asks * (parity as u64 + 1) / 2 {
                        break;
                    }
                    done += 1;
                    let kind = rng.below(11);
                    let newr = regrets(&mut rng, site.edges.len(), if kind == 9 { 8 } else { kind });
                    let via_add = rng.chance(1, 2);
                    let mut results: Vec<(String, usize, Vec<f32>, Option<BTreeMap<Edge, f32>>)> = vec![];
                    let mut body = || {
                        let mut p = arc.write().unwrap();
                        let mut ask = |p: &Profile, label: &str| {
                            let r: Vec<f32> = site.edges.iter().map(|e| p.verif_memory(&site.bucket, e).expect("witnessed").0).collect();
                            let got = catch(AssertUnwindSafe(|| p.counterfactual(site.info.clone()).policy().inner().clone()));
                            results.push((label.to_string(), p.epochs(), r, got));
                        };
                        ask(&p, "first ask");
                        if via_add {
                            let m: BTreeMap<Edge, f32> = site.edges.iter().cloned().zip(newr.iter().cloned()).collect();
                            p.add_regret(&site.bucket, &robopoker::mccfr::regret::Regret::from(m));
                        } else {
                            for (e, x) in site.edges.iter().zip(newr.iter()) {
                                let pol = p.verif_memory(&site.bucket, e).unwrap().1;
                                p.verif_set_memory(&site.bucket, e, *x, pol);
                            }
                        }
                        ask(&p, "ask again in the same epoch after the regrets changed");
                        p.next();
                        p.next();
                        ask(&p, "ask after next() x2");
                    };
                    if k % 2 == 0 {
                        std::thread::scope(|sc| {
                            sc.spawn(&mut body).join().ok();
                        });
                    } else {
                        body();
                    }
                    for (label, t, r, got) in results {
                        run.evaluations += 1;
                        let bits = r.iter().map(|x| x.to_bits().to_string()).collect::<Vec<_>>().join(" ");
                        let answer = match &got {
                            None => "panic".to_string(),
                            Some(m) => m.values().map(|v| tok(*v)).collect::<Vec<_>>().join(" "),
                        };
                        let op = format!("policy32 {} {} {}", site.player, t, bits);
                        run.line(&op, &answer);
                        run.count(&format!("counterfactual: {label}"));
                        if r.iter().all(|x| x.is_finite()) {
                            oracle(&mut run, &format!("{op} [counterfactual(), {label}, regrets changed by {}]", if via_add { "add_regret" } else { "verif_set_memory" }), site, t, &r, &got);
                        }
                    }
                }
            }
        }

        marks.push(format!("{:.1}s real update sequences that leave NO posi", clock.elapsed().as_secs_f64()));
        // ---- real update sequences that leave NO positive regret beside a skewed stored average
        //      strategy (add_regret / add_policy in both orders, then an all-non-positive or exactly
        //      cancelling add_regret): the matched strategy must be uniform whatever the policy column says
        {
            let seqs = if a.thorough() { 4000 } else { 400 };
            let mut p = Profile::default();
            for k in 0..seqs {
                let size = sizes[rng.below(sizes.len() as u64) as usize];
                let pool = &by_size[&size];
                let site = &sites[pool[rng.below(pool.len() as u64) as usize]];
                let n = site.edges.len();
                for e in site.edges.iter() {
                    p.verif_set_memory(&site.bucket, e, 0.0, 1.0 / n as f32);
                }
                let t0 = 400 + 2 * rng.below(1000) as usize + site.player; // past the discount phase: plain sums
                p.verif_set_epochs(t0);
                let mixed: Vec<f32> = (0..n).map(|_| (rng.range(-40, 40) as f32) * 0.5).collect();
                let skew: Vec<f32> = (0..n).map(|i| if i == 0 { 0.9 } else { 0.1 / n as f32 }).collect();
                let last: Vec<f32> = match k % 3 {
                    0 => mixed.iter().map(|x| -x).collect(),                 // exactly cancelling: all zero
                    1 => mixed.iter().map(|x| -x.abs() - 1.0 - x).collect(), // all negative
                    _ => mixed.iter().map(|x| -x.max(0.0) - x.max(0.0).min(1.0)).collect(), // positives pushed to <= 0
                };
                let map = |v: &Vec<f32>| site.edges.iter().cloned().zip(v.iter().cloned()).collect::<BTreeMap<Edge, f32>>();
                let steps: [(&str, &Vec<f32>); 3] = if k % 2 == 0 { [("r", &mixed), ("p", &skew), ("r", &last)] } else { [("p", &skew), ("r", &mixed), ("r", &last)] };
                for (kind, v) in steps {
                    if kind == "r" {
                        p.add_regret(&site.bucket, &robopoker::mccfr::regret::Regret::from(map(v)));
                    } else {
                        p.add_policy(&site.bucket, &robopoker::mccfr::policy::Policy::from(map(v)));
                    }
                }
                p.next();
                p.next();
                let t = p.epochs();
                let r: Vec<f32> = site.edges.iter().map(|e| p.verif_memory(&site.bucket, e).unwrap().0).collect();
                let got = catch(AssertUnwindSafe(|| p.policy_vector(&site.info)));
                run.evaluations += 1;
                let bits = r.iter().map(|x| x.to_bits().to_string()).collect::<Vec<_>>().join(" ");
                let answer = match &got {
                    None => "panic".to_string(),
                    Some(m) => m.values().map(|v| tok(*v)).collect::<Vec<_>>().join(" "),
                };
                let op = format!("policy32 {} {} {}", site.player, t, bits);
                run.line(&op, &answer);
                run.line(&format!("policyq {} {} {}", site.player, t, bits), &answer);
                run.count(if r.iter().all(|x| *x <= 0.0) { "update-sequence: no positive regret, skewed stored policy" } else { "update-sequence: some positive regret, skewed stored policy" });
                oracle(&mut run, &format!("{op} [after {} then add_regret leaving no positive regret; stored policy column skewed 0.9 on the first action]", if k % 2 == 0 { "add_regret, add_policy" } else { "add_policy, add_regret" }), site, t, &r, &got);
            }
        }

        marks.push(format!("{:.1}s save -> file cut short (as an interrupte", clock.elapsed().as_secs_f64()));
        // ---- save -> file cut short (as an interrupted save leaves it) -> load -> resume.
        //      Either load refuses the file, or every loaded bucket has its whole menu and
        //      computing strategies on it never aborts.
        {
            use robopoker::save::upload::Table;
            std::fs::create_dir_all("pgcopy").expect("pgcopy dir");
            let path = Profile::path(robopoker::cards::street::Street::Pref);
            arc.write().unwrap().verif_set_epochs(0);
            let p0_sites = sites_of(&bp, 1); // walker 0 = the traverser right after a load
            arc.read().unwrap().save();
            let bytes = std::fs::read(&path).expect("saved blueprint");
            const ROW: usize = 66;
            let nrows = (bytes.len() - 19 - 2) / ROW;
            let key = |k: usize| {
                let o = 19 + k * ROW;
                let u = |i: usize| u64::from_be_bytes(bytes[o + i..o + i + 8].try_into().unwrap());
                (u(6), u(18), u(30))
            };
            let mut spans: BTreeMap<(u64, u64, u64), (usize, usize)> = BTreeMap::new(); // bucket -> (first row, rows)
            for k in 0..nrows {
                let e = spans.entry(key(k)).or_insert((k, 0));
                e.1 += 1;
            }
            let mut cuts: Vec<(usize, String)> = vec![(bytes.len(), "complete file".to_string())];
            let want = if a.thorough() { 60 } else { 6 };
            let mut targets: Vec<&Site> = p0_sites.iter().filter(|s| s.edges.len() >= 2).collect();
            for _ in 0..want.min(targets.len()) {
                let site = targets.swap_remove(rng.below(targets.len() as u64) as usize);
                let k3 = (u64::from(site.bucket.0), u64::from(site.bucket.1), u64::from(site.bucket.2));
                if let Some(&(first, n)) = spans.get(&k3) {
                    let j = 1 + rng.below(n as u64 - 1) as usize;
                    let at = 19 + (first + j) * ROW;
                    cuts.push((at, format!("cut on the row boundary after {j} of the {n} rows of bucket {}", site.bucket)));
                    cuts.push((at + 1 + rng.below(ROW as u64 - 1) as usize, format!("cut inside row {} of the {n} rows of bucket {}", j + 1, site.bucket)));
                    cuts.push((19 + (first + n) * ROW, format!("cut on the bucket boundary after bucket {}", site.bucket)));
                    cuts.push((19 + first * ROW + 1 + rng.below(ROW as u64 - 1) as usize, format!("cut inside the first row of bucket {}", site.bucket)));
                }
            }
            cuts.push((bytes.len() - 2, "trailer missing".to_string()));
            cuts.push((bytes.len() - 1, "trailer cut in half".to_string()));
            for (at, what) in cuts {
                std::fs::write(&path, &bytes[..at]).expect("write cut blueprint");
                run.evaluations += 1;
                run.spec_checked += 1;
                let input = format!("saved blueprint of {} bytes ({nrows} rows), first {at} bytes kept: {what}; then Profile::load and resume", bytes.len());
                let loaded = catch(|| Profile::load(robopoker::cards::street::Street::Pref));
                let loaded = match loaded {
                    None => {
                        run.count("load: refused");
                        if at == bytes.len() {
                            run.fail("load-of-complete-blueprint-aborts", &input, "the saved profile", "panic");
                        }
                        continue;
                    }
                    Some(l) => l,
                };
                run.count(if at == bytes.len() { "load: complete file accepted" } else { "load: cut file accepted" });
                // every loaded bucket offers exactly its menu
                let mut complete = true;
                for (bucket, rows) in loaded.verif_buckets() {
                    let menu: BTreeSet<Edge> = Vec::<Edge>::from(bucket.2.clone()).into_iter().collect();
                    let have: BTreeSet<Edge> = rows.iter().map(|(e, _, _)| e.clone()).collect();
                    if menu != have {
                        complete = false;
                        run.fail("loaded-bucket-misses-actions", &input, &format!("bucket {bucket} with its {} actions {menu:?}", menu.len()), &format!("{} actions {have:?}", have.len()));
                    }
                }
                if loaded.epochs() != 0 {
                    run.fail("loaded-profile-counter-not-0", &input, "0", &loaded.epochs().to_string());
                }
                // the strategy at the traverser's information sets that the loaded profile knows
                let lbp = Blueprint::verif_new(loaded, Encoder::default());
                let larc = lbp.verif_profile();
                {
                    let lp = larc.read().unwrap();
                    for site in p0_sites.iter() {
                        if site.edges.iter().all(|e| lp.verif_memory(&site.bucket, e).is_none()) {
                            continue; // bucket not in the file: the sampler would witness it afresh
                        }
                        let r: Vec<Option<f32>> = site.edges.iter().map(|e| lp.verif_memory(&site.bucket, e).map(|m| m.0)).collect();
                        let got = catch(AssertUnwindSafe(|| lp.policy_vector(&site.info)));
                        run.evaluations += 1;
                        if r.iter().all(|x| x.is_some()) {
                            let r: Vec<f32> = r.into_iter().map(|x| x.unwrap()).collect();
                            let bits = r.iter().map(|x| x.to_bits().to_string()).collect::<Vec<_>>().join(" ");
                            let answer = match &got {
                                None => "panic".to_string(),
                                Some(m) => m.values().map(|v| tok(*v)).collect::<Vec<_>>().join(" "),
                            };
                            let op = format!("policy32 {} 0 {}", site.player, bits);
                            run.line(&op, &answer);
                            oracle(&mut run, &format!("{op} [after load of: {what}]"), site, 0, &r, &got);
                        } else if got.is_none() {
                            run.spec_checked += 1;
                            run.fail("policy-panics-after-load", &format!("{input}; policy_vector at {} ({} actions on the menu, {} loaded)", site.bucket, site.edges.len(), r.iter().filter(|x| x.is_some()).count()),
                                "a distribution over the menu", "panic");
                        }
                    }
                }
                // resume: two epochs of the real loop on freshly sampled trees
                for _ in 0..2 {
                    let infos = catch(AssertUnwindSafe(|| Vec::<Info>::from(Partition::from(lbp.verif_tree()))));
                    let infos = match infos {
                        None => {
                            run.fail("resume-aborts", &input, "a sampled tree", "panic while sampling");
                            break;
                        }
                        Some(i) => i,
                    };
                    let mut ups = vec![];
                    {
                        let lp = larc.read().unwrap();
                        for info in infos {
                            run.evaluations += 1;
                            run.spec_checked += 1;
                            let b = info.node().bucket().clone();
                            match catch(AssertUnwindSafe(|| lp.counterfactual(info))) {
                                None => run.fail("resume-aborts", &format!("{input}; counterfactual at {b}"), "regret and policy vectors", "panic"),
                                Some(cf) => ups.push(cf),
                            }
                        }
                    }
                    let mut lp = larc.write().unwrap();
                    let ok = catch(AssertUnwindSafe(|| {
                        for cf in ups.iter() {
                            let b = cf.info().node().bucket().clone();
                            lp.add_regret(&b, cf.regret());
                            lp.add_policy(&b, cf.policy());
                        }
                        lp.next();
                    }));
                    if ok.is_none() {
                        run.fail("resume-aborts", &input, "updates applied", "panic in add_regret/add_policy");
                    }
                }
                let _ = complete;
            }
            std::fs::write(&path, &bytes).ok();
        }

        run.notes.push(format!("training-produced states: {epochs} real epochs x {batch} trees, then counter reset to 0 as by Profile::load; {visited} information-set visits checked"));
    }

    marks.push(format!("{:.1}s late epochs (around and far beyond the p", clock.elapsed().as_secs_f64()));
    // ---- late epochs (around and far beyond the pruning phase) with hopelessly negative stored
    //      regrets on one / several / all-but-one / all actions; the trees are sampled AFTER the
    //      values are in place, through the real sampler: strategy and recorded regrets must still
    //      cover exactly the menu of every traverser information set
    {
        use robopoker::verif::CFR_PRUNNING_PHASE;
        let presample = if a.thorough() { [600usize, 150] } else { [140usize, 24] };
        let after = if a.thorough() { 40 } else { 6 };
        let lows = [REGRET_MIN, -1e6f32, f32::from_bits((-3e8f32).to_bits() + 1), -1e9, -1e30, f32::MIN];
        let bp = Blueprint::verif_new(Profile::default(), Encoder::default());
        let arc = bp.verif_profile();
        for parity in 0..2usize {
            arc.write().unwrap().verif_set_epochs(parity);
            for _ in 0..presample[parity] {
                let _ = bp.verif_tree(); // witnesses the buckets (most of the 169 root classes of each player)
            }
        }
        let mut touched = 0u64;
        {
            let mut p = arc.write().unwrap();
            for (bucket, rows) in p.verif_buckets() {
                let n = rows.len();
                if n < 2 || rng.chance(1, 4) {
                    continue;
                }
                let k = match rng.below(4) { 0 => 1, 1 => 1 + rng.below(n as u64 - 1) as usize, 2 => n - 1, _ => n };
                let mut idx: Vec<usize> = (0..n).collect();
                for _ in 0..k {
                    let i = idx.swap_remove(rng.below(idx.len() as u64) as usize);
                    let low = if rng.chance(1, 3) { lows[rng.below(lows.len() as u64) as usize] } else { lows[2 + rng.below(4) as usize] };
                    p.verif_set_memory(&bucket, &rows[i].0, low, rows[i].2);
                }
                touched += 1;
            }
        }
        let mut ts: Vec<usize> = vec![CFR_PRUNNING_PHASE - 2, CFR_PRUNNING_PHASE - 1, CFR_PRUNNING_PHASE, CFR_PRUNNING_PHASE + 1, CFR_PRUNNING_PHASE + 2, CFR_PRUNNING_PHASE + 3];
        ts.extend([1_000_000_000usize, 1_000_000_001, (1usize << 40) + 6, (1usize << 40) + 7]);
        let mut checked = 0u64;
        for t in ts {
            arc.write().unwrap().verif_set_epochs(t);
            let mut fresh: Vec<Site> = vec![];
            for _ in 0..(if t % 2 == 0 { after * 6 } else { after / 2 }) {
                match catch(AssertUnwindSafe(|| sites_of(&bp, 1))) {
                    Some(v) => fresh.extend(v),
                    None => run.fail("sampling-aborts", &format!("tree sampled at epoch counter {t} with hopeless stored regrets"), "a tree", "panic"),
                }
            }
            let p = arc.read().unwrap();
            for site in fresh.iter() {
                let r: Vec<Option<f32>> = site.edges.iter().map(|e| p.verif_memory(&site.bucket, e).map(|m| m.0)).collect();
                let depth = Vec::<Edge>::from(site.bucket.0.clone()).len();
                let hopeless = r.iter().filter(|x| x.map(|v| v < -3e8).unwrap_or(false)).count();
                if hopeless == 0 && depth > 0 && !rng.chance(1, 10) {
                    continue; // untouched deep buckets: a sample of them is enough
                }
                run.evaluations += 1;
                checked += 1;
                let got = catch(AssertUnwindSafe(|| p.policy_vector(&site.info)));
                run.count(&format!("late-epoch: {} bucket, {}", if depth == 0 { "root-level" } else { "deeper" },
                    if hopeless == 0 { "no action below -3e8" } else if hopeless == r.len() { "all actions below -3e8" } else { "some actions below -3e8" }));
                if r.iter().all(|x| x.is_some()) {
                    let r: Vec<f32> = r.iter().map(|x| x.unwrap()).collect();
                    let bits = r.iter().map(|x| x.to_bits().to_string()).collect::<Vec<_>>().join(" ");
                    let answer = match &got {
                        None => "panic".to_string(),
                        Some(m) => m.values().map(|v| tok(*v)).collect::<Vec<_>>().join(" "),
                    };
                    let op = format!("policy32 {} {} {}", site.player, t, bits);
                    run.line(&op, &answer);
                    run.line(&format!("policyq {} {} {}", site.player, t, bits), &answer);
                    run.distinct(&(site.player, t, bits));
                    oracle(&mut run, &format!("{op} [tree sampled at epoch counter {t} after the stored regrets were set; bucket {}]", site.bucket), site, t, &r, &got);
                } else {
                    run.fail("menu-action-not-witnessed", &format!("bucket {} at epoch counter {t}", site.bucket), "a stored entry for every action of the menu", &format!("{r:?}"));
                }
                run.spec_checked += 1;
                match catch(AssertUnwindSafe(|| p.regret_vector(&site.info))) {
                    None => run.fail("regret-vector-panics", &format!("bucket {} at epoch counter {t}", site.bucket), "a clamped finite vector", "panic"),
                    Some(m) => {
                        let keys: Vec<Edge> = m.keys().cloned().collect();
                        if keys != site.edges {
                            run.fail("regret-keys-differ-from-menu", &format!("regret_vector at bucket {} (tree sampled at epoch counter {t}, stored regrets {r:?})", site.bucket), &format!("{:?}", site.edges), &format!("{keys:?}"));
                        }
                        for v in m.values() {
                            if !(v.is_finite() && *v >= REGRET_MIN && *v <= REGRET_MAX) {
                                run.fail("recorded-regret-outside-clamp", &format!("bucket {} at epoch counter {t}", site.bucket), &format!("[{REGRET_MIN:e}, {REGRET_MAX:e}]"), &format!("{v:e}"));
                            }
                        }
                    }
                }
            }
        }
        run.notes.push(format!("late-epoch states: {touched} witnessed buckets given stored regrets in {{-3e5, -1e6, -3e8-eps, -1e9, -1e30, f32::MIN}} on 1 / several / all-but-one / all actions; trees sampled afterwards at 10 epoch counters around CFR_PRUNNING_PHASE = {CFR_PRUNNING_PHASE} and far beyond (both parities); {checked} information sets checked against their menu"));
    }

    marks.push(format!("{:.1}s regret_vector on the sampled trees, stor", clock.elapsed().as_secs_f64()));
    // ---- regret_vector on the sampled trees, stored strategies made extreme
    for bp in &blueprints {
        let arc = bp.verif_profile();
        let parity = arc.read().unwrap().epochs() % 2;
        for round in 0..tree_rounds {
            let infos = Vec::<Info>::from(Partition::from(bp.verif_tree()));
            {
                let mut p = arc.write().unwrap();
                for (bucket, rows) in p.verif_buckets() {
                    for (edge, regret, policy) in rows {
                        let w = match round % 3 {
                            0 => policy,
                            1 => (rng.unit() as f32).max(1e-3),
                            _ => magnitude(&mut rng).min(1.0).max(1e-37),
                        };
                        p.verif_set_memory(&bucket, &edge, regret, w);
                    }
                }
                p.verif_set_epochs(parity + 2 * round);
            }
            let p = arc.read().unwrap();
            for info in infos.iter() {
                let menu: BTreeSet<Edge> = Vec::<Edge>::from(info.node().bucket().2.clone()).into_iter().collect();
                run.evaluations += 1;
                run.spec_checked += 1;
                let got = catch(AssertUnwindSafe(|| p.regret_vector(info)));
                let what = format!("regret_vector at {} (tree round {round}, walker {parity})", info.node().bucket());
                match got {
                    None => run.fail("regret-vector-panics", &what, "a clamped finite vector", "panic"),
                    Some(m) => {
                        if m.keys().cloned().collect::<BTreeSet<_>>() != menu {
                            run.fail("regret-keys-differ-from-menu", &what, &format!("{menu:?}"), &format!("{:?}", m.keys()));
                        }
                        for (e, v) in m.iter() {
                            if !(v.is_finite() && *v >= REGRET_MIN && *v <= REGRET_MAX) {
                                run.fail("recorded-regret-outside-clamp", &format!("{what} edge {e}"), &format!("[{REGRET_MIN:e}, {REGRET_MAX:e}]"), &format!("{v:e}"));
                            }
                            // the recorded value must be a fixed point of the model's clamp
                            run.line(&format!("clamp {}", v.to_bits()), &tok(*v));
                            run.count(if *v == REGRET_MIN { "recorded=REGRET_MIN" } else if *v == REGRET_MAX { "recorded=REGRET_MAX" } else { "recorded-inside" });
                        }
                    }
                }
            }
        }
    }

    marks.push(format!("{:.1}s the clamp expression of regret_vector on", clock.elapsed().as_secs_f64()));
    // ---- the clamp expression of regret_vector on arbitrary bit patterns (the expression is
    //      restated here with the crate's own constants: it ties the constants, their order and
    //      the NaN rule of f32::max/min to the model, not the call site)
    let mut pats: Vec<u32> = vec![0, 0x8000_0000, 0x7F80_0000, 0xFF80_0000, 0x7FC0_0000, 0xFFC0_0000, 0x7F7F_FFFF, 0xFF7F_FFFF, REGRET_MIN.to_bits(), REGRET_MIN.to_bits() + 1, REGRET_MIN.to_bits() - 1, 1, 0x8000_0001, 0x7F80_0001, 0xFFFF_FFFF];
    for _ in 0..clamp_cases {
        pats.push(rng.next() as u32);
    }
    for b in pats {
        let x = f32::from_bits(b);
        let y = x.max(REGRET_MIN).min(REGRET_MAX);
        run.evaluations += 1;
        run.spec_checked += 1;
        let op = format!("clamp {b}");
        let ok = !y.is_nan() && !y.is_infinite();
        run.line(&op, &if ok { tok(y) } else { "panic".into() });
        let want = if x.is_nan() { REGRET_MIN } else if x < REGRET_MIN { REGRET_MIN } else if x > REGRET_MAX { REGRET_MAX } else { x };
        if !(ok && y == want) {
            run.fail("clamp-outside-range", &op, &format!("{want:e}"), &format!("{y:e}"));
        }
        run.count(if x.is_nan() { "clamp:nan" } else if x.is_infinite() { "clamp:inf" } else if x < REGRET_MIN { "clamp:below" } else { "clamp:inside" });
    }

    marks.push(format!("{:.1}s walker", clock.elapsed().as_secs_f64()));
    // ---- walker
    let mut p = Profile::default();
    let mut ts: Vec<usize> = (0..64).collect();
    for _ in 0..2000 {
        ts.push(epoch(&mut rng));
    }
    for t in ts {
        p.verif_set_epochs(t);
        let w = match p.walker().0 {
            Turn::Choice(k) => k.to_string(),
            other => format!("{other}"),
        };
        run.evaluations += 1;
        run.spec_checked += 1;
        run.line(&format!("walker {t}"), &w);
        if w != (t % 2).to_string() {
            run.fail("walker-not-epoch-parity", &format!("walker at epoch {t}"), &(t % 2).to_string(), &w);
        }
    }

    marks.push(format!("{:.1}s end", clock.elapsed().as_secs_f64()));
    run.notes.push(format!("section start times: {}", marks.join("; ")));
    run.rule = format!(
        "{cases} policy_vector cases on information sets of really sampled trees (both traversers, every menu size the sampler offers), \
         regret vectors of 11 kinds (zeros, all negative, mixed signs over the whole f32 exponent range, one positive, equal, denormals, \
         special values incl. +-clamp bounds and +-f32::MAX, quarters, training-like, near-overflow MAX/k, mixtures), epoch counter in \
         {{0,1,2,small,<2^20,<2^40,2^k,usize::MAX-k}} with parity chosen to match the node's player (1/25 deliberately mismatched: must abort), \
         1/60 with a stored NaN/inf (correspondence only); regret_vector on every information set of {tree_rounds} more trees per traverser with \
         the stored average strategy left as is / randomised / made extreme; {clamp_cases} random bit patterns through the clamp expression; \
         walker at 2064 counters; plus every information set visited during real training epochs (4 trees per epoch) and after a simulated load; Profile::counterfactual in ask / change regrets / ask again (same epoch) / next x2 / ask sequences, half on fresh threads; real add_regret/add_policy sequences (both orders) ending with no positive regret beside a skewed stored average strategy; the stored policy column of every synthetic case varies independently of the regrets; save -> blueprint cut at row boundaries inside a bucket, inside rows, at bucket boundaries, without trailer -> load -> menu completeness, policy_vector at the known information sets, two resumed epochs. small-magnitude states (regrets 1e-6..1e-2 at epochs 1e2..1e6) judged with the specified floor 2^-126 (never the crate's constant); accumulated regret taken from the harness's own ledger of real add_regret updates over 2-6 epochs (inside and after the discount phase); late-epoch states: hopelessly negative stored regrets (down to f32::MIN) on subsets of the actions of witnessed buckets, trees sampled afterwards at counters around and beyond CFR_PRUNNING_PHASE, keys compared with the menu of the bucket (not with the children of the sampled node). A policy case is non-trivial always (>= 2 actions or a checked singleton); distinct by (player, t, regret bits)"
    );
    run.finish();
}
