// correspondence + search binary for property C12 (stub)
fn main() {
    let a = rpharness::args();
    let mut run = rpharness::Run::new(&a.out);
    run.rule = "stub".into();
    run.finish();
}
