// C12 — earth mover's distances: the real Sinkhorn / Equity::variation / Heuristic / Metric code
// (hook H9 for the plan and the potentials) against
//  (a) the Lean model `RP.Transport` instantiated with Float32 (correspondence lines), and
//  (b) a search oracle written from the property text: plan >= 0, total mass 1, column sums = nu,
//      cost inside [OT - misplaced, OT + misplaced + T*min(H(mu),H(nu))] with OT from an exact
//      min-cost-flow solver in f64 (self-certified by its dual, cross-checked on 1-D instances
//      against the CDF formula), self-distance inside the allowance, equity distance = exact
//      1-D W1 * 100/101, symmetric, zero iff equal, triangle; greedy plan feasible and >= OT.
use robopoker::cards::street::Street;
use robopoker::clustering::abstraction::Abstraction;
use robopoker::clustering::equity::Equity;
use robopoker::clustering::heuristic::Heuristic;
use robopoker::clustering::histogram::Histogram;
use robopoker::clustering::metric::Metric;
use robopoker::clustering::pair::Pair;
use robopoker::clustering::sinkhorn::Sinkhorn;
use robopoker::transport::coupling::Coupling;
use robopoker::transport::measure::Measure;
use rpharness::*;
use std::collections::BTreeMap;
use std::fmt::Write as _;
use std::panic::AssertUnwindSafe;

const T: f64 = robopoker::verif::SINKHORN_TEMPERATURE as f64;

fn code(a: &Abstraction) -> u128 {
    let v: u128 = match a {
        Abstraction::Percent(_) => 0,
        Abstraction::Learned(_) => 1,
        Abstraction::Preflop(_) => 2,
    };
    (v << 64) | u64::from(*a) as u128
}
fn fl(x: f32) -> String {
    if x.is_nan() { "~NaN".into() } else { format!("~{:e}", x) }
}
fn hist_str(h: &Histogram) -> String {
    let cs = h.verif_counts();
    let mut s = format!("{} {}", cs.len(), h.verif_mass());
    for (a, c) in cs.iter() {
        let _ = write!(s, " {} {}", code(a), c);
    }
    s
}
fn metric_str(m: &Metric) -> String {
    let es = m.verif_entries();
    let mut s = format!("{}", es.len());
    for (p, d) in es.iter() {
        let _ = write!(s, " {} {}", i64::from(*p) as u64, d.to_bits());
    }
    s
}
fn dens(h: &Histogram) -> Vec<(Abstraction, f64)> {
    let m = h.verif_mass() as f64;
    h.verif_counts().into_iter().map(|(a, c)| (a, c as f64 / m)).collect()
}
fn entropy(p: &[f64]) -> f64 {
    -p.iter().filter(|&&x| x > 0.0).map(|&x| x * x.ln()).sum::<f64>()
}

/// exact transportation problem by successive shortest paths (dense Dijkstra with potentials).
/// integer supplies a (sum = sum b), costs c[i][j] >= 0. returns (primal, dual) in units of
/// cost * supply. primal is the cost of a feasible integral flow, dual the value of a feasible
/// dual solution: dual <= OT <= primal, so a small gap certifies both.
fn exact_ot(a: &[i64], b: &[i64], c: &Vec<Vec<f64>>) -> (f64, f64) {
    let (n, m) = (a.len(), b.len());
    let v = n + m;
    let mut ra = a.to_vec();
    let mut rb = b.to_vec();
    let mut flow = vec![vec![0i64; m]; n];
    let mut pi = vec![0f64; v];
    loop {
        if ra.iter().all(|&x| x == 0) {
            break;
        }
        let mut dist = vec![f64::INFINITY; v];
        let mut prev = vec![usize::MAX; v];
        let mut done = vec![false; v];
        for i in 0..n {
            if ra[i] > 0 {
                dist[i] = 0.0;
            }
        }
        for _ in 0..v {
            let mut u = usize::MAX;
            let mut best = f64::INFINITY;
            for w in 0..v {
                if !done[w] && dist[w] < best {
                    best = dist[w];
                    u = w;
                }
            }
            if u == usize::MAX {
                break;
            }
            done[u] = true;
            if u < n {
                for j in 0..m {
                    let w = n + j;
                    if !done[w] {
                        let rc = (c[u][j] + pi[u] - pi[w]).max(0.0);
                        if dist[u] + rc < dist[w] {
                            dist[w] = dist[u] + rc;
                            prev[w] = u;
                        }
                    }
                }
            } else {
                let j = u - n;
                for i in 0..n {
                    if flow[i][j] > 0 && !done[i] {
                        let rc = (-c[i][j] + pi[u] - pi[i]).max(0.0);
                        if dist[u] + rc < dist[i] {
                            dist[i] = dist[u] + rc;
                            prev[i] = u;
                        }
                    }
                }
            }
        }
        let mut t = usize::MAX;
        let mut best = f64::INFINITY;
        for j in 0..m {
            if rb[j] > 0 && dist[n + j] < best {
                best = dist[n + j];
                t = n + j;
            }
        }
        assert!(t != usize::MAX, "exact_ot: no augmenting path (supplies do not balance)");
        let dmax = dist.iter().cloned().filter(|d| d.is_finite()).fold(0.0, f64::max);
        for w in 0..v {
            pi[w] += if dist[w].is_finite() { dist[w] } else { dmax };
        }
        // bottleneck
        let mut cap = rb[t - n];
        let mut w = t;
        while prev[w] != usize::MAX {
            let u = prev[w];
            if u >= n {
                cap = cap.min(flow[w][u - n]); // backward edge sink u -> source w
            }
            w = u;
        }
        cap = cap.min(ra[w]);
        let src = w;
        let mut w = t;
        while prev[w] != usize::MAX {
            let u = prev[w];
            if u < n {
                flow[u][w - n] += cap;
            } else {
                flow[w][u - n] -= cap;
            }
            w = u;
        }
        ra[src] -= cap;
        rb[t - n] -= cap;
    }
    assert!(rb.iter().all(|&x| x == 0));
    let mut primal = 0.0;
    for i in 0..n {
        let mut row = 0;
        for j in 0..m {
            assert!(flow[i][j] >= 0);
            row += flow[i][j];
            primal += flow[i][j] as f64 * c[i][j];
        }
        assert!(row == a[i]);
    }
    for j in 0..m {
        assert!((0..n).map(|i| flow[i][j]).sum::<i64>() == b[j]);
    }
    // dual: alpha_i = -pi_i, beta_j = min_i (c_ij - alpha_i)  (feasible by construction)
    let alpha: Vec<f64> = (0..n).map(|i| -pi[i]).collect();
    let mut dual = 0.0;
    for i in 0..n {
        dual += a[i] as f64 * alpha[i];
    }
    for j in 0..m {
        let beta = (0..n).map(|i| c[i][j] - alpha[i]).fold(f64::INFINITY, f64::min);
        dual += b[j] as f64 * beta;
    }
    (primal, dual)
}

/// OT between two histograms under ground cost `d`, as a probability-normalised cost; (primal, dual)
fn ot_hist(mu: &Histogram, nu: &Histogram, d: &dyn Fn(&Abstraction, &Abstraction) -> f64) -> (f64, f64) {
    let cm = mu.verif_counts();
    let cn = nu.verif_counts();
    let (mm, mn) = (mu.verif_mass() as i64, nu.verif_mass() as i64);
    let a: Vec<i64> = cm.iter().map(|(_, c)| *c as i64 * mn).collect();
    let b: Vec<i64> = cn.iter().map(|(_, c)| *c as i64 * mm).collect();
    let c: Vec<Vec<f64>> = cm.iter().map(|(x, _)| cn.iter().map(|(y, _)| d(x, y)).collect()).collect();
    let (p, q) = exact_ot(&a, &b, &c);
    let s = (mm * mn) as f64;
    (p / s, q / s)
}

fn gen_counts(rng: &mut Rng, n: usize) -> (Vec<usize>, &'static str) {
    match rng.below(5) {
        0 => (vec![1 + rng.below(4) as usize; n], "uniform"),
        1 => {
            let r = 0.5 + 0.45 * rng.unit();
            ((0..n).map(|i| ((2000.0 * r.powi(i as i32)) as usize).max(1)).collect(), "geometric")
        }
        2 => {
            let mut v = vec![1usize; n];
            let k = rng.below(n as u64) as usize;
            v[k] = 500 + rng.below(5000) as usize;
            (v, "dominant")
        }
        3 => ((0..n).map(|_| 1 + rng.below(60) as usize).collect(), "random"),
        _ => ((0..n).map(|_| if rng.chance(1, 4) { 100 + rng.below(400) as usize } else { 1 + rng.below(3) as usize }).collect(), "bimodal"),
    }
}
fn pick(rng: &mut Rng, universe: &[Abstraction], n: usize) -> Vec<Abstraction> {
    let mut pool = universe.to_vec();
    let mut out = vec![];
    for _ in 0..n.min(pool.len()) {
        let i = rng.below(pool.len() as u64) as usize;
        out.push(pool.swap_remove(i));
    }
    out
}
fn build_hist(support: &[Abstraction], counts: &[usize]) -> Histogram {
    let mut v = vec![];
    for (a, c) in support.iter().zip(counts.iter()) {
        for _ in 0..*c {
            v.push(*a);
        }
    }
    Histogram::from(v)
}
fn gen_hist(rng: &mut Rng, universe: &[Abstraction], n: usize) -> (Histogram, &'static str) {
    let sup = pick(rng, universe, n);
    let (cs, kind) = gen_counts(rng, sup.len());
    (build_hist(&sup, &cs), kind)
}

/// raw pair distances over a universe of learned abstractions
fn gen_metric(rng: &mut Rng, universe: &[Abstraction]) -> (BTreeMap<Pair, f32>, &'static str, usize) {
    let u = universe.len();
    let kind = rng.below(6);
    let pts: Vec<(f64, f64)> = (0..u).map(|_| (rng.unit(), rng.unit())).collect();
    let cl: Vec<u64> = (0..u).map(|_| rng.below(3)).collect();
    let special = (rng.below(u as u64) as usize, rng.below(u as u64) as usize);
    let mut map = BTreeMap::new();
    let mut pairs = 0;
    for i in 0..u {
        for j in 0..i {
            let d: f64 = match kind {
                0 => ((pts[i].0 - pts[j].0).powi(2) + (pts[i].1 - pts[j].1).powi(2)).sqrt(),
                1 => (pts[i].0 - pts[j].0).abs(),
                2 => rng.unit(),
                3 => if cl[i] == cl[j] { 1e-6 * (1.0 + rng.unit()) } else { 0.9 + 0.1 * rng.unit() },
                4 => 1.0,
                _ => if (i, j) == special || (j, i) == special { 1.0 } else { 1e-5 * (1.0 + rng.unit()) },
            };
            pairs += 1;
            map.insert(Pair::from((&universe[i], &universe[j])), d as f32 * 3.7);
        }
    }
    let name = ["euclid2d", "line", "random-symmetric", "clustered-degenerate", "discrete", "one-far-pair"][kind as usize];
    (map, name, pairs)
}

struct SkOut {
    lhs: Vec<f32>,
    rhs: Vec<f32>,
    cost: f32,
    /// the plan on (support of mu) x (support of nu); a bucket the solver holds no potential for has no
    /// plan entries: its row / column is zero
    plan: Vec<Vec<f32>>,
    /// which buckets of the two supports the solver's potentials actually cover
    lpresent: Vec<bool>,
    rpresent: Vec<bool>,
}
fn run_sinkhorn(mu: &Histogram, nu: &Histogram, metric: &Metric) -> Option<SkOut> {
    run_sinkhorn_n(mu, nu, metric, 1)
}
/// `minimize()` applied `reps` times to the same coupling
fn run_sinkhorn_n(mu: &Histogram, nu: &Histogram, metric: &Metric, reps: usize) -> Option<SkOut> {
    catch(AssertUnwindSafe(|| {
        let mut sk = Sinkhorn::from((mu, nu, metric));
        for _ in 0..reps { sk = sk.minimize(); }
        let l = sk.verif_lhs();
        let r = sk.verif_rhs();
        let xs: Vec<Abstraction> = mu.verif_counts().iter().map(|e| e.0).collect();
        let ys: Vec<Abstraction> = nu.verif_counts().iter().map(|e| e.0).collect();
        let lpresent: Vec<bool> = xs.iter().map(|x| l.iter().any(|e| e.0 == *x)).collect();
        let rpresent: Vec<bool> = ys.iter().map(|y| r.iter().any(|e| e.0 == *y)).collect();
        let plan = xs.iter().enumerate().map(|(i, x)| ys.iter().enumerate().map(|(j, y)| {
            if lpresent[i] && rpresent[j] { sk.verif_coupling(x, y) } else { 0.0 }
        }).collect()).collect();
        let cost = sk.cost();
        SkOut { lhs: l.iter().map(|e| e.1).collect(), rhs: r.iter().map(|e| e.1).collect(), cost, plan, lpresent, rpresent }
    }))
}

fn sk_case(run: &mut Run, tag: &str, mu: &Histogram, nu: &Histogram, metric: &Metric, do_ot: bool) {
    sk_case_n(run, tag, mu, nu, metric, do_ot, 1)
}
fn sk_case_n(run: &mut Run, tag: &str, mu: &Histogram, nu: &Histogram, metric: &Metric, do_ot: bool, reps: usize) {
    run.evaluations += 1;
    let op = if reps == 1 { format!("sk {} {} {}", hist_str(mu), hist_str(nu), metric_str(metric)) } else { format!("skn {reps} {} {} {}", hist_str(mu), hist_str(nu), metric_str(metric)) };
    let (n, m) = (mu.n(), nu.n());
    let short = format!("sinkhorn[{tag}]{} mu={} nu={}", if reps > 1 { format!(" minimize() x{reps}") } else { String::new() }, hist_str(mu), hist_str(nu));
    let out = match run_sinkhorn_n(mu, nu, metric, reps) {
        None => {
            run.line(&op, "panic");
            run.fail("sinkhorn-panics", &short, "a plan", "panic");
            return;
        }
        Some(o) => o,
    };
    // column sums in f32, in the order the model adds them
    let cols32: Vec<f32> = (0..m).filter(|j| out.rpresent[*j])
        .map(|j| out.plan.iter().enumerate().filter(|(i, _)| out.lpresent[*i]).map(|(_, r)| r[j]).sum::<f32>()).collect();
    let mut ans = String::from("ok L");
    for v in &out.lhs { ans.push(' '); ans.push_str(&fl(*v)); }
    ans.push_str(" R");
    for v in &out.rhs { ans.push(' '); ans.push_str(&fl(*v)); }
    let _ = write!(ans, " C {} S", fl(out.cost));
    for v in &cols32 { ans.push(' '); ans.push_str(&fl(*v)); }
    if n * m <= 256 {
        ans.push_str(" P");
        for (i, r) in out.plan.iter().enumerate() { for (j, v) in r.iter().enumerate() { if out.lpresent[i] && out.rpresent[j] { ans.push(' '); ans.push_str(&fl(*v)); } } }
    }
    run.line(&op, &ans);
    run.count(&format!("sk:{}", tag.split('/').next().unwrap()));
    run.count(&format!("sk-support={}", match n.max(m) { 1 => "1", 2..=5 => "2-5", 6..=20 => "6-20", 21..=50 => "21-50", _ => "51-100" }));
    if n > 1 || m > 1 {
        run.distinct(&op);
    }
    // ---- search oracle
    run.spec_checked += 1;
    let dm = dens(mu);
    let dn = dens(nu);
    if let Some(j) = out.rpresent.iter().position(|p| !p) {
        run.fail("sinkhorn-target-bucket-without-column", &short, &format!("a column for every target bucket (bucket {j} holds {} of the mass)", dn[j].1), "the plan has no column for it");
    }
    if let Some(i) = out.lpresent.iter().position(|p| !p) {
        run.fail("sinkhorn-source-bucket-without-row", &short, &format!("a row for every source bucket (bucket {i} holds {} of the mass)", dm[i].1), "the plan has no row for it");
    }
    let mut total = 0f64;
    let mut neg = false;
    for r in &out.plan { for &v in r { if !(v >= 0.0) || !v.is_finite() { neg = true; } total += v as f64; } }
    if neg {
        run.fail("sinkhorn-plan-negative-or-nonfinite", &short, "P(x,y) >= 0 finite", "an entry is negative/NaN/inf");
    }
    if (total - 1.0).abs() > 2e-4 {
        run.fail("sinkhorn-total-mass", &short, "total mass 1", &format!("{total}"));
    }
    for j in 0..m {
        let cs: f64 = out.plan.iter().map(|r| r[j] as f64).sum();
        if (cs - dn[j].1).abs() > 2e-4 * dn[j].1 + 1e-7 {
            run.fail("sinkhorn-column-sum", &short, &format!("column {j} sums to nu = {}", dn[j].1), &format!("{cs}"));
        }
    }
    let rows: Vec<f64> = out.plan.iter().map(|r| r.iter().map(|&v| v as f64).sum()).collect();
    let mis: f64 = 0.5 * rows.iter().zip(dm.iter()).map(|(r, (_, p))| (r - p).abs()).sum::<f64>();
    let hmu = entropy(&dm.iter().map(|e| e.1).collect::<Vec<_>>());
    let hnu = entropy(&dn.iter().map(|e| e.1).collect::<Vec<_>>());
    let hrows = entropy(&rows);
    let allow = T * hmu.min(hnu);
    run.count(&format!("sk-misplaced={}", if mis < 1e-4 { "<1e-4" } else if mis < 1e-3 { "<1e-3" } else if mis < 1e-2 { "<1e-2" } else { ">=1e-2" }));
    // cost recomputed in f64 from the plan must agree with cost()
    let mut c64 = 0f64;
    for (i, (x, _)) in dm.iter().enumerate() { for (j, (y, _)) in dn.iter().enumerate() { c64 += out.plan[i][j] as f64 * metric.distance(x, y) as f64; } }
    if (c64 - out.cost as f64).abs() > 1e-4 {
        run.fail("sinkhorn-cost-not-plan-cost", &short, &format!("sum P*d = {c64}"), &format!("{}", out.cost));
    }
    if do_ot {
        let (p, q) = ot_hist(mu, nu, &|x, y| metric.distance(x, y) as f64);
        if p - q > 1e-7 {
            run.fail("oracle-self-check", &short, "primal = dual", &format!("primal {p} dual {q}"));
        }
        run.spec_checked += 1;
        let tol = 1e-4;
        let c = out.cost as f64;
        if c < q - mis - tol {
            run.fail("sinkhorn-cost-below-band", &short, &format!(">= OT - misplaced = {} - {}", q, mis), &format!("{c}"));
        }
        if c > p + mis + allow + tol {
            let alt = T * hrows.min(hnu);
            let class = if c > p + mis + alt + tol { "sinkhorn-cost-above-band" } else { "sinkhorn-cost-above-band-with-input-entropy-only" };
            run.fail(class, &short, &format!("<= OT + misplaced + T*min(H) = {} + {} + {}", p, mis, allow), &format!("{c}"));
        }
        run.count("sk-with-exact-ot");
    }
}

fn main() {
    let a = args();
    let mut rng = Rng::new(a.seed);
    let mut run = Run::new(&a.out);
    quiet_panics();
    let deep = a.thorough();

    // ---- std facts the model relies on: min_by returns the first minimum
    {
        let v = [(0usize, 1.0f32), (1, 0.5), (2, 0.5), (3, 0.7)];
        let r = v.iter().min_by(|a, b| a.1.partial_cmp(&b.1).unwrap()).unwrap();
        run.spec_checked += 1;
        if r.0 != 1 {
            run.fail("std-min_by-not-first", "[1.0,0.5,0.5,0.7]", "index 1", &format!("{}", r.0));
        }
    }

    // ---- abstraction layout, exhaustively over index 0..4096 and the four streets
    for (s, street) in [Street::Pref, Street::Flop, Street::Turn, Street::Rive].iter().enumerate() {
        for i in 0..4096usize {
            let ab = Abstraction::from((*street, i));
            run.evaluations += 1;
            run.line(&format!("abs {s} {i}"), &format!("{}", code(&ab)));
            run.spec_checked += 1;
            if ab.street() != *street || ab.index() != i {
                run.fail("abstraction-layout", &format!("({s},{i})"), "street/index round trip", &format!("{:?} {}", ab.street(), ab.index()));
            }
        }
    }
    run.count_n("abs-exhaustive", 4 * 4096);

    let flop: Vec<Abstraction> = (0..256).map(|i| Abstraction::from((Street::Flop, i))).collect();
    let turn: Vec<Abstraction> = (0..256).map(|i| Abstraction::from((Street::Turn, i))).collect();
    let river: Vec<Abstraction> = (0..=100).map(|i| Abstraction::from((Street::Rive, i))).collect();

    // ---- Histogram::from(Vec) ordering / counts
    for _ in 0..(if deep { 2000 } else { 300 }) {
        let uni = [&flop, &turn, &river][rng.below(3) as usize];
        let n = 1 + rng.below(60) as usize;
        let v: Vec<Abstraction> = (0..n).map(|_| uni[rng.below(uni.len().min(12 + n) as u64) as usize]).collect();
        let h = Histogram::from(v.clone());
        let op = format!("hist {} {}", n, v.iter().map(|a| code(a).to_string()).collect::<Vec<_>>().join(" "));
        let cs = h.verif_counts();
        let ans = format!("{} {}{}", h.verif_mass(), cs.len(), cs.iter().map(|(a, c)| format!(" {} {}", code(a), c)).collect::<String>());
        run.evaluations += 1;
        run.line(&op, &ans);
        run.spec_checked += 1;
        let mut want: BTreeMap<Abstraction, usize> = BTreeMap::new();
        for x in &v { *want.entry(*x).or_default() += 1; }
        if h.verif_mass() != n || cs != want.into_iter().collect::<Vec<_>>() {
            run.fail("histogram-from-vec", &op, "multiset counts", &ans);
        }
        run.distinct(&op);
    }
    run.count("hist");

    // ---- equity distance between river buckets
    for _ in 0..200 {
        let (i, j) = (rng.below(101) as usize, rng.below(101) as usize);
        let d = Equity.distance(&river[i], &river[j]);
        run.evaluations += 1;
        run.line(&format!("edist {} {}", code(&river[i]), code(&river[j])), &fl(d));
        run.spec_checked += 1;
        let want = (i as f64 - j as f64).abs() / 100.0;
        if (d as f64 - want).abs() > 1e-6 {
            run.fail("equity-ground-distance", &format!("{i} {j}"), &format!("{want}"), &format!("{d}"));
        }
    }

    // ---- degenerate shapes, always present
    degenerate_suite(&mut run, &mut rng);
    stateful_suite(&mut run, &mut rng, if deep { 40 } else { 6 });
    maxsize_suite(&mut run, &mut rng, deep);
    centroid_suite(&mut run, &mut rng, deep);

    // ---- Sinkhorn on learned abstractions with generated metrics
    let n_metrics = if deep { 120 } else { 24 };
    let per_metric = if deep { 14 } else { 7 };
    let mut big_left = if deep { 40 } else { 4 };
    for mi in 0..n_metrics {
        let usize_ = match mi % 4 { 0 => 4 + rng.below(8) as usize, 1 => 12 + rng.below(20) as usize, 2 => 30 + rng.below(40) as usize, _ => 100 + rng.below(60) as usize };
        let base = if rng.chance(1, 2) { &flop } else { &turn };
        let universe = pick(&mut rng, base, usize_);
        let (raw, mkind, pairs) = gen_metric(&mut rng, &universe);
        if raw.len() != pairs {
            run.notes.push(format!("pair-key collision inside a generated universe of {} abstractions ({} keys for {} pairs)", usize_, raw.len(), pairs));
        }
        // Metric::from normalisation
        {
            let entries: Vec<(Pair, f32)> = raw.iter().map(|(p, d)| (*p, *d)).collect();
            let m = Metric::from(raw.clone());
            let mut op = format!("mnorm {}", entries.len());
            for (p, d) in &entries { let _ = write!(op, " {} {}", i64::from(*p) as u64, d.to_bits()); }
            let es = m.verif_entries();
            let mut ans = format!("{}", es.len());
            for (p, d) in &es { let _ = write!(ans, " {} {}", i64::from(*p) as u64, fl(*d)); }
            run.evaluations += 1;
            run.line(&op, &ans);
            run.spec_checked += 1;
            let mx = es.iter().map(|e| e.1).fold(0f32, f32::max);
            if es.iter().any(|e| !(e.1 >= 0.0 && e.1 <= 1.0)) || (mx - 1.0).abs() > 1e-6 {
                run.fail("metric-not-normalised", &format!("metric {mkind} over {usize_}"), "values in [0,1], max 1", &format!("max {mx}"));
            }
            run.distinct(&op);
        }
        let metric = Metric::from(raw);
        for ci in 0..per_metric {
            let cap = universe.len().min(100);
            let (n, m) = match ci % 7 {
                0 => (1, 1 + rng.below(cap as u64) as usize),
                1 => (1 + rng.below(cap as u64) as usize, 1),
                2 => (1 + rng.below(cap.min(6) as u64) as usize, 1 + rng.below(cap.min(6) as u64) as usize),
                3 | 4 => (1 + rng.below(cap.min(25) as u64) as usize, 1 + rng.below(cap.min(25) as u64) as usize),
                5 => (1 + rng.below(cap as u64) as usize, 1 + rng.below(cap as u64) as usize),
                _ => (cap, cap),
            };
            if n * m > 2500 {
                if big_left == 0 { continue; }
                big_left -= 1;
            }
            let (mu, k1) = gen_hist(&mut rng, &universe, n);
            let (nu, k2) = gen_hist(&mut rng, &universe, m);
            let tag = format!("{mkind}/{k1}-{k2}");
            sk_case(&mut run, &tag, &mu, &nu, &metric, true);
            if n * m <= 900 {
                emd_case(&mut run, "learned-generated", &mu, &nu, &metric);
            }
            if ci % 3 == 0 {
                // self distance: within misplaced + T*H of zero
                let out = run_sinkhorn(&mu, &mu, &metric);
                sk_case(&mut run, &format!("{mkind}/self-{k1}"), &mu, &mu, &metric, false);
                run.spec_checked += 1;
                if let Some(o) = out {
                    let dm = dens(&mu);
                    let rows: Vec<f64> = o.plan.iter().map(|r| r.iter().map(|&v| v as f64).sum()).collect();
                    let mis: f64 = 0.5 * rows.iter().zip(dm.iter()).map(|(r, (_, p))| (r - p).abs()).sum::<f64>();
                    let allow = T * entropy(&dm.iter().map(|e| e.1).collect::<Vec<_>>());
                    if o.cost as f64 > mis + allow + 1e-4 || (o.cost as f64) < -1e-6 {
                        run.fail("sinkhorn-self-distance", &format!("self[{tag}] {}", hist_str(&mu)), &format!("within misplaced + T*H = {} + {}", mis, allow), &format!("{}", o.cost));
                    }
                }
            }
        }
        // ---- greedy plan on the same metric
        for gi in 0..(if deep { 8 } else { 4 }) {
            let cap = universe.len().min(100);
            let n = 1 + rng.below(cap.min(30) as u64) as usize;
            let m = 1 + rng.below(cap.min(30) as u64) as usize;
            let disjoint = gi % 2 == 0 && n + m <= universe.len();
            let (src, tgt) = if disjoint {
                let both = pick(&mut rng, &universe, n + m);
                let (c1, _) = gen_counts(&mut rng, n);
                let (c2, _) = gen_counts(&mut rng, m);
                (build_hist(&both[..n], &c1), build_hist(&both[n..], &c2))
            } else {
                (gen_hist(&mut rng, &universe, n).0, gen_hist(&mut rng, &universe, m).0)
            };
            greedy_case(&mut run, mkind, &src, &tgt, &metric, disjoint);
            greedy_case_n(&mut run, mkind, &src, &tgt, &metric, disjoint, 2 + gi % 2);
            if gi == 0 { sk_case_n(&mut run, &format!("{mkind}/repeat"), &src, &tgt, &metric, true, 2); }
        }
    }

    // ---- Sinkhorn directly on river abstractions (ground distance |i-j|/100)
    for _ in 0..(if deep { 40 } else { 8 }) {
        let n = 1 + rng.below(30) as usize;
        let m = 1 + rng.below(30) as usize;
        let (mu, k1) = gen_hist(&mut rng, &river, n);
        let (nu, k2) = gen_hist(&mut rng, &river, m);
        sk_case(&mut run, &format!("river-1d/{k1}-{k2}"), &mu, &nu, &Metric::default(), true);
    }

    // ---- Equity::variation
    let n_eq = if deep { 4000 } else { 600 };
    let mut pool: Vec<Histogram> = vec![];
    for i in 0..n_eq {
        let n = match i % 5 { 0 => 1, 1 => 1 + rng.below(5) as usize, 2 => 100 + rng.below(2) as usize, _ => 1 + rng.below(100) as usize };
        let (h, _) = if i % 11 == 3 {
            // contiguous block of buckets (typical equity histogram)
            let lo = rng.below(101 - n.min(100) as u64 + 1) as usize;
            let sup: Vec<Abstraction> = (lo..(lo + n).min(101)).map(|k| river[k]).collect();
            let (cs, k) = gen_counts(&mut rng, sup.len());
            (build_hist(&sup, &cs), k)
        } else {
            gen_hist(&mut rng, &river, n)
        };
        pool.push(h);
    }
    let pdf = |h: &Histogram| -> Vec<f64> {
        let m = h.verif_mass() as f64;
        let mut v = vec![0f64; 101];
        for (a, c) in h.verif_counts() { v[a.index()] += c as f64 / m; }
        v
    };
    let w1 = |x: &Histogram, y: &Histogram| -> f64 {
        let (p, q) = (pdf(x), pdf(y));
        let (mut fx, mut fy, mut s) = (0f64, 0f64, 0f64);
        for i in 0..100 { fx += p[i]; fy += q[i]; s += (fx - fy).abs(); }
        s / 100.0
    };
    let same_dist = |x: &Histogram, y: &Histogram| -> bool {
        // equal as exact rationals
        let (cx, cy) = (x.verif_counts(), y.verif_counts());
        let (mx, my) = (x.verif_mass() as u128, y.verif_mass() as u128);
        cx.len() == cy.len() && cx.iter().zip(cy.iter()).all(|((a, c), (b, d))| a == b && *c as u128 * my == *d as u128 * mx)
    };
    for i in 0..pool.len() {
        let x = &pool[i];
        let y = &pool[(i * 7 + 3) % pool.len()];
        let z = &pool[(i * 13 + 5) % pool.len()];
        if i % 4 == 0 {
            emd_case(&mut run, "percent-generated", x, y, &Metric::default());
        }
        let v = Equity::variation(x, y);
        run.evaluations += 1;
        let op = format!("var {} {}", hist_str(x), hist_str(y));
        run.line(&op, &fl(v));
        run.distinct(&op);
        run.count(&format!("var-support={}", match x.n() { 1 => "1", 2..=5 => "2-5", 6..=50 => "6-50", _ => "51-101" }));
        run.spec_checked += 1;
        let want = w1(x, y) * 100.0 / 101.0;
        if (v as f64 - want).abs() > 2e-6 + 1e-5 * want {
            run.fail("equity-distance-not-w1", &op, &format!("W1*100/101 = {want}"), &format!("{v}"));
        }
        let vyx = Equity::variation(y, x);
        if v.to_bits() != vyx.to_bits() {
            run.fail("equity-distance-asymmetric", &op, &format!("{v}"), &format!("{vyx}"));
        }
        let vxx = Equity::variation(x, x);
        if vxx != 0.0 {
            run.fail("equity-self-distance-nonzero", &hist_str(x), "0", &format!("{vxx}"));
        }
        if (v == 0.0) != same_dist(x, y) {
            run.fail("equity-zero-iff-equal", &op, &format!("zero iff equal (equal = {})", same_dist(x, y)), &format!("{v}"));
        }
        let (vyz, vxz) = (Equity::variation(y, z), Equity::variation(x, z));
        if vxz as f64 > v as f64 + vyz as f64 + 1e-6 {
            run.fail("equity-triangle", &format!("{op} / z={}", hist_str(z)), &format!("d(x,z) <= {} + {}", v, vyz), &format!("{vxz}"));
        }
        // the same distribution with scaled counts is at distance zero
        if i % 9 == 0 {
            let k = 2 + rng.below(3) as usize;
            let sup: Vec<Abstraction> = x.verif_counts().iter().map(|e| e.0).collect();
            let cs: Vec<usize> = x.verif_counts().iter().map(|e| e.1 * k).collect();
            let x2 = build_hist(&sup, &cs);
            let v2 = Equity::variation(x, &x2);
            run.evaluations += 1;
            run.line(&format!("var {} {}", hist_str(x), hist_str(&x2)), &fl(v2));
            run.spec_checked += 1;
            if v2 != 0.0 {
                run.fail("equity-zero-iff-equal", &format!("{} vs counts x{k}", hist_str(x)), "0", &format!("{v2}"));
            }
        }
        // exact solver on the 1-D ground distance: cross-check of the solver and of W1
        if i % (if deep { 10 } else { 25 }) == 0 {
            let (p, q) = ot_hist(x, y, &|a, b| (a.index() as f64 - b.index() as f64).abs() / 100.0);
            run.spec_checked += 1;
            let w = w1(x, y);
            if (p - w).abs() > 1e-9 || (q - w).abs() > 1e-9 {
                run.fail("oracle-self-check", &op, &format!("CDF formula {w}"), &format!("solver primal {p} dual {q}"));
            }
            run.count("ot-solver-crosscheck-1d");
        }
    }

    run.rule = format!(
        "centroid-like histograms (mass 1e3..1e6, 20..100 buckets, geometric / power-law / few-heavy-many-single tails; as source, as target, centroid vs centroid; Percent and Learned); minimize() applied 2 and 3 times to the same Heuristic / Sinkhorn coupling (same feasible answer each time, judged by the full oracle); mutate-then-re-measure sequences on the same Histogram objects (emd, absorb, emd; clone then absorb; increment/set between measurements; triangle through an absorbed histogram) for Percent and Learned; supports at the real maxima (129..144 turn buckets as source and target, 101 equity buckets); degenerate suite in every tier (point masses incl. buckets 0/50/100 and mass 1 vs 46, 1-vs-1, 1-vs-many, identical, far-apart disjoint blocks; all ordered pairs and all triples) through Metric::emd, Equity::variation, Sinkhorn and the greedy plan; {} generated metrics (Euclidean 2-D, line, random symmetric, clustered nearly-degenerate, discrete, one-far-pair) over 4..160 learned abstractions, each with {} Sinkhorn instances (support sizes 1..100; uniform/geometric/dominant/random/bimodal masses; every third also as a self-distance) and greedy instances (half with disjoint supports); Sinkhorn on river buckets; {} equity histogram triples (supports 1..101); exhaustive abstraction layout 4x4096; Histogram::from ordering. Exact OT (f64 min-cost flow, dual-certified) on every Sinkhorn/greedy instance. distinct = distinct op lines with support > 1",
        n_metrics, per_metric, n_eq);
    run.finish();
}

/// the real `Metric::emd` entry point (what `Layer` calls), for Percent and Learned histograms
fn emd_case(run: &mut Run, tag: &str, x: &Histogram, y: &Histogram, metric: &Metric) -> Option<f32> {
    run.evaluations += 1;
    let op = format!("emd {} {} {}", hist_str(x), hist_str(y), metric_str(metric));
    let short = format!("Metric::emd[{tag}] x={} y={}", hist_str(x), hist_str(y));
    let got = catch(AssertUnwindSafe(|| metric.emd(x, y)));
    run.line(&op, &match got { Some(v) => fl(v), None => "panic".into() });
    run.distinct(&op);
    run.count(&format!("emd:{tag}"));
    run.spec_checked += 1;
    let v = match got {
        None => { run.fail("emd-panics", &short, "a distance", "panic"); return None; }
        Some(v) => v,
    };
    let percent = matches!(x.verif_counts()[0].0, Abstraction::Percent(_));
    if percent {
        // exact 1-D Wasserstein distance on the 0..100 grid, times 100/101
        let pdf = |h: &Histogram| -> Vec<f64> {
            let m = h.verif_mass() as f64;
            let mut v = vec![0f64; 101];
            for (a, c) in h.verif_counts() { v[a.index()] += c as f64 / m; }
            v
        };
        let (p, q) = (pdf(x), pdf(y));
        let (mut fx, mut fy, mut w) = (0f64, 0f64, 0f64);
        for i in 0..100 { fx += p[i]; fy += q[i]; w += (fx - fy).abs(); }
        let want = w / 100.0 * 100.0 / 101.0;
        if (v as f64 - want).abs() > 2e-6 + 1e-5 * want {
            run.fail("emd-equity-not-w1", &short, &format!("W1*100/101 = {want}"), &format!("{v}"));
        }
    } else {
        // cost of the Sinkhorn plan: inside the band around the exact optimum
        if let Some(o) = run_sinkhorn(x, y, metric) {
            let dm = dens(x);
            let dn = dens(y);
            let rows: Vec<f64> = o.plan.iter().map(|r| r.iter().map(|&v| v as f64).sum()).collect();
            let mis: f64 = 0.5 * rows.iter().zip(dm.iter()).map(|(r, (_, p))| (r - p).abs()).sum::<f64>();
            let allow = T * entropy(&dm.iter().map(|e| e.1).collect::<Vec<_>>()).min(entropy(&dn.iter().map(|e| e.1).collect::<Vec<_>>()));
            let (pr, du) = ot_hist(x, y, &|a, b| metric.distance(a, b) as f64);
            if pr - du > 1e-7 { run.fail("oracle-self-check", &short, "primal = dual", &format!("primal {pr} dual {du}")); }
            let c = v as f64;
            if c < du - mis - 1e-4 || c > pr + mis + allow + 1e-4 {
                run.fail("emd-learned-outside-band", &short, &format!("[{} - {mis}, {} + {mis} + {allow}]", du, pr), &format!("{c}"));
            }
        }
    }
    Some(v)
}

/// measure, mutate the SAME histogram object, measure again: the distance must be that of the
/// histogram's current contents (no dependence on earlier calls), for absorb / clone / increment / set
fn stateful_suite(run: &mut Run, rng: &mut Rng, rounds: usize) {
    let river: Vec<Abstraction> = (0..=100).map(|i| Abstraction::from((Street::Rive, i))).collect();
    let turn: Vec<Abstraction> = (0..16).map(|i| Abstraction::from((Street::Turn, i * 5 + 2))).collect();
    let mut raw = BTreeMap::new();
    for i in 0..16usize { for j in 0..i { raw.insert(Pair::from((&turn[i], &turn[j])), (i - j) as f32); } }
    let line = Metric::from(raw);
    let none = Metric::default();
    for r in 0..rounds {
        for learned in [false, true] {
            let (uni, metric, tag): (&Vec<Abstraction>, &Metric, &str) = if learned { (&turn, &line, "stateful-learned") } else { (&river, &none, "stateful-percent") };
            let u = uni.len();
            let blk = |rng: &mut Rng, lo: usize, w: usize| -> Histogram {
                let sup: Vec<Abstraction> = (lo..(lo + w).min(u)).map(|k| uni[k]).collect();
                let cs: Vec<usize> = sup.iter().map(|_| 1 + rng.below(20) as usize).collect();
                build_hist(&sup, &cs)
            };
            let w = if learned { 3 } else { 8 };
            let lo_a = rng.below((u / 4) as u64) as usize;
            let mut a = blk(rng, lo_a, w);
            let b = { // much heavier, at the other end
                let sup: Vec<Abstraction> = (u - w..u).map(|k| uni[k]).collect();
                build_hist(&sup, &vec![30 + r; w])
            };
            let c = blk(rng, u / 2 - w / 2, w);
            // 1. measured on both sides, then absorbed into, then measured again
            emd_case(run, tag, &a, &c, metric);
            emd_case(run, tag, &c, &a, metric);
            a.absorb(&b);
            emd_case(run, tag, &a, &c, metric);
            emd_case(run, tag, &c, &a, metric);
            let fresh = { let cs = a.verif_counts(); build_hist(&cs.iter().map(|e| e.0).collect::<Vec<_>>(), &cs.iter().map(|e| e.1).collect::<Vec<_>>()) };
            let d0 = emd_case(run, tag, &a, &fresh, metric);
            run.spec_checked += 1;
            if !learned && d0 != Some(0.0) {
                run.fail("emd-after-absorb-not-zero-to-equal-copy", &format!("{} absorbed then compared with a fresh equal histogram", hist_str(&a)), "0", &format!("{d0:?}"));
            }
            // 2. clone of a measured histogram, then absorb into the clone
            let mut a2 = a.clone();
            a2.absorb(&c);
            emd_case(run, tag, &a2, &c, metric);
            emd_case(run, tag, &a, &a2, metric);
            // 3. increment / set between two measurements
            let mut a3 = c.clone();
            emd_case(run, tag, &a3, &b, metric);
            for _ in 0..(5 + r) { a3 = a3.increment(uni[rng.below(u as u64) as usize]); }
            emd_case(run, tag, &a3, &b, metric);
            emd_case(run, tag, &b, &a3, metric);
            let mut a4 = a3.clone();
            let newkey = uni.iter().find(|k| !a4.verif_counts().iter().any(|e| e.0 == **k));
            if let Some(k) = newkey { a4.set(*k, 40 + r); }
            emd_case(run, tag, &a4, &b, metric);
            // 4. triangle through a histogram that was measured and then absorbed into
            let lo = build_hist(&[uni[0]], &[10]);
            let hi = build_hist(&[uni[u - 1]], &[10]);
            let mut mid = build_hist(&[uni[0]], &[10]);
            emd_case(run, tag, &lo, &mid, metric);
            mid.absorb(&build_hist(&[uni[u - 1]], &[990]));
            let via_clone = mid.clone();
            let d = emd_case(run, tag, &lo, &hi, metric);
            for via in [&mid, &via_clone] {
                let d1 = emd_case(run, tag, &lo, via, metric);
                let d2 = emd_case(run, tag, via, &hi, metric);
                run.spec_checked += 1;
                if let (Some(d), Some(d1), Some(d2)) = (d, d1, d2) {
                    if !learned && d as f64 > d1 as f64 + d2 as f64 + 1e-6 {
                        run.fail("emd-equity-triangle", &format!("lo={} via={} hi={} (via was measured, then absorbed into)", hist_str(&lo), hist_str(via), hist_str(&hi)), &format!("d(lo,hi) <= {d1} + {d2}"), &format!("{d}"));
                    }
                }
            }
        }
    }
}

/// supports at the real maxima: 144 learned (turn) buckets on either side
fn maxsize_suite(run: &mut Run, rng: &mut Rng, deep: bool) {
    let k = Street::Turn.k();
    let turn: Vec<Abstraction> = (0..k).map(|i| Abstraction::from((Street::Turn, i))).collect();
    let pts: Vec<(f64, f64)> = (0..k).map(|_| (rng.unit(), rng.unit())).collect();
    let mut raw = BTreeMap::new();
    for i in 0..k { for j in 0..i {
        raw.insert(Pair::from((&turn[i], &turn[j])), (((pts[i].0 - pts[j].0).powi(2) + (pts[i].1 - pts[j].1).powi(2)).sqrt()) as f32);
    } }
    let metric = Metric::from(raw);
    let mut shapes: Vec<(usize, usize, bool)> = vec![(129, 15, true), (136, 8, true), (143, 1, true), (k, k, false), (15, k, true), (128, 20, false)];
    if deep { shapes.extend([(130, 130, false), (k, 1, true), (140, 60, false), (1, k, true), (k, k, true)]); }
    for (n, m, uniform) in shapes {
        let sup_x = pick(rng, &turn, n);
        let sup_y = pick(rng, &turn, m);
        let cx = if uniform { vec![1usize; n] } else { gen_counts(rng, n).0 };
        let cy = if uniform { vec![2usize; m] } else { gen_counts(rng, m).0 };
        let (mu, nu) = (build_hist(&sup_x, &cx), build_hist(&sup_y, &cy));
        sk_case(run, &format!("maxsize-{n}x{m}"), &mu, &nu, &metric, true);
    }
    // the greedy plan at full size
    let (mu, nu) = (build_hist(&turn, &gen_counts(rng, k).0), build_hist(&turn, &gen_counts(rng, k).0));
    greedy_case(run, "maxsize", &mu, &nu, &metric, false);
}

/// centroid-like histograms: mass in the thousands to millions, 20..100 buckets, geometric / power-law
/// tails down to single counts (what k-means centroids absorbed from thousands of points look like),
/// as source, as target and centroid against centroid
fn centroid_suite(run: &mut Run, rng: &mut Rng, deep: bool) {
    let turn: Vec<Abstraction> = (0..110).map(|i| Abstraction::from((Street::Turn, i))).collect();
    let river: Vec<Abstraction> = (0..=100).map(|i| Abstraction::from((Street::Rive, i))).collect();
    let pts: Vec<(f64, f64)> = (0..turn.len()).map(|_| (rng.unit(), rng.unit())).collect();
    let mut raw = BTreeMap::new();
    for i in 0..turn.len() { for j in 0..i {
        raw.insert(Pair::from((&turn[i], &turn[j])), (((pts[i].0 - pts[j].0).powi(2) + (pts[i].1 - pts[j].1).powi(2)).sqrt()) as f32);
    } }
    let metric = Metric::from(raw);
    // built the way a centroid is: absorbing parts
    let centroid = |rng: &mut Rng, uni: &[Abstraction], n: usize, top: usize, shape: usize| -> Histogram {
        let sup = pick(rng, uni, n);
        let ratio = 0.55 + 0.4 * rng.unit();
        let alpha = 1.2 + 1.5 * rng.unit();
        let counts: Vec<usize> = (0..n).map(|i| match shape % 3 {
            0 => ((top as f64) * ratio.powi(i as i32)) as usize,
            1 => ((top as f64) / ((i + 1) as f64).powf(alpha)) as usize,
            _ => if i < 3 { top } else { 1 + rng.below(3) as usize },
        }.max(1)).collect();
        let mut h = Histogram::default();
        let mut part = Histogram::default();
        for (k, (a, c)) in sup.iter().zip(counts.iter()).enumerate() {
            if k % 2 == 0 { h.set(*a, *c); } else { part.set(*a, *c); }
        }
        if part.verif_mass() > 0 { h.absorb(&part); }
        h
    };
    let point = |rng: &mut Rng, uni: &[Abstraction]| -> Histogram {
        let n = 1 + rng.below(12) as usize;
        let sup = pick(rng, uni, n);
        let mut v = vec![];
        for _ in 0..46 { v.push(sup[rng.below(n as u64) as usize]); }
        Histogram::from(v)
    };
    let rounds = if deep { 12 } else { 4 };
    for r in 0..rounds {
        let n1 = [20usize, 45, 70, 100][r % 4];
        let n2 = [100usize, 60, 30, 24][r % 4];
        let top = [2_000usize, 50_000, 400_000, 1_000_000][r % 4];
        let c1 = centroid(rng, &turn, n1, top, r);
        let c2 = centroid(rng, &turn, n2, top / 3 + 1000, r + 1);
        let p = point(rng, &turn);
        let spread = |h: &Histogram| { let cs = h.verif_counts(); let mx = cs.iter().map(|e| e.1).max().unwrap(); let mn = cs.iter().map(|e| e.1).min().unwrap(); mx / mn.max(1) };
        run.count(&format!("centroid-like-spread={}", match spread(&c1).max(spread(&c2)) { 0..=99 => "<100:1", 100..=999 => "100-999:1", 1000..=99_999 => "1e3-1e5:1", _ => ">=1e5:1" }));
        sk_case(run, "centroid-as-target", &p, &c1, &metric, true);
        sk_case(run, "centroid-as-source", &c1, &p, &metric, true);
        sk_case(run, "centroid-vs-centroid", &c1, &c2, &metric, true);
        emd_case(run, "learned-centroid", &p, &c2, &metric);
        greedy_case(run, "centroid", &c1, &c2, &metric, false);
        // equity centroids through Metric::emd
        let (ne1, ne2) = (20 + rng.below(81) as usize, 20 + rng.below(81) as usize);
        let e1 = centroid(rng, &river, ne1, top, r + 2);
        let e2 = centroid(rng, &river, ne2, top / 7 + 500, r);
        let ep = point(rng, &river);
        emd_case(run, "percent-centroid", &ep, &e1, &Metric::default());
        emd_case(run, "percent-centroid", &e1, &e2, &Metric::default());
        emd_case(run, "percent-centroid", &e2, &ep, &Metric::default());
    }
}

/// degenerate shapes that must be present in every tier, for every distance
fn degenerate_suite(run: &mut Run, rng: &mut Rng) {
    // ---------- Percent histograms through Metric::emd and Equity::variation
    let river: Vec<Abstraction> = (0..=100).map(|i| Abstraction::from((Street::Rive, i))).collect();
    let pt = |i: usize, m: usize| build_hist(&[river[i]], &[m]);
    let block = |lo: usize, hi: usize, c: usize| build_hist(&river[lo..=hi], &vec![c; hi - lo + 1]);
    let mut generic = vec![];
    for _ in 0..46 { generic.push(river[20 + rng.below(60) as usize]); }
    let named: Vec<(&str, Histogram)> = vec![
        ("point@0", pt(0, 1)), ("point@1", pt(1, 1)), ("point@50", pt(50, 1)), ("point@99", pt(99, 1)), ("point@100", pt(100, 1)),
        ("point@50x46", pt(50, 46)), ("point@0x46", pt(0, 46)),
        ("block0-5", block(0, 5, 1)), ("block95-100", block(95, 100, 1)), ("uniform0-100", block(0, 100, 1)),
        ("two-ends", build_hist(&[river[0], river[100]], &[23, 23])), ("generic46", Histogram::from(generic)),
    ];
    let none = Metric::default();
    let k = named.len();
    let mut d = vec![vec![0f32; k]; k];
    for i in 0..k {
        for j in 0..k {
            let (x, y) = (&named[i].1, &named[j].1);
            let tag = if x.n() == 1 && y.n() == 1 { "percent-1v1" } else if x.n() == 1 || y.n() == 1 { "percent-1vMany" } else { "percent-many" };
            let v = emd_case(run, tag, x, y, &none).unwrap_or(f32::NAN);
            d[i][j] = v;
            // the same pair through Equity::variation directly
            let direct = Equity::variation(x, y);
            run.evaluations += 1;
            run.line(&format!("var {} {}", hist_str(x), hist_str(y)), &fl(direct));
            run.spec_checked += 1;
            if direct.to_bits() != v.to_bits() {
                run.fail("emd-differs-from-variation", &format!("{} vs {}", named[i].0, named[j].0), &format!("{direct}"), &format!("{v}"));
            }
        }
    }
    for i in 0..k {
        run.spec_checked += 1;
        if d[i][i] != 0.0 {
            run.fail("emd-equity-self-distance-nonzero", named[i].0, "0", &format!("{}", d[i][i]));
        }
        for j in 0..k {
            let same = { // point@50 and point@50x46 are the same distribution
                let (a, b) = (&named[i].1, &named[j].1);
                let (ca, cb) = (a.verif_counts(), b.verif_counts());
                ca.len() == cb.len() && ca.iter().zip(cb.iter()).all(|((p, c), (q, e))| p == q && c * b.verif_mass() == e * a.verif_mass())
            };
            if d[i][j].to_bits() != d[j][i].to_bits() {
                run.fail("emd-equity-asymmetric", &format!("{} vs {}", named[i].0, named[j].0), &format!("{}", d[i][j]), &format!("{}", d[j][i]));
            }
            if (d[i][j] == 0.0) != same {
                run.fail("emd-equity-zero-iff-equal", &format!("{} vs {}", named[i].0, named[j].0), &format!("zero iff equal (equal = {same})"), &format!("{}", d[i][j]));
            }
            for l in 0..k {
                run.spec_checked += 1;
                if d[i][l] as f64 > d[i][j] as f64 + d[j][l] as f64 + 1e-6 {
                    run.fail("emd-equity-triangle", &format!("{} -> {} -> {}", named[i].0, named[j].0, named[l].0),
                        &format!("d(x,z) <= {} + {}", d[i][j], d[j][l]), &format!("{}", d[i][l]));
                }
            }
        }
    }
    run.count_n("emd-percent-triangle-triples", (k * k * k) as u64);
    // ---------- Learned histograms: Metric::emd, Sinkhorn (plan + band) and the greedy plan
    for (mname, street) in [("line", Street::Turn), ("discrete", Street::Flop), ("one-far-pair", Street::Flop), ("all-zero", Street::Turn), ("all-tiny", Street::Flop)] {
        let uni: Vec<Abstraction> = (0..12).map(|i| Abstraction::from((street, i * 7 + 1))).collect();
        let mut raw = BTreeMap::new();
        for i in 0..12usize {
            for j in 0..i {
                let dist: f32 = match mname {
                    "line" => (i - j) as f32,
                    "discrete" => 1.0,
                    // every centroid coincides: the normalisation divides by max(MIN_POSITIVE, 0), all distances stay 0
                    "all-zero" => 0.0,
                    // near-duplicate centroids: all distances positive and far below f32::EPSILON; still scaled to max 1
                    "all-tiny" => 1e-9 * (1 + i + j) as f32,
                    _ => if (i, j) == (11, 0) { 1.0 } else { 1e-5 * (1.0 + (i + j) as f32) },
                };
                raw.insert(Pair::from((&uni[i], &uni[j])), dist);
            }
        }
        {
            // Metric::from normalisation of this table through the model, and the range clause on its own
            let entries: Vec<(Pair, f32)> = raw.iter().map(|(p, d)| (*p, *d)).collect();
            let m = Metric::from(raw.clone());
            let mut op = format!("mnorm {}", entries.len());
            for (p, d) in &entries { let _ = write!(op, " {} {}", i64::from(*p) as u64, d.to_bits()); }
            let es = m.verif_entries();
            let mut ans = format!("{}", es.len());
            for (p, d) in &es { let _ = write!(ans, " {} {}", i64::from(*p) as u64, fl(*d)); }
            run.evaluations += 1;
            run.line(&op, &ans);
            run.spec_checked += 1;
            let mx = es.iter().map(|e| e.1).fold(0f32, f32::max);
            let want_max = if mname == "all-zero" { 0.0 } else { 1.0 };
            if es.iter().any(|e| !(e.1 >= 0.0 && e.1 <= 1.0)) || (mx - want_max).abs() > 1e-6 {
                run.fail("metric-not-normalised", &format!("degenerate metric {mname} over 12 buckets: Metric::from of {} distances", entries.len()),
                    &format!("finite values in [0,1], max {want_max}"), &format!("{:?}", es.iter().map(|e| e.1).take(4).collect::<Vec<_>>()));
            }
            run.distinct(&op);
            run.count(&format!("mnorm:degenerate-{mname}"));
        }
        let metric = Metric::from(raw);
        let pt = |i: usize, m: usize| build_hist(&[uni[i]], &[m]);
        let mut generic = vec![];
        for _ in 0..46 { generic.push(uni[rng.below(12) as usize]); }
        let named: Vec<(&str, Histogram)> = vec![
            ("point@0", pt(0, 1)), ("point@5", pt(5, 1)), ("point@11", pt(11, 1)), ("point@11x46", pt(11, 46)),
            ("block0-2", build_hist(&uni[0..3], &[1, 1, 1])), ("block9-11", build_hist(&uni[9..12], &[1, 1, 1])),
            ("uniform", build_hist(&uni, &vec![1; 12])), ("generic46", Histogram::from(generic)),
        ];
        for i in 0..named.len() {
            for j in 0..named.len() {
                let (x, y) = (&named[i].1, &named[j].1);
                let shape = if x.n() == 1 && y.n() == 1 { "1v1" } else if x.n() == 1 || y.n() == 1 { "1vMany" } else if i == j { "identical" } else { "many" };
                let tag = format!("degenerate-{mname}-{shape}");
                sk_case(run, &tag, x, y, &metric, true);
                let v = emd_case(run, &format!("learned-{shape}"), x, y, &metric);
                // the entry point must give what the direct call gives
                run.spec_checked += 1;
                let direct = catch(AssertUnwindSafe(|| Sinkhorn::from((x, y, &metric)).minimize().cost()));
                if v.map(f32::to_bits) != direct.map(f32::to_bits) {
                    run.fail("emd-differs-from-sinkhorn", &format!("{mname}: {} vs {}", named[i].0, named[j].0), &format!("{direct:?}"), &format!("{v:?}"));
                }
                let disjoint = !x.verif_counts().iter().any(|(a, _)| y.verif_counts().iter().any(|(b, _)| a == b));
                greedy_case(run, &format!("degenerate-{mname}"), x, y, &metric, disjoint);
                // minimize() again on an already minimized coupling: the same feasible answer
                for reps in [2usize, 3] {
                    greedy_case_n(run, &format!("degenerate-{mname}"), x, y, &metric, disjoint, reps);
                    if (i + j + reps) % 3 == 0 { sk_case_n(run, &tag, x, y, &metric, true, reps); }
                }
            }
        }
    }
}

fn greedy_case(run: &mut Run, mkind: &str, src: &Histogram, tgt: &Histogram, metric: &Metric, disjoint: bool) {
    greedy_case_n(run, mkind, src, tgt, metric, disjoint, 1)
}
/// `minimize()` applied `reps` times to the same coupling: the same feasible plan every time
fn greedy_case_n(run: &mut Run, mkind: &str, src: &Histogram, tgt: &Histogram, metric: &Metric, disjoint: bool, reps: usize) {
    run.evaluations += 1;
    let op = if reps == 1 { format!("greedy {} {} {}", hist_str(src), hist_str(tgt), metric_str(metric)) } else { format!("greedyn {reps} {} {} {}", hist_str(src), hist_str(tgt), metric_str(metric)) };
    let short = format!("greedy[{mkind}]{} src={} tgt={}", if reps > 1 { format!(" minimize() x{reps}") } else { String::new() }, hist_str(src), hist_str(tgt));
    let xs: Vec<Abstraction> = src.verif_counts().iter().map(|e| e.0).collect();
    let ys: Vec<Abstraction> = tgt.verif_counts().iter().map(|e| e.0).collect();
    let res = catch(AssertUnwindSafe(|| {
        let mut h = Heuristic::from((src, tgt, metric));
        for _ in 0..reps { h = h.minimize(); }
        let cost = h.cost();
        let mut plan: BTreeMap<u64, f32> = BTreeMap::new();
        let mut flows = vec![vec![None; ys.len()]; xs.len()];
        for (i, x) in xs.iter().enumerate() {
            for (j, y) in ys.iter().enumerate() {
                if let Some(f) = catch(AssertUnwindSafe(|| h.flow(x, y))) {
                    plan.insert(i64::from(Pair::from((x, y))) as u64, f);
                    flows[i][j] = Some(f);
                }
            }
        }
        (cost, plan, flows)
    }));
    let (cost, plan, flows) = match res {
        None => {
            run.line(&op, "panic");
            run.fail("greedy-panics", &short, "a plan", "panic");
            return;
        }
        Some(r) => r,
    };
    let mut ans = format!("ok C {} K {}", fl(cost), plan.len());
    for (k, v) in &plan { let _ = write!(ans, " {} {}", k, fl(*v)); }
    run.line(&op, &ans);
    run.distinct(&op);
    run.count(&format!("greedy:{mkind}{}", if disjoint { "/disjoint" } else { "" }));
    // ---- oracle
    run.spec_checked += 1;
    let (p, q) = ot_hist(src, tgt, &|x, y| metric.distance(x, y) as f64);
    if p - q > 1e-7 {
        run.fail("oracle-self-check", &short, "primal = dual", &format!("primal {p} dual {q}"));
    }
    if (cost as f64) < q - 1e-5 {
        run.fail("greedy-cost-below-optimum", &short, &format!(">= OT = {q}"), &format!("{cost}"));
    }
    if !(cost >= 0.0) || cost as f64 > 1.0 + 1e-5 {
        run.fail("greedy-cost-out-of-range", &short, "0 <= cost <= max distance", &format!("{cost}"));
    }
    let ds = dens(src);
    let dt = dens(tgt);
    // masses recovered from flow / distance where the distance is positive
    let mut rows = vec![0f64; xs.len()];
    let mut cols = vec![0f64; ys.len()];
    let mut recoverable = true;
    for i in 0..xs.len() {
        for j in 0..ys.len() {
            let d = metric.distance(&xs[i], &ys[j]) as f64;
            if let Some(f) = flows[i][j] {
                if !(f >= 0.0) { run.fail("greedy-flow-negative", &short, ">= 0", &format!("{f}")); }
                if d > 0.0 { rows[i] += f as f64 / d; cols[j] += f as f64 / d; } else if xs[i] != ys[j] { recoverable = false; }
            }
        }
    }
    if disjoint && recoverable && metric.verif_entries().iter().all(|e| e.1 > 1e-3) {
        // every move crosses a positive distance and keys are per ordered pair: the plan is observable
        run.spec_checked += 1;
        for i in 0..xs.len() {
            if (rows[i] - ds[i].1).abs() > 1e-3 * ds[i].1 + 1e-5 {
                run.fail("greedy-row-sum", &short, &format!("row {i} = mu = {}", ds[i].1), &format!("{}", rows[i]));
            }
        }
        for j in 0..ys.len() {
            if (cols[j] - dt[j].1).abs() > 1e-3 * dt[j].1 + 1e-5 {
                run.fail("greedy-column-sum", &short, &format!("column {j} = nu = {}", dt[j].1), &format!("{}", cols[j]));
            }
        }
        run.count("greedy-plan-observable");
    }
}
