// C16 — text parsers never abort and accept only valid values.
// Correspondence: every generated string is given to the real `TryFrom<&str>` impls under
// catch_unwind and printed as `parse-<type> <hex utf8>` → `ok <value>` / `err` / `panic`; every
// value's `Display` as `print-<type> <value>` → hex; the Unicode tables the parsers depend on as
// `upper|lower|ws <code point>`.
// Search oracle (independent of the Lean model): no parser ever panics; an accepted observation has
// 2 pocket cards, 0/3/4/5 board cards, no card in both; an accepted hole has 2 cards; the printed
// form of every value parses back to an equal value.
use robopoker::cards::card::Card;
use robopoker::cards::hand::Hand;
use robopoker::cards::hole::Hole;
use robopoker::cards::observation::Observation;
use robopoker::cards::street::Street;
use robopoker::clustering::abstraction::Abstraction;
use robopoker::gameplay::action::Action;
use robopoker::gameplay::ply::Turn;
use rpharness::*;

fn hex(s: &str) -> String {
    if s.is_empty() { return "-".into(); }
    s.bytes().map(|b| format!("{b:02x}")).collect()
}
fn show_action(a: &Action) -> String {
    match a {
        Action::Fold => "fold".into(),
        Action::Check => "check".into(),
        Action::Call(x) => format!("call:{x}"),
        Action::Raise(x) => format!("raise:{x}"),
        Action::Shove(x) => format!("shove:{x}"),
        Action::Blind(x) => format!("blind:{x}"),
        Action::Draw(h) => { let h = *h; format!("draw:{}", word(move || u64::from(h))) }
    }
}
/// a real accessor used only to PRINT a value: its panic is printed as the word `panic`
fn word(f: impl FnOnce() -> u64 + std::panic::UnwindSafe) -> String {
    catch(f).map(|x| x.to_string()).unwrap_or_else(|| "panic".into())
}
fn show_turn(t: &Turn) -> String {
    match t {
        Turn::Terminal => "terminal".into(),
        Turn::Chance => "chance".into(),
        Turn::Choice(n) => format!("choice:{n}"),
    }
}
fn show_abs(a: &Abstraction) -> String {
    let v = match a { Abstraction::Percent(_) => 0, Abstraction::Learned(_) => 1, Abstraction::Preflop(_) => 2 };
    let x = *a;
    format!("{}:{}", v, word(move || u64::from(x)))
}
fn street_of(n: usize) -> Street { [Street::Pref, Street::Flop, Street::Turn, Street::Rive][n] }

const TYPES: [&str; 8] = ["card", "hand", "hole", "obs", "street", "abs", "action", "turn"];

/// run one real parser on `s`; returns the canonical outcome line
fn parse(ty: &str, s: &str, run: &mut Run) -> String {
    let owned = s.to_string();
    let r: Option<Result<String, ()>> = match ty {
        "card" => catch(move || Card::try_from(owned.as_str()).map(|c| u8::from(c).to_string()).map_err(|_| ())),
        "hand" => catch(move || Hand::try_from(owned.as_str()).map(|h| u64::from(h).to_string()).map_err(|_| ())),
        "hole" => catch(move || Hole::try_from(owned.as_str()).map(|h| u64::from(Hand::from(h)).to_string()).map_err(|_| ())),
        "obs" => catch(move || Observation::try_from(owned.as_str()).map(|o| format!("{} {}", u64::from(*o.pocket()), u64::from(*o.public()))).map_err(|_| ())),
        "street" => catch(move || Street::try_from(owned.as_str()).map(|s| (s as isize).to_string()).map_err(|_| ())),
        "abs" => catch(move || Abstraction::try_from(owned.as_str()).map(|a| show_abs(&a)).map_err(|_| ())),
        "action" => catch(move || Action::try_from(owned.as_str()).map(|a| show_action(&a)).map_err(|_| ())),
        "turn" => catch(move || Turn::try_from(owned.as_str()).map(|t| show_turn(&t)).map_err(|_| ())),
        _ => unreachable!(),
    };
    run.evaluations += 1;
    run.spec_checked += 1;
    let out = match r {
        None => {
            run.fail(&format!("parser-panics:{ty}"), &format!("{ty} {:?}", s), "Ok or Err", "panic");
            "panic".to_string()
        }
        Some(Err(())) => "err".to_string(),
        Some(Ok(v)) => {
            // well-formedness of what was accepted
            match ty {
                "obs" => {
                    let mut it = v.split(' ');
                    let p: u64 = it.next().unwrap().parse().unwrap();
                    let b: u64 = it.next().unwrap().parse().unwrap();
                    let full = (1u64 << 52) - 1;
                    if p.count_ones() != 2 || ![0, 3, 4, 5].contains(&b.count_ones()) || p & b != 0 || (p | b) & !full != 0 {
                        run.fail("accepted-observation-malformed", &format!("{:?}", s), "2 pocket cards, 0/3/4/5 board cards, disjoint", &v);
                    }
                }
                "hole" => {
                    let h: u64 = v.parse().unwrap();
                    if h.count_ones() != 2 || h >> 52 != 0 { run.fail("accepted-hole-malformed", &format!("{:?}", s), "two cards", &v); }
                }
                "card" => {
                    let c: u8 = v.parse().unwrap();
                    if c >= 52 { run.fail("accepted-card-malformed", &format!("{:?}", s), "0..52", &v); }
                }
                "hand" => {
                    let h: u64 = v.parse().unwrap();
                    if h >> 52 != 0 { run.fail("accepted-hand-malformed", &format!("{:?}", s), "cards below 52", &v); }
                }
                _ => {}
            }
            format!("ok {v}")
        }
    };
    run.line(&format!("parse-{ty} {}", hex(s)), &out);
    run.count(&format!("parse-{ty}:{}", &out[..out.find(' ').unwrap_or(out.len())]));
    out
}
fn parse_all(s: &str, run: &mut Run) {
    for ty in TYPES { parse(ty, s, run); }
    run.distinct(&s.to_string());
}
/// print a value, parse the printing with its own parser, compare
fn roundtrip(ty: &str, value_op: &str, printed: Option<String>, want: &str, run: &mut Run) {
    match printed {
        None => {
            run.line(&format!("print-{ty} {value_op}"), "panic");
            run.fail(&format!("printer-panics:{ty}"), value_op, "a string", "panic");
        }
        Some(p) => {
            run.line(&format!("print-{ty} {value_op}"), &hex(&p));
            let got = parse(ty, &p, run);
            run.spec_checked += 1;
            if got != format!("ok {want}") {
                run.fail(&format!("print-parse-roundtrip:{ty}"), &format!("{value_op} printed {:?}", p), &format!("ok {want}"), &got);
            }
            run.distinct(&(ty.to_string(), value_op.to_string()));
        }
    }
    run.count(&format!("roundtrip-{ty}"));
}

fn main() {
    let a = args();
    let mut rng = Rng::new(a.seed);
    let mut run = Run::new(&a.out);
    quiet_panics();
    let deep = a.thorough();
    // the deck of this build (36 cards under --features shortdeck); values are built inside it,
    // generated STRINGS use all 52 card names in both builds
    let full: u64 = catch(|| u64::from(Hand::from(u64::MAX))).unwrap_or((1u64 << 52) - 1);
    let short = is_shortdeck();

    // ------------------------------------------------------------ Unicode tables seen by the parsers
    let ws25: Vec<char> = (0u32..=0x10FFFF).filter_map(char::from_u32).filter(|c| c.is_whitespace()).collect();
    run.spec_checked += 1;
    if ws25.len() != 25 { run.fail("white-space-count", "char::is_whitespace", "25 code points", &format!("{}", ws25.len())); }
    let specials: Vec<u32> = vec![0xdf, 0x131, 0x149, 0x17f, 0x1f0, 0x1e96, 0x1e97, 0x1e98, 0x1e99, 0x1e9a, 0xfb00, 0xfb01, 0xfb02, 0xfb03, 0xfb04, 0xfb05, 0xfb06, 0x130, 0x212a, 0x3a3, 0x3c3, 0x3c2, 0xe9, 0xc9, 0x2660, 0x2663, 0x2665, 0x2666, 0x1F600, 0x301];
    // projection: ASCII code points as they are, every maximal run of non-ASCII characters as one `128`
    let proj = |it: &mut dyn Iterator<Item = char>| {
        let mut out: Vec<String> = vec![];
        for c in it {
            let t = if (c as u32) < 128 { (c as u32).to_string() } else { "128".to_string() };
            if t == "128" && out.last().map(|x| x == "128").unwrap_or(false) { continue; }
            out.push(t);
        }
        out.join(" ")
    };
    for cp in 0u32..=0x10FFFF {
        if short { break; } // the tables do not depend on the deck: compared in the std stream only
        let pick = deep || cp < 0x3100 || specials.contains(&cp) || cp % 61 == 0 || (0xfa00..0xfc00).contains(&cp);
        if !pick { continue; }
        if let Some(c) = char::from_u32(cp) {
            run.line(&format!("upper {cp}"), &proj(&mut c.to_uppercase()));
            run.line(&format!("lower {cp}"), &proj(&mut c.to_lowercase()));
            run.line(&format!("ws {cp}"), if c.is_whitespace() { "1" } else { "0" });
            run.count_n("unicode-table-lines", 3);
        }
    }

    // ------------------------------------------------------------ print → parse round trips
    // cards: all 52
    for c in 0u8..52 {
        roundtrip("card", &c.to_string(), catch(move || Card::from(c).to_string()), &c.to_string(), &mut run);
    }
    // streets
    for s in 0..4usize {
        let st = street_of(s);
        roundtrip("street", &s.to_string(), catch(move || st.to_string()), &s.to_string(), &mut run);
    }
    // turns
    let mut turns = vec![Turn::Terminal, Turn::Chance];
    for n in 0..300usize { turns.push(Turn::Choice(n)); }
    for k in 0..64u32 { turns.push(Turn::Choice((1u64 << k) as usize)); turns.push(Turn::Choice(((1u128 << (k + 1)) - 1) as usize)); }
    for _ in 0..(if deep { 20000 } else { 2000 }) { turns.push(Turn::Choice((rng.next() >> rng.below(64)) as usize)); }
    for t in turns {
        roundtrip("turn", &show_turn(&t), catch(move || t.to_string()), &show_turn(&t), &mut run);
    }
    // abstractions: all 542 buckets, then every (street, index < 4096)
    let counts = [169usize, robopoker::verif::KMEANS_FLOP_CLUSTER_COUNT, robopoker::verif::KMEANS_TURN_CLUSTER_COUNT, robopoker::verif::KMEANS_EQTY_CLUSTER_COUNT];
    for s in 0..4usize {
        for i in 0..4096usize {
            if i >= counts[s] && !deep && i % 7 != 0 && i < 4000 { continue; }
            let ab = match catch(move || Abstraction::from((street_of(s), i))) {
                Some(ab) => ab,
                None => { run.fail("printer-panics:abs", &format!("Abstraction::from((street {s}, {i}))"), "a value", "panic"); continue; }
            };
            roundtrip("abs", &word(move || u64::from(ab)), catch(move || ab.to_string()), &show_abs(&ab), &mut run);
            if i < counts[s] { run.count("roundtrip-abs(the 542 buckets)"); }
        }
    }
    // abstraction words whose hash field is not the constructor's: printing keeps street and index only
    for _ in 0..200 {
        let n = (rng.next() & ((1 << 56) - 1)) | (rng.below(6) << 56);
        let p = catch(move || Abstraction::from(n).to_string());
        run.line(&format!("print-abs {n}"), &p.map(|x| hex(&x)).unwrap_or("panic".into()));
        run.count("print-abs(arbitrary word)");
    }
    // actions: fold, check, every i16 amount of the four chip kinds, every draw of 0..3 cards, some larger draws
    {
        let mut acts = vec![Action::Fold, Action::Check];
        for x in i16::MIN..=i16::MAX {
            if short && x.unsigned_abs() > 1500 && x.unsigned_abs() < 32700 { continue; }
            acts.push(Action::Call(x)); acts.push(Action::Raise(x)); acts.push(Action::Shove(x)); acts.push(Action::Blind(x));
        }
        let mut draw = |run: &mut Run, acts: &mut Vec<Action>, raw: u64| match catch(move || Hand::from(raw)) {
            Some(h) => acts.push(Action::Draw(h)),
            None => run.fail("printer-panics:action", &format!("Hand::from({raw}u64)"), "a value", "panic"),
        };
        draw(&mut run, &mut acts, 0);
        for x in 0..52u64 {
            draw(&mut run, &mut acts, 1u64 << x);
            for y in (x + 1)..52 {
                draw(&mut run, &mut acts, 1u64 << x | 1 << y);
                for z in (y + 1)..52 { draw(&mut run, &mut acts, 1u64 << x | 1 << y | 1 << z); }
            }
        }
        for _ in 0..2000 { let k = 4 + rng.below(49) as usize; let raw = rng.cards(k, full); draw(&mut run, &mut acts, raw); }
        for act in acts {
            roundtrip("action", &show_action(&act), catch(move || act.to_string()), &show_action(&act), &mut run);
        }
    }
    // hands / holes / observations
    {
        let nh = if deep { 100_000 } else { 20_000 };
        for i in 0..nh {
            let h = match i { 0 => 0, 1 => full, _ => { let k = rng.below(if i % 2 == 0 { 8 } else { 53 }) as usize; rng.cards(k, full) } };
            roundtrip("hand", &h.to_string(), catch(move || Hand::from(h).to_string()), &h.to_string(), &mut run);
        }
        for i in 0..52u64 {
            for j in (i + 1)..52 {
                let h = 1u64 << i | 1 << j;
                if h & !full != 0 { continue; }
                // Hole has no print op of its own in the model: its Display is the hand's
                let p = catch(move || Hole::from(Hand::from(h)).to_string());
                if let Some(p) = p {
                    let got = parse("hole", &p, &mut run);
                    run.spec_checked += 1;
                    if got != format!("ok {h}") { run.fail("print-parse-roundtrip:hole", &format!("hole {h} printed {:?}", p), &format!("ok {h}"), &got); }
                } else { run.fail("printer-panics:hole", &format!("{h}"), "a string", "panic"); }
                run.count("roundtrip-hole(all 1326)");
                // all pre-flop observations
                roundtrip("obs", &format!("{h} 0"), catch(move || Observation::from((Hand::from(h), Hand::from(0u64))).to_string()), &format!("{h} 0"), &mut run);
            }
        }
        let no = if deep { 400_000 } else { 40_000 };
        for nb in [3usize, 4, 5] {
            for _ in 0..no {
                let p = rng.cards(2, full);
                let b = rng.cards(nb, full & !p);
                roundtrip("obs", &format!("{p} {b}"), catch(move || Observation::from((Hand::from(p), Hand::from(b))).to_string()), &format!("{p} {b}"), &mut run);
            }
        }
        // observations with 1 or 2 board cards exist as values but are not printable-and-parsable: shown, not required
        for nb in [1usize, 2] {
            for _ in 0..50 {
                let p = rng.cards(2, full);
                let b = rng.cards(nb, full & !p);
                match catch(move || Observation::from((Hand::from(p), Hand::from(b))).to_string()) {
                    Some(s) => { run.line(&format!("print-obs {p} {b}"), &hex(&s)); parse("obs", &s, &mut run); }
                    None => { run.line(&format!("print-obs {p} {b}"), "panic"); run.fail("printer-panics:obs", &format!("{p} {b}"), "a string", "panic"); }
                }
                run.count("obs-with-1-or-2-board-cards(rejected by design)");
            }
        }
    }

    // ------------------------------------------------------------ hand-written corner cases → every parser
    let mut corner: Vec<String> = vec![
        "", " ", "  ", "\t", "\n", "\r\n", " \t\n ", "é", "Asé", "éAs", "Aé", "és", "A\u{301}s", "As\u{301}", "😀", "A😀", "😀s", "A♠", "a♠", "T♥", "t♦", "J♣", "♠A", "♠♠",
        "As", "as", "AS", "aS", " As ", "A s", "As Ks", "AsKs", "AsAs", "As As", "AsK", "A", "s", "1s", "0s", "10s", "Ax", "Zs",
        "AsKs ~ AsKd2c", "AsKs ~ 2c3c4c", "AsKs~2c3c4c", "AsKs ~ 2c 3c 4c", "As Ks ~ 2c3c4c", "AsKs ~ ", "AsKs ~", "AsKs", "~", " ~ ", "~ AsKs", "AsKs ~ 2c", "AsKs ~ 2c3c", "AsKs ~ 2c3c4c5c6c7c",
        "AsKs ~ 2c3c4c ~ 5c", "AsKs ~~ 2c3c4c", "AsKsQs ~ 2c3c4c", "As ~ 2c3c4c", "AsAs ~ 2c3c4c", "AsKs ~ 2c2c3c4c", "AsKs ~ KsQd2c", "AsKs ~ xx2c3c4c", "AsKs ~ 2c3c4c xx", "AsKs xx ~ 2c3c4c", "AsKsx ~ 2c3c4c",
        "asks ~ 2C3C4C", "A♠K♠ ~ 2♣3♣4♣", "AsKs\u{a0}~\u{2003}2c3c4c", "\u{3000}AsKs ~ 2c3c4c\u{3000}",
        "preflop", "flop", "turn", "river", "P", "F", "T", "R", "p", "f", "t", "r", "x", "pf", " flop", "ﬀ", "ﬁsh", "ﬂop", "ẗurn", "ẗ", "ſ", "ǰ", "ß", "ŉ", "\u{212a}", "Řiver", "ṙ",
        "P::00", "F::1a", "T::ff", "R::64", "f::1A", "F::", "::", "::1a", "F", "F:1a", "F:::1a", "F::1a::2", "F::zz", "F::-1", "F::+1a", "F:: 1a", " F::1a ", "F ::1a", "F::ffffffffffffffff", "F::10000000000000000",
        "F::0000000000000000000000001a", "F::fff", "F::1000", "ﬀ::01", "ẗ::1", "X::01", "F::é", "F::١",
        "XX", "??", "P0", "P1", "P5", "P+5", "P-1", "P-0", "P 5", " P5", "P5 ", "P", "P+", "P-", "Pé", "P٣", "PP", "p5", "X", "XXX", "?", "P18446744073709551615", "P18446744073709551616", "P99999999999999999999999", "P00000000000000000000000000005", "P0x5", "P5é",
        "FOLD", "CHECK", "fold", "Check", "check ", " fold", "FOLD 5", "CHECK x", "CALL", "CALL ", "CALL 5", "CALL  5", "call 5", "Call\t5", "CALL\u{2003}5", "CALL 5 6", "CALL x", "CALL 5x", "CALL +5", "CALL -5", "CALL -0", "CALL --5", "CALL +", "CALL -",
        "CALL 32767", "CALL 32768", "CALL -32768", "CALL -32769", "CALL 99999999999999999999", "CALL 0005", "CALL 5.0", "CALL ５", "RAISE 10", "SHOVE 100", "BLIND 1", "BLIND", "RAISE", "SHOVE", "ſhove 5", "raiſe 7", "blınd 1", "ſHOVE 5", "ﬁold", "checK", "chec\u{212a}",
        "DEAL", "DEAL ", "DEAL  AsKsQd", "DEAL As Ks Qd", "DEAL AsKs Qd", "deal as", "DEAL xx", "DEAL As xx", "DEAL AsAs", "DEAL As As", "DEAL é", "DEAL Asé", "DEAL ~", "DEAL 2c3c4c5c6c", "DEALAs", "DRAW As", "BET 5", "ALLIN",
        "\u{feff}As", "As\0", "\0", "A\u{200b}s", "As\u{85}", "\u{85}As\u{85}", "\u{1680}", "\u{2028}As\u{2029}",
    ].into_iter().map(String::from).collect();
    for w in &ws25 {
        corner.push(w.to_string());
        corner.push(format!("{w}As{w}"));
        corner.push(format!("A{w}s"));
        corner.push(format!("AsKs{w}~{w}2c3c4c"));
        corner.push(format!("CALL{w}5"));
        corner.push(format!("{w}CALL{w}{w}5{w}"));
        corner.push(format!("{w}P5"));
        corner.push(format!("P5{w}"));
        corner.push(format!("{w}F::1a{w}"));
        corner.push(format!("F{w}::1a"));
        corner.push(format!("{w}flop"));
        corner.push(format!("As{w}Ks"));
        corner.push(format!("DEAL{w}As{w}Ks"));
    }
    for s in &corner { parse_all(s, &mut run); run.count("input:corner-case"); }

    // ------------------------------------------------------------ overlaps and duplicates on every one of the 52 card names
    {
        let name = |c: u64| catch(move || Card::from(c as u8).to_string()).unwrap_or_else(|| "??".into());
        let mut made: Vec<String> = vec![];
        for x in 0..52u64 {
            for nb in [3usize, 4, 5] {
                let others = rng.cards(nb + 1, ((1u64 << 52) - 1) & !(1 << x));
                let o: Vec<u64> = (0..52).filter(|c| others >> c & 1 == 1).collect();
                let board_with_x = |pos: usize| -> String {
                    let mut b: Vec<String> = o[1..nb].iter().map(|c| name(*c)).collect();
                    b.insert(pos.min(b.len()), name(x));
                    b.concat()
                };
                made.push(format!("{}{} ~ {}", name(x), name(o[0]), board_with_x(0)));       // shared card first in both
                made.push(format!("{}{} ~ {}", name(o[0]), name(x), board_with_x(nb)));      // shared card last in both
                made.push(format!("{}{} ~ {}", name(x), name(x), board_with_x(1)));          // pocket pair of one card
                made.push(format!("{} {} ~ {}", name(x), name(o[0]), o[1..=nb].iter().map(|c| name(*c)).collect::<Vec<_>>().join(" "))); // valid, spaced
                made.push(format!("{}{} ~ {}{}", name(o[0]), name(o[1]), name(x), board_with_x(0))); // card twice on the board
            }
            made.push(format!("{}{}", name(x), name(x)));
            made.push(format!("DEAL {}{}", name(x), name(x)));
        }
        for s in &made { parse_all(s, &mut run); run.count("input:overlap-or-duplicate(all 52 card names)"); }
    }

    // ------------------------------------------------------------ grammar-guided mutations → every parser
    let alphabet: Vec<char> = {
        let mut v: Vec<char> = "23456789TJQKAtjqkacdhsCDHSPFRXpfrx?~:+-0159afAFzZ _.,/".chars().collect();
        v.extend(['é', 'ſ', 'ı', 'ﬀ', 'ẗ', '♠', '♣', '♥', '♦', '\u{212a}', '\u{301}', '😀', 'ß', '٣', '\u{feff}', '\0', '\u{7f}', '\u{80}', '\u{7ff}', '\u{800}', '\u{ffff}', '\u{10000}', '\u{10ffff}']);
        v.extend(ws25.iter().copied());
        v
    };
    let mut seeds: Vec<String> = vec![];
    // (a Display that panics while the seeds are printed is reported once and the seed is skipped)
    let mut seed = |run: &mut Run, seeds: &mut Vec<String>, what: &str, f: &mut dyn FnMut() -> String| {
        match catch(std::panic::AssertUnwindSafe(|| f())) {
            Some(s) => seeds.push(s),
            None => run.fail("printer-panics:seed", what, "a string", "panic"),
        }
    };
    for _ in 0..60 { let c = rng.below(52) as u8; seed(&mut run, &mut seeds, "card", &mut || Card::from(c).to_string()); }
    for _ in 0..60 { let k = rng.below(8) as usize; let raw = rng.cards(k, full); seed(&mut run, &mut seeds, "hand", &mut || Hand::from(raw).to_string()); }
    for _ in 0..40 { let k = rng.below(6) as usize; let raw = rng.cards(k, full); seed(&mut run, &mut seeds, "hand as cards", &mut || Vec::<Card>::from(Hand::from(raw)).iter().map(|c| c.to_string()).collect::<Vec<_>>().join(" ")); }
    for nb in [0usize, 3, 4, 5] {
        for _ in 0..40 {
            let p = rng.cards(2, full); let b = rng.cards(nb, full & !p);
            seed(&mut run, &mut seeds, "observation", &mut || Observation::from((Hand::from(p), Hand::from(b))).to_string());
        }
    }
    for s in 0..4 { seed(&mut run, &mut seeds, "street", &mut || street_of(s).to_string()); seed(&mut run, &mut seeds, "street", &mut || street_of(s).to_string().to_uppercase()); }
    for _ in 0..60 { let s = rng.below(4) as usize; let i = rng.below(300) as usize; seed(&mut run, &mut seeds, "abstraction", &mut || Abstraction::from((street_of(s), i)).to_string()); }
    for _ in 0..30 { let n = rng.below(1000) as usize; seed(&mut run, &mut seeds, "turn", &mut || Turn::Choice(n).to_string()); }
    seeds.push("XX".into()); seeds.push("??".into());
    for _ in 0..80 {
        let x = rng.range(-200, 32767) as i16;
        let kind = rng.below(7);
        let raw = if kind >= 6 { let k = rng.below(4) as usize; rng.cards(k, full) } else { 0 };
        seed(&mut run, &mut seeds, "action", &mut || match kind { 0 => Action::Fold, 1 => Action::Check, 2 => Action::Call(x), 3 => Action::Raise(x), 4 => Action::Shove(x), 5 => Action::Blind(x), _ => Action::Draw(Hand::from(raw)) }.to_string());
    }
    for s in &seeds { parse_all(s, &mut run); run.count("input:valid-seed"); }
    let nmut = if deep { 400_000 } else { 60_000 };
    let mut seen = std::collections::HashSet::new();
    let mut made = 0;
    while made < nmut {
        let seed = &seeds[rng.below(seeds.len() as u64) as usize];
        let mut cs: Vec<char> = seed.chars().collect();
        let nedits = if rng.chance(4, 5) { 1 } else { 2 + rng.below(2) };
        let mut kind = "";
        for _ in 0..nedits {
            let pos = rng.below(cs.len() as u64 + 1) as usize;
            let ch = alphabet[rng.below(alphabet.len() as u64) as usize];
            match rng.below(8) {
                0 => { cs.insert(pos, ch); kind = "insert"; }
                1 if !cs.is_empty() => { cs.remove(pos.min(cs.len() - 1)); kind = "delete"; }
                2 if !cs.is_empty() => { let p = pos.min(cs.len() - 1); cs[p] = ch; kind = "replace"; }
                3 if !cs.is_empty() => { let p = pos.min(cs.len() - 1); let c = cs[p]; cs.insert(p, c); kind = "duplicate"; }
                4 if cs.len() >= 2 => { let p = pos.min(cs.len() - 2); cs.swap(p, p + 1); kind = "swap"; }
                5 => { cs.truncate(pos); kind = "truncate"; }
                6 if !cs.is_empty() => {
                    let p = pos.min(cs.len() - 1);
                    let c = cs[p];
                    cs[p] = if c.is_lowercase() { c.to_uppercase().next().unwrap() } else { c.to_lowercase().next().unwrap() };
                    kind = "case";
                }
                _ => {
                    // splice a piece of another valid string (duplicates / overlaps)
                    let other: Vec<char> = seeds[rng.below(seeds.len() as u64) as usize].chars().collect();
                    if !other.is_empty() {
                        let a = rng.below(other.len() as u64) as usize;
                        let b = (a + 1 + rng.below(4) as usize).min(other.len());
                        for (k, c) in other[a..b].iter().enumerate() { cs.insert((pos + k).min(cs.len()), *c); }
                    }
                    kind = "splice";
                }
            }
        }
        let s: String = cs.into_iter().collect();
        if !seen.insert(s.clone()) { made += 1; continue; }
        parse_all(&s, &mut run);
        run.count(&format!("input:mutation-{}{}", if nedits > 1 { "multi" } else { kind }, ""));
        let mb = s.chars().map(|c| c.len_utf8()).max().unwrap_or(0);
        run.count(&format!("input:max-utf8-len={mb}"));
        made += 1;
    }
    // random strings over the alphabet
    for _ in 0..(if deep { 100_000 } else { 15_000 }) {
        let n = rng.below(12) as usize;
        let s: String = (0..n).map(|_| alphabet[rng.below(alphabet.len() as u64) as usize]).collect();
        if seen.insert(s.clone()) { parse_all(&s, &mut run); run.count("input:random-over-alphabet"); }
    }
    // huge numbers
    for _ in 0..2000 {
        let digits: String = (0..(1 + rng.below(30))).map(|_| char::from(b'0' + rng.below(10) as u8)).collect();
        let sign = ["", "", "+", "-"][rng.below(4) as usize];
        for s in [format!("CALL {sign}{digits}"), format!("P{sign}{digits}"), format!("F::{sign}{digits}"), format!("RAISE {sign}{digits}")] {
            if seen.insert(s.clone()) { parse_all(&s, &mut run); run.count("input:number-boundary"); }
        }
    }
    for v in [32766i64, 32767, 32768, 32769, -32767, -32768, -32769, 65535, 65536, -65536, 0, -0] {
        for kw in ["CALL", "RAISE", "SHOVE", "BLIND"] {
            let s = format!("{kw} {v}");
            if seen.insert(s.clone()) { parse_all(&s, &mut run); run.count("input:number-boundary"); }
        }
    }

    run.exhaustive = false;
    run.rule = format!("every string goes to the 8 real parsers under catch_unwind (never-panics oracle, well-formedness of accepted observation/hole/card/hand). Strings: {} hand-written corner cases (empty, whitespace-only, each of the 25 White_Space code points in 13 positions, 2/3/4-byte and combining characters, case-mapping specials such as U+017F/U+0131/U+FB00, duplicates and overlaps, number boundaries), {} valid seeds, {} grammar-guided mutations (insert/delete/replace/duplicate/swap/truncate/case/splice; 1 edit in 80%, 2-3 otherwise), random strings over the same alphabet, number-boundary strings. Round trips print->parse: all 52 cards, 4 streets, 2 + {} turns, all 542 buckets and (street, index<4096) abstractions, fold/check + 4 x 65,536 chip actions (all i16) + all draws of 0..3 cards + 2,000 larger draws, all 1,326 holes and pre-flop observations, {} sampled flop/turn/river observations each, {} hands. Unicode tables of the model instantiation compared code point by code point ({}). distinct = distinct strings / values",
        corner.len(), seeds.len(), nmut, if deep { 20_428 } else { 2_428 }, if deep { 400_000 } else { 40_000 }, if deep { 100_000 } else { 20_000 },
        if deep { "all 1,112,064 scalar values" } else { "all below U+3100, U+FA00..U+FC00, the case-mapping specials, every 61st elsewhere" });
    run.finish();
}
